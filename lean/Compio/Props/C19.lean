/-
C19 — actors: serial FIFO handling, ordered lifecycle, unique names, group routing.
Property theorems only (helper lemmas live in Compio/Lemmas). The mailbox/lifecycle theorems quantify over
*every schedule*: every list of atomic actions `evs` of sender threads, stoppers and the actor task that the
transition system of Model/Actor.lean admits, any capacity, named or not, any results of hooks and handlers.
The routing theorems quantify over every member vector, cursor and status assignment.
-/
import Compio.Lemmas.Group
import Compio.Lemmas.GroupSeq
import Compio.Lemmas.ActorSup
import Compio.Lemmas.ActorProgress
import Compio.Lemmas.ActorFuel
import Compio.Lemmas.ActorLife
import Compio.Lemmas.Registry
import Compio.Lemmas.History
import Compio.Model.ActorWorld
import Compio.Gen.MembershipDrop

namespace Compio.Props.C19
open Compio Compio.Actor

/-- everything below is about states reached by some schedule from a fresh mailbox + dispatched closure -/
def Reached (cap : Nat) (named : Bool) (s : St) : Prop := ∃ evs, run (St.init cap named) evs = some s

/-! ## 1. Messages: FIFO, at most once, one at a time, nothing lost -/

/-- The handled sequence is a prefix of the acceptance order (so also: in order, each at most once by position). -/
theorem handled_prefix_of_accepted {cap named s} (h : Reached cap named s) : s.handled <+: s.accepted := by
  obtain ⟨evs, hr⟩ := h
  have : InvQ s := run_induct (invQ_init cap named) invQ_step hr
  unfold InvQ at this
  rw [this]; exact List.prefix_append _ _

/-- Nothing accepted disappears: what is not handled yet is exactly what the channel holds, in order. -/
theorem accepted_is_handled_plus_queued {cap named s} (h : Reached cap named s) :
    s.accepted = s.handled ++ s.queue.map (·.id) := by
  obtain ⟨evs, hr⟩ := h
  exact run_induct (P := InvQ) (invQ_init cap named) invQ_step hr

/-- Each message is handled at most once. -/
theorem handled_at_most_once {cap named s} (h : Reached cap named s) (hid : s.accepted.Nodup) :
    s.handled.Nodup :=
  List.Nodup.sublist (handled_prefix_of_accepted h).sublist hid

/-- The mailbox never holds more than its capacity. -/
theorem queue_bounded {cap named s} (h : Reached cap named s) : s.queue.length ≤ cap := by
  obtain ⟨evs, hr⟩ := h
  have hc : s.cap = cap := by
    have := run_induct (P := fun s => s.cap = cap) (by simp [St.init])
      (fun s e s' hp hs => by rw [cap_step s e s' hs]; exact hp) hr
    exact this
  have : InvC s := run_induct (invC_init cap named) invC_step hr
  unfold InvC at this
  omega

/-- The observable log is a word of the lifecycle automaton (`lifeStep`): hooks in the documented order,
handlers only between `post_start` and `pre_stop`, never two handlers open at once. -/
theorem log_follows_lifecycle {cap named s} (h : Reached cap named s) :
    ∃ l, lifeRun .fresh s.log = some l ∧ agree l s.pc = true := by
  obtain ⟨evs, hr⟩ := h
  exact run_induct (P := InvL) (invL_init cap named) invL_step hr

/-- Handlers never overlap: a handler entry is directly followed by the return of that same handler. -/
theorem handlers_never_overlap {cap named s} (h : Reached cap named s) (pre post : List Obs) (m : Nat)
    (hl : s.log = pre ++ .hs m :: post) : post = [] ∨ ∃ ok post', post = .he m ok :: post' := by
  obtain ⟨l, hrun, _⟩ := log_follows_lifecycle h
  rw [hl] at hrun
  exact handler_bracketed _ _ pre post m hrun

/-- The handled sequence is exactly the sequence of handler entries of the log. -/
theorem handled_is_logged {cap named s} (h : Reached cap named s) : s.handled = hsIds s.log := by
  obtain ⟨evs, hr⟩ := h
  exact run_induct (P := InvH) (invH_init cap named) invH_step hr

/-- `recv` with no stop request takes the oldest message … -/
theorem recv_takes_oldest (s : St) (it : Item) (q : List Item)
    (h1 : s.pc = .atRecv) (h2 : s.stopSlot = false) (h3 : s.queue = it :: q) :
    ∃ s', run s [.pollStop, .pollMsg] = some s' ∧ s'.pc = .handling it false ∧ s'.queue = q := by
  obtain ⟨s', a, b, c, _⟩ := recv_takes_head s it q h1 h2 h3
  exact ⟨s', a, b, c⟩

/-- … and a stop request wins over anything queued (biased select): those messages are never handled. -/
theorem recv_stop_first (s : St) (h1 : s.pc = .atRecv) (h2 : s.stopSlot = true) :
    ∃ s', step s .pollStop = some s' ∧ s'.pc = .finBegin .stopped ∧ s'.queue = s.queue ∧ s'.handled = s.handled :=
  recv_prefers_stop s h1 h2

/-- All accepted messages are handled unless a stop or a failure comes first: with no stop request pending and
handlers that neither fail nor stop the actor, the task's own continuation empties the queue in order. -/
theorem all_accepted_handled_unless_stopped (sc : Script) (s : St) (n : Nat)
    (h1 : s.pc = .atRecv) (h2 : s.stopSlot = false)
    (hq : ∀ it ∈ s.queue, sc.handlerOk it = true ∧ sc.stopsSelf it = false) :
    let s' := settle sc (3 * s.queue.length + n) s
    s'.pc = .atRecv ∧ s'.queue = [] ∧ s'.handled = s.handled ++ s.queue.map (·.id) :=
  let r := settle_drains sc s.queue s n h1 h2 rfl hq
  ⟨r.1, r.2.1, r.2.2.1⟩

/-- The actor task is never stuck: whatever the others did, its next own actions are enabled. -/
theorem actor_task_never_stuck {cap named s} (sc : Script) (h : Reached cap named s) :
    (run s (nextEvents sc s)).isSome = true := by
  obtain ⟨evs, hr⟩ := h
  exact nextEvents_enabled sc s (run_induct (P := InvR) (invR_init cap named) invR_step hr)

/-- The driver's scheduler `settle` is fuel-independent: with `settleFuel` rounds the task always ends blocked
(idle at `recv` or finished), and extra fuel changes nothing. -/
theorem settle_ends_blocked_and_fuel_independent {cap named s} (sc : Script) (h : Reached cap named s) (k : Nat) :
    nextEvents sc (settle sc (settleFuel s) s) = [] ∧
    settle sc (settleFuel s + k) s = settle sc (settleFuel s) s := by
  obtain ⟨evs, hr⟩ := h
  have hR : InvR s := run_induct (invR_init cap named) invR_step hr
  exact ⟨settle_blocked sc _ s hR (measure_le_fuel s), settle_fuel_independent sc s hR k⟩

/-- An actor reports `Stopped` only if a stop request was consumed (or its spawn future had been dropped). -/
theorem stopped_has_a_reason {cap named s} (h : Reached cap named s) (hp : s.pc = .exited .stopped) :
    s.stopConsumed = true ∨ s.detached = true := by
  obtain ⟨evs, hr⟩ := h
  have : InvX s := run_induct (invX_init cap named) invX_step hr
  exact this (by simp [hp, Pc.exit?])

/-- Once the actor is gone the mailbox is closed: every later `send` answers `Closed`. -/
theorem closed_after_exit {cap named s} (h : Reached cap named s) (e : Exit) (hp : s.pc = .exited e)
    (it : Item) (r : SendRes) (s' : St) (hs : sendNow s it = some (r, s')) : r = .closed := by
  obtain ⟨evs, hr⟩ := h
  have hR : InvR s := run_induct (invR_init cap named) invR_step hr
  have hc : s.isClosed = true := by simp [St.isClosed, hR.rx, hp, Pc.rxDropped]
  have := sendNow_result s it r s' hs
  simpa [hc] using this

/-- From `begin_stop` on -- in particular while `pre_stop` and `post_stop` run -- the mailbox rejects new
messages. -/
theorem closed_during_stop_hooks {cap named s} (h : Reached cap named s)
    (hp : s.pc.afterBeginStop = true) : s.isClosed = true := by
  obtain ⟨evs, hr⟩ := h
  have hR : InvR s := run_induct (invR_init cap named) invR_step hr
  simp [St.isClosed, hR.stopping hp]

/-- `Mailbox::stop` is idempotent in every lifecycle phase after `begin_stop`: for every event history, once the
actor is in its stop phase (stop token consumed and `pre_stop` running however long, or `finish` entered after a
handler / `post_start` failure while the receiver is still alive, or later) a `stop()` call reports `false` --
no second caller is told that it requested the stop, and a failing actor never claims a graceful stop request.
(Seed C19-5a: `try_send` first, flag afterwards, return the `try_send` result.) -/
theorem stop_refused_in_stop_phase {cap named s} (h : Reached cap named s)
    (hp : s.pc.afterBeginStop = true) {b : Bool} {s' : St} (hs : stopNow s = some (b, s')) : b = false := by
  obtain ⟨evs, hr⟩ := h
  have hR : InvR s := run_induct (invR_init cap named) invR_step hr
  have hst : s.stopping = true := hR.stopping hp
  unfold stopNow at hs
  rw [if_pos hst] at hs
  cases hq : step s .stopSwap with
  | none => simp [hq] at hs
  | some s1 =>
    simp [hq] at hs
    exact hs.1

/-- A `stop()` on a mailbox whose flag is already set reports `false` and changes nothing observable
(`swap(true)` on `true`), whatever the phase. -/
theorem stop_idempotent_when_stopping {s : St} (hst : s.stopping = true) {b : Bool} {s' : St}
    (hs : stopNow s = some (b, s')) : b = false ∧ s' = s := by
  unfold stopNow at hs
  rw [if_pos hst] at hs
  unfold step at hs
  by_cases hc : s.chanAlive = true
  · simp [hc, hst] at hs
    exact ⟨hs.1, hs.2.symm⟩
  · simp [hc] at hs

/-- After any completed `stop()` the flag is set, so (with `stop_idempotent_when_stopping`) the next
uninterrupted `stop()` reports `false`. -/
theorem stop_sets_flag {s : St} {b : Bool} {s' : St} (hs : stopNow s = some (b, s')) : s'.stopping = true := by
  by_cases hst : s.stopping = true
  · rw [(stop_idempotent_when_stopping hst hs).2]; exact hst
  · unfold stopNow at hs
    rw [if_neg hst] at hs
    unfold step at hs
    by_cases hc : s.chanAlive = true
    · simp [hc, hst] at hs
      obtain ⟨_, h2⟩ := hs
      rw [← h2]
    · simp [hc] at hs

/-! ## 2. Lifecycle hooks: documented order, exactly once, on every path -/

/-- After the exit every hook ran exactly once in the order pre_start, post_start, pre_stop, post_stop
(whatever failed on the way); the only other complete path is the dropped spawn future, which skips
`post_start`. A failed `pre_start` runs nothing else. -/
theorem hooks_exactly_once_in_order {cap named s} (h : Reached cap named s) :
    (∀ e, s.pc = .exited e →
      hookNames s.log = [.preStart, .postStart, .preStop, .postStop] ∨
      hookNames s.log = [.preStart, .preStop, .postStop]) ∧
    (s.pc = .startFailed → hookNames s.log = [.preStart]) := by
  obtain ⟨l, hrun, hag⟩ := log_follows_lifecycle h
  have hk := hooks_along s.log .fresh l [] hrun (by simp [hooksAt])
  simp only [List.nil_append] at hk
  constructor
  · intro e hp
    rw [hp] at hag
    cases l <;> simp [agree] at hag
    simpa [hooksAt] using hk
  · intro hp
    rw [hp] at hag
    cases l <;> simp [agree] at hag
    simpa [hooksAt] using hk

/-- The short path is taken only when the spawn future was dropped before start-up was reported. -/
theorem post_start_skipped_only_when_detached {cap named s} (h : Reached cap named s) (e : Exit)
    (hp : s.pc = .exited e) (hd : s.detached = false) :
    hookNames s.log = [.preStart, .postStart, .preStop, .postStop] := by
  obtain ⟨evs, hr⟩ := h
  -- invariant: not detached and past `started_tx.send` ⇒ `post_start` is in the log
  have key : ∀ s, (run (St.init cap named) evs = some s) →
      (s.detached = false → (match s.pc with
        | .init | .failRelease | .failReport | .failReturn | .startFailed | .preStarted | .postStart => True
        | _ => Obs.hook .postStart true ∈ s.log ∨ Obs.hook .postStart false ∈ s.log)) := by
    intro s hr
    refine run_induct (P := fun s => s.detached = false → (match s.pc with
        | .init | .failRelease | .failReport | .failReturn | .startFailed | .preStarted | .postStart => True
        | _ => Obs.hook .postStart true ∈ s.log ∨ Obs.hook .postStart false ∈ s.log)) ?_ ?_ hr
    · simp [St.init]
    · intro s e s' hi hs
      cases e <;> simp only [step] at hs <;> step_cases hs <;> simp_all [St.obs]
  have hps := key s hr hd
  rw [hp] at hps
  simp only at hps
  have hh := (hooks_exactly_once_in_order ⟨evs, hr⟩).1 e hp
  rcases hh with hh | hh
  · exact hh
  · exfalso
    have : Hook.postStart ∈ hookNames s.log := by
      unfold hookNames
      rcases hps with hps | hps
      · exact List.mem_filterMap.mpr ⟨_, hps, rfl⟩
      · exact List.mem_filterMap.mpr ⟨_, hps, rfl⟩
    rw [hh] at this
    simp at this

/-! ## 3. Calls -/

/-- Every call ever issued is in exactly one place: answered, queued, about to be pushed, or being handled. -/
theorem calls_accounted {cap named s} (h : Reached cap named s) :
    s.issued = s.resolved.length + (if s.chanAlive then callCount s.queue else 0)
      + callCount s.inflight + inHand s.pc := by
  obtain ⟨evs, hr⟩ := h
  have : ∀ s, run (St.init cap named) evs = some s → InvR s ∧ InvCa s := by
    intro s hr
    refine run_induct (P := fun s => InvR s ∧ InvCa s) ⟨invR_init cap named, invCa_init cap named⟩ ?_ hr
    intro s e s' ⟨h1, h2⟩ hs
    exact ⟨invR_step s e s' h1 hs, invCa_step s e s' h1 h2 hs⟩
  exact (this s hr).2

/-- A reply is the reply of the handler of that very call; `NoReply` means that handler returned without
answering (reply sender dropped ⇒ the receiver errors) or the whole channel was destroyed. -/
theorem reply_comes_from_the_handler {cap named s} (h : Reached cap named s) :
    (∀ c v, (c, Res.reply v) ∈ s.resolved → c ∈ s.handled) ∧
    (∀ c, (c, Res.noReply) ∈ s.resolved → c ∈ s.handled ∨ s.chanAlive = false) := by
  obtain ⟨evs, hr⟩ := h
  have : InvRe s := run_induct (invRe_init cap named) invRe_step hr
  exact ⟨this.reply, this.noReply⟩

/-- A handler that returns without answering resolves the call with `NoReply` at that moment. -/
theorem unanswered_call_errors (s : St) (it : Item) (ok : Bool) (hp : s.pc = .handling it false)
    (hc : it.call = true) :
    ∃ s', step s (.handlerEnd ok) = some s' ∧ (it.id, Res.noReply) ∈ s'.resolved := by
  simp [step, hp, St.obs, resolve_resolved, hc]

/-- A call to an actor that is gone is rejected at once with `Closed`. -/
theorem call_after_exit_is_closed {cap named s} (h : Reached cap named s) (e : Exit) (hp : s.pc = .exited e)
    (it : Item) (r : SendRes) (s' : St) (hs : sendNow s it = some (r, s')) : r = .closed :=
  closed_after_exit h e hp it r s' hs

/-- PARTIAL (finding F14): *once the actor is gone every call is over* holds only when no call envelope was
still queued at the exit. Full statement the code violates (see `Cex.C19.call_stranded_counterexample`):
`s.pc = .exited e → s.inflight = [] → s.issued = s.resolved.length`. -/
theorem calls_over_after_exit_partial {cap named s} (h : Reached cap named s) (e : Exit)
    (hp : s.pc = .exited e) (hin : s.inflight = []) (hq : callCount s.queue = 0) :
    s.issued = s.resolved.length := by
  have := calls_accounted h
  simp [hp, hin, hq, inHand] at this
  exact this

/-- What is left hanging after the exit is exactly the calls stranded in the dead channel. -/
theorem pending_after_exit_are_stranded {cap named s} (h : Reached cap named s) (e : Exit)
    (hp : s.pc = .exited e) (hin : s.inflight = []) (hc : s.chanAlive = true) :
    s.issued = s.resolved.length + callCount s.queue := by
  have := calls_accounted h
  simp [hp, hin, hc, inHand] at this
  exact this

/-- Once the last handle is gone too (the channel is destroyed), every call ever issued has its answer: the
envelopes still queued are dropped with the channel and their callers get `NoReply`. So a call can hang only
while somebody keeps a `Mailbox`/`Broker` of the dead actor (F14: the caller of `Mailbox::call` does). -/
theorem calls_all_answered_once_channel_destroyed {cap named s} (h : Reached cap named s)
    (hc : s.chanAlive = false) : s.issued = s.resolved.length := by
  obtain ⟨evs, hr⟩ := h
  have hR : InvR s := run_induct (invR_init cap named) invR_step hr
  have hca := calls_accounted ⟨evs, hr⟩
  obtain ⟨ht, hin, _⟩ := hR.chan hc
  have hh : inHand s.pc = 0 := by
    cases hpc : s.pc <;> simp [hpc, Pc.terminal] at ht <;> simp [inHand]
  simp [hc, hin, hh] at hca
  exact hca

/-- The destruction of the channel answers exactly the queued calls, with `NoReply`. -/
theorem channel_destruction_answers_queued_calls (s s' : St) (hs : step s .dropSenders = some s') :
    s'.resolved = s.resolved ++ dropCalls s.queue ∧ s'.chanAlive = false ∧ s'.pc = s.pc := by
  simp only [step] at hs
  step_cases hs <;> simp_all

/-- An actor stops exactly once: `exited` is final, whatever anybody does afterwards. -/
theorem exit_is_final (s s' : St) (e : Exit) (ev : Ev) (hp : s.pc = .exited e) (hs : step s ev = some s') :
    s'.pc = .exited e ∧ s'.log = s.log ∧ s'.tok = s.tok ∧ s'.notified = s.notified := by
  cases ev <;> simp only [step] at hs <;> step_cases hs <;> simp_all [St.obs]

/-! ## 3b. Supervision notifications -/

/-- What an actor tells its supervisor, for every schedule: `started` exactly once iff `post_start` succeeded,
then -- once the task is over and it ran attached -- exactly one of `terminated` / `failed` matching its
`ActorExit`; nothing else, nothing twice, in that order. -/
theorem supervision_notifications {cap named s} (h : Reached cap named s) :
    s.notified = (if startedOk s.log then [0] else []) ++ exitPart s := by
  obtain ⟨evs, hr⟩ := h
  exact (run_induct (P := InvN) (invN_init cap named) invN_step hr).shape

/-- When the supervisor is told about the exit, the actor's name has already been released: a restart under
the same name issued by the supervisor cannot be refused because of the old instance. -/
theorem exit_notice_after_name_release {cap named s} (h : Reached cap named s)
    (hn : 1 ∈ s.notified ∨ 2 ∈ s.notified) : s.tok = .unnamed ∨ s.tok = .dropped := by
  have hs := supervision_notifications h
  have hex : ∃ e, s.pc = .exited e := by
    rw [hs] at hn
    cases hpc : s.pc <;> simp [exitPart, hpc] at hn <;> (try (split at hn <;> simp at hn))
    exact ⟨_, rfl⟩
  obtain ⟨e, hp⟩ := hex
  obtain ⟨evs, hr⟩ := h
  have hk : InvK s := run_induct (invK_init cap named) invK_step hr
  unfold InvK at hk
  rw [hp] at hk
  cases ht : s.tok <;> simp_all [tokOk]

/-- No `started` for an actor whose `post_start` did not succeed, none at all on the detached path. -/
theorem started_notice_iff_post_start_ok {cap named s} (h : Reached cap named s) :
    (0 ∈ s.notified ↔ startedOk s.log = true) ∧ (s.detached = true → s.notified = []) := by
  obtain ⟨evs, hr⟩ := h
  have hN : InvN s := run_induct (invN_init cap named) invN_step hr
  have hs := hN.shape
  constructor
  · rw [hs]
    by_cases hok : startedOk s.log = true
    · simp [hok]
    · simp only [Bool.not_eq_true] at hok
      simp only [hok, Bool.false_eq_true, if_false, List.nil_append]
      cases hpc : s.pc <;> simp [exitPart, hpc]
      rename_i e
      intro _
      cases e <;> simp [exitNote]
  · intro hd
    rw [hs, hN.detachedEarly hd]
    cases hpc : s.pc <;> simp [exitPart, hpc, hd]

/-! ## 4. Names -/

/-- The registration token follows the task: reserved (invisible) until `pre_start` succeeded, active while the
actor lives, released on every terminal path -- failed start and exit alike. -/
theorem registration_follows_lifecycle {cap named s} (h : Reached cap named s) :
    (s.pc = .init → s.tok = .unnamed ∨ s.tok = .reserved) ∧
    (s.pc.terminal = true → s.tok = .unnamed ∨ s.tok = .dropped) ∧
    (s.tok = .active → s.pc ≠ .init ∧ s.pc.terminal = false) := by
  obtain ⟨evs, hr⟩ := h
  have hk : InvK s := run_induct (invK_init cap named) invK_step hr
  unfold InvK at hk
  refine ⟨?_, ?_, ?_⟩
  · intro hp; rw [hp] at hk; cases ht : s.tok <;> simp_all [tokOk]
  · intro hp
    cases hpc : s.pc <;> simp [hpc, Pc.terminal] at hp <;>
      (rw [hpc] at hk; cases ht : s.tok <;> simp_all [tokOk])
  · intro ht
    rw [ht] at hk
    cases hpc : s.pc <;> simp_all [tokOk, Pc.terminal]

/-- Failed start: the registration is released *before* the failure is sent to the spawner
(`reg.take()` precedes `started_tx.send(Err(error))` in `Cluster::start`), so whenever the spawner can observe
`SpawnError::Start` the name is already free -- whatever still happens afterwards (dropping the failed actor
value, the receiver, returning from the task). -/
theorem name_free_when_start_failure_observed {cap named s} (h : Reached cap named s)
    (hrep : s.startReported = true) :
    (s.tok = .unnamed ∨ s.tok = .dropped) ∧ (s.pc = .failReturn ∨ s.pc = .startFailed) := by
  obtain ⟨evs, hr⟩ := h
  have hk : InvK s := run_induct (invK_init cap named) invK_step hr
  have hp : s.startReported = true → (s.pc = .failReturn ∨ s.pc = .startFailed) := by
    refine run_induct (P := fun s => s.startReported = true → (s.pc = .failReturn ∨ s.pc = .startFailed)) ?_ ?_ hr
    · simp [St.init]
    · intro s e s' hi hs
      cases e <;> simp only [step] at hs <;> step_cases hs <;> simp_all [St.obs]
  have hpc := hp hrep
  unfold InvK at hk
  refine ⟨?_, hpc⟩
  rcases hpc with hpc | hpc <;> (rw [hpc] at hk; cases ht : s.tok <;> simp_all [tokOk])

/-- … and the failure is reported only after the release step, never before. -/
theorem start_failure_reported_after_release (s s' : St) (hs : step s .reportFailure = some s') :
    s.pc = .failReport ∧ s'.startReported = true := by
  simp only [step] at hs
  step_cases hs <;> simp_all

/-- Registry: for every sequence of reserve / activate / drop that ownership allows, the map is the image of
the live registrations, no two of which share a name or an owner; `activate` never hits its `expect`. -/
theorem registry_invariant (evs : List Registry.REv) (s : Registry.RSt)
    (h : Registry.RSt.run {} evs = some s) : Registry.Inv s :=
  Registry.inv_run {} s evs Registry.inv_init h

/-- At most one entry -- one live actor -- per name. -/
theorem at_most_one_actor_per_name (evs : List Registry.REv) (s : Registry.RSt)
    (h : Registry.RSt.run {} evs = some s) (t u : Registry.Token)
    (ht : t ∈ s.live) (hu : u ∈ s.live) (hn : t.name = u.name) : t = u :=
  Registry.inj_of_nodup_map (·.name) s.live (registry_invariant evs s h).names t ht u hu hn

/-- `lookup` answers an actor exactly when that actor holds the name and its start-up succeeded. -/
theorem lookup_iff_activated (evs : List Registry.REv) (s : Registry.RSt)
    (h : Registry.RSt.run {} evs = some s) (n : Registry.Name) (a : Nat) :
    Registry.get s.map n = some a ↔ ∃ t ∈ s.live, t.name = n ∧ t.owner = a ∧ t.active = true := by
  have hi := registry_invariant evs s h
  rw [hi.image]
  exact Registry.get_image s.live hi.names n a

/-- A name is free again as soon as its registration is dropped (exit or failed start): `reserve` succeeds. -/
theorem name_free_after_drop (evs : List Registry.REv) (s s' : Registry.RSt)
    (h : Registry.RSt.run {} evs = some s) (a : Nat) (t : Registry.Token)
    (ht : s.tokenOf a = some t) (hd : s.step (.drop a) = some s') :
    Registry.get s'.map t.name = none ∧ (Registry.reserve s'.map t.name).isSome = true := by
  have hi' : Registry.Inv s' := Registry.inv_step s _ s' (registry_invariant evs s h) hd
  have hi := registry_invariant evs s h
  simp only [Registry.RSt.step, ht] at hd
  cases hd
  obtain ⟨htm, hta⟩ := Registry.tokenOf_mem s a t ht
  have hno : Registry.Map.has (Registry.release s.map t.name) t.name = false := by
    simp [Registry.Map.has, Registry.release]
  constructor
  · simp only [Registry.get]
    have : (Registry.release s.map t.name).find? (fun e => e.1 == t.name) = none := by
      simp [Registry.release]
    simp [this]
  · simp [Registry.reserve, hno]

/-! ## 5. Group routing (`ProcessGroup::send` as a pure function) -/

section Group
open Compio.Group
variable {α : Type}

/-- `send` computes exactly the reference: first accepting member in scan order, evicting the closed members
met on the way, cursor advanced by one. -/
theorem send_characterised (status : α → Status) (c : Nat) (ms : List α) (hne : ms ≠ []) :
    send status c ms =
      (specOutcome status (scanOrder c ms), specMembers status c ms, (c + 1) % usizeMod) := by
  have hlen : 0 < ms.length := List.length_pos_iff.mpr hne
  have hk : c % ms.length < ms.length := Nat.mod_lt _ hlen
  have hemp : ms.isEmpty = false := by cases ms <;> simp_all
  unfold send select
  simp only [hemp, Bool.false_eq_true, if_false]
  have hsplit : ms = ms.take (c % ms.length) ++ [] ++ ms.drop (c % ms.length) := by simp
  have hT : ms.drop (c % ms.length) ≠ [] := by
    intro h
    have := congrArg List.length h
    simp at this; omega
  have hfuel : ms.length = (ms.drop (c % ms.length)).length + (ms.take (c % ms.length)).length := by
    simp; omega
  have key := scan_wrap status (ms.drop (c % ms.length)) (ms.take (c % ms.length)) [] false (c % ms.length)
    (by intro _; simp; omega) (by intro h; exact absurd h hT)
  rw [← hsplit, ← hfuel] at key
  rw [key]
  simp only [specOutcome, specMembers, scanOrder, segOutcome_eq, List.find?_append, dropWhile_isEmpty_iff,
    List.any_append, Bool.false_or, List.append_nil, giveUp]
  cases h1 : List.find? (isOk status) (List.drop (c % ms.length) ms) <;>
    cases h2 : List.find? (isOk status) (List.take (c % ms.length) ms) <;> simp <;> split <;> rfl

/-- `send` terminates (it is a structural recursion on the loop's own attempt counter) and never indexes the
member vector out of range, for every vector, cursor and status assignment. -/
theorem send_never_panics (status : α → Status) (c : Nat) (ms : List α) :
    (send status c ms).1 ≠ .panic := by
  by_cases hne : ms = []
  · subst hne; simp [send]
  · rw [send_characterised status c ms hne]
    simp only [specOutcome]
    split <;> (try split) <;> simp

/-- If some member is live and not full, the message goes to exactly one member: the first such member in
scan order. -/
theorem send_delivers_to_first_available (status : α → Status) (c : Nat) (ms : List α)
    (m : α) (hm : m ∈ ms) (hok : status m = .ok) :
    ∃ m', (send status c ms).1 = .delivered m' ∧ (scanOrder c ms).find? (isOk status) = some m' ∧
      status m' = .ok := by
  have hne : ms ≠ [] := by intro h; subst h; simp at hm
  rw [send_characterised status c ms hne]
  have hmem : m ∈ scanOrder c ms := by
    unfold scanOrder
    rw [List.mem_append]
    have := List.take_append_drop (c % ms.length) ms
    rw [← this] at hm
    rcases List.mem_append.mp hm with h | h
    · exact Or.inr h
    · exact Or.inl h
  cases hf : (scanOrder c ms).find? (isOk status) with
  | none =>
    have := List.find?_eq_none.mp hf m hmem
    simp [isOk, hok] at this
  | some m' =>
    refine ⟨m', by simp [specOutcome, hf], rfl, ?_⟩
    have := List.find?_some hf
    simpa [isOk] using this

/-- Otherwise the message is handed back: `Full` if any member was full, else `Closed`. -/
theorem send_hands_back (status : α → Status) (c : Nat) (ms : List α)
    (hno : ∀ m ∈ ms, status m ≠ .ok) :
    (send status c ms).1 = (if ms.any (isFull status) then .full else .closed) := by
  by_cases hne : ms = []
  · subst hne; simp [send]
  · rw [send_characterised status c ms hne]
    have hperm : ∀ m, m ∈ scanOrder c ms ↔ m ∈ ms := by
      intro m
      unfold scanOrder
      rw [List.mem_append]
      conv => rhs; rw [← List.take_append_drop (c % ms.length) ms, List.mem_append]
      exact Or.comm
    have hf : (scanOrder c ms).find? (isOk status) = none := by
      apply List.find?_eq_none.mpr
      intro m hm
      have := hno m ((hperm m).mp hm)
      simp [isOk, this]
    have hany : (scanOrder c ms).any (isFull status) = ms.any (isFull status) := by
      unfold scanOrder
      conv => rhs; rw [← List.take_append_drop (c % ms.length) ms]
      simp only [List.any_append, Bool.or_comm]
    simp [specOutcome, hf, hany]

/-- Eviction: the membership afterwards is the old one without the closed members that were met, order kept
(positional form, no assumption on ids). -/
theorem send_evicts_closed_members_met (status : α → Status) (c : Nat) (ms : List α) (hne : ms ≠ []) :
    (send status c ms).2.1 = specMembers status c ms := by
  rw [send_characterised status c ms hne]

/-- Nothing is ever added, order is preserved, and only closed members disappear. -/
theorem send_only_removes_closed (status : α → Status) (c : Nat) (ms : List α) :
    (send status c ms).2.1.Sublist ms ∧
    ∀ m ∈ ms, status m ≠ .closed → m ∈ (send status c ms).2.1 := by
  by_cases hne : ms = []
  · subst hne; simp [send]
  · rw [send_characterised status c ms hne]
    have hev : ∀ seg : List α, (evictSeg status seg).Sublist seg ∧
        ∀ m ∈ seg, status m ≠ .closed → m ∈ evictSeg status seg := by
      intro seg
      constructor
      · unfold evictSeg met
        conv => rhs; rw [← List.takeWhile_append_dropWhile (p := fun m => !isOk status m) (l := seg)]
        exact List.Sublist.append List.filter_sublist (List.Sublist.refl _)
      · intro m hm hnc
        unfold evictSeg met
        rw [← List.takeWhile_append_dropWhile (p := fun m => !isOk status m) (l := seg)] at hm
        rcases List.mem_append.mp hm with h | h
        · apply List.mem_append_left
          apply List.mem_filter.mpr
          refine ⟨h, ?_⟩
          simp only [isClosed, Bool.not_eq_true', beq_eq_false_iff_ne, ne_eq]
          exact hnc
        · exact List.mem_append_right _ h
    simp only [specMembers]
    constructor
    · conv => rhs; rw [← List.take_append_drop (c % ms.length) ms]
      split
      · exact List.Sublist.append (hev _).1 (hev _).1
      · exact List.Sublist.append (List.Sublist.refl _) (hev _).1
    · intro m hm hnc
      rw [← List.take_append_drop (c % ms.length) ms] at hm
      rcases List.mem_append.mp hm with h | h
      · apply List.mem_append_left
        split
        · exact (hev _).2 m h hnc
        · exact h
      · exact List.mem_append_right _ ((hev _).2 m h hnc)

/-- The cursor advances by exactly one per `send` on a non-empty group (wrapping at `usize::MAX`), and an
empty group is left alone. -/
theorem send_cursor (status : α → Status) (c : Nat) (ms : List α) :
    (send status c ms).2.2 = if ms = [] then c else (c + 1) % usizeMod := by
  by_cases hne : ms = []
  · subst hne; simp [send]
  · rw [send_characterised status c ms hne]; simp [hne]

/-- Round-robin fairness: with a stable membership (nobody closed), every member that accepts is chosen by one
of any `|members|` consecutive sends (cursor `c`, `c+1`, …; no `usize` wrap in between). -/
theorem round_robin_fair (status : α → Status) (c : Nat) (ms : List α) (i : Nat) (hi : i < ms.length)
    (hok : status ms[i] = .ok) :
    ∃ k, k < ms.length ∧ (send status (c + k) ms).1 = .delivered ms[i] := by
  have hne : ms ≠ [] := by intro h; subst h; simp at hi
  have hlen : 0 < ms.length := by omega
  -- the send whose cursor points at `i`
  refine ⟨(i + ms.length - c % ms.length) % ms.length, Nat.mod_lt _ hlen, ?_⟩
  have hmod : (c + (i + ms.length - c % ms.length) % ms.length) % ms.length = i := by
    have h1 : c % ms.length < ms.length := Nat.mod_lt _ hlen
    have e1 : (c + (i + ms.length - c % ms.length) % ms.length) % ms.length
        = (c % ms.length + (i + ms.length - c % ms.length)) % ms.length := by
      rw [Nat.add_mod c _ ms.length, Nat.mod_mod]
      conv => rhs; rw [Nat.add_mod, Nat.mod_mod]
    have : c % ms.length + (i + ms.length - c % ms.length) = i + ms.length := by omega
    rw [e1, this, Nat.add_mod_right, Nat.mod_eq_of_lt hi]
  rw [send_characterised status _ ms hne]
  simp only [specOutcome, scanOrder, hmod]
  have hd : ms.drop i = ms[i] :: ms.drop (i + 1) := by
    rw [List.drop_eq_getElem_cons hi]
  have : List.find? (isOk status) (ms.drop i ++ ms.take i) = some ms[i] := by
    rw [List.find?_append, hd, List.find?_cons]; simp [isOk, hok]
  rw [this]

/-- With nobody closed the membership and the scan are stable, so the `k`-th of consecutive sends really runs
with cursor `c + k`. -/
theorem send_stable_without_closed (status : α → Status) (c : Nat) (ms : List α)
    (hnc : ∀ m ∈ ms, status m ≠ .closed) (hw : c + 1 < usizeMod) :
    (send status c ms).2 = (ms, if ms = [] then c else c + 1) := by
  have h1 := send_only_removes_closed status c ms
  have hsub := h1.1
  have hall : ∀ m ∈ ms, m ∈ (send status c ms).2.1 := fun m hm => h1.2 m hm (hnc m hm)
  have hcur := send_cursor status c ms
  have hmem : (send status c ms).2.1 = ms := by
    by_cases hne : ms = []
    · subst hne; simp [send]
    · rw [send_characterised status c ms hne]
      simp only [specMembers]
      have hev : ∀ seg : List α, (∀ m ∈ seg, status m ≠ .closed) → evictSeg status seg = seg := by
        intro seg hs
        unfold evictSeg met
        have : (seg.takeWhile fun m => !isOk status m).filter (fun m => !isClosed status m)
            = seg.takeWhile fun m => !isOk status m := by
          apply List.filter_eq_self.mpr
          intro m hm
          have := hs m ((List.takeWhile_sublist _).subset hm)
          simp only [isClosed, Bool.not_eq_true', beq_eq_false_iff_ne, ne_eq]
          exact this
        rw [this, List.takeWhile_append_dropWhile]
      have ht : ∀ m ∈ ms.take (c % ms.length), status m ≠ .closed :=
        fun m hm => hnc m (List.mem_of_mem_take hm)
      have hd : ∀ m ∈ ms.drop (c % ms.length), status m ≠ .closed :=
        fun m hm => hnc m (List.mem_of_mem_drop hm)
      rw [hev _ ht, hev _ hd]
      simp
  rw [Prod.ext_iff]
  refine ⟨hmem, ?_⟩
  rw [hcur]
  by_cases hne : ms = []
  · simp [hne]
  · simp [hne, Nat.mod_eq_of_lt hw]

/-! ### under concurrent membership change: the group is a sequential object behind its mutex -/

/-- Every `send` is routed according to the membership at its own critical section: first accepting member of
that membership in scan order, else `Full`/`Closed`. (`join`, `Membership::drop` and `send` hold the group mutex
for their whole body, so any concurrent history is a sequence of `GEv`; the membership used lies between the
invocation and the response of the call.) -/
theorem group_send_uses_current_membership (g : GState) (st : Nat → Status) (hne : g.members ≠ []) :
    (g.stepEv (.send st)).2 = some (specOutcome st (scanOrder g.cursor g.members)) ∧
    (g.stepEv (.send st)).1.members = specMembers st g.cursor g.members := by
  simp [GState.stepEv, GState.send, send_characterised st g.cursor g.members hne]

/-- Nothing is lost while a live non-full member exists at that moment: the send succeeds and goes to a member
that accepts. -/
theorem group_send_not_lost_while_available (g : GState) (st : Nat → Status) (m : Nat)
    (hm : m ∈ g.members) (hok : st m = .ok) :
    ∃ m', (g.stepEv (.send st)).2 = some (.delivered m') ∧ m' ∈ g.members ∧ st m' = .ok := by
  obtain ⟨m', h1, _, h3⟩ := send_delivers_to_first_available st g.cursor g.members m hm hok
  refine ⟨m', by simp [GState.stepEv, GState.send, h1], send_delivered_mem st g.cursor g.members m' h1, h3⟩

/-- No message goes to a member that left before the send: for every history `pre ++ [leave id] ++ post` of
joins, leaves and sends (any statuses), no send in `post` delivers to `id`; ids are never reused
(fewer than 2^64 joins). -/
theorem group_no_delivery_to_departed_member (pre post : List GEv) (id : Nat)
    (hw : pre.length + 1 + post.length < usizeMod) (hid : id < (GState.runEv {} pre).1.nextId) :
    Outcome.delivered id ∉ (((GState.runEv {} pre).1.leave id).runEv post).2 := by
  have h0 := runEv_inv pre {} ginv_init (by simp; omega)
  have hdep := leave_departs (GState.runEv {} pre).1 id h0.1 hid
  have hnext : ((GState.runEv {} pre).1.leave id).nextId = (GState.runEv {} pre).1.nextId := by
    unfold GState.leave; split <;> rfl
  apply runEv_departed post _ id hdep
  rw [hnext]
  have := h0.2.2
  simp at this
  omega

/-- Member ids stay pairwise different over any history (so "the member" is well defined). -/
theorem group_member_ids_unique (es : List GEv) (hw : es.length < usizeMod) :
    (GState.runEv {} es).1.members.Nodup :=
  (runEv_inv es {} ginv_init (by simp; omega)).1.nodup

end Group

/-! ## 6. The trace acceptors of the correspondence check accept every behaviour of the model -/

/-- any model log passes the lifecycle acceptor; after the exit it passes the strict one -/
theorem model_life_accepted {cap named s} (h : Reached cap named s) :
    History.lifeOk .unknown s.log = true ∧
    (∀ e, s.pc = .exited e → History.lifeOk .exited s.log = true) ∧
    (s.pc = .startFailed → History.lifeOk .startFailed s.log = true) := by
  obtain ⟨l, hrun, hag⟩ := log_follows_lifecycle h
  refine ⟨by simp [History.lifeOk, hrun], ?_, ?_⟩
  · intro e hp
    rw [hp] at hag
    cases l <;> simp [agree] at hag
    simp [History.lifeOk, hrun]
  · intro hp
    rw [hp] at hag
    cases l <;> simp [agree] at hag
    simp [History.lifeOk, hrun]

/-- any model run passes the FIFO acceptor for every way of attributing the accepted messages to sender
threads (each thread's list a subsequence of the acceptance order); with an empty queue it passes the
`complete` variant. -/
theorem model_fifo_accepted {cap named s} (h : Reached cap named s) (senders : List (List Nat))
    (hid : s.accepted.Nodup)
    (hsub : ∀ acc ∈ senders, acc.Sublist s.accepted)
    (hcov : ∀ m ∈ s.accepted, ∃ acc ∈ senders, m ∈ acc) :
    History.fifoOk false s.handled senders = true ∧
    (s.queue = [] → History.fifoOk true s.handled senders = true) := by
  have hpre := handled_prefix_of_accepted h
  have hnd := handled_at_most_once h hid
  have hq := accepted_is_handled_plus_queued h
  have common : ∀ complete : Bool, (complete = true → s.queue = []) →
      History.fifoOk complete s.handled senders = true := by
    intro complete hc
    unfold History.fifoOk
    simp only [Bool.and_eq_true, List.all_eq_true, List.any_eq_true]
    refine ⟨⟨(History.nodup_iff _).mpr hnd, ?_⟩, ?_⟩
    · intro m hm
      obtain ⟨acc, ha, hma⟩ := hcov m (hpre.subset hm)
      exact ⟨acc, ha, by simpa using hma⟩
    · intro acc ha
      have hf : s.accepted.filter acc.contains = acc :=
        History.filter_contains_of_sublist (hsub acc ha) hid
      have hp : s.handled.filter acc.contains <+: acc := by
        have := List.IsPrefix.filter acc.contains hpre
        rwa [hf] at this
      refine ⟨(History.isPrefix_iff _ _).mpr hp, ?_⟩
      cases hcomp : complete with
      | false => simp
      | true =>
        have hqe := hc hcomp
        rw [hqe] at hq
        simp only [List.map_nil, List.append_nil] at hq
        rw [← hq, hf]
        simp
  exact ⟨common false (by simp), fun hq => common true (fun _ => hq)⟩

/-! ## non-vacuity: the hypotheses above are met by non-trivial schedules -/

/-- a capacity-2 named actor: two sends race with a stop; one message handled, one stranded, exit `Stopped` -/
def demoSchedule : List Ev :=
  [ .preStart true, .signalStarted, .postStart true,
    .sendCheck ⟨1, false, 0⟩, .sendPush ⟨1, false, 0⟩,
    .sendCheck ⟨2, true, 4⟩, .pollStop, .sendPush ⟨2, true, 4⟩, .pollMsg,
    .stopSwap, .stopPush, .handlerEnd true, .pollStop,
    .beginStop, .preStop true, .dropRx, .postStop true, .release, .notifyExit ]

example : ∃ s, run (St.init 2 true) demoSchedule = some s ∧
    s.pc = .exited .stopped ∧ s.handled = [1] ∧ s.accepted = [1, 2] ∧ s.tok = .dropped ∧
    hookNames s.log = [.preStart, .postStart, .preStop, .postStop] := by
  refine ⟨_, rfl, ?_⟩
  decide

example : Reached 2 true ((run (St.init 2 true) demoSchedule).get (by decide)) := ⟨demoSchedule, by simp⟩

/-- `all_accepted_handled_unless_stopped` applies to a real state: three queued messages get handled in order -/
example :
    let s : St := { St.init 3 false with pc := .atRecv, queue := [⟨5, false, 0⟩, ⟨6, true, 4⟩, ⟨7, false, 0⟩] }
    (settle {} (settleFuel s) s).handled = [5, 6, 7] := by decide

/-- routing: members `[10,11,12,13]`, cursor 6 → start at index 2; 12 full, 13 closed, 10 ok ⇒ 10 gets it,
13 is evicted, 12 stays -/
example :
    Group.send (fun m => if m = 12 then .full else if m = 13 then .closed else .ok) 6 [10, 11, 12, 13]
      = (.delivered 10, [10, 11, 12], 7) := by decide

example :
    Group.send (fun m => if m = 11 then Group.Status.full else .closed) 1 [10, 11, 12]
      = (.full, [11], 2) := by decide

/-- registry: reserve, lookup hidden, activate, visible, second reserve refused, drop, free again -/
example :
    let evs : List Registry.REv := [.reserve 1 "a", .reserve 2 "a", .activate 1]
    ∃ s, Registry.RSt.run {} evs = some s ∧ Registry.get s.map "a" = some 1 ∧ s.live.length = 1 := by
  refine ⟨_, rfl, ?_⟩
  decide

/-- Atomicity of a leave, over the definitions GENERATED from `impl Drop for Membership` (extractor target
`MembershipDrop`): the body takes the group lock exactly once and both the lookup (`position`) and the `remove`
go through that one guard, so a leave is ONE critical section -- the premise under which `GEv.leave` is a single
event of the sequential group histories of `group_no_delivery_to_departed_member`,
`group_send_uses_current_membership`, `group_member_ids_unique`. (Seed C19-5b: lookup and remove in two critical
sections -> this obligation fails.) -/
theorem membership_drop_is_one_critical_section :
    Compio.Gen.membershipDropLocks = 1 ∧ Compio.Gen.membershipDropLookupRemoveSameGuard = true := by
  decide

end Compio.Props.C19
