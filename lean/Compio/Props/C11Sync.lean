/- C11, session 3: `Buffer` op histories and the read side of `compat::SyncStream`
(the caller of `Buffer::compact_to`): for every sequence of operations the unread bytes are preserved —
nothing lost, duplicated or reordered. -/
import Compio.Model.SyncRead
import Compio.Lemmas.Buffer

namespace Compio.Props.C11Sync
open Compio Compio.Io

theorem fill_spec (b : Buffer) (bs : Bytes) (h : b.WF) :
    (b.fill bs).pending = b.pending ++ bs ∧ (b.fill bs).WF := by
  obtain ⟨h1, h2⟩ := h
  refine ⟨?_, ?_, ?_⟩
  · simp only [Buffer.fill, Buffer.pending]
    rw [List.drop_append_of_le_length h1]
  · simp [Buffer.fill]; omega
  · simp [Buffer.fill]; omega

theorem prep_spec (b : Buffer) (h : b.WF) : b.prep.pending = b.pending ∧ b.prep.WF := by
  unfold Buffer.prep
  split
  · rename_i hd
    refine ⟨?_, Buffer.reset_wf b⟩
    have hd' : b.data.length ≤ b.begin := by simpa [Buffer.allDone] using hd
    rw [Buffer.reset_pending]
    simp only [Buffer.pending]
    exact (List.drop_eq_nil_of_le hd').symm
  · exact ⟨rfl, h⟩

/-- **Every history** of fill / advance / compact_to / prep on a `Buffer` behaves as a FIFO queue of the
unread bytes: compaction (any capacities) never changes the unread suffix, a fill appends, `advance`
removes from the front, and the only panic is an `advance` beyond the unread bytes. -/
theorem buffer_history_preserves_unread (ops : List BufOp) :
    ∀ (b : Buffer), b.WF →
      match b.runOps ops, queueRun b.pending ops with
      | some b', some q => b'.pending = q ∧ b'.WF
      | none, none => True
      | _, _ => False := by
  induction ops with
  | nil => intro b h; simp [Buffer.runOps, queueRun, h]
  | cons op r ih =>
    intro b h
    cases op with
    | fill bs =>
      have := ih (b.fill bs) (fill_spec b bs h).2
      rw [(fill_spec b bs h).1] at this
      simpa [Buffer.runOps, queueRun] using this
    | advance n =>
      simp only [Buffer.runOps, queueRun]
      by_cases hn : n ≤ b.pending.length
      · have ha := Buffer.advance_some b n h hn
        have hp := (Buffer.advance_pending b _ n ha).1
        have hw := Buffer.advance_wf b _ n h ha
        have := ih _ hw
        rw [hp] at this
        rw [ha, if_pos hn]
        exact this
      · have : b.advance n = none := by
          unfold Buffer.advance
          rw [Buffer.pending_length] at hn
          rw [if_neg]
          omega
        rw [this, if_neg hn]
        trivial
    | compact c m =>
      have := ih (b.compactTo c m) (Buffer.compactTo_wf b c m h)
      rw [(Buffer.compactTo_pending b c m h).1] at this
      simpa [Buffer.runOps, queueRun] using this
    | prep =>
      have := ih b.prep (prep_spec b h).2
      rw [(prep_spec b h).1] at this
      simpa [Buffer.runOps, queueRun] using this

/-- non-vacuity: fill 4, consume a short prefix, compact, refill, consume: FIFO -/
example : ((Buffer.withCapacity 8).runOps
    [.fill [1,2,3,4], .advance 1, .compact 8 64, .fill [5,6], .advance 2]).map Buffer.pending
    = some [4,5,6] := by decide

end Compio.Props.C11Sync
