/-
C09, session 3: theorems over the extracted shape of `TimerRuntime::insert` (key allocation) and of
the loop of `Runtime::block_on_at` (every iteration sweeps the wheel).
-/
import Compio.Props.C09
import Compio.Model.TimerAlloc

namespace Compio.Props.C09Alloc
open Compio.Timer Compio.Timer.Alloc

/-! ## key allocation -/

/-- the generation of a new key is the counter, the counter starts at 0 and `insert` is the only
place that writes it (all three read from the source) -/
theorem insert_generation_is_counter :
    Compio.Gen.TimerInsert.keyGeneration = .counter ∧ Compio.Gen.TimerInsert.counterInit = 0 ∧
      Compio.Gen.TimerInsert.counterWrites = 1 := by decide

/-- **the extracted `insert` is the hand model's `insert`, for every wheel, clock and deadline** —
so every theorem of Props/C09 about `insert` is a theorem about the statement list read from the source -/
theorem insertG_eq_insert (w : Wheel) (now d : Nat) : insertG w now d = some (Timer.insert w now d) := by
  unfold insertG Timer.insert
  simp only [Compio.Gen.TimerInsert.body, Compio.Gen.TimerInsert.keyGeneration, execStmts, stmt]
  by_cases h1 : d ≤ now
  · simp [h1]
  · by_cases h2 : w.gen ≥ u64Max
    · simp [h1, h2]
    · simp [h1, h2]

/-- the counter is incremented by every insert that hands out a key, and never goes down -/
theorem insertG_counter (w w' : Wheel) (now d : Nat) (k : Key) (h : insertG w now d = some (w', .some k)) :
    k = ⟨d, w.gen⟩ ∧ w'.gen = w.gen + 1 ∧ now < d := by
  rw [insertG_eq_insert] at h
  unfold Timer.insert at h
  split at h
  · simp at h
  · split at h
    · simp at h
    · simp only [Option.some.injEq, Prod.mk.injEq, InsertRes.some.injEq] at h
      obtain ⟨rfl, rfl⟩ := h
      exact ⟨rfl, rfl, by omega⟩

theorem nodup_eraseIdx_not_mem {α : Type} (l : List α) (i : Nat) (k : α) (hn : l.Nodup)
    (hk : l[i]? = some k) : k ∉ l.eraseIdx i := by
  induction l generalizing i with
  | nil => simp
  | cons a l ih =>
    have ⟨ha, hl⟩ := List.nodup_cons.mp hn
    cases i with
    | zero =>
      simp only [List.getElem?_cons_zero, Option.some.injEq] at hk
      subst hk
      simpa using ha
    | succ i =>
      simp only [List.getElem?_cons_succ] at hk
      simp only [List.eraseIdx_cons_succ, List.mem_cons, not_or]
      refine ⟨?_, ih i hl hk⟩
      rintro rfl
      exact ha (List.mem_of_getElem? hk)

/-- invariant of the live set -/
structure AInv (s : ASt) : Prop where
  nodup : s.live.Nodup
  fresh : ∀ k ∈ s.live, k.gen < s.w.gen
  registered : ∀ k ∈ s.live, k ∈ keys s.w.entries
  future : ∀ k ∈ keys s.w.entries, k.gen < s.w.gen

theorem AInv.init : AInv ASt.init := by
  refine ⟨?_, ?_, ?_, ?_⟩ <;> simp [ASt.init, keys]

theorem AInv.step {s s' : ASt} (op : AOp) (h : AInv s) (hs : astep s op = some s') : AInv s' := by
  cases op with
  | insert now d =>
    simp only [astep] at hs
    split at hs
    · rename_i w' k heq
      simp only [Option.some.injEq] at hs
      subst hs
      obtain ⟨rfl, hgen, hlt⟩ := insertG_counter _ _ _ _ _ heq
      have hw : w' = (Timer.insert s.w now d).1 := by
        rw [insertG_eq_insert] at heq
        simp only [Option.some.injEq] at heq
        rw [heq]
      refine ⟨?_, ?_, ?_, ?_⟩
      · refine List.nodup_cons.mpr ⟨?_, h.nodup⟩
        intro hin
        have := h.fresh _ hin
        simp at this
      · intro k hk
        simp only [List.mem_cons] at hk
        rcases hk with rfl | hk
        · simp [hgen]
        · have := h.fresh k hk
          simp only [hgen]; omega
      · intro k hk
        simp only [List.mem_cons] at hk
        simp only [hw, mem_keys_insert]
        rcases hk with rfl | hk
        · exact Or.inr ⟨hlt, rfl⟩
        · exact Or.inl (h.registered k hk)
      · intro k hk
        simp only [hw, mem_keys_insert] at hk
        simp only [hgen]
        rcases hk with hk | ⟨_, rfl⟩
        · have := h.future k hk; omega
        · simp
    · rename_i w' heq
      simp only [Option.some.injEq] at hs
      subst hs
      have hw : w' = s.w := by
        rw [insertG_eq_insert] at heq
        unfold Timer.insert at heq
        split at heq
        · simp only [Option.some.injEq, Prod.mk.injEq] at heq; exact heq.1.symm
        · split at heq <;> simp at heq
      subst hw
      exact ⟨h.nodup, h.fresh, h.registered, h.future⟩
    · simp at hs
  | cancel i =>
    simp only [astep] at hs
    split at hs
    · rename_i k hk
      simp only [Option.some.injEq] at hs
      subst hs
      have hsub : (s.live.eraseIdx i).Sublist s.live := List.eraseIdx_sublist _ _
      refine ⟨h.nodup.sublist hsub, ?_, ?_, ?_⟩
      · intro k' hk'
        exact h.fresh k' (hsub.subset hk')
      · intro k' hk'
        rw [mem_keys_cancel]
        refine ⟨h.registered k' (hsub.subset hk'), ?_⟩
        rintro rfl
        exact nodup_eraseIdx_not_mem s.live i k' h.nodup hk hk'
      · intro k' hk'
        exact h.future k' ((mem_keys_cancel _ _ _).mp hk').1
    · simp only [Option.some.injEq] at hs
      subst hs; exact h
  | wake now =>
    simp only [astep, Option.some.injEq] at hs
    subst hs
    have hsub : (s.live.filter fun k => ¬ k.lt (splitKey now)).Sublist s.live := List.filter_sublist
    refine ⟨h.nodup.sublist hsub, ?_, ?_, ?_⟩
    · intro k hk
      simp only [wake_gen]
      exact h.fresh k (hsub.subset hk)
    · intro k hk
      rw [mem_keys_wake]
      simp only [List.mem_filter, decide_eq_true_eq] at hk
      exact ⟨h.registered k hk.1, hk.2⟩
    · intro k hk
      simp only [wake_gen]
      exact h.future k ((mem_keys_wake _ _ _).mp hk).1

theorem AInv.run {s s' : ASt} (ops : List AOp) (h : AInv s) (hs : arun s ops = some s') : AInv s' := by
  induction ops generalizing s with
  | nil => simp only [arun, Option.some.injEq] at hs; subst hs; exact h
  | cons op rest ih =>
    simp only [arun] at hs
    split at hs
    · rename_i s1 h1
      exact ih (h.step op h1) hs
    · simp at hs

/-- **For every sequence of timer creations, drops and sweeps (any deadlines — equal ones included —
any clock readings, any order): the keys held by the live timers are pairwise distinct, every one of
them is still registered in the wheel, and its generation is below the counter.** A new timer can
never take over, overwrite, or — when it is dropped — remove the entry of another live timer. -/
theorem live_keys_distinct (ops : List AOp) (s : ASt) (h : arun ASt.init ops = some s) :
    s.live.Nodup ∧ (∀ k ∈ s.live, k ∈ keys s.w.entries) ∧ (∀ k ∈ s.live, k.gen < s.w.gen) :=
  let i := AInv.run ops AInv.init h
  ⟨i.nodup, i.registered, i.fresh⟩

/-- a live timer leaves the wheel only through its own drop or through a `wake` at or after its
deadline: after any further ops that keep it live it is still registered (never early) -/
theorem live_timer_stays_registered (ops : List AOp) (s : ASt) (k : Key)
    (h : arun ASt.init ops = some s) (hk : k ∈ s.live) : isCompleted s.w k = false := by
  have := (live_keys_distinct ops s h).2.1 k hk
  simp [isCompleted, this]

/-- the seed's demo: A(d), B(d), drop A, C(d), drop C — B is still registered, under its own key -/
example : (arun ASt.init [.insert 0 5, .insert 0 5, .cancel 1, .insert 0 5, .cancel 0]).map
    (fun s => (s.live, keys s.w.entries)) = some ([⟨5, 1⟩], [⟨5, 1⟩]) := by decide

/-! ## the loop of `block_on_at` -/

/-- **every iteration of the `block_on` loop in which the main future is pending reaches `poll_with`,
whatever `Executor::tick` reported about remaining runnable tasks**, and `Runtime::poll` is
`poll_with(current_timeout())` -/
theorem block_on_iteration_polls (remaining : Bool) :
    reachesPollWith remaining Compio.Gen.BlockOnLoop.loopBody = true ∧
      Compio.Gen.BlockOnLoop.pollIsPollWithCurrentTimeout = true := by
  cases remaining <;> decide

theorem blockOnIter_eq_pollWith (w : Wheel) (now : Nat) (remaining : Bool) (o : PollOutcome) :
    blockOnIter w now remaining o = pollWith w now o := by
  unfold blockOnIter
  rw [(block_on_iteration_polls remaining).1]
  simp

/-- **bounded progress: a due timer fires within ONE loop iteration, whatever the run queue holds.**
After any iteration that does not panic (tasks did anything before, run queue empty or not, driver
poll returned in any way) no key with deadline ≤ now is left in the wheel, exactly the due entries
were expired and every due waker was invoked. -/
theorem block_on_iteration_sweeps (w w' : Wheel) (now : Nat) (remaining : Bool) (o : PollOutcome)
    (ex : List Entry) (hwf : WF w) (h : blockOnIter w now remaining o = some (w', ex)) :
    (∀ k ∈ keys w'.entries, now < k.deadline) ∧
      (∀ e, e ∈ ex ↔ e ∈ w.entries ∧ e.1.deadline ≤ now) ∧
      (∀ k wk, (k, some wk) ∈ w.entries → k.deadline ≤ now → wk ∈ woken ex) ∧ WF w' := by
  rw [blockOnIter_eq_pollWith] at h
  exact Compio.Props.C09.poll_with_sweeps w w' now o ex hwf h

/-- for whole runs: any task activity `pre` inside the iteration, then the rest of the iteration
with ANY value of `remaining_tasks`, then any activity: a key that was due is gone for good -/
theorem block_on_always_fires (s : World) (pre post : List Op) (k : Key) (remaining : Bool)
    (o : PollOutcome) (w' : Wheel) (ex : List Entry)
    (hwf : WF s.wheel) (hnp : Out.ins .panic ∉ outs s pre) (hissued : k.gen < s.wheel.gen)
    (hdue : k.deadline ≤ (run s pre).now)
    (h : blockOnIter (run s pre).wheel (run s pre).now remaining o = some (w', ex)) :
    k ∉ keys (run ⟨(run s pre).now, w'⟩ post).wheel.entries := by
  rw [blockOnIter_eq_pollWith] at h
  exact Compio.Props.C09.poll_with_always_fires s pre post k o w' ex hwf hnp hissued hdue h

/-- non-vacuity: a wheel with a due and a pending timer, run queue non-empty, driver returned Ok -/
example : (blockOnIter ⟨2, [(⟨5, 0⟩, some 7), (⟨9, 1⟩, none)]⟩ 6 true .ok).map
    (fun r => (keys r.1.entries, woken r.2)) = some ([⟨9, 1⟩], [7]) := by decide

end Compio.Props.C09Alloc
