/-
C04 — task and join-handle lifecycle (compio-executor).
Property theorems only; helper lemmas live in Compio/Lemmas/Executor*.lean and Lemmas/RemoteJoin.lean.

Part 1: the home thread. All statements are about the functions the driver executes
(`Compio.Executor.applyR` / `apply` / `run`) and hold for EVERY program `ops : List Op`.
Part 2: the join handle polled / dropped on another thread (labelled transition system
Compio/Model/RemoteJoin.lean), for every interleaving.
-/
import Compio.Lemmas.ExecutorSteps
import Compio.Lemmas.RemoteJoin

namespace Compio.Props.C04
open Compio.TaskWord Compio.Gen Compio.Executor

/-! ## 1. The lifecycle invariant, for every program -/

/-- the inductive invariant holds after every sequence of operations -/
theorem lifecycle_invariant (ops : List Op) : Inv (run ops) := run_inv ops

/-- every operation preserves it (so it also holds between the operations of a program) -/
theorem lifecycle_invariant_step (e : Exec) (h : Inv e) (op : Op) : Inv (apply e op) := apply_inv h op

section unpacked
variable (ops : List Op) (id : Nat) (t : TaskSt) (hg : (run ops).get? id = some t)
include hg

/-- (R) reference count = number of holders: the executor (while the task is queued), the handle, the wakers -/
theorem refcount_eq_holders (hd : t.deallocs = 0) :
    t.word.count = (if inMap (run ops) id then 1 else 0) + (if t.handle then 1 else 0) + t.wakers :=
  ((run_inv ops).t id t hg).rc hd

/-- (D) the allocation is freed at most once, exactly when the last holder is gone, and nothing touches it
afterwards -/
theorem dealloc_exactly_once :
    t.deallocs ≤ 1 ∧
    (t.deallocs = 1 ↔ (if inMap (run ops) id then 1 else 0) + (if t.handle then 1 else 0) + t.wakers = 0) ∧
    t.uaf = 0 := by
  have h := (run_inv ops).t id t hg
  have hdl := h.dl
  unfold holders at hdl
  by_cases hz : (if inMap (run ops) id then 1 else 0) + (if t.handle then 1 else 0) + t.wakers = 0
  · rw [if_pos hz] at hdl
    exact ⟨by omega, by simp [hdl, hz], h.uaf⟩
  · rw [if_neg hz] at hdl
    exact ⟨by omega, ⟨fun h1 => by omega, fun h1 => absurd h1 hz⟩, h.uaf⟩

/-- (F) the future is dropped at most once; while the task is queued it is alive (not dropped, not
completed, storage = future, `shared` valid); once the executor let go of the task (completion,
cancellation, executor drop) it has been dropped exactly once -/
theorem future_dropped_exactly_once :
    t.futDrops ≤ 1 ∧
    (inMap (run ops) id = true →
      t.storage = .future ∧ t.futDrops = 0 ∧ t.word.completed = false ∧ t.shared = true) ∧
    (inMap (run ops) id = false → t.futDrops = 1 ∧ t.shared = false) := by
  have h := (run_inv ops).t id t hg
  refine ⟨?_, fun hi => ⟨h.inq_st hi, h.inq_fd hi, h.inq_c hi, h.inq_sh hi⟩, fun hi => ⟨h.outq_fd hi, h.outq_sh hi⟩⟩
  cases hi : inMap (run ops) id
  · rw [h.outq_fd hi]; omega
  · rw [h.inq_fd hi]; omega

/-- (P) the future is never polled after it completed (and never once cancelled: `cancelled_never_polled`) -/
theorem never_polled_after_completion : t.badPolls = 0 := ((run_inv ops).t id t hg).bp

/-- (S) HAS_RESULT ⇔ the storage holds a result; the output / panic payload is taken or dropped at most
once; once the allocation is freed: exactly once iff the task completed -/
theorem result_exactly_once :
    (t.deallocs = 0 → (t.word.hasResult = true ↔ (t.storage = .resultOk ∨ t.storage = .resultPanic))) ∧
    t.resTaken + t.resDrops ≤ 1 ∧
    (t.deallocs = 1 → (t.resTaken + t.resDrops = 1 ↔ t.word.completed = true)) := by
  have h := (run_inv ops).t id t hg
  refine ⟨?_, ?_, ?_⟩
  · intro hd
    rw [h.res hd]
    cases t.storage <;> simp [isRes]
  · rw [h.cnt]; split <;> omega
  · intro hd
    rw [h.cnt, hd]
    cases t.word.completed <;> simp

/-- (W) HAS_WAKER ⇔ the waker slot is occupied; every join waker stored is dropped exactly once, except
the one still stored; none is left when the allocation is freed -/
theorem join_waker_accounting :
    (t.word.hasWaker = true ↔ t.slot.isSome = true) ∧
    t.slotSets = t.slotDrops + (if t.slot.isSome then 1 else 0) ∧
    (t.deallocs = 1 → t.slot = none ∧ t.slotSets = t.slotDrops) := by
  have h := (run_inv ops).t id t hg
  refine ⟨by rw [h.wk], h.sl, ?_⟩
  intro hd
  have hin : inMap (run ops) id = false := by
    cases hi : inMap (run ops) id
    · rfl
    · have := h.dl; rw [hd, hi] at this; simp [holders] at this
  have hs := h.outq_slot hin
  exact ⟨hs, by rw [h.sl, hs]; simp⟩

/-- the home thread never leaves the SETTING_WAKER section open -/
theorem not_setting_waker : t.word.notSettingWaker = true := ((run_inv ops).t id t hg).nsw

end unpacked

/-- (Q) the queues are duplicate-free, disjoint, and contain only valid task ids -/
theorem queue_well_formed (ops : List Op) :
    (run ops).hot.Nodup ∧ (run ops).cold.Nodup ∧ (∀ x, x ∈ (run ops).hot → x ∉ (run ops).cold) ∧
    (∀ x, x ∈ (run ops).hot ∨ x ∈ (run ops).cold → x < (run ops).tasks.length) := by
  have q := (run_inv ops).q
  exact ⟨q.hnd, q.cnd, fun x h1 h2 => q.disj x h1 h2, fun x h => h.elim (q.hval x) (q.cval x)⟩

/-- (D) no use after free, in its strongest form: once the allocation of a task was freed, no
operation whatsoever changes (or reads through a live holder) that task any more -/
theorem nothing_touches_freed_task (ops : List Op) (id : Nat) (t : TaskSt)
    (hg : (run ops).get? id = some t) (hd : t.deallocs = 1) (op : Op) :
    (apply (run ops) op).get? id = some t := frozen_after_free (run_inv ops) hg hd op

/-- tasks are never forgotten, and each evolves only by the primitive per-task steps of the model -/
theorem task_evolves_by_steps (ops more : List Op) (id : Nat) (t : TaskSt) (hg : (run ops).get? id = some t) :
    ∃ t', (run (ops ++ more)).get? id = some t' ∧ TaskSteps t t' := by
  have := foldl_steps more (run_inv ops) hg
  simpa [run, List.foldl_append] using this

/-! ## 2. Polls happen only inside `tick`; the handle API never hits its `unreachable!` -/

/-- (P) no operation other than `tick` polls any future -/
theorem polls_only_in_tick (e : Exec) (h : Inv e) (op : Op) (hop : ∀ n, op ≠ .tick n)
    (id : Nat) (t : TaskSt) (hg : e.get? id = some t) :
    ∃ t', (apply e op).get? id = some t' ∧ t'.polls = t.polls := by
  rcases apply_cases e op with h0 | ⟨id', t1, t', hg', _, hp, h1 | h1⟩ | ⟨ha, ⟨sc, rfl⟩ | ⟨n, rfl⟩ | rfl⟩
  · exact ⟨t, by rw [h0]; exact hg, rfl⟩
  · by_cases hx : id = id'
    · subst hx; rw [hg] at hg'; cases hg'
      exact ⟨t', by rw [h1]; exact get?_setTask_self _ hg, hp⟩
    · exact ⟨t, by rw [h1, get?_setTask_ne _ _ hx]; exact hg, rfl⟩
  · by_cases hx : id = id'
    · subst hx; rw [hg] at hg'; cases hg'
      exact ⟨t', by rw [h1]; exact get?_setTask_self _ (by rw [scheduleLocal_get?]; exact hg), hp⟩
    · exact ⟨t, by rw [h1, get?_setTask_ne _ _ hx, scheduleLocal_get?]; exact hg, rfl⟩
  · refine ⟨t, ?_, rfl⟩
    simp [apply, applyR, ha, spawn, Exec.get?, List.getElem?_append_left (get?_lt hg)]
    exact hg
  · exact absurd rfl (hop n)
  · have hnd : (e.hot ++ e.cold).Nodup := by
      rw [List.nodup_append]
      refine ⟨h.q.hnd, h.q.cnd, ?_⟩
      intro a ha b hb hab; subst hab; exact h.q.disj a ha hb
    have := (foldl_clearTask (e.hot ++ e.cold) e hnd).1 id
    simp only [apply, applyR, ha]
    by_cases hm : id ∈ e.hot ++ e.cold
    · rw [if_pos hm, hg] at this
      exact ⟨clearedTask t, this, by simp [clearedTask, dropRef_polls, taskDropByExecutor_polls]⟩
    · rw [if_neg hm, hg] at this
      exact ⟨t, this, rfl⟩

/-- (P) `tick` polls exactly what its log says: the poll counter of every task grows by the number of
times its id occurs in the log returned by `tick` -/
theorem tick_polls_exactly_logged (e : Exec) (h : Inv e) (n : Nat) (id : Nat) (t : TaskSt)
    (hg : e.get? id = some t) :
    ∃ t', (tick e n).1.get? id = some t' ∧ t'.polls = t.polls + (tick e n).2.1.count id :=
  tickLoop_polls n e h id t hg

/-- `unreachable!("Task is completed but has no result")` in `Local::poll` is never reached -/
theorem local_poll_never_unreachable (e : Exec) (h : Inv e) (id w : Nat) (t : TaskSt)
    (hg : e.get? id = some t) (hh : t.handle = true) : (handlePoll e id w).2 ≠ .invalid := by
  rw [handlePoll_live w hg hh]
  exact pollTask_valid _ t w (h.t id t hg) hh

/-- `JoinHandle::cancel(self).await` on the home thread completes with its first poll -/
theorem cancel_never_pending (e : Exec) (id : Nat) (t : TaskSt) (hg : e.get? id = some t)
    (hh : t.handle = true) :
    (applyR e (.hcancel id)).2 = .cancel .ok ∨ (applyR e (.hcancel id)).2 = .cancel .panicked ∨
    (applyR e (.hcancel id)).2 = .cancel .cancelled := by
  rw [hcancel_live hg hh]
  rcases pollTask_cancelled (cancelWord t false) noopWaker (cancelWord_nc t false) with h | h | h <;> simp [h]

/-! ## 3. Dropping the handle cancels; detaching lets the task run; panics are contained; teardown -/

/-- dropping the handle of a task that is still queued cancels it and makes it hot (so the next ticks
reach it) -/
theorem hdrop_cancels_and_schedules (e : Exec) (h : Inv e) (id : Nat) (t : TaskSt) (hg : e.get? id = some t)
    (hh : t.handle = true) (hq : inMap e id = true) :
    id ∈ (handleDrop e id).1.hot ∧ cancelledIn (handleDrop e id).1 id := by
  rw [handleDrop_live hg hh]
  have hg' := get?_setTask_self (dropRef { cancelWord t true with handle := false })
    (show (scheduleLocal e id).get? id = some t by rw [scheduleLocal_get?]; exact hg)
  refine ⟨?_, _, hg', by rw [dropRef_nc]; exact cancelWord_nc t true⟩
  have hm := (scheduleLocal_mem h.q id).mpr ((inMap_iff e id).mp hq)
  rcases hm with hm | hm
  · exact hm
  · exact absurd hm (fun hc => scheduleLocal_not_cold h hg hc)

/-- once cancelled, a task is never polled again and stays cancelled, whatever the program does next -/
theorem cancelled_never_polled_again (ops more : List Op) (id : Nat) (t : TaskSt)
    (hg : (run ops).get? id = some t) (hc : t.word.notCancelled = false) :
    ∃ t', (run (ops ++ more)).get? id = some t' ∧ t'.polls = t.polls ∧ t'.word.notCancelled = false := by
  obtain ⟨t', hg', hs⟩ := foldl_steps more (run_inv ops) hg
  refine ⟨t', by simpa [run, List.foldl_append] using hg', (taskSteps_mono hs).cpolls hc, ?_⟩
  cases hn : t'.word.notCancelled
  · rfl
  · rw [(taskSteps_mono hs).nc hn] at hc; cases hc

/-- ... and its future is dropped, unpolled, by the first tick that reaches it (position `p` < `n`) -/
theorem cancelled_dropped_when_reached (e : Exec) (h : Inv e) (n p id : Nat) (hx : e.hot[p]? = some id)
    (hp : p < n) (hc : cancelledIn e id) :
    inMap (tick e n).1 id = false ∧ id ∉ (tick e n).2.1 ∧
    ∃ t', (tick e n).1.get? id = some t' ∧ t'.futDrops = 1 := by
  have hgone : inMap (tick e n).1 id = false := (tickLoop_visit n e h p id hx hp).1 hc
  obtain ⟨t, hg, hnc⟩ := hc
  obtain ⟨t', hg', hpolls⟩ := tickLoop_polls n e h id t hg
  obtain ⟨t'', hg'', hst⟩ := tickLoop_steps n e h id t hg
  rw [hg'] at hg''; cases hg''
  have hcp := (taskSteps_mono hst).cpolls hnc
  refine ⟨hgone, ?_, t', hg', ?_⟩
  · intro hm
    have : 0 < (tick e n).2.1.count id := List.count_pos_iff.mpr hm
    have h2 : t'.polls = t.polls + (tick e n).2.1.count id := hpolls
    omega
  · have := (tick_inv h n).t id t' hg'
    rw [hgone] at this
    exact this.outq_fd rfl

/-- within ⌈(p+1)/n⌉ ticks, wherever it is in the hot queue -/
theorem cancelled_dropped_within (e : Exec) (h : Inv e) (n : Nat) (hn : 0 < n) (k p id : Nat)
    (hx : e.hot[p]? = some id) (hc : cancelledIn e id) (hp : p < k * n) :
    inMap (tickN e n k).1 id = false := tickN_drops_cancelled h n hn k p id hx hc hp

/-- `detach` only gives up the handle's reference: the task stays where it is in the queue, keeps its
script and is not cancelled by it -/
theorem detach_keeps_running (e : Exec) (id : Nat) (t : TaskSt) (hg : e.get? id = some t)
    (hh : t.handle = true) :
    (handleDetach e id).1.hot = e.hot ∧ (handleDetach e id).1.cold = e.cold ∧
    ∃ t', (handleDetach e id).1.get? id = some t' ∧ t'.handle = false ∧ t'.script = t.script ∧
      t'.word.notCancelled = t.word.notCancelled ∧ t'.polls = t.polls := by
  rw [handleDetach_live hg hh]
  refine ⟨rfl, rfl, _, get?_setTask_self _ hg, ?_, ?_, by rw [dropRef_nc], by rw [dropRef_polls]⟩
  · exact ((dropRef_mono { t with handle := false }).hdl rfl).1
  · obtain ⟨⟨s, sg, nsw, hw, c, hr, nc, cnt⟩, st, slot, script, sh, hd, wk, polls, fd, rt, rd, ss, sd, de, uaf, bp⟩ := t
    cases hr <;> cases hw <;> simp [dropRef] <;> split <;> split <;> rfl

/-- after `detach` nobody takes the output: when the task has completed and its allocation is freed,
the output (or panic payload) has been dropped exactly once -/
theorem detached_output_dropped_once (ops more : List Op) (id : Nat) (t t' : TaskSt)
    (hg : (run ops).get? id = some t) (hh : t.handle = true)
    (hg' : (run (ops ++ [.hdetach id] ++ more)).get? id = some t') :
    t'.handle = false ∧ t'.resTaken = 0 ∧
    (t'.deallocs = 1 → t'.word.completed = true → t'.resDrops = 1) := by
  have hinv := run_inv ops
  have ht := hinv.t id t hg
  -- a live handle has not taken anything yet
  have hrt : t.resTaken = 0 := by
    have hc := ht.cnt
    have hd : t.deallocs = 0 := by
      have := ht.dl; simp [holders, hh] at this; exact this
    cases hcp : t.word.completed
    · simp [hcp] at hc; omega
    · have := ht.hd hh hcp
      simp [hcp, this, hd] at hc; omega
  have h1 : (run (ops ++ [.hdetach id])).get? id = some (dropRef { t with handle := false }) := by
    rw [run_append]
    simp only [apply, applyR, handleDetach_live hg hh]
    exact get?_setTask_self _ hg
  obtain ⟨t2, hg2, hs⟩ := foldl_steps more (run_inv (ops ++ [.hdetach id])) h1
  have hg2' : (run (ops ++ [.hdetach id] ++ more)).get? id = some t2 := by
    simpa [run, List.foldl_append] using hg2
  rw [hg'] at hg2'; cases hg2'
  have hd1 := (dropRef_mono { t with handle := false }).hdl rfl
  have hd2 := (taskSteps_mono hs).hdl hd1.1
  have hrt' : t'.resTaken = 0 := by rw [hd2.2, hd1.2]; exact hrt
  refine ⟨hd2.1, hrt', ?_⟩
  intro hde hcp
  have := ((run_inv (ops ++ [.hdetach id] ++ more)).t id t' hg').cnt
  simp [hcp, hde] at this
  omega

/-- frame lemma: running one task (whether its future returns, wakes, or PANICS) changes no other
task's state -/
theorem runOne_frame (e : Exec) (id x : Nat) (hx : x ≠ id) : (runOne e id).1.get? x = e.get? x := by
  unfold runOne
  cases hg : e.get? id with
  | none => rfl
  | some t =>
    simp only
    rcases hr : runTask t with ⟨t', k, w⟩
    cases k <;> simp [removeTask, scheduleLocal_get?, get?_setTask_ne e t' hx] <;>
      simp [Exec.get?, Exec.setTask, List.getElem?_set_ne (Ne.symm hx)]

/-- ... and no other task's membership in the queues -/
theorem runOne_queue_frame (e : Exec) (h : Inv e) (id x : Nat) (hx : x ≠ id) (hc : id ∈ e.cold) :
    (x ∈ (runOne e id).1.hot ↔ x ∈ e.hot) ∧ (x ∈ (runOne e id).1.cold ↔ x ∈ e.cold) := by
  unfold runOne
  cases hg : e.get? id with
  | none => exact ⟨Iff.rfl, Iff.rfl⟩
  | some t =>
    simp only
    rcases hr : runTask t with ⟨t', k, w⟩
    cases k <;> simp [removeTask, Exec.setTask, List.mem_erase_of_ne hx]
    rcases scheduleLocal_cases ({ e with tasks := e.tasks.set id t' } : Exec) id with h1 | ⟨_, h1⟩ <;> rw [h1] <;>
      simp [List.mem_erase_of_ne hx, hx]

/-- a dropped executor stays dropped -/
theorem dead_stays_dead (e : Exec) (hd : e.alive = false) (op : Op) : (apply e op).alive = false := by
  rcases apply_cases e op with h0 | ⟨id', t1, t', _, _, _, h1 | h1⟩ | ⟨ha, _⟩
  · rw [h0]; exact hd
  · rw [h1]; exact hd
  · rw [h1]; simp [Exec.setTask, scheduleLocal_alive, hd]
  · rw [hd] at ha; cases ha

/-- executor torn down while handles and wakers are still used elsewhere: whatever happens afterwards,
every task whose handle and wakers are gone has been freed (exactly once, by `dealloc_exactly_once`),
its future dropped exactly once -/
theorem teardown_frees_everything (ops more : List Op) (id : Nat) (t : TaskSt)
    (hg : (run (ops ++ [.xdrop] ++ more)).get? id = some t) (hh : t.handle = false) (hw : t.wakers = 0) :
    t.deallocs = 1 ∧ t.futDrops = 1 ∧ t.uaf = 0 := by
  have hdead : (run (ops ++ [.xdrop] ++ more)).alive = false := by
    have h1 : (run (ops ++ [.xdrop])).alive = false := by
      rw [run_append]
      unfold apply applyR
      cases ha : (run ops).alive <;> simp [ha, execDrop]
    have : ∀ (l : List Op) (e : Exec), e.alive = false → (l.foldl apply e).alive = false := by
      intro l
      induction l with
      | nil => intro e he; exact he
      | cons op l ih => intro e he; exact ih _ (dead_stays_dead e he op)
    simpa [run, List.foldl_append] using this more _ h1
  have hinv := run_inv (ops ++ [.xdrop] ++ more)
  obtain ⟨d1, d2⟩ := hinv.dead hdead
  have hin : inMap (run (ops ++ [.xdrop] ++ more)) id = false := by
    rw [inMap_false_iff, d1, d2]; simp
  have ht := hinv.t id t hg
  rw [hin] at ht
  refine ⟨?_, ht.outq_fd rfl, ht.uaf⟩
  have := ht.dl
  simpa [holders, hh, hw] using this

/-! ## 4. Tick order and no starvation -/

/-- `tick` polls in hot-queue (FIFO) order: the poll log starts with the first `min n |hot|` hot tasks
(`hot.take n`), provided none of them is cancelled (a cancelled one is dropped instead of polled) -/
theorem tick_polls_in_hot_order (e : Exec) (h : Inv e) (n : Nat)
    (hl : ∀ x, x ∈ e.hot.take n → liveIn e x) :
    ∃ extra, (tick e n).2.1 = e.hot.take n ++ extra := tickLoop_order n e h hl

/-- progress in ONE tick with `max_interval = n`: a hot task at position `p` is visited (polled if live,
dropped and removed if cancelled) when `p < n`, and otherwise moves up to position `p - n` -/
theorem tick_progress (e : Exec) (h : Inv e) (n p x : Nat) (hx : e.hot[p]? = some x) :
    (p < n → (liveIn e x → x ∈ (tick e n).2.1) ∧ (cancelledIn e x → inMap (tick e n).1 x = false)) ∧
    (n ≤ p → (tick e n).1.hot[p - n]? = some x) :=
  ⟨fun hp => ⟨(tickLoop_visit n e h p x hx hp).2, (tickLoop_visit n e h p x hx hp).1⟩,
   fun hp => tickLoop_shift n e h p x hx hp⟩

/-- no starvation: a runnable task at position `p` of the hot queue is polled within `k` ticks as soon as
`k * n > p`, i.e. within ⌈(p+1)/n⌉ ticks, for every `max_interval = n > 0` and whatever the other
tasks do (wake themselves, complete, panic, ...) -/
theorem no_starvation (e : Exec) (h : Inv e) (n : Nat) (hn : 0 < n) (k p x : Nat)
    (hx : e.hot[p]? = some x) (hl : liveIn e x) (hp : p < k * n) : x ∈ (tickN e n k).2 :=
  tickN_polls_live h n hn k p x hx hl hp

/-- a freshly spawned task is runnable: it is the last element of the hot queue -/
theorem spawn_is_hot (e : Exec) (sc : List Outcome) :
    (spawn e sc).1.hot[e.hot.length]? = some (spawn e sc).2 ∧ liveIn (spawn e sc).1 (spawn e sc).2 := by
  refine ⟨by simp [spawn], ?_⟩
  unfold liveIn
  simp [spawn, Exec.get?]

/-- a wake-up through a task waker makes a parked (cold) task runnable again -/
theorem wake_makes_hot (e : Exec) (h : Inv e) (id : Nat) (t : TaskSt) (hg : e.get? id = some t)
    (hw : t.wakers ≠ 0) (hq : inMap e id = true) : id ∈ (wakeLocal e id).1.hot := by
  rw [wakeLocal_live hg hw]
  rcases (scheduleLocal_mem h.q id).mpr ((inMap_iff e id).mp hq) with hm | hm
  · exact hm
  · exact absurd hm (fun hc => scheduleLocal_not_cold h hg hc)

/-! ## 5. Delivery of the completion wake-up to a handle polled on the home thread -/

/-- a poll that returns Pending leaves the caller's waker in the slot, flagged HAS_WAKER -/
theorem pending_poll_parks_waker (e : Exec) (h : Inv e) (id w : Nat) (t : TaskSt)
    (hg : e.get? id = some t) (hh : t.handle = true) (hp : (handlePoll e id w).2 = .pending) :
    ∃ t', (handlePoll e id w).1.get? id = some t' ∧ t'.slot = some w ∧ t'.word.hasWaker = true ∧
      t'.handle = true := by
  rw [handlePoll_live w hg hh] at hp ⊢
  refine ⟨_, get?_setTask_self _ hg, ?_⟩
  have hwk := (h.t id t hg).wk
  obtain ⟨⟨s, sg, nsw, hw', c, hr, nc, cnt⟩, st, slot, script, sh, hd, wk, polls, fd, rt, rd, ss, sd, de, uaf, bp⟩ := t
  simp at hh hwk; subst hh
  cases hr <;> cases nc <;> cases c <;> cases hw' <;> simp [pollTask] at hp ⊢ <;> (try split at hp) <;>
    simp_all <;> split <;> simp_all

/-- when the future of the task at the head of the hot queue returns Ready (or panics), the join waker
parked in the slot is woken by that very loop body -/
theorem completion_wakes_parked_waker (e : Exec) (h : Inv e) (id w : Nat) (rest : List Nat) (t : TaskSt)
    (o : Outcome) (r : List Outcome)
    (hh : e.hot = id :: rest) (hg : e.get? id = some t) (hs : t.slot = some w)
    (hc : t.word.notCancelled = true) (hsc : t.script = o :: r) (ho : o = .ready ∨ o = .panic) :
    (tickStep e id).1.woken = e.woken ++ [w] := by
  obtain ⟨t', hg', ht, heq⟩ := tickStep_head h hh
  rw [hg] at hg'; cases hg'
  have hr := runTask_ready t hc (ht.inq_c rfl) o r hsc ho
  rw [heq, hr]
  have hwk := ht.wk
  rw [hs] at hwk
  simp [hwk, ht.nsw, hs]

/-- `liveIn` / `cancelledIn` are decidable on concrete states -/
theorem liveIn_iff (e : Exec) (x : Nat) :
    liveIn e x ↔ (e.get? x).map (fun t => t.word.notCancelled) = some true := by
  unfold liveIn
  cases e.get? x <;> simp

theorem cancelledIn_iff (e : Exec) (x : Nat) :
    cancelledIn e x ↔ (e.get? x).map (fun t => t.word.notCancelled) = some false := by
  unfold cancelledIn
  cases e.get? x <;> simp

/-! ## 6. Non-vacuity: concrete programs (the same `run` the driver executes) -/

/-- the prefetching iterator: a self-waking task goes to the hot tail and is polled again in the same tick -/
example : (applyR (run [.spawn [.wakeSelf, .ready], .spawn [.pending]]) (.tick 61)).2
    = .polled [0, 1, 0] false := by decide

/-- ... but a lone self-waking task is polled once per tick (the iterator prefetched `None`) -/
example : (applyR (run [.spawn [.wakeSelf, .ready]]) (.tick 61)).2 = .polled [0] true := by decide

/-- handle dropped before completion: never polled again, future dropped at the next tick, freed -/
example : ((run [.spawn [.pending, .ready], .tick 61, .hdrop 0, .tick 61]).get? 0).map
    (fun t => (t.polls, t.futDrops, t.deallocs, t.resTaken + t.resDrops)) = some (1, 1, 1, 0) := by decide

/-- the hypotheses of `hdrop_cancels_and_schedules` / `cancelled_dropped_when_reached` are met there -/
example : let e := run [.spawn [.pending, .ready], .tick 61, .hdrop 0]
    e.hot[0]? = some 0 ∧ ((e.get? 0).map (fun t => t.word.notCancelled)) = some false := by decide

/-- detached task: runs to completion, output dropped exactly once, allocation freed -/
example : ((run [.spawn [.wakeSelf, .ready], .hdetach 0, .tick 61, .tick 61]).get? 0).map
    (fun t => (t.polls, t.word.completed, t.resTaken, t.resDrops, t.deallocs)) = some (2, true, 0, 1, 1) := by decide

/-- a panicking task: the payload reaches the handle exactly once; the other task is untouched -/
example : let e := run [.spawn [.panic], .spawn [.pending], .tick 61]
    (applyR e (.hpoll 0 3)).2 = .join .panicked ∧
    ((apply e (.hpoll 0 3)).get? 0).map (fun t => (t.resTaken, t.resDrops, t.deallocs)) = some (1, 0, 1) ∧
    (e.get? 1).map (fun t => (t.polls, t.futDrops, t.word.completed)) = some (1, 0, false) := by decide

/-- completion wakes the waker the handle was parked with; a second, different waker replaces the first -/
example : (run [.spawn [.pending, .ready], .hpoll 0 7, .tick 61, .hpoll 0 8, .wake 0, .tick 61]).woken = [] ∧
    (run [.spawn [.wakeSelf, .ready], .hpoll 0 7, .tick 61, .hpoll 0 8, .tick 61]).woken = [8] ∧
    ((run [.spawn [.wakeSelf, .ready], .hpoll 0 7, .tick 61, .hpoll 0 8, .tick 61]).get? 0).map
      (fun t => (t.slotSets, t.slotDrops)) = some (2, 2) := by decide

/-- executor dropped while a waker clone and the handle live on: freed only when both are gone -/
example : let e := run [.spawn [.cloneWaker, .ready], .tick 61, .xdrop]
    (e.get? 0).map (fun t => (t.futDrops, t.deallocs, t.word.count)) = some (1, 0, 2) ∧
    ((apply e (.hpoll 0 1)).get? 0).map (fun t => (t.deallocs, t.handle)) = some (0, false) ∧
    ((run [.spawn [.cloneWaker, .ready], .tick 61, .xdrop, .wake 0, .hpoll 0 1, .wdrop 0]).get? 0).map
      (fun t => (t.deallocs, t.uaf, t.futDrops)) = some (1, 0, 1) := by decide

/-- `no_starvation` with `max_interval = 1`: three self-waking tasks, the one at position 2 is polled in
the third tick; and the theorem's hypotheses hold for it -/
example : let e := run [.spawn [.wakeSelf, .wakeSelf, .wakeSelf], .spawn [.wakeSelf, .wakeSelf], .spawn [.ready]]
    e.hot[2]? = some 2 ∧ (tickN e 1 3).2 = [0, 1, 2] ∧ (tickN e 1 2).2 = [0, 1] := by decide

example : 2 ∈ (tickN (run [.spawn [.wakeSelf, .wakeSelf, .wakeSelf], .spawn [.wakeSelf, .wakeSelf], .spawn [.ready]]) 1 3).2 :=
  no_starvation _ (run_inv _) 1 (by decide) 3 2 2 (by decide) ((liveIn_iff _ _).mpr (by decide)) (by decide)

/-- `JoinHandle::cancel` on a completed task returns its output; on a running one, `None` -/
example : (applyR (run [.spawn [.ready], .tick 61]) (.hcancel 0)).2 = .cancel .ok ∧
    (applyR (run [.spawn [.pending], .tick 61]) (.hcancel 0)).2 = .cancel .cancelled := by decide

/-! ## 7. The join handle on ANOTHER thread (Compio/Model/RemoteJoin.lean)

One task, executor thread `E` and handle thread `H`; every transition is one atomic access to the task
word (through a function regenerated from task/state.rs) or one access to the waker slot / storage.
`Reachable true s`: `s` is reached by SOME interleaving of the current `Remote::poll` / `Task::run` /
`Task::drop` / `Task::cancel` / `impl Drop for Task` programs (`reachable_iff_trace`); the theorems hold
for ALL of them and for all waker ids. `Reachable false` is the program before fix e466077. -/

section remote
open Compio.RemoteJoin

/-- reachable states = end states of the event lists accepted by the LTS -/
theorem remote_reachable_iff_trace (fixed : Bool) (s : RState) :
    Reachable fixed s ↔ ∃ ls : List Label, Trace fixed RemoteJoin.init ls s := reachable_iff_trace

/-- (i) slot exclusivity: no two threads ever have the waker slot as the target of their next access -/
theorem remote_slot_exclusive (s : RState) (h : Reachable true s) :
    ¬ (eAccessesSlot s = true ∧ hAccessesSlot s = true) := slot_exclusive h

/-- (i) executor side: E touches the slot only after a snapshot with HAS_WAKER and without SETTING_WAKER,
while H is not comparing / writing / about to publish; the last holder touches it only when H is gone -/
theorem remote_slot_section_executor (s : RState) (h : Reachable true s) (he : eAccessesSlot s = true) :
    (s.hpc ≠ .compare ∧ s.hpc ≠ .write ∧ s.hpc ≠ .finishTrue) ∧
    (s.epc = .wake ∨ s.epc = .dropSlot →
      TaskState.hasWaker s.esnap = true ∧ TaskState.isSettingWaker s.esnap = false) ∧
    (s.epc = .last → s.hpc = .done) := slot_section_executor h he

/-- (i) handle side: H compares / writes the slot only inside its SETTING_WAKER section, and then E is
not at a slot access; the SETTING_WAKER bit is exactly "H is inside the section" -/
theorem remote_slot_section_handle (s : RState) (h : Reachable true s) :
    (s.hpc = .compare ∨ s.hpc = .write → TaskState.isSettingWaker s.word = true ∧ eAccessesSlot s = false) ∧
    TaskState.isSettingWaker s.word = hInSection s :=
  ⟨fun hh => slot_section_handle h hh, setting_waker_iff_in_section h⟩

/-- the future/result storage is never accessed by both threads, and never in the wrong variant; the
slot is never read or dropped uninitialised -/
theorem remote_storage_exclusive (s : RState) (h : Reachable true s) :
    ¬ (eAccessesStorage s = true ∧ hAccessesStorage s = true) ∧ s.bad = 0 :=
  ⟨storage_exclusive h, no_bad_access h⟩

/-- (ii) DELIVERY (false before fix e466077: `Compio.Cex.C04.delivery_counterexample_unfixed`): whenever the
handle's last poll returned Pending with waker `w`, the task has completed and the executor is past
`Task::run`'s wake decision, `w` has been woken -/
theorem remote_delivery (s : RState) (h : Reachable true s) (w : Nat) (hp : s.parked = some w)
    (hc : TaskState.isCompleted s.word = true) (he : ePastWake s = true) : w ∈ s.woken :=
  delivery h w hp hc he

/-- while the handle is parked with `w` and the task is still running, `w` sits in the slot under
HAS_WAKER; and it is `w` that the executor's wake reads -/
theorem remote_parked_waker_in_slot (s : RState) (h : Reachable true s) (w : Nat) (hp : s.parked = some w) :
    (TaskState.isCompleted s.word = false →
      (s.epc = .idle ∨ s.epc = .poll ∨ s.epc = .finishRunning ∨ s.epc = .wake ∨ s.epc = .setDropped) →
      s.slot = some w ∧ TaskState.hasWaker s.word = true ∧ TaskState.isSettingWaker s.word = false) ∧
    (s.epc = .wake → s.slot = some w) :=
  ⟨fun hc hd => pending_means_slot h w hp hc hd, fun he => wake_reads_parked_waker h w hp he⟩

/-- (iii) across threads: the output is taken xor dropped at most once, exactly once after deallocation
iff the task completed; the handle got `Ready(Some)` iff it took the output -/
theorem remote_result_once (s : RState) (h : Reachable true s) :
    s.resTaken + s.resDrops ≤ 1 ∧
    (s.deallocs = 1 → (s.resTaken + s.resDrops = 1 ↔ TaskState.isCompleted s.word = true)) ∧
    (s.hret = some true ↔ s.resTaken = 1) ∧ (s.hret = some false → TaskState.isCancelled s.word = true) :=
  ⟨(result_once h).1, (result_once h).2, (join_result h).1, (join_result h).2⟩

/-- (iii) the future is polled only while it is there, dropped exactly once, ... -/
theorem remote_future_once (s : RState) (h : Reachable true s) :
    s.futDrops ≤ 1 ∧ (s.epc = .dec ∨ s.epc = .last ∨ s.epc = .done → s.futDrops = 1) ∧
    (s.futDrops = 0 ↔ s.storage = .future) ∧
    (s.epc = .poll → s.storage = .future ∧ TaskState.isCompleted s.word = false) :=
  ⟨(future_once h).1, (future_once h).2.1, (future_once h).2.2, fun hp => poll_only_future h hp⟩

/-- ... and only by the executor thread: every transition that polls or drops the future is the
executor's, every transition that takes the output is the handle's (any program, any state) -/
theorem remote_future_on_home_thread (fixed : Bool) (s s' : RState) (l : Label) (hs : Step fixed s l s') :
    (s'.futDrops ≠ s.futDrops ∨ s'.polls ≠ s.polls → l.actor = .E) ∧
    (s'.resTaken ≠ s.resTaken → l.actor = .H) :=
  ⟨fun hne => future_dropped_by_executor_only hs hne, fun hne => result_taken_by_handle_only hs hne⟩

/-- (iii) deallocation exactly once, when both holders are done; the count is the number of holders;
nothing is accessed after the free -/
theorem remote_dealloc_once (s : RState) (h : Reachable true s) :
    s.deallocs ≤ 1 ∧ (s.deallocs = 1 ↔ (s.epc = .done ∧ s.hpc = .done)) ∧ s.uaf = 0 ∧
    TaskState.count s.word = (if s.epc = .last ∨ s.epc = .done then 0 else 1) +
      (if s.hpc = .last ∨ s.hpc = .done then 0 else 1) :=
  ⟨(dealloc_once h).1, (dealloc_once h).2.1, (dealloc_once h).2.2, count_is_holders h⟩

/-- join-waker accounting across threads. The full statement "no waker is left in the slot when the
allocation is freed" is FALSE on the current code (finding F040,
`Compio.Cex.C04.waker_leak_counterexample`); what holds: -/
theorem remote_waker_accounting_partial (s : RState) (h : Reachable true s) :
    s.slotSets = s.slotDrops + (if s.slot.isSome then 1 else 0) ∧
    (TaskState.hasWaker s.word = true → s.deallocs = 0 → s.slot.isSome = true) ∧
    (s.deallocs = 1 →
      (∀ w : Nat, s.slot = some w → s.eroute = .completed ∧ w ∈ s.woken) ∧
      (s.eroute ≠ .completed → s.slot = none ∧ s.slotSets = s.slotDrops)) :=
  ⟨waker_slot_accounting h, (waker_flag_slot h).1, fun hd => slot_dropped_at_dealloc_partial h hd⟩

end remote

end Compio.Props.C04
