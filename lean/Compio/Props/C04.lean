/- C04 — task and join-handle lifecycle (work in progress; see notes/C04.md) -/
import Compio.Model.Executor

namespace Compio.Props.C04
open Compio.Executor

theorem init_alive : Exec.init.alive = true := rfl

end Compio.Props.C04
