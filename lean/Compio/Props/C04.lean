/-
C04 — task and join-handle lifecycle (compio-executor).
Property theorems only; helper lemmas live in Compio/Lemmas/Executor*.lean and Lemmas/RemoteJoin.lean.

Part 1: the executor's home thread, with handles and wakers used there or — sequentially — on another
thread (`Remote::schedule` + sync queue + `drain_sync`, `Remote::poll`). All statements are about the
functions the driver executes (`Compio.Executor.applyR` / `apply` / `run`) and hold for EVERY program
`ops : List Op` and every `sync_queue_size = q`.
Part 2: the join handle polled / dropped on another thread (labelled transition system
Compio/Model/RemoteJoin.lean), for every interleaving.
-/
import Compio.Lemmas.ExecutorSteps
import Compio.Lemmas.RemoteJoinTie
import Compio.Gen.TaskOrder
import Compio.Lemmas.QueueRefine

namespace Compio.Props.C04
open Compio.TaskWord Compio.Gen Compio.Executor

/-! ## 0. The statement order of the source functions the model follows

`Gen/TaskOrder.lean` is regenerated from /repo on every run: for each function the calls on a whitelist,
in evaluation order, with their innermost guard. The theorems pin the order the hand model executes;
reordering, dropping or adding one of these calls in the source makes them fail. -/

/-- `Task::cancel`: `schedule()` FIRST, then `set_cancelled()` (the model: `scheduleLocal` / `remoteSchedule` before `cancelWord`). With the two swapped a handle dropped on another thread never makes the task runnable: `Remote::schedule` returns early on `is_cancelled` (seeded defect C04-c). -/
theorem source_order_taskCancel : TaskOrder.taskCancel = [
  ("schedule", ""),
  ("set_cancelled", ""),
  ("has_result", ""),
  ("set_has_result::<Strong,false>", "if drop_result&&state.has_result()"),
  ("drop_future", "if drop_result&&state.has_result()")
] := by decide

/-- `Task::run`: `unschedule()` unconditionally FIRST (the model: `runTask` clears SCHEDULED before anything else), early return when cancelled, the poll, and only on Ready `finish_running` and the wake of the join waker; nothing touches the word after a Pending poll (seeded defect C04-a cleared SCHEDULED there). -/
theorem source_order_taskRun : TaskOrder.taskRun = [
  ("unschedule", ""),
  ("is_cancelled", ""),
  ("return", "if state.is_cancelled()"),
  ("run_future", ""),
  ("is_ready", ""),
  ("finish_running", "if res.is_ready()"),
  ("has_waker", "if res.is_ready()"),
  ("is_setting_waker", "if res.is_ready()"),
  ("wake_by_ref", "if state.has_waker()&&!state.is_setting_waker()")
] := by decide

/-- `Task::drop` (called by the executor): `set_dropped`, `shared := null`, drop the future unless completed, drop the join waker unless a remote handle is inside its SETTING_WAKER section (the model: `taskDropByExecutor`) -/
theorem source_order_taskDrop : TaskOrder.taskDrop = [
  ("set_dropped", ""),
  ("store", ""),
  ("return", "if ::std::thread::panicking()"),
  ("is_completed", ""),
  ("drop_future", "if !state.is_completed()"),
  ("has_waker", ""),
  ("is_setting_waker", ""),
  ("drop_in_place", "if state.has_waker()&&!state.is_setting_waker()")
] := by decide

/-- `impl Drop for Task`: `dec`; the last holder drops result and waker if flagged, then deallocates (the model: `dropRef`) -/
theorem source_order_taskRelease : TaskOrder.taskRelease = [
  ("dec", ""),
  ("count", ""),
  ("return", "if state.count()>1"),
  ("dealloc", "if ::std::thread::panicking()"),
  ("return", "if ::std::thread::panicking()"),
  ("has_result", ""),
  ("drop_future", "if state.has_result()"),
  ("has_waker", ""),
  ("drop_in_place", "if state.has_waker()"),
  ("dealloc", "")
] := by decide

/-- `Remote::schedule`: `start_scheduling`, early return on scheduled / completed / cancelled / null `shared`, reserve (`pending.fetch_add`) BEFORE the push loop, driver waker when the queue is full or after the push, `finish_scheduling` on every path (the model: `remoteSchedTask`, `remoteSchedule`, `remoteWakeB`) -/
theorem source_order_remoteSchedule : TaskOrder.remoteSchedule = [
  ("start_scheduling", ""),
  ("is_scheduled", ""),
  ("is_completed", ""),
  ("is_cancelled", ""),
  ("finish_scheduling", "if state.is_scheduled()||state.is_completed()||state.is_cancelled()"),
  ("return", "if state.is_scheduled()||state.is_completed()||state.is_cancelled()"),
  ("load", ""),
  ("finish_scheduling", "let-else"),
  ("return", "let-else"),
  ("fetch_add", ""),
  ("push", "while-cond shared.sync.push(self.header().id).is_err()"),
  ("wake_by_ref", "if !notified&&letSome(refwaker)=shared.waker"),
  ("load::<Strong>", "else(!notified&&letSome(refwaker)=shared.waker)"),
  ("is_cancelled", "else(!notified&&letSome(refwaker)=shared.waker)"),
  ("fetch_sub", "if self.header().state.load::<Strong>().is_cancelled()"),
  ("finish_scheduling", "if self.header().state.load::<Strong>().is_cancelled()"),
  ("return", "if self.header().state.load::<Strong>().is_cancelled()"),
  ("yield_now", "else(self.header().state.load::<Strong>().is_cancelled())"),
  ("wake_by_ref", "if letSome(refwaker)=shared.waker"),
  ("finish_scheduling", "")
] := by decide

/-- `Local::schedule`: null check, `drain_sync`, then `make_hot` (the model: `scheduleLocal`) -/
theorem source_order_localSchedule : TaskOrder.localSchedule = [
  ("load", ""),
  ("return", "let-else"),
  ("drain_sync", ""),
  ("make_hot", ""),
  ("wake_by_ref", "if letSome(refwaker)=shared.waker")
] := by decide

/-- `Shared::drain_sync`: fast path on `pending == 0`, pop and `make_hot` everything, then SUBTRACT the number drained (the model: `drainSync`; seeded defect C04-b stored 0 instead, wiping the reservation of a blocked pusher) -/
theorem source_order_drainSync : TaskOrder.drainSync = [
  ("load", ""),
  ("return", "if self.pending.load(Ordering::Acquire)==0"),
  ("pop", "while-cond letSome(id)=self.sync.pop()"),
  ("make_hot", "while letSome(id)=self.sync.pop()"),
  ("fetch_sub", "if drained!=0")
] := by decide

/-- `Executor::tick`: `drain_sync` first, then for each of at most `max_interval` hot ids `make_cold`, `take`, `run`, and `drop` + `remove` on Ready or `reset` otherwise; `has_hot` (the model: `tickFrom`, `tickLoop`, `tickStep`, `runOne`) -/
theorem source_order_tick : TaskOrder.tick = [
  ("drain_sync", ""),
  ("iter_hot", ""),
  ("take", ""),
  ("make_cold", "for queue.iter_hot().take(self.config.max_intervalas_)"),
  ("take", "for queue.iter_hot().take(self.config.max_intervalas_)"),
  ("run", "for queue.iter_hot().take(self.config.max_intervalas_)"),
  ("drop", "if res.is_ready()"),
  ("remove", "if res.is_ready()"),
  ("reset", "else(res.is_ready())"),
  ("has_hot", "")
] := by decide

/-- `TaskQueue::remove`: look the item up, unlink it from the list it IS in (`is_hot` ⇒ hot, else cold), then take it out of the map (the model: `removeTask` erases the id from both lists). A task that woke itself during the poll that returned Ready is hot again when it is removed; the seeded defect C04-2a unlinked from the cold list only. -/
theorem source_order_queueRemove : TaskOrder.queueRemove = [
  ("get", ""),
  ("?", ""),
  ("unlink::<HOT>", "if is_hot"),
  ("unlink::<COLD>", "else(is_hot)"),
  ("remove", ""),
  ("?", "")
] := by decide

/-- `Inner::make_hot`: unknown key or already hot ⇒ nothing; else unlink from cold, link to the hot tail (the model: `makeHot`) -/
theorem source_order_queueMakeHot : TaskOrder.queueMakeHot = [
  ("get", ""),
  ("return", "let-else"),
  ("return", "if item.is_hot"),
  ("unlink::<COLD>", ""),
  ("link_tail::<HOT>", "")
] := by decide

/-- `Inner::make_cold`: unknown key ⇒ nothing; else unlink from hot, link to the cold tail (the model: `makeCold`) -/
theorem source_order_queueMakeCold : TaskOrder.queueMakeCold = [
  ("get", ""),
  ("return", "let-else"),
  ("unlink::<HOT>", ""),
  ("link_tail::<COLD>", "")
] := by decide

/-- `Executor::clear`: empty the sync queue, then drop every task of the map (the model: `clearAll`) -/
theorem source_order_clear : TaskOrder.clear = [
  ("pop", "while-cond self.shared().sync.pop().is_some()"),
  ("clear", "")
] := by decide

/-- `Inner::link_tail`: read the old tail, `list.tail := key`, `list.head := key` if the list was empty, then the item's `prev := old_tail`, `next := None`, `is_hot := HOT`, and last the old tail's `next := key` (the model: `QueueIntrusive.linkTail`, same order) -/
theorem source_shape_queueLinkTailBody : TaskOrder.queueLinkTailBody = [
  ("let list=ifHOT{&mutself.hot}else{&mutself.cold}", ""),
  ("let old_tail=list.tail", ""),
  ("list.tail=Some(key)", ""),
  ("list.head=Some(key)", "if list.head.is_none()"),
  ("let item=self.map.get_mut(key).expect(\"itemexists\")", ""),
  ("item.prev=old_tail", ""),
  ("item.next=None", ""),
  ("item.is_hot=HOT", ""),
  ("tail_item.next=Some(key)", "if letSome(tail_key)=old_tail&&letSome(tail_item)=self.map.get_mut(tail_key)")
] := by decide

/-- `Inner::unlink`: read the item's `(prev, next)`, `list.head := next` if it was the head, `list.tail := prev` if it was the tail, `prev.next := next`, `next.prev := prev`; the list is chosen by the const argument, NOT by `item.is_hot` (the model: `QueueIntrusive.unlink` with the same flag; unlinking with the wrong flag leaves a dead key as head/tail — `QueueIntrusive` example) -/
theorem source_shape_queueUnlinkBody : TaskOrder.queueUnlinkBody = [
  ("let list=ifHOT{&mutself.hot}else{&mutself.cold}", ""),
  ("let (prev,next)={letitem=self.map.get(key).expect(\"itemexists\");debug_assert_eq!(item.is_hot,HOT);(item.prev,item.next)}", ""),
  ("list.head=next", "if list.head==Some(key)"),
  ("list.tail=prev", "if list.tail==Some(key)"),
  ("prev_item.next=next", "if letSome(prev_key)=prev&&letSome(prev_item)=self.map.get_mut(prev_key)"),
  ("next_item.prev=prev", "if letSome(next_key)=next&&letSome(next_item)=self.map.get_mut(next_key)")
] := by decide

/-- `Iter::next` of `iter_hot`: yield `curr` after PREFETCHING `curr := next_hot(curr)` (the model: `tickLoop` takes `nextHot e.hot id` before the loop body; `QueueIntrusive.iterNext`) -/
theorem source_shape_queueNextBody : TaskOrder.queueNextBody = [
  ("let curr=self.curr?", ""),
  ("self.curr=self.queue.next_hot(curr)", "")
] := by decide

/-- `Remote::poll`: BOTH `finish_setting_waker::<true>()` call sites (the one that leaves an up-to-date waker in place
and the one that has just installed a new waker) bind the returned snapshot and go round the loop again when it
says completed or cancelled — the executor, seeing SETTING_WAKER, skipped the wake-up. This is the premise of
`remote_delivery`: `RemoteJoin.pollRechecks` is computed from this literal (seeded defect C04-2b dropped the
re-check on the new-waker site; fix e466077 had introduced both). -/
theorem source_shape_remote_poll : TaskOrder.remotePollFinishSites = [
  ("::<true>", "", true),
  ("::<false>", "if state.has_result()", false),
  ("::<false>", "if state.is_cancelled()", false),
  ("::<true>", "if state.has_waker()&&self.header().waker.with(|waker|cx.waker().will_wake(unsafe{(&*waker).assume_init_ref()}))", true)
] := by decide

/-- in particular: the cross-thread wake-up / cancellation protocol relies on these three orders -/
theorem source_order_protocol :
    (TaskOrder.taskCancel.map (·.1)).take 2 = ["schedule", "set_cancelled"] ∧
    (TaskOrder.taskRun.map (·.1)).head? = some "unschedule" ∧
    (TaskOrder.taskRun.map (·.1)).getLast? = some "wake_by_ref" ∧
    TaskOrder.drainSync.getLast? = some ("fetch_sub", "if drained!=0") ∧
    ¬ ("store" ∈ TaskOrder.drainSync.map (·.1)) := by decide

/-! ## 1. The lifecycle invariant, for every program -/

/-- the inductive invariant holds after every sequence of operations (and no `Remote::schedule` is
left blocked) -/
theorem lifecycle_invariant (q : Nat) (ops : List Op) : Inv (run q ops) ∧ (run q ops).inflight = none :=
  ⟨run_inv q ops, (run_invB q ops).idle⟩

/-- every operation preserves it (so it also holds between the operations of a program) -/
theorem lifecycle_invariant_step (e : Exec) (h : InvB e) (op : Op) : InvB (apply e op) := apply_invB h op

section unpacked
variable (q : Nat) (ops : List Op) (id : Nat) (t : TaskSt) (hg : (run q ops).get? id = some t)
include hg

/-- (R) reference count = number of holders: the executor (while the task is queued), the handle, the wakers -/
theorem refcount_eq_holders (hd : t.deallocs = 0) :
    t.word.count = (if inMap (run q ops) id then 1 else 0) + (if t.handle then 1 else 0) + t.wakers :=
  ((run_inv q ops).t id t hg).rc hd

/-- (D) the allocation is freed at most once, exactly when the last holder is gone, and nothing touches it
afterwards -/
theorem dealloc_exactly_once :
    t.deallocs ≤ 1 ∧
    (t.deallocs = 1 ↔ (if inMap (run q ops) id then 1 else 0) + (if t.handle then 1 else 0) + t.wakers = 0) ∧
    t.uaf = 0 := by
  have h := (run_inv q ops).t id t hg
  have hdl := h.dl
  unfold holders at hdl
  by_cases hz : (if inMap (run q ops) id then 1 else 0) + (if t.handle then 1 else 0) + t.wakers = 0
  · rw [if_pos hz] at hdl
    exact ⟨by omega, by simp [hdl, hz], h.uaf⟩
  · rw [if_neg hz] at hdl
    exact ⟨by omega, ⟨fun h1 => by omega, fun h1 => absurd h1 hz⟩, h.uaf⟩

/-- (F) the future is dropped at most once; while the task is queued it is alive (not dropped, not
completed, storage = future, `shared` valid); once the executor let go of the task (completion,
cancellation, executor drop) it has been dropped exactly once -/
theorem future_dropped_exactly_once :
    t.futDrops ≤ 1 ∧
    (inMap (run q ops) id = true →
      t.storage = .future ∧ t.futDrops = 0 ∧ t.word.completed = false ∧ t.shared = true) ∧
    (inMap (run q ops) id = false → t.futDrops = 1 ∧ t.shared = false) := by
  have h := (run_inv q ops).t id t hg
  refine ⟨?_, fun hi => ⟨h.inq_st hi, h.inq_fd hi, h.inq_c hi, h.inq_sh hi⟩, fun hi => ⟨h.outq_fd hi, h.outq_sh hi⟩⟩
  cases hi : inMap (run q ops) id
  · rw [h.outq_fd hi]; omega
  · rw [h.inq_fd hi]; omega

/-- (P) the future is never polled after it completed (and never once cancelled: `cancelled_never_polled`) -/
theorem never_polled_after_completion : t.badPolls = 0 := ((run_inv q ops).t id t hg).bp

/-- (S) HAS_RESULT ⇔ the storage holds a result; the output / panic payload is taken or dropped at most
once; once the allocation is freed: exactly once iff the task completed -/
theorem result_exactly_once :
    (t.deallocs = 0 → (t.word.hasResult = true ↔ (t.storage = .resultOk ∨ t.storage = .resultPanic))) ∧
    t.resTaken + t.resDrops ≤ 1 ∧
    (t.deallocs = 1 → (t.resTaken + t.resDrops = 1 ↔ t.word.completed = true)) := by
  have h := (run_inv q ops).t id t hg
  refine ⟨?_, ?_, ?_⟩
  · intro hd
    rw [h.res hd]
    cases t.storage <;> simp [isRes]
  · rw [h.cnt]; split <;> omega
  · intro hd
    rw [h.cnt, hd]
    cases t.word.completed <;> simp

/-- (W) HAS_WAKER ⇔ the waker slot is occupied; every join waker stored is dropped exactly once, except
the one still stored; none is left when the allocation is freed -/
theorem join_waker_accounting :
    (t.word.hasWaker = true ↔ t.slot.isSome = true) ∧
    t.slotSets = t.slotDrops + (if t.slot.isSome then 1 else 0) ∧
    (t.deallocs = 1 → t.slot = none ∧ t.slotSets = t.slotDrops) := by
  have h := (run_inv q ops).t id t hg
  refine ⟨by rw [h.wk], h.sl, ?_⟩
  intro hd
  have hin : inMap (run q ops) id = false := by
    cases hi : inMap (run q ops) id
    · rfl
    · have := h.dl; rw [hd, hi] at this; simp [holders] at this
  have hs := h.outq_slot hin
  exact ⟨hs, by rw [h.sl, hs]; simp⟩

/-- the home thread never leaves the SETTING_WAKER section open -/
theorem not_setting_waker : t.word.notSettingWaker = true := ((run_inv q ops).t id t hg).nsw

end unpacked

/-- (Q) the queues are duplicate-free, disjoint, and contain only valid task ids -/
theorem queue_well_formed (q : Nat) (ops : List Op) :
    (run q ops).hot.Nodup ∧ (run q ops).cold.Nodup ∧ (∀ x, x ∈ (run q ops).hot → x ∉ (run q ops).cold) ∧
    (∀ x, x ∈ (run q ops).hot ∨ x ∈ (run q ops).cold → x < (run q ops).tasks.length) := by
  have q := (run_inv q ops).q
  exact ⟨q.hnd, q.cnd, fun x h1 h2 => q.disj x h1 h2, fun x h => h.elim (q.hval x) (q.cval x)⟩

/-- (D) no use after free, in its strongest form: once the allocation of a task was freed, no
operation whatsoever changes (or reads through a live holder) that task any more -/
theorem nothing_touches_freed_task (q : Nat) (ops : List Op) (id : Nat) (t : TaskSt)
    (hg : (run q ops).get? id = some t) (hd : t.deallocs = 1) (op : Op) :
    (apply (run q ops) op).get? id = some t := frozen_after_free (run_invB q ops) hg hd op

/-- tasks are never forgotten, and each evolves only by the primitive per-task steps of the model -/
theorem task_evolves_by_steps (q : Nat) (ops more : List Op) (id : Nat) (t : TaskSt)
    (hg : (run q ops).get? id = some t) :
    ∃ t', (run q (ops ++ more)).get? id = some t' ∧ TaskSteps true t t' := by
  have := foldl_steps more (run_invB q ops) hg
  simpa [run, List.foldl_append] using this

/-- the queue clause for cross-thread wake-ups and cancellations: between operations, a task that is
still queued and has its SCHEDULED bit set, or is cancelled, is in the hot queue or in the sync queue —
the next tick reaches it -/
theorem scheduled_or_cancelled_is_reachable (q : Nat) (ops : List Op) (id : Nat) (t : TaskSt)
    (hg : (run q ops).get? id = some t) (hq : inMap (run q ops) id = true)
    (hs : t.word.scheduled = true ∨ t.word.notCancelled = false) :
    id ∈ (run q ops).hot ∨ id ∈ (run q ops).sync := by
  have h := run_invB q ops
  rcases (inMap_iff _ _).mp hq with h1 | h1
  · exact Or.inl h1
  · rcases hs with hs | hs
    · rcases h.inv.s id t hg hs h1 with h2 | h2
      · exact Or.inr h2
      · rw [h.idle] at h2; cases h2
    · rcases h.inv.c id t hg hs h1 with h2 | h2
      · exact Or.inr h2
      · rw [h.idle] at h2; cases h2

/-- `Shared::pending` never under-counts the sync queue: the fast path of `drain_sync` skips nothing -/
theorem pending_bounds_sync (q : Nat) (ops : List Op) : (run q ops).sync.length ≤ (run q ops).pending := by
  have := (run_inv q ops).p
  omega

/-! ## 2. Polls happen only inside ticks; the handle API never hits its `unreachable!` -/

/-- (P) no operation other than a tick (`tick`, or the tick the executor runs while a remote waker is
blocked: `rwakeb`) polls any future -/
theorem polls_only_in_tick (e : Exec) (h : InvB e) (op : Op) (hop : op.ticks = false)
    (id : Nat) (t : TaskSt) (hg : e.get? id = some t) :
    ∃ t', (apply e op).get? id = some t' ∧ t'.polls = t.polls := by
  obtain ⟨t', hg', hs⟩ := apply_steps h op hg
  rw [hop] at hs
  exact ⟨t', hg', taskSteps_norun_polls hs⟩

/-- (P) `tick` polls exactly what its log says: the poll counter of every task grows by the number of
times its id occurs in the log returned by `tick` -/
theorem tick_polls_exactly_logged (e : Exec) (h : Inv e) (n : Nat) (id : Nat) (t : TaskSt)
    (hg : e.get? id = some t) :
    ∃ t', (tick e n).1.get? id = some t' ∧ t'.polls = t.polls + (tick e n).2.1.count id := by
  have sf := tickStart_facts h
  exact tickLoop_polls n (tickStart e) sf.inv id t (by rw [sf.get]; exact hg)

/-- `unreachable!("Task is completed but has no result")` in `Local::poll` is never reached -/
theorem local_poll_never_unreachable (e : Exec) (h : Inv e) (id w : Nat) (t : TaskSt)
    (hg : e.get? id = some t) (hh : t.handle = true) : (handlePoll e id w).2 ≠ .invalid := by
  rw [handlePoll_live w hg hh]
  exact pollTask_valid _ t w (h.t id t hg) hh

/-- `Remote::poll` never spins on a completed task without result; run without interference it does to
the task and returns exactly what `Local::poll` does -/
theorem remote_poll_never_stuck (e : Exec) (h : Inv e) (id w : Nat) (t : TaskSt)
    (hg : e.get? id = some t) (hh : t.handle = true) :
    (remoteHandlePoll e id w).2 ≠ .invalid ∧ remoteHandlePoll e id w = handlePoll e id w := by
  have hv := pollTask_valid _ t w (h.t id t hg) hh
  have he := remotePollTask_eq_pollTask t w (h.t id t hg).nsw hv
  constructor
  · simp only [remoteHandlePoll, hg, hh]; simpa [he] using hv
  · simp [remoteHandlePoll, handlePoll, hg, hh, he]

/-- `JoinHandle::cancel(self).await` completes with its first poll, on the home thread ... -/
theorem cancel_never_pending (e : Exec) (h : Inv e) (id : Nat) (t : TaskSt) (hg : e.get? id = some t)
    (hh : t.handle = true) :
    (applyR e (.hcancel id)).2 = .cancel .ok ∨ (applyR e (.hcancel id)).2 = .cancel .panicked ∨
    (applyR e (.hcancel id)).2 = .cancel .cancelled := by
  rw [hcancel_live h hg hh]
  rcases pollTask_cancelled (cancelWord t false) noopWaker (cancelWord_nc t false) with h | h | h <;> simp [h]

/-- ... and on another thread -/
theorem remote_cancel_never_pending (e : Exec) (id : Nat) (t : TaskSt) (hg : e.get? id = some t) :
    (remoteHandleCancel e id).2 = .ok ∨ (remoteHandleCancel e id).2 = .panicked ∨
    (remoteHandleCancel e id).2 = .cancelled := by
  simp only [remoteHandleCancel, remoteSchedule_get?_self hg]
  exact remotePollTask_cancelled _ noopWaker (cancelWord_nc _ false)

/-! ## 3. Dropping the handle cancels; detaching lets the task run; panics are contained; teardown -/

/-- dropping the handle of a task that is still queued cancels it and makes it hot (so the next ticks
reach it) -/
theorem hdrop_cancels_and_schedules (e : Exec) (h : Inv e) (id : Nat) (t : TaskSt) (hg : e.get? id = some t)
    (hh : t.handle = true) (hq : inMap e id = true) :
    id ∈ (handleDrop e id).1.hot ∧ cancelledIn (handleDrop e id).1 id := by
  rw [handleDrop_live hg hh]
  have hg' := get?_setTask_self (dropRef { cancelWord t true with handle := false })
    (show (scheduleLocal e id).get? id = some t by rw [scheduleLocal_get? h]; exact hg)
  refine ⟨?_, _, hg', by rw [dropRef_nc]; exact cancelWord_nc t true⟩
  have hm := (scheduleLocal_mem h id id).mpr ((inMap_iff e id).mp hq)
  rcases hm with hm | hm
  · exact hm
  · exact absurd hm (fun hc => scheduleLocal_not_cold h hg hc)

/-- the same when the handle is dropped on ANOTHER thread: `Remote::schedule` runs BEFORE `set_cancelled`,
so the id is pushed to the sync queue (or the task was already hot / scheduled): the task is cancelled and
the next tick reaches it -/
theorem remote_hdrop_cancels_and_schedules (e : Exec) (h : InvB e) (id : Nat) (t : TaskSt)
    (hg : e.get? id = some t) (hh : t.handle = true) (hq : inMap e id = true) :
    cancelledIn (remoteHandleDrop e id) id ∧
    (id ∈ (remoteHandleDrop e id).hot ∨ id ∈ (remoteHandleDrop e id).sync) := by
  have hh' : hasHandle e id = true := (hasHandle_iff e id).mpr ⟨t, hg, hh⟩
  have hinv := remoteHandleDrop_inv h.inv id hh'
  have hfl : (remoteHandleDrop e id).inflight = none := by
    simp only [remoteHandleDrop, remoteSchedule_get?_self hg]
    show (remoteSchedule e id).inflight = none
    rw [remoteSchedule_inflight]; exact h.idle
  have hget : ∃ t', (remoteHandleDrop e id).get? id = some t' ∧ t'.word.notCancelled = false := by
    simp only [remoteHandleDrop, remoteSchedule_get?_self hg]
    exact ⟨_, get?_setTask_self _ (remoteSchedule_get?_self hg), by rw [dropRef_nc]; exact cancelWord_nc _ true⟩
  obtain ⟨t', hg', hn⟩ := hget
  refine ⟨⟨t', hg', hn⟩, ?_⟩
  have hq' : id ∈ (remoteHandleDrop e id).hot ∨ id ∈ (remoteHandleDrop e id).cold := by
    simp only [remoteHandleDrop, remoteSchedule_get?_self hg]
    show id ∈ (remoteSchedule e id).hot ∨ id ∈ (remoteSchedule e id).cold
    rw [(remoteSchedule_fields e id).1, (remoteSchedule_fields e id).2.1]
    exact (inMap_iff e id).mp hq
  rcases hq' with h1 | h1
  · exact Or.inl h1
  · rcases hinv.c id t' hg' hn h1 with h2 | h2
    · exact Or.inr h2
    · rw [hfl] at h2; cases h2

/-- once cancelled, a task is never polled again and stays cancelled, whatever the program does next -/
theorem cancelled_never_polled_again (q : Nat) (ops more : List Op) (id : Nat) (t : TaskSt)
    (hg : (run q ops).get? id = some t) (hc : t.word.notCancelled = false) :
    ∃ t', (run q (ops ++ more)).get? id = some t' ∧ t'.polls = t.polls ∧ t'.word.notCancelled = false := by
  obtain ⟨t', hg', hs⟩ := foldl_steps more (run_invB q ops) hg
  refine ⟨t', by simpa [run, List.foldl_append] using hg', (taskSteps_mono hs).cpolls hc, ?_⟩
  cases hn : t'.word.notCancelled
  · rfl
  · rw [(taskSteps_mono hs).nc hn] at hc; cases hc

/-- ... and its future is dropped, unpolled, by the first tick that reaches it (position `p` < `n`) -/
theorem cancelled_dropped_when_reached (e : Exec) (h : Inv e) (n p id : Nat) (hx : e.hot[p]? = some id)
    (hp : p < n) (hc : cancelledIn e id) :
    inMap (tick e n).1 id = false ∧ id ∉ (tick e n).2.1 ∧
    ∃ t', (tick e n).1.get? id = some t' ∧ t'.futDrops = 1 := by
  have sf := tickStart_facts h
  have hc0 : cancelledIn (tickStart e) id := (liveIn_congr sf.get id).2.mpr hc
  have hgone : inMap (tick e n).1 id = false :=
    (tickLoop_visit n _ sf.inv p id (tickStart_hot_get h hx) hp).1 hc0
  obtain ⟨t, hg, hnc⟩ := hc0
  obtain ⟨t', hg', hpolls⟩ := tickLoop_polls n _ sf.inv id t hg
  obtain ⟨t'', hg'', hst⟩ := tickLoop_steps n _ sf.inv id t hg
  rw [hg'] at hg''; cases hg''
  have hcp := (taskSteps_mono hst).cpolls hnc
  refine ⟨hgone, ?_, t', hg', ?_⟩
  · intro hm
    have : 0 < (tick e n).2.1.count id := List.count_pos_iff.mpr hm
    have h2 : t'.polls = t.polls + (tick e n).2.1.count id := hpolls
    omega
  · have := (tick_inv h n).t id t' hg'
    rw [hgone] at this
    exact this.outq_fd rfl

/-- within ⌈(p+1)/n⌉ ticks, wherever it is in the hot queue -/
theorem cancelled_dropped_within (e : Exec) (h : Inv e) (n : Nat) (hn : 0 < n) (k p id : Nat)
    (hx : e.hot[p]? = some id) (hc : cancelledIn e id) (hp : p < k * n) :
    inMap (tickN e n k).1 id = false := tickN_drops_cancelled h n hn k p id hx hc hp

/-- dropping the handle cancels the task WHEREVER the handle was dropped or cancelled (home thread or
another thread): a cancelled task is reaped — future dropped unpolled, task out of the queue — within `k`
ticks as soon as `k * max_interval ≥ |hot| + |sync|` -/
theorem cancelled_reaped_within (q : Nat) (ops : List Op) (n : Nat) (hn : 0 < n) (k id : Nat)
    (hc : cancelledIn (run q ops) id)
    (hk : (run q ops).hot.length + (run q ops).sync.length ≤ k * n) :
    inMap (tickN (run q ops) n k).1 id = false ∧
    ∃ t', (tickN (run q ops) n k).1.get? id = some t' ∧ t'.futDrops = 1 := by
  have hb := run_invB q ops
  have hgone := tickN_reaps_cancelled hb n hn k hc hk
  obtain ⟨t, hg, _⟩ := hc
  obtain ⟨t', hg', _⟩ := tickN_steps n k hb.inv hg
  refine ⟨hgone, t', hg', ?_⟩
  have := (tickN_invB hb n k).inv.t id t' hg'
  rw [hgone] at this
  exact this.outq_fd rfl

/-- `detach` only gives up the handle's reference: the task stays where it is in the queue, keeps its
script and is not cancelled by it -/
theorem detach_keeps_running (e : Exec) (id : Nat) (t : TaskSt) (hg : e.get? id = some t)
    (hh : t.handle = true) :
    (handleDetach e id).1.hot = e.hot ∧ (handleDetach e id).1.cold = e.cold ∧
    ∃ t', (handleDetach e id).1.get? id = some t' ∧ t'.handle = false ∧ t'.script = t.script ∧
      t'.word.notCancelled = t.word.notCancelled ∧ t'.polls = t.polls := by
  rw [handleDetach_live hg hh]
  refine ⟨rfl, rfl, _, get?_setTask_self _ hg, ?_, ?_, by rw [dropRef_nc], by rw [dropRef_polls]⟩
  · exact ((dropRef_mono { t with handle := false }).hdl rfl).1
  · obtain ⟨⟨s, sg, nsw, hw, c, hr, nc, cnt⟩, st, slot, script, sh, hd, wk, polls, fd, rt, rd, ss, sd, de, uaf, bp⟩ := t
    cases hr <;> cases hw <;> simp [dropRef] <;> split <;> split <;> rfl

/-- after `detach` nobody takes the output: when the task has completed and its allocation is freed,
the output (or panic payload) has been dropped exactly once -/
theorem detached_output_dropped_once (q : Nat) (ops more : List Op) (id : Nat) (t t' : TaskSt)
    (hg : (run q ops).get? id = some t) (hh : t.handle = true)
    (hg' : (run q (ops ++ [.hdetach id] ++ more)).get? id = some t') :
    t'.handle = false ∧ t'.resTaken = 0 ∧
    (t'.deallocs = 1 → t'.word.completed = true → t'.resDrops = 1) := by
  have hinv := run_inv q ops
  have ht := hinv.t id t hg
  -- a live handle has not taken anything yet
  have hrt : t.resTaken = 0 := by
    have hc := ht.cnt
    have hd : t.deallocs = 0 := by
      have := ht.dl; simp [holders, hh] at this; exact this
    cases hcp : t.word.completed
    · simp [hcp] at hc; omega
    · have := ht.hd hh hcp
      simp [hcp, this, hd] at hc; omega
  have h1 : (run q (ops ++ [.hdetach id])).get? id = some (dropRef { t with handle := false }) := by
    rw [run_append]
    simp only [apply, applyR, handleDetach_live hg hh]
    exact get?_setTask_self _ hg
  obtain ⟨t2, hg2, hs⟩ := foldl_steps more (run_invB q (ops ++ [.hdetach id])) h1
  have hg2' : (run q (ops ++ [.hdetach id] ++ more)).get? id = some t2 := by
    simpa [run, List.foldl_append] using hg2
  rw [hg'] at hg2'; cases hg2'
  have hd1 := (dropRef_mono { t with handle := false }).hdl rfl
  have hd2 := (taskSteps_mono hs).hdl hd1.1
  have hrt' : t'.resTaken = 0 := by rw [hd2.2, hd1.2]; exact hrt
  refine ⟨hd2.1, hrt', ?_⟩
  intro hde hcp
  have := ((run_inv q (ops ++ [.hdetach id] ++ more)).t id t' hg').cnt
  simp [hcp, hde] at this
  omega

/-- frame lemma: running one task (whether its future returns, wakes itself locally or through another
thread, or PANICS) changes no other task's state -/
theorem runOne_frame (e : Exec) (id x : Nat) (hx : x ≠ id) : (runOne e id).1.get? x = e.get? x := by
  unfold runOne
  cases hg : e.get? id with
  | none => rfl
  | some t =>
    simp only
    rcases hr : runTask t with ⟨t', k, w⟩
    cases k <;> simp only [removeTask]
    · simp [Exec.get?, Exec.setTask, List.getElem?_set_ne (Ne.symm hx)]
    · exact get?_setTask_ne e t' hx
    · simp [Exec.get?, scheduleLocal_tasks, Exec.setTask, List.getElem?_set_ne (Ne.symm hx)]
    · rw [remoteScheduleGuarded_get?_ne _ hx]; exact get?_setTask_ne e t' hx
    · simp [Exec.get?, Exec.setTask, List.getElem?_set_ne (Ne.symm hx)]
    · simp [Exec.get?, scheduleLocal_tasks, Exec.setTask, List.getElem?_set_ne (Ne.symm hx)]

/-- a task whose future finishes leaves BOTH queues — also when it woke itself during that very poll and
`Local::schedule` had put it back on the hot tail (`queue.remove` must unlink it from the hot list: the
seeded defect C04-2a unlinked from the cold list only, leaving a dead key as `hot.tail`); the hot queue
stays duplicate-free with valid ids (`Inv`), so the next `make_hot` / `spawn` links behind a live task -/
theorem finished_task_leaves_queue (e : Exec) (h : Inv e) (id : Nat) (rest : List Nat) (hh : e.hot = id :: rest)
    (t : TaskSt) (hg : e.get? id = some t)
    (hk : (runTask t).2.1 = .finished ∨ (runTask t).2.1 = .finishedWoke) :
    inMap (tickStep e id).1 id = false ∧ Inv (tickStep e id).1 ∧
    ∃ w, (tickStep e id).1.hot = rest ++ w ∧ id ∉ w := by
  obtain ⟨t0, hg0, ht0, sf⟩ := tickStep_facts h hh
  rw [hg] at hg0; cases hg0
  have hnd := h.q.hnd
  rw [hh, List.nodup_cons] at hnd
  have hout : inMap (tickStep e id).1 id = false := by
    cases hi : inMap (tickStep e id).1 id
    · rfl
    · obtain ⟨t', hg', he | ⟨hk', _⟩⟩ := sf.taskEq
      · have ht' := sf.inv.t id t' hg'
        rw [hi] at ht'
        have hfd := ht'.inq_fd rfl
        rw [he] at hfd
        have := ((runTask_spec t ht0).1 (Or.inr hk)).outq_fd rfl
        omega
      · rcases hk with hk | hk <;> rw [hk] at hk' <;> cases hk'
  obtain ⟨w, hw⟩ := sf.hot
  refine ⟨hout, sf.inv, w, hw, ?_⟩
  intro hm
  rw [inMap_false_iff] at hout
  exact hout (Or.inl (by rw [hw]; simp [hm]))

/-- ... and no other task's membership in the executor's queue -/
theorem tickStep_queue_frame (e : Exec) (h : Inv e) (id : Nat) (rest : List Nat) (hh : e.hot = id :: rest)
    (x : Nat) (hx : x ≠ id) : inMap (tickStep e id).1 x = inMap e x := by
  obtain ⟨t, _, _, sf⟩ := tickStep_facts h hh
  cases hi : inMap e x
  · cases hi' : inMap (tickStep e id).1 x
    · rfl
    · rw [sf.sub x hi'] at hi; cases hi
  · exact sf.keep x hx hi

/-- a dropped executor stays dropped -/
theorem dead_stays_dead (e : Exec) (h : InvB e) (hd : e.alive = false) (op : Op) : (apply e op).alive = false := by
  have hsl : ∀ id, (scheduleLocal e id).alive = false := fun id => by rw [(scheduleLocal_fields h.inv id).2.2.1]; exact hd
  have hrs : ∀ (e' : Exec) id, e'.alive = false → (remoteSchedule e' id).alive = false :=
    fun e' id h' => by rw [(remoteSchedule_fields e' id).2.2.2.1]; exact h'
  cases op with
  | hcancel id =>
    rcases handle_dead_or_live e id with hd' | ⟨t, hg, hh⟩
    · simp [apply, hcancel_dead hd', hd]
    · simp [apply, hcancel_live h.inv hg hh, Exec.setTask, hsl]
  | _ => ?_
  all_goals unfold apply applyR
  case spawn sc => simp [hd]
  case tick n => simp [hd]
  case xdrop => simp [hd]
  case hpoll id w => simp only [handlePoll]; cases e.get? id <;> simp [hd]; split <;> simp [Exec.setTask, hd]
  case hdrop id => simp only [handleDrop]; cases e.get? id <;> simp [hd]; split <;> simp [Exec.setTask, hd, hsl]
  case hdetach id => simp only [handleDetach]; cases e.get? id <;> simp [hd]; split <;> simp [Exec.setTask, hd]
  case wake id => simp only [wakeLocal]; cases e.get? id <;> simp [hd]; split <;> simp [hd, hsl]
  case wdrop id => simp only [wakerDrop]; cases e.get? id <;> simp [hd]; split <;> simp [Exec.setTask, hd]
  case rwdrop id => simp only [wakerDrop]; cases e.get? id <;> simp [hd]; split <;> simp [Exec.setTask, hd]
  case rhpoll id w => simp only [remoteHandlePoll]; cases e.get? id <;> simp [hd]; split <;> simp [Exec.setTask, hd]
  case rhdrop id =>
    simp only
    cases hasHandle e id <;> simp [hd]
    split
    · exact hd
    · simp only [remoteHandleDrop]
      cases (remoteSchedule (chargeBudget e) id).get? id <;> simp [Exec.setTask, hrs (chargeBudget e) id hd]
  case rhcancel id =>
    simp only
    cases hasHandle e id <;> simp [hd]
    split
    · exact hd
    · simp only [remoteHandleCancel]
      cases (remoteSchedule (chargeBudget e) id).get? id <;> simp [Exec.setTask, hrs (chargeBudget e) id hd]
  case rwake id =>
    simp only
    cases hasWakerClone e id <;> simp [hd]
    split
    · exact hd
    · exact hrs (chargeBudget e) id hd
  case rwakeb id n =>
    simp only
    cases hw : hasWakerClone e id <;> simp [hd]
    -- all tasks of a dropped executor are cancelled: `Remote::schedule` returns early
    obtain ⟨t, hg, _⟩ := (hasWakerClone_iff e id).mp hw
    have ht := h.inv.t id t hg
    have hin : inMap e id = false := by
      rw [inMap_false_iff, (h.inv.dead hd).1, (h.inv.dead hd).2]; simp
    rw [hin] at ht
    rw [remoteWakeB_early n hg (Or.inr (Or.inr (Or.inl (ht.outq_nc rfl))))]
    exact hrs e id hd

/-- executor torn down while handles and wakers are still used elsewhere (on any thread): whatever
happens afterwards, every task whose handle and wakers are gone has been freed (exactly once, by
`dealloc_exactly_once`), its future dropped exactly once -/
theorem teardown_frees_everything (q : Nat) (ops more : List Op) (id : Nat) (t : TaskSt)
    (hg : (run q (ops ++ [.xdrop] ++ more)).get? id = some t) (hh : t.handle = false) (hw : t.wakers = 0) :
    t.deallocs = 1 ∧ t.futDrops = 1 ∧ t.uaf = 0 := by
  have hdead : (run q (ops ++ [.xdrop] ++ more)).alive = false := by
    have h1 : (run q (ops ++ [.xdrop])).alive = false := by
      rw [run_append]
      unfold apply applyR
      cases ha : (run q ops).alive <;> simp [ha, execDrop]
    have : ∀ (l : List Op) (e : Exec), InvB e → e.alive = false → (l.foldl apply e).alive = false := by
      intro l
      induction l with
      | nil => intro e _ he; exact he
      | cons op l ih => intro e hb he; exact ih _ (apply_invB hb op) (dead_stays_dead e hb he op)
    have he : run q (ops ++ [.xdrop] ++ more) = more.foldl apply (run q (ops ++ [.xdrop])) := by
      simp [run, List.foldl_append]
    rw [he]; exact this more _ (run_invB q (ops ++ [.xdrop])) h1
  have hinv := run_inv q (ops ++ [.xdrop] ++ more)
  obtain ⟨d1, d2⟩ := hinv.dead hdead
  have hin : inMap (run q (ops ++ [.xdrop] ++ more)) id = false := by
    rw [inMap_false_iff, d1, d2]; simp
  have ht := hinv.t id t hg
  rw [hin] at ht
  refine ⟨?_, ht.outq_fd rfl, ht.uaf⟩
  have := ht.dl
  simpa [holders, hh, hw] using this

/-! ## 4. Tick order and no starvation -/

/-- `tick` polls in hot-queue (FIFO) order: position `p < n` of the poll log is the task at position `p`
of the hot queue, provided the hot tasks up to `p` are live (a cancelled one is dropped instead of polled) -/
theorem tick_polls_in_hot_order (e : Exec) (h : Inv e) (n p x : Nat) (hp : p < n) (hx : e.hot[p]? = some x)
    (hl : ∀ q y, q ≤ p → e.hot[q]? = some y → liveIn e y) : (tick e n).2.1[p]? = some x := by
  have sf := tickStart_facts h
  refine tickLoop_order n (tickStart e) sf.inv p x hp (tickStart_hot_get h hx) ?_
  intro q y hq hy
  have hpl : p < e.hot.length := (List.getElem?_eq_some_iff.mp hx).1
  obtain ⟨w, hw, _⟩ := sf.hot
  rw [hw, List.getElem?_append_left (by omega)] at hy
  exact (liveIn_congr sf.get y).1.mpr (hl q y hq hy)

/-- ... so the poll log starts with `hot.take n` when these tasks are live -/
theorem tick_log_starts_with_hot (e : Exec) (h : Inv e) (n : Nat) (hl : ∀ x, x ∈ e.hot.take n → liveIn e x) :
    (tick e n).2.1.take (e.hot.take n).length = e.hot.take n := by
  apply List.ext_getElem?
  intro i
  by_cases hi : i < (e.hot.take n).length
  · have hin : i < n := by simp at hi; omega
    obtain ⟨x, hxe⟩ : ∃ x, (e.hot.take n)[i]? = some x := ⟨_, List.getElem?_eq_getElem hi⟩
    have hx : e.hot[i]? = some x := by rw [← hxe]; simp [List.getElem?_take, hin]
    have := tick_polls_in_hot_order e h n i x hin hx (by
      intro q y hq hy
      apply hl y
      have : (e.hot.take n)[q]? = some y := by simp [List.getElem?_take, show q < n by omega, hy]
      exact List.mem_of_getElem? this)
    rw [List.getElem?_take, if_pos hi, this, hxe]
  · rw [List.getElem?_eq_none (by simp at hi ⊢; omega), List.getElem?_eq_none (by omega)]

/-- progress in ONE tick with `max_interval = n`: a hot task at position `p` is visited (polled if live,
dropped and removed if cancelled) when `p < n`, and otherwise moves up to position `p - n` -/
theorem tick_progress (e : Exec) (h : Inv e) (n p x : Nat) (hx : e.hot[p]? = some x) :
    (p < n → (liveIn e x → x ∈ (tick e n).2.1) ∧ (cancelledIn e x → inMap (tick e n).1 x = false)) ∧
    (n ≤ p → (tick e n).1.hot[p - n]? = some x) := by
  have sf := tickStart_facts h
  have hx0 := tickStart_hot_get h hx
  refine ⟨fun hp => ⟨fun hl => ?_, fun hc => ?_⟩, fun hp => tickLoop_shift n _ sf.inv p x hx0 hp⟩
  · exact (tickLoop_visit n _ sf.inv p x hx0 hp).2 ((liveIn_congr sf.get x).1.mpr hl)
  · exact (tickLoop_visit n _ sf.inv p x hx0 hp).1 ((liveIn_congr sf.get x).2.mpr hc)

/-- no starvation: a runnable task at position `p` of the hot queue is polled within `k` ticks as soon as
`k * n > p`, i.e. within ⌈(p+1)/n⌉ ticks, for every `max_interval = n > 0` and whatever the other
tasks do (wake themselves, are woken from other threads, complete, panic, ...) -/
theorem no_starvation (e : Exec) (h : Inv e) (n : Nat) (hn : 0 < n) (k p x : Nat)
    (hx : e.hot[p]? = some x) (hl : liveIn e x) (hp : p < k * n) : x ∈ (tickN e n k).2 :=
  tickN_polls_live h n hn k p x hx hl hp

/-- a freshly spawned task is runnable: it is the last element of the hot queue -/
theorem spawn_is_hot (e : Exec) (sc : List Outcome) :
    (spawn e sc).1.hot[e.hot.length]? = some (spawn e sc).2 ∧ liveIn (spawn e sc).1 (spawn e sc).2 := by
  refine ⟨by simp [spawn], ?_⟩
  unfold liveIn
  simp [spawn, Exec.get?]

/-- a wake-up through a task waker on the home thread makes a parked (cold) task runnable again -/
theorem wake_makes_hot (e : Exec) (h : Inv e) (id : Nat) (t : TaskSt) (hg : e.get? id = some t)
    (hw : t.wakers ≠ 0) (hq : inMap e id = true) : id ∈ (wakeLocal e id).1.hot := by
  rw [wakeLocal_live hg hw]
  rcases (scheduleLocal_mem h id id).mpr ((inMap_iff e id).mp hq) with hm | hm
  · exact hm
  · exact absurd hm (fun hc => scheduleLocal_not_cold h hg hc)

/-- a wake-up through a task waker on ANOTHER thread is not lost: afterwards the task (still queued, live)
has SCHEDULED set and is in the hot queue or in the sync queue ... -/
theorem remote_wake_is_recorded (e : Exec) (h : InvB e) (id : Nat) (t : TaskSt) (hg : e.get? id = some t)
    (hq : inMap e id = true) :
    ∃ t', (remoteSchedule e id).get? id = some t' ∧ t'.word.scheduled = true ∧
      t'.word.notCancelled = t.word.notCancelled ∧ inMap (remoteSchedule e id) id = true ∧
      (id ∈ (remoteSchedule e id).hot ∨ id ∈ (remoteSchedule e id).sync) := by
  have f := remoteSchedule_fields e id
  have hq' : inMap (remoteSchedule e id) id = true := by
    rw [← hq]; apply inMap_eq_of_iff; rw [f.1, f.2.1]
  refine ⟨_, remoteSchedule_get?_self hg, rfl, rfl, hq', ?_⟩
  rcases (inMap_iff _ _).mp hq' with h1 | h1
  · exact Or.inl h1
  · rcases remoteSchedule_reach h.inv hg h1 with h2 | h2
    · exact Or.inr h2
    · rw [remoteSchedule_inflight, h.idle] at h2; cases h2

/-- ... and it is polled within `k` ticks as soon as `k * max_interval ≥ |hot| + |sync|` (no starvation for
cross-thread wake-ups; false if `Task::run` cleared SCHEDULED only after the poll, or if `drain_sync`
forgot a reservation) -/
theorem remote_wake_polled_within (q : Nat) (ops : List Op) (n : Nat) (hn : 0 < n) (k id : Nat) (t : TaskSt)
    (hg : (run q ops).get? id = some t) (hs : t.word.scheduled = true) (hl : t.word.notCancelled = true)
    (hq : inMap (run q ops) id = true)
    (hk : (run q ops).hot.length + (run q ops).sync.length ≤ k * n) : id ∈ (tickN (run q ops) n k).2 :=
  tickN_polls_scheduled (run_invB q ops) n hn k hg hs hl hq hk

/-! ## 5. Delivery of the completion wake-up to a handle polled on the home thread -/

/-- a poll that returns Pending leaves the caller's waker in the slot, flagged HAS_WAKER -/
theorem pending_poll_parks_waker (e : Exec) (h : Inv e) (id w : Nat) (t : TaskSt)
    (hg : e.get? id = some t) (hh : t.handle = true) (hp : (handlePoll e id w).2 = .pending) :
    ∃ t', (handlePoll e id w).1.get? id = some t' ∧ t'.slot = some w ∧ t'.word.hasWaker = true ∧
      t'.handle = true := by
  rw [handlePoll_live w hg hh] at hp ⊢
  refine ⟨_, get?_setTask_self _ hg, ?_⟩
  have hwk := (h.t id t hg).wk
  obtain ⟨⟨s, sg, nsw, hw', c, hr, nc, cnt⟩, st, slot, script, sh, hd, wk, polls, fd, rt, rd, ss, sd, de, uaf, bp⟩ := t
  simp at hh hwk; subst hh
  cases hr <;> cases nc <;> cases c <;> cases hw' <;> simp [pollTask] at hp ⊢ <;> (try split at hp) <;>
    simp_all <;> split <;> simp_all

/-- when the future of the task at the head of the hot queue returns Ready (or panics), the join waker
parked in the slot (by a poll on the home thread or, sequentially, on another thread) is woken by that
very loop body -/
theorem completion_wakes_parked_waker (e : Exec) (h : Inv e) (id w : Nat) (rest : List Nat) (t : TaskSt)
    (o : Outcome) (r : List Outcome)
    (hh : e.hot = id :: rest) (hg : e.get? id = some t) (hs : t.slot = some w)
    (hc : t.word.notCancelled = true) (hsc : t.script = o :: r) (ho : o = .ready ∨ o = .panic) :
    (tickStep e id).1.woken = e.woken ++ [w] := by
  obtain ⟨t', hg', ht⟩ := h.get_of_mem (id := id) (Or.inl (by simp [hh]))
  rw [hg] at hg'; cases hg'
  have hr := runTask_ready t hc (ht.inq_c rfl) o r hsc ho
  have hmc : makeCold e id = { e with hot := rest, cold := e.cold ++ [id], qlog := e.qlog ++ [.makeCold id] } := by simp [makeCold, hh]
  have hgm : (makeCold e id).get? id = some t := by rw [hmc]; exact hg
  have hwk := ht.wk
  rw [hs] at hwk
  simp only [tickStep, runOne, hgm, hr]
  simp [hmc, hwk, ht.nsw, hs, removeTask, Exec.setTask]

/-- `liveIn` / `cancelledIn` are decidable on concrete states -/
theorem liveIn_iff (e : Exec) (x : Nat) :
    liveIn e x ↔ (e.get? x).map (fun t => t.word.notCancelled) = some true := by
  unfold liveIn
  cases e.get? x <;> simp

theorem cancelledIn_iff (e : Exec) (x : Nat) :
    cancelledIn e x ↔ (e.get? x).map (fun t => t.word.notCancelled) = some false := by
  unfold cancelledIn
  cases e.get? x <;> simp

/-! ## 6. Non-vacuity: concrete programs (the same `run` the driver executes) -/

/-- the prefetching iterator: a self-waking task goes to the hot tail and is polled again in the same tick -/
example : (applyR (run 64 [.spawn [.wakeSelf, .ready], .spawn [.pending]]) (.tick 61)).2
    = .polled [0, 1, 0] false := by decide

/-- ... but a lone self-waking task is polled once per tick (the iterator prefetched `None`) -/
example : (applyR (run 64 [.spawn [.wakeSelf, .ready]]) (.tick 61)).2 = .polled [0] true := by decide

/-- handle dropped before completion: never polled again, future dropped at the next tick, freed -/
example : ((run 64 [.spawn [.pending, .ready], .tick 61, .hdrop 0, .tick 61]).get? 0).map
    (fun t => (t.polls, t.futDrops, t.deallocs, t.resTaken + t.resDrops)) = some (1, 1, 1, 0) := by decide

/-- the hypotheses of `hdrop_cancels_and_schedules` / `cancelled_dropped_when_reached` are met there -/
example : let e := run 64 [.spawn [.pending, .ready], .tick 61, .hdrop 0]
    e.hot[0]? = some 0 ∧ ((e.get? 0).map (fun t => t.word.notCancelled)) = some false := by decide

/-- detached task: runs to completion, output dropped exactly once, allocation freed -/
example : ((run 64 [.spawn [.wakeSelf, .ready], .hdetach 0, .tick 61, .tick 61]).get? 0).map
    (fun t => (t.polls, t.word.completed, t.resTaken, t.resDrops, t.deallocs)) = some (2, true, 0, 1, 1) := by decide

/-- a panicking task: the payload reaches the handle exactly once; the other task is untouched -/
example : let e := run 64 [.spawn [.panic], .spawn [.pending], .tick 61]
    (applyR e (.hpoll 0 3)).2 = .join .panicked ∧
    ((apply e (.hpoll 0 3)).get? 0).map (fun t => (t.resTaken, t.resDrops, t.deallocs)) = some (1, 0, 1) ∧
    (e.get? 1).map (fun t => (t.polls, t.futDrops, t.word.completed)) = some (1, 0, false) := by decide

/-- completion wakes the waker the handle was parked with; a second, different waker replaces the first -/
example : (run 64 [.spawn [.pending, .ready], .hpoll 0 7, .tick 61, .hpoll 0 8, .wake 0, .tick 61]).woken = [] ∧
    (run 64 [.spawn [.wakeSelf, .ready], .hpoll 0 7, .tick 61, .hpoll 0 8, .tick 61]).woken = [8] ∧
    ((run 64 [.spawn [.wakeSelf, .ready], .hpoll 0 7, .tick 61, .hpoll 0 8, .tick 61]).get? 0).map
      (fun t => (t.slotSets, t.slotDrops)) = some (2, 2) := by decide

/-- executor dropped while a waker clone and the handle live on: freed only when both are gone -/
example : let e := run 64 [.spawn [.cloneWaker, .ready], .tick 61, .xdrop]
    (e.get? 0).map (fun t => (t.futDrops, t.deallocs, t.word.count)) = some (1, 0, 2) ∧
    ((apply e (.hpoll 0 1)).get? 0).map (fun t => (t.deallocs, t.handle)) = some (0, false) ∧
    ((run 64 [.spawn [.cloneWaker, .ready], .tick 61, .xdrop, .wake 0, .hpoll 0 1, .wdrop 0]).get? 0).map
      (fun t => (t.deallocs, t.uaf, t.futDrops)) = some (1, 0, 1) := by decide

/-- `no_starvation` with `max_interval = 1`: three self-waking tasks, the one at position 2 is polled in
the third tick; and the theorem's hypotheses hold for it -/
example : let e := run 64 [.spawn [.wakeSelf, .wakeSelf, .wakeSelf], .spawn [.wakeSelf, .wakeSelf], .spawn [.ready]]
    e.hot[2]? = some 2 ∧ (tickN e 1 3).2 = [0, 1, 2] ∧ (tickN e 1 2).2 = [0, 1] := by decide

example : 2 ∈ (tickN (run 64 [.spawn [.wakeSelf, .wakeSelf, .wakeSelf], .spawn [.wakeSelf, .wakeSelf], .spawn [.ready]]) 1 3).2 :=
  no_starvation _ (run_inv _ _) 1 (by decide) 3 2 2 (by decide) ((liveIn_iff _ _).mpr (by decide)) (by decide)

/-- `JoinHandle::cancel` on a completed task returns its output; on a running one, `None` -/
example : (applyR (run 64 [.spawn [.ready], .tick 61]) (.hcancel 0)).2 = .cancel .ok ∧
    (applyR (run 64 [.spawn [.pending], .tick 61]) (.hcancel 0)).2 = .cancel .cancelled := by decide

/-- wake itself AND finish in the same poll (seeded defect C04-2a): task 0 is removed from the hot list it
had just re-entered; task 2, which wakes itself afterwards, is linked behind live tasks and polled again -/
example : let e := run 64 [.spawn [.wakeReady], .spawn [.pending], .spawn [.wakeSelf, .ready]]
    (applyR e (.tick 61)).2 = .polled [0, 1, 2] true ∧
    ((apply e (.tick 61)).hot, (apply e (.tick 61)).cold) = ([2], [1]) ∧
    (applyR (apply e (.tick 61)) (.tick 61)).2 = .polled [2] false ∧
    ((apply e (.tick 61)).get? 0).map (fun t => (t.polls, t.futDrops, t.word.completed)) = some (1, 1, true) := by decide

example : (applyR (run 64 [.spawn [.wakePanic], .hpoll 0 4]) (.tick 61)).2 = .polled [0] false ∧
    (run 64 [.spawn [.wakePanic], .hpoll 0 4, .tick 61]).woken = [4] ∧
    (applyR (run 64 [.spawn [.wakePanic], .hpoll 0 4, .tick 61]) (.hpoll 0 4)).2 = .join .panicked ∧
    ((run 64 [.spawn [.cloneReady], .tick 61, .hdrop 0, .wake 0, .wdrop 0]).get? 0).map
      (fun t => (t.deallocs, t.resDrops, t.uaf)) = some (1, 1, 0) := by decide

/-! ### cross-thread operations (the scenarios the seeded defects C04-a, C04-b, C04-c need) -/

/-- handle dropped on another thread while the task is parked: the id goes through the sync queue, the next
tick reaps the task (future dropped once, never polled again). With `set_cancelled` BEFORE `schedule` in
`Task::cancel` the id would never be pushed. -/
example : let e := run 64 [.spawn [.pending], .tick 61, .rhdrop 0]
    e.sync = [0] ∧ e.pending = 1 ∧ e.cold = [0] ∧
    (e.get? 0).map (fun t => (t.word.notCancelled, t.word.scheduled, t.futDrops)) = some (false, true, 0) ∧
    (applyR e (.tick 61)).2 = .polled [] false ∧
    ((apply e (.tick 61)).get? 0).map (fun t => (t.polls, t.futDrops, t.deallocs)) = some (1, 1, 1) := by decide

/-- `cancelled_reaped_within` applies to it: |hot| + |sync| = 1 ≤ 1 · 61 -/
example : inMap (tickN (run 64 [.spawn [.pending], .tick 61, .rhdrop 0]) 61 1).1 0 = false :=
  (cancelled_reaped_within 64 _ 61 (by decide) 1 0 ((cancelledIn_iff _ _).mpr (by decide)) (by decide)).1

/-- a task woken from another thread, polled, and woken again from another thread DURING that poll
(`W`): `Task::run` cleared SCHEDULED before the poll, so the second wake-up pushes the id again and the
task is polled by the following tick -/
example : (run 64 [.spawn [.cloneWaker, .remoteWake, .ready], .tick 61, .rwake 0]).sync = [0] ∧
    (applyR (run 64 [.spawn [.cloneWaker, .remoteWake, .ready], .tick 61, .rwake 0]) (.tick 61)).2 = .polled [0] false ∧
    (run 64 [.spawn [.cloneWaker, .remoteWake, .ready], .tick 61, .rwake 0, .tick 61]).sync = [0] ∧
    (applyR (run 64 [.spawn [.cloneWaker, .remoteWake, .ready], .tick 61, .rwake 0, .tick 61]) (.tick 61)).2
      = .polled [0] false ∧
    ((run 64 [.spawn [.cloneWaker, .remoteWake, .ready], .tick 61, .rwake 0, .tick 61, .tick 61]).get? 0).map
      (fun t => (t.polls, t.word.completed)) = some (3, true) := by decide

/-- `sync_queue_size = 1`: a second remote waker finds the queue full, calls the driver waker, the executor
ticks (drains task 0, `pending` 2 → 1: the reservation of the blocked pusher survives), the push succeeds,
and the next tick polls task 1 -/
example : let e := run 1 [.spawn [.cloneWaker, .pending, .ready], .spawn [.cloneWaker, .pending, .ready], .tick 61, .rwake 0]
    (e.sync, e.pending) = ([0], 1) ∧
    (applyR e (.rwakeb 1 61)).2 = .wokeB (some ([0], false)) ∧
    ((apply e (.rwakeb 1 61)).sync, (apply e (.rwakeb 1 61)).pending) = ([1], 1) ∧
    (applyR (apply e (.rwakeb 1 61)) (.tick 61)).2 = .polled [1] false ∧
    (applyR e (.rwake 1)).2 = .full := by decide

/-- coalescing: a second remote wake-up of an already SCHEDULED task pushes nothing -/
example : (run 64 [.spawn [.cloneWaker, .pending], .tick 61, .rwake 0, .rwake 0]).sync = [0] ∧
    (run 64 [.spawn [.cloneWaker, .pending], .tick 61, .rwake 0, .wake 0]).hot = [0] ∧
    (run 64 [.spawn [.cloneWaker, .pending], .tick 61, .rwake 0, .wake 0]).sync = [] := by decide

/-- the handle polled on another thread parks its waker; completion wakes it; the result is then taken remotely -/
example : (run 64 [.spawn [.pending, .ready], .rhpoll 0 5, .tick 61, .tick 61]).woken = [] ∧
    (run 64 [.spawn [.wakeSelf, .ready], .rhpoll 0 5, .tick 61, .tick 61]).woken = [5] ∧
    (applyR (run 64 [.spawn [.wakeSelf, .ready], .rhpoll 0 5, .tick 61, .tick 61]) (.rhpoll 0 6)).2 = .join .ok ∧
    (applyR (run 64 [.spawn [.ready], .tick 61]) (.rhcancel 0)).2 = .cancel .ok ∧
    (applyR (run 64 [.spawn [.pending], .tick 61]) (.rhcancel 0)).2 = .cancel .cancelled := by decide

/-! ## 6b. The queue as the code stores it: slot map + intrusive doubly linked lists (Model/QueueIntrusive.lean)

`QueueIntrusive.IQ` is queue.rs as coded (`Item{prev,next,is_hot}`, `hot`/`cold` `{head,tail}`, `link_tail`,
`unlink::<HOT|COLD>`, `make_hot`, `make_cold`, `insert`, `remove`, `next_hot`, `iter_hot`, `clear`, assignments in
source order — pinned by `source_shape_queueLinkTailBody` / `…UnlinkBody` / `source_order_queue*`).
`Rep c hot cold`: both lists are proper doubly linked lists over live slots, disjoint, `is_hot` agrees with
membership, head/tail consistent, live slots = members (no dangling key); `WF c := ∃ hot cold, Rep c hot cold`;
`abs c` walks the `next` links. -/

section intrusive
open Compio.QueueIntrusive

/-- well-formedness spelled out -/
theorem intrusive_rep_iff (c : IQ) (hot cold : List Nat) :
    Rep c hot cold ↔
      (hot ++ cold).Nodup ∧ (∀ k, (∃ it, c.map[k]? = some (some it)) ↔ k ∈ hot ++ cold) ∧
      c.hotHead = hot.head? ∧ c.hotTail = hot.getLast? ∧ c.coldHead = cold.head? ∧ c.coldTail = cold.getLast? ∧
      (∀ k ∈ hot, c.map[k]? = some (some { prev := predIn hot k, next := succIn hot k, isHot := true })) ∧
      (∀ k ∈ cold, c.map[k]? = some (some { prev := predIn cold k, next := succIn cold k, isHot := false })) :=
  rep_iff

/-- a well-formed structure represents exactly one pair of lists, the one `abs` computes -/
theorem intrusive_abs_of_rep (c : IQ) (hot cold : List Nat) (h : Rep c hot cold) : abs c = (hot, cold) :=
  abs_of_rep h

/-- refinement, operation by operation: on a well-formed queue no `expect` fails, well-formedness is
preserved, and the abstraction commutes with the two-list specification the executor model uses
(`specMakeHot` = `Executor.makeHot`, `specMakeCold` = `Executor.makeCold`, `specRemove` = `Executor.removeTask`,
`specInsert` = the queue part of `Executor.spawn`) -/
theorem intrusive_makeHot_refines (c : IQ) (h : WF c) (k : Nat) :
    ∃ c', QueueIntrusive.makeHot c k = some c' ∧ WF c' ∧ abs c' = specMakeHot (abs c).1 (abs c).2 k :=
  abs_makeHot h k

/-- `make_cold` within its `debug_assert`ed precondition (the key is not cold) -/
theorem intrusive_makeCold_refines (c : IQ) (h : WF c) (k : Nat) (hpre : k ∉ (abs c).2) :
    ∃ c', QueueIntrusive.makeCold c k = some c' ∧ WF c' ∧ abs c' = specMakeCold (abs c).1 (abs c).2 k :=
  abs_makeCold h k hpre

theorem intrusive_insert_refines (c : IQ) (h : WF c) :
    ∃ c', QueueIntrusive.insert c = some (c', c.map.length) ∧ WF c' ∧
      abs c' = specInsert (abs c).1 (abs c).2 c.map.length ∧
      c.map.length ∉ (abs c).1 ∧ c.map.length ∉ (abs c).2 := abs_insert h

/-- `remove` unlinks the item from the list it IS in (hot or cold) — the obligation seeded defect C04-2a violates -/
theorem intrusive_remove_refines (c : IQ) (h : WF c) (k : Nat) :
    ∃ c' b, QueueIntrusive.remove c k = some (c', b) ∧ WF c' ∧ abs c' = specRemove (abs c).1 (abs c).2 k ∧
      (b = true ↔ (k ∈ (abs c).1 ∨ k ∈ (abs c).2)) := abs_remove h k

theorem intrusive_clear_refines (c : IQ) (h : WF c) : WF (QueueIntrusive.clear c) ∧ abs (QueueIntrusive.clear c) = ([], []) :=
  abs_clear h

/-- `next_hot` is the successor in the abstract hot list (what `tickLoop` prefetches), `hot_head` its head, and
`iter_hot` on an unmodified queue yields the hot list -/
theorem intrusive_iteration_refines (c : IQ) (hot cold : List Nat) (h : Rep c hot cold) :
    (∀ k, k ∈ hot → QueueIntrusive.nextHot c k = Compio.Executor.nextHot hot k) ∧ c.hotHead = hot.head? ∧
    iterCollect (c.map.length + 1) c (iterHot c) = hot :=
  ⟨fun k hk => (nextHot_refines h hk).1, hotHead_refines h, iterHot_yields_hot h⟩

/-- SlotMap generations: a removed key is in neither list, misses in `get`, and every later operation on it
is a no-op -/
theorem intrusive_removed_key_unreachable (c : IQ) (h : WF c) (k : Nat) :
    ∃ c' b, QueueIntrusive.remove c k = some (c', b) ∧ WF c' ∧ k ∉ (abs c').1 ∧ k ∉ (abs c').2 ∧ c'.get k = none ∧
      QueueIntrusive.makeHot c' k = some c' ∧ QueueIntrusive.makeCold c' k = some c' ∧
      QueueIntrusive.nextHot c' k = none ∧ QueueIntrusive.remove c' k = some (c', false) := removed_key h k

/-- every state reached from the empty queue by any sequence of insert / make_hot / make_cold (of a key that
is not cold) / remove / clear is well-formed and its abstraction is the fold of the specification -/
theorem intrusive_reachable_wf (ops : List QueueIntrusive.Op) (s : Spec) (hs : specRun Spec.init ops = some s) :
    ∃ c, runOps IQ.empty ops = some c ∧ WF c ∧ abs c = (s.hot, s.cold) ∧ c.map.length = s.next :=
  reachable_wf hs

/-- TRANSFER: after EVERY program of the executor model the two lists `hot` / `cold` (about which all the
theorems above speak) are the abstraction of a well-formed intrusive queue, whose key counter is the number of
tasks spawned (`insert` returns the id the model gives the next task): obtained by replaying each `makeHot` /
`makeCold` / `removeTask` / `spawn` / `clearAll` / `drainSync` of the model as the coded `make_hot` / `make_cold` /
`remove` / `insert` / `clear` — concretely: REPLAYING the model's log of queue calls (`qlog`, what the driver does for
every `qdump` line, whose output is compared with the walk of the REAL lists through hook `Executor::verif_queue_dump`)
on the empty intrusive queue never panics and yields that structure, with the stored tails = last elements -/
theorem queue_is_abstraction_of_intrusive (q : Nat) (ops : List Compio.Executor.Op) :
    ∃ c : IQ, runOps IQ.empty (run q ops).qlog = some c ∧
      WF c ∧ abs c = ((run q ops).hot, (run q ops).cold) ∧ c.map.length = (run q ops).tasks.length ∧
      Rep c (run q ops).hot (run q ops).cold ∧
      c.hotTail = (run q ops).hot.getLast? ∧ c.coldTail = (run q ops).cold.getLast? := by
  obtain ⟨c, hq, r, l⟩ := qrep_run q ops
  have ri := rep_iff.mp r
  exact ⟨c, hq, ⟨_, _, r⟩, abs_of_rep r, l, r, ri.2.2.2.1, ri.2.2.2.2.2.1⟩

end intrusive

/-! ## 7. The join handle on ANOTHER thread (Compio/Model/RemoteJoin.lean)

One task, executor thread `E` and handle thread `H`; every transition is one atomic access to the task
word (through a function regenerated from task/state.rs) or one access to the waker slot / storage.
`Reachable pollRechecks s`: `s` is reached by SOME interleaving of `Remote::poll` AS EXTRACTED (`pollRechecks`
is computed from the shape of its `finish_setting_waker::<true>()` call sites in Gen/TaskOrder.lean: does each
re-examine the returned snapshot?) with `Task::run` / `Task::drop` / `Task::cancel` / `impl Drop for Task`
(`reachable_iff_trace`); the theorems hold for ALL of them and for all waker ids. `Reachable false` is the
program in which a site does not re-check (before fix e466077; seeded defect C04-2b). -/

section remote
open Compio.RemoteJoin

/-- the source re-checks after `finish_setting_waker::<true>()` at both sites, so the code as extracted is
the re-checking program of the LTS -/
theorem remote_poll_as_extracted : pollRechecks = true ∧ ∀ s, Reachable pollRechecks s ↔ Reachable true s :=
  ⟨pollRechecks_eq, reachable_extracted_iff⟩

/-- reachable states = end states of the event lists accepted by the LTS -/
theorem remote_reachable_iff_trace (fixed : Bool) (s : RState) :
    Reachable fixed s ↔ ∃ ls : List Label, Trace fixed RemoteJoin.init ls s := reachable_iff_trace

/-- (i) slot exclusivity: no two threads ever have the waker slot as the target of their next access -/
theorem remote_slot_exclusive (s : RState) (h : Reachable pollRechecks s) :
    ¬ (eAccessesSlot s = true ∧ hAccessesSlot s = true) := slot_exclusive (reachable_extracted h)

/-- (i) executor side: E touches the slot only after a snapshot with HAS_WAKER and without SETTING_WAKER,
while H is not comparing / writing / about to publish; the last holder touches it only when H is gone -/
theorem remote_slot_section_executor (s : RState) (h : Reachable pollRechecks s) (he : eAccessesSlot s = true) :
    (s.hpc ≠ .compare ∧ s.hpc ≠ .write ∧ s.hpc ≠ .finishTrue) ∧
    (s.epc = .wake ∨ s.epc = .dropSlot →
      TaskState.hasWaker s.esnap = true ∧ TaskState.isSettingWaker s.esnap = false) ∧
    (s.epc = .last → s.hpc = .done) := slot_section_executor (reachable_extracted h) he

/-- (i) handle side: H compares / writes the slot only inside its SETTING_WAKER section, and then E is
not at a slot access; the SETTING_WAKER bit is exactly "H is inside the section" -/
theorem remote_slot_section_handle (s : RState) (h : Reachable pollRechecks s) :
    (s.hpc = .compare ∨ s.hpc = .write → TaskState.isSettingWaker s.word = true ∧ eAccessesSlot s = false) ∧
    TaskState.isSettingWaker s.word = hInSection s :=
  ⟨fun hh => slot_section_handle (reachable_extracted h) hh, setting_waker_iff_in_section (reachable_extracted h)⟩

/-- the future/result storage is never accessed by both threads, and never in the wrong variant; the
slot is never read or dropped uninitialised -/
theorem remote_storage_exclusive (s : RState) (h : Reachable pollRechecks s) :
    ¬ (eAccessesStorage s = true ∧ hAccessesStorage s = true) ∧ s.bad = 0 :=
  ⟨storage_exclusive (reachable_extracted h), no_bad_access (reachable_extracted h)⟩

/-- (ii) DELIVERY (false before fix e466077: `Compio.Cex.C04.delivery_counterexample_unfixed`): whenever the
handle's last poll returned Pending with waker `w`, the task has completed and the executor is past
`Task::run`'s wake decision, `w` has been woken -/
theorem remote_delivery (s : RState) (h : Reachable pollRechecks s) (w : Nat) (hp : s.parked = some w)
    (hc : TaskState.isCompleted s.word = true) (he : ePastWake s = true) : w ∈ s.woken :=
  delivery (reachable_extracted h) w hp hc he

/-- while the handle is parked with `w` and the task is still running, `w` sits in the slot under
HAS_WAKER; and it is `w` that the executor's wake reads -/
theorem remote_parked_waker_in_slot (s : RState) (h : Reachable pollRechecks s) (w : Nat) (hp : s.parked = some w) :
    (TaskState.isCompleted s.word = false →
      (s.epc = .idle ∨ s.epc = .poll ∨ s.epc = .finishRunning ∨ s.epc = .wake ∨ s.epc = .setDropped) →
      s.slot = some w ∧ TaskState.hasWaker s.word = true ∧ TaskState.isSettingWaker s.word = false) ∧
    (s.epc = .wake → s.slot = some w) :=
  ⟨fun hc hd => pending_means_slot (reachable_extracted h) w hp hc hd, fun he => wake_reads_parked_waker (reachable_extracted h) w hp he⟩

/-- (iii) across threads: the output is taken xor dropped at most once, exactly once after deallocation
iff the task completed; the handle got `Ready(Some)` iff it took the output -/
theorem remote_result_once (s : RState) (h : Reachable pollRechecks s) :
    s.resTaken + s.resDrops ≤ 1 ∧
    (s.deallocs = 1 → (s.resTaken + s.resDrops = 1 ↔ TaskState.isCompleted s.word = true)) ∧
    (s.hret = some true ↔ s.resTaken = 1) ∧ (s.hret = some false → TaskState.isCancelled s.word = true) :=
  ⟨(result_once (reachable_extracted h)).1, (result_once (reachable_extracted h)).2, (join_result (reachable_extracted h)).1, (join_result (reachable_extracted h)).2⟩

/-- (iii) the future is polled only while it is there, dropped exactly once, ... -/
theorem remote_future_once (s : RState) (h : Reachable pollRechecks s) :
    s.futDrops ≤ 1 ∧ (s.epc = .dec ∨ s.epc = .last ∨ s.epc = .done → s.futDrops = 1) ∧
    (s.futDrops = 0 ↔ s.storage = .future) ∧
    (s.epc = .poll → s.storage = .future ∧ TaskState.isCompleted s.word = false) :=
  ⟨(future_once (reachable_extracted h)).1, (future_once (reachable_extracted h)).2.1, (future_once (reachable_extracted h)).2.2, fun hp => poll_only_future (reachable_extracted h) hp⟩

/-- ... and only by the executor thread: every transition that polls or drops the future is the
executor's, every transition that takes the output is the handle's (any program, any state) -/
theorem remote_future_on_home_thread (fixed : Bool) (s s' : RState) (l : Label) (hs : Step fixed s l s') :
    (s'.futDrops ≠ s.futDrops ∨ s'.polls ≠ s.polls → l.actor = .E) ∧
    (s'.resTaken ≠ s.resTaken → l.actor = .H) :=
  ⟨fun hne => future_dropped_by_executor_only hs hne, fun hne => result_taken_by_handle_only hs hne⟩

/-- (iii) deallocation exactly once, when both holders are done; the count is the number of holders;
nothing is accessed after the free -/
theorem remote_dealloc_once (s : RState) (h : Reachable pollRechecks s) :
    s.deallocs ≤ 1 ∧ (s.deallocs = 1 ↔ (s.epc = .done ∧ s.hpc = .done)) ∧ s.uaf = 0 ∧
    TaskState.count s.word = (if s.epc = .last ∨ s.epc = .done then 0 else 1) +
      (if s.hpc = .last ∨ s.hpc = .done then 0 else 1) :=
  ⟨(dealloc_once (reachable_extracted h)).1, (dealloc_once (reachable_extracted h)).2.1, (dealloc_once (reachable_extracted h)).2.2, count_is_holders (reachable_extracted h)⟩

/-- join-waker accounting across threads. The full statement "no waker is left in the slot when the
allocation is freed" is FALSE on the current code (finding F040,
`Compio.Cex.C04.waker_leak_counterexample`); what holds: -/
theorem remote_waker_accounting_partial (s : RState) (h : Reachable pollRechecks s) :
    s.slotSets = s.slotDrops + (if s.slot.isSome then 1 else 0) ∧
    (TaskState.hasWaker s.word = true → s.deallocs = 0 → s.slot.isSome = true) ∧
    (s.deallocs = 1 →
      (∀ w : Nat, s.slot = some w → s.eroute = .completed ∧ w ∈ s.woken) ∧
      (s.eroute ≠ .completed → s.slot = none ∧ s.slotSets = s.slotDrops)) :=
  ⟨waker_slot_accounting (reachable_extracted h), (waker_flag_slot (reachable_extracted h)).1, fun hd => slot_dropped_at_dealloc_partial (reachable_extracted h) hd⟩

end remote

end Compio.Props.C04
