/-
C17 — the blocking pool is bounded and loses nothing.

Property theorems only (helper lemmas: Compio/Lemmas/AsyncifyPool.lean).  Every statement quantifies over
all schedules: `run? (init limit nd reserve) evs = some s` ranges over every interleaving `evs : List Event`
of any number `nd` of dispatching threads, any thread limit, any number of jobs of any kind.
`reserve = false` is the code as it is, `reserve = true` the protocol with the guard the bound needs.
The functions are the ones the driver `c17d` executes (`step?`, `run?`, `quiesce`, `Spec.step`).
-/
import Compio.Lemmas.AsyncifyPool

namespace Compio.Props.C17
open Compio Compio.Asyncify

/-- the states reachable by some schedule -/
def Reach (limit nd : Nat) (reserve : Bool) (s : State) : Prop :=
  ∃ evs : List Event, run? (init limit nd reserve) evs = some s

theorem reach_inv {limit nd : Nat} {reserve : Bool} {s : State} (h : Reach limit nd reserve s) : Inv s := by
  obtain ⟨evs, h⟩ := h; exact inv_run (inv_init _ _ _) h

theorem reach_meta {limit nd : Nat} {reserve : Bool} {s : State} (h : Reach limit nd reserve s) : Meta s := by
  obtain ⟨evs, h⟩ := h; exact meta_run (meta_init _ _ _) h

theorem reach_static {limit nd : Nat} {reserve : Bool} {s : State} (h : Reach limit nd reserve s) :
    s.limit = limit ∧ s.reserve = reserve ∧ s.nd = nd := by
  obtain ⟨evs, h⟩ := h; exact run_static h

/-! ## 1. Every job is in exactly one place -/

/-- A submitted job is held by exactly one of: a dispatching thread (before / during / after a refused
`dispatch`), the channel (a blocked `send`), one worker (slot filled or running), a completion queue,
its submitter (delivered), the crash list (uncaught panic), the caller's hands (`DispatchError(f)` kept),
the `thread_limit == 0` panic.  Jobs not yet submitted are nowhere. -/
theorem one_place {limit nd : Nat} {reserve : Bool} {s : State} (h : Reach limit nd reserve s) (j : Nat) :
    holders s j = if j < s.njobs then 1 else 0 :=
  (reach_inv h).place j

/-- a job is started at most once -/
theorem started_at_most_once {limit nd : Nat} {reserve : Bool} {s : State} (h : Reach limit nd reserve s)
    (j : Nat) : ranCount s j ≤ 1 := by
  have hI := reach_inv h
  have hp := hI.place j
  have hs := hI.started j
  have hm := cnt_mono s.wrk (WState.runs j) (WState.holds j)
    (by intro a ha; cases a <;> simp_all [WState.runs, WState.holds]) s.nw
  unfold holders at hp
  split at hp <;> omega

/-- started exactly once ⇔ the job is running, completed, delivered or crashed; never started otherwise -/
theorem started_iff_past_start {limit nd : Nat} {reserve : Bool} {s : State} (h : Reach limit nd reserve s)
    (j : Nat) :
    ranCount s j = cnt s.wrk (WState.runs j) s.nw + s.completed.countP (fun e => e.job == j)
      + s.delivered.countP (fun e => e.job == j) + s.crashed.count j :=
  (reach_inv h).started j

/-- **accepted ⇒ run exactly once, result or panic reaches the submitter**: an entry that reached a
submitter belongs to a job that was started exactly once, carries that job's outcome (`Ok(v)`, or the
panic for `resume_unwind_io`) and arrived at the thread that submitted the job. -/
theorem delivered_ran_once {limit nd : Nat} {reserve : Bool} {s : State} (h : Reach limit nd reserve s)
    (e : Done) (he : e ∈ s.delivered) :
    ranCount s e.job = 1 ∧ e.owner = s.owner e.job ∧ e.out = outcomeOf (s.kind e.job) ∧ e.job < s.njobs := by
  have hI := reach_inv h
  obtain ⟨a, b, c, _⟩ := (reach_meta h).done_meta e (.inr he)
  refine ⟨?_, b, c, a⟩
  have h1 := started_at_most_once h e.job
  have hs := hI.started e.job
  have : 1 ≤ s.delivered.countP (fun x => x.job == e.job) :=
    List.countP_pos_iff.mpr ⟨e, he, by simp⟩
  omega

/-- the same for an entry still in a completion queue -/
theorem completed_ran_once {limit nd : Nat} {reserve : Bool} {s : State} (h : Reach limit nd reserve s)
    (e : Done) (he : e ∈ s.completed) :
    ranCount s e.job = 1 ∧ e.owner = s.owner e.job ∧ e.out = outcomeOf (s.kind e.job) := by
  have hI := reach_inv h
  obtain ⟨_, b, c, _⟩ := (reach_meta h).done_meta e (.inl he)
  refine ⟨?_, b, c⟩
  have h1 := started_at_most_once h e.job
  have hs := hI.started e.job
  have : 1 ≤ s.completed.countP (fun x => x.job == e.job) :=
    List.countP_pos_iff.mpr ⟨e, he, by simp⟩
  omega

/-- nothing is delivered twice, and a delivered job is nowhere else -/
theorem delivered_once {limit nd : Nat} {reserve : Bool} {s : State} (h : Reach limit nd reserve s) (j : Nat) :
    s.delivered.countP (fun e => e.job == j) ≤ 1 := by
  have hp := (reach_inv h).place j
  unfold holders at hp
  split at hp <;> omega

/-- **refused ⇒ handed back intact**: when `dispatch` returns `Err(DispatchError(f))` the closure is held
by the very thread that submitted it, by nobody else, and it has not been started. -/
theorem refused_handed_back {limit nd : Nat} {reserve : Bool} {s : State} (h : Reach limit nd reserve s)
    {d j : Nat} (hd : d < s.nd) (hr : s.disp d = .refused j) :
    s.owner j = d ∧ ranCount s j = 0 ∧ holders s j = 1 ∧ cnt s.disp (DState.holds j) s.nd = 1 := by
  have hI := reach_inv h
  have hh : DState.holds j (s.disp d) = true := by rw [hr]; simp [DState.holds]
  obtain ⟨ho, hj⟩ := (reach_meta h).disp_owner d j hd hh
  have hp := hI.place j
  have hs := hI.started j
  have h1 := cnt_pos s.disp (DState.holds j) hd hh
  have hm := cnt_mono s.wrk (WState.runs j) (WState.holds j)
    (by intro a ha; cases a <;> simp_all [WState.runs, WState.holds]) s.nw
  rw [if_pos hj] at hp
  refine ⟨ho, ?_, by rw [hI.place j, if_pos hj], ?_⟩ <;> (unfold holders at hp; omega)

/-- a closure kept by the caller, or dropped by the `thread_limit == 0` panic, was never started -/
theorem returned_never_ran {limit nd : Nat} {reserve : Bool} {s : State} (h : Reach limit nd reserve s)
    {j : Nat} (hj : j ∈ s.returned ∨ j ∈ s.dropped) : ranCount s j = 0 := by
  have hI := reach_inv h
  have hp := hI.place j
  have hs := hI.started j
  have hm := cnt_mono s.wrk (WState.runs j) (WState.holds j)
    (by intro a ha; cases a <;> simp_all [WState.runs, WState.holds]) s.nw
  have : 1 ≤ s.returned.count j + s.dropped.count j := by
    rcases hj with hj | hj
    · have := List.count_pos_iff.mpr hj; omega
    · have := List.count_pos_iff.mpr hj; omega
  unfold holders at hp
  split at hp <;> omega

/-- with `thread_limit >= 1` nothing is ever dropped -/
theorem nothing_dropped {limit nd : Nat} {reserve : Bool} (hl : 1 ≤ limit) :
    ∀ {evs : List Event} {s : State}, run? (init limit nd reserve) evs = some s →
      s.dropped = [] ∧ ∀ d j, s.disp d ≠ .panicked j := by
  suffices H : ∀ (evs : List Event) (s0 s : State), s0.limit = limit →
      (s0.dropped = [] ∧ ∀ d j, s0.disp d ≠ .panicked j) → run? s0 evs = some s →
      s.dropped = [] ∧ ∀ d j, s.disp d ≠ .panicked j from
    fun {evs s} h => H evs _ s rfl ⟨rfl, by intro d j; simp [init]⟩ h
  intro evs
  induction evs with
  | nil => intro s0 s _ h0 h; simp [run?] at h; subst h; exact h0
  | cons e es ih =>
    intro s0 s hl0 h0 h
    unfold run? at h
    split at h
    · rename_i s1 h1
      refine ih s1 s ((step_static h1).1.trans hl0) ?_ h
      obtain ⟨hd0, hp0⟩ := h0
      have key : ∀ (d' : Nat) (y : DState), (∀ j, y ≠ .panicked j) → ∀ d j, upd s0.disp d' y d ≠ .panicked j := by
        intro d' y hy d j
        by_cases he : d = d'
        · subst he; rw [upd_same]; exact hy j
        · rw [upd_ne _ _ he]; exact hp0 d j
      cases e with
      | submit d k => obtain ⟨_, _, rfl⟩ := doSubmit_some h1; exact ⟨hd0, key _ _ (by simp)⟩
      | trySend d =>
        obtain ⟨_, j, _, (⟨w, rest, _, rfl⟩ | ⟨_, rfl⟩)⟩ := doTrySend_some h1 <;> exact ⟨hd0, key _ _ (by simp)⟩
      | load d =>
        obtain ⟨_, j, _, (⟨hz, rfl⟩ | ⟨_, _, rfl⟩ | ⟨_, _, _, rfl⟩ | ⟨_, _, _, rfl⟩)⟩ := doLoad_some h1
        · omega
        all_goals exact ⟨hd0, key _ _ (by simp)⟩
      | spawn d => obtain ⟨_, j, _, rfl⟩ := doSpawn_some h1; exact ⟨hd0, key _ _ (by simp)⟩
      | send d =>
        obtain ⟨_, j, _, (⟨w, rest, _, rfl⟩ | ⟨_, rfl⟩)⟩ := doSend_some h1 <;> exact ⟨hd0, key _ _ (by simp)⟩
      | retry d => obtain ⟨_, j, _, rfl⟩ := doRetry_some h1; exact ⟨hd0, key _ _ (by simp)⟩
      | giveUp d =>
        obtain ⟨_, j, (⟨_, rfl⟩ | ⟨hj, rfl⟩)⟩ := doGiveUp_some h1
        · exact ⟨hd0, key _ _ (by simp)⟩
        · exact absurd hj (hp0 d j)
      | reap d => obtain ⟨e, rest, _, rfl⟩ := doReap_some h1; exact ⟨hd0, hp0⟩
      | count w => obtain ⟨_, _, (⟨_, rfl⟩ | ⟨_, rfl⟩)⟩ := doCount_some h1 <;> exact ⟨hd0, hp0⟩
      | recv w =>
        obtain ⟨_, _, (⟨d, j, rest, _, rfl⟩ | ⟨_, rfl⟩)⟩ := doRecv_some h1
        · exact ⟨hd0, key _ _ (by simp)⟩
        · exact ⟨hd0, hp0⟩
      | wake w => obtain ⟨_, j, _, rfl⟩ := doWake_some h1; exact ⟨hd0, hp0⟩
      | timeout w => obtain ⟨_, _, rfl⟩ := doTimeout_some h1; exact ⟨hd0, hp0⟩
      | finish w => obtain ⟨_, j, _, (⟨_, rfl⟩ | ⟨_, rfl⟩)⟩ := doFinish_some h1 <;> exact ⟨hd0, hp0⟩
      | exit w => obtain ⟨_, _, rfl⟩ := doExit_some h1; exact ⟨hd0, hp0⟩
    · cases h

/-! ## 2. The channel and the counter -/

/-- no job waits in the channel while a worker is parked in `recv` (`try_send` fails only when nobody
is parked; a blocked `send` and a parked receiver never coexist) -/
theorem no_job_waits_beside_a_parked_worker {limit nd : Nat} {reserve : Bool} {s : State}
    (h : Reach limit nd reserve s) {w : Nat} (hw : w < s.nw) (hp : s.wrk w = .parked) : s.sendq = [] := by
  have hI := reach_inv h
  have hm := hI.parked_wait w hw hp
  exact hI.chan (by intro he; rw [he] at hm; cases hm)

/-- the waiting queue is exactly the set of parked workers, each once -/
theorem waiting_is_parked {limit nd : Nat} {reserve : Bool} {s : State} (h : Reach limit nd reserve s) :
    s.waiting.Nodup ∧ ∀ w, w ∈ s.waiting ↔ (w < s.nw ∧ s.wrk w = .parked) := by
  have hI := reach_inv h
  exact ⟨hI.wait_nodup, fun w => ⟨hI.wait_parked w, fun ⟨a, b⟩ => hI.parked_wait w a b⟩⟩

/-- every blocked sender is a dispatcher inside `sender.send`, once -/
theorem sendq_is_blocked {limit nd : Nat} {reserve : Bool} {s : State} (h : Reach limit nd reserve s) :
    (s.sendq.map Prod.fst).Nodup ∧ ∀ d j, (d, j) ∈ s.sendq → d < s.nd ∧ s.disp d = .blocked ∧ s.owner j = d := by
  have hI := reach_inv h
  exact ⟨hI.sendq_nodup, fun d j hm => ⟨(hI.sendq_blocked d j hm).1, (hI.sendq_blocked d j hm).2,
    ((reach_meta h).sendq_owner d j hm).1⟩⟩

/-- code as it is: `counter` = workers between their `fetch_add` and their `fetch_sub` -/
theorem counter_exact {limit nd : Nat} {s : State} (h : Reach limit nd false s) :
    s.counter = cnt s.wrk WState.counted s.nw :=
  (reach_inv h).counter_raw (reach_static h).2.1

/-- `CounterGuard::drop` never underflows the counter -/
theorem counter_no_underflow {limit nd : Nat} {reserve : Bool} {s : State} (h : Reach limit nd reserve s)
    {w : Nat} (hw : w < s.nw) (hl : s.wrk w = .leaving) : 1 ≤ s.counter := by
  have hI := reach_inv h
  cases hr : s.reserve
  · rw [hI.counter_raw hr]
    exact cnt_pos _ _ hw (by rw [hl]; rfl)
  · rw [hI.counter_res hr]
    have := cnt_pos s.wrk WState.alive hw (by rw [hl]; rfl)
    omega

/-! ## 3. The bound -/

theorem running_le_live (s : State) : running s ≤ live s :=
  cnt_mono _ _ _ (by intro a ha; cases a <;> simp_all [WState.isRunning, WState.alive]) _

theorem live_eq_counted_add_starting (s : State) :
    live s = cnt s.wrk WState.counted s.nw + cnt s.wrk WState.isStarting s.nw :=
  cnt_add _ _ _ _ (by intro a; cases a <;> rfl) _

/-- **Bound, with the guard the code would need** (slot reserved together with the limit check, before
`thread::spawn`): pool threads, and hence jobs running at once, never exceed `thread_limit`. -/
theorem live_le_limit_of_reserve {limit nd : Nat} {s : State} (h : Reach limit nd true s) :
    live s ≤ limit := by
  have hI := reach_inv h
  obtain ⟨hl, hr, _⟩ := reach_static h
  have h1 := hI.counter_res hr
  have h2 := hI.res_limit hr
  unfold live
  omega

theorem running_le_limit_of_reserve {limit nd : Nat} {s : State} (h : Reach limit nd true s) :
    running s ≤ limit :=
  Nat.le_trans (running_le_live s) (live_le_limit_of_reserve h)

/-- **Unconditional bound for the code as it is**: pool threads plus spawns already decided never
exceed `limit + (largest number of spawns in flight at any moment of the schedule) - 1`. -/
theorem live_le_limit_add_peak {limit nd : Nat} {evs : List Event} {s : State}
    (h : run? (init limit nd false) evs = some s) :
    live s + cnt s.disp DState.isSpawning s.nd ≤ limit + peak (init limit nd false) evs - 1 := by
  have hx := xcount_run (s := init limit nd false) rfl h
  have hc := counter_exact ⟨evs, h⟩
  have hl := live_eq_counted_add_starting s
  have h0 : xcount (init limit nd false) = 0 := by
    have : cnt (fun _ : Nat => DState.idle) DState.isSpawning nd = 0 := cnt_zero_of _ _ _ (fun _ _ => rfl)
    simp [xcount, inflight, init, cnt, this]
  have hlim : (init limit nd false).limit = limit := rfl
  rw [h0, hlim] at hx
  unfold xcount inflight at hx
  omega

/-- … so the bound does hold on every schedule in which spawns are serialised: at most one spawn in
flight (limit check passed … new worker has counted itself) at any moment. -/
theorem live_le_limit_of_serial_spawns {limit nd : Nat} {evs : List Event} {s : State}
    (h : run? (init limit nd false) evs = some s) (hp : peak (init limit nd false) evs ≤ 1) :
    running s ≤ limit ∧ live s ≤ limit := by
  have := live_le_limit_add_peak h
  have := running_le_live s
  omega

/-! ## 4. Progress (enabledness and witness schedules; no fairness operator) -/

/-- **the retry loop terminates once any worker parks**: with a worker parked in `recv`, the next turn of
`while let Err(e) = pool.dispatch(closure) { closure = e.0; yield_now() }` is accepted — the closure goes
to the longest-waiting worker and `dispatch` returns `Ok`. -/
theorem retry_succeeds_once_a_worker_parks {s : State} {d j w : Nat} {rest : List Nat} (hd : d < s.nd)
    (hr : s.disp d = .refused j) (hw : s.waiting = w :: rest) :
    ∃ s', run? s [.retry d, .trySend d] = some s' ∧ s'.disp d = .idle ∧ s'.wrk w = .handed j
      ∧ s'.waiting = rest := by
  apply Exists.intro
  refine ⟨?_, ?_⟩
  · simp [run?, step?, doRetry, doTrySend, hd, hr, hw]
    rfl
  · simp

/-- … and that worker then runs it -/
theorem handed_job_starts {s : State} {w j : Nat} (hw : w < s.nw) (hh : s.wrk w = .handed j) :
    ∃ s', step? s (.wake w) = some s' ∧ s'.wrk w = .running j ∧ s'.ran = s.ran ++ [(j, w)] := by
  apply Exists.intro
  refine ⟨?_, ?_⟩
  · simp [step?, doWake, hw, hh]
    rfl
  · simp

/-- a sender blocked in the rendezvous `send` is served by the next worker that enters `recv` -/
theorem blocked_sender_served {s : State} {w d j : Nat} {rest : List (Nat × Nat)} (hw : w < s.nw)
    (hr : s.wrk w = .ready) (hq : s.sendq = (d, j) :: rest) :
    ∃ s', step? s (.recv w) = some s' ∧ s'.wrk w = .running j ∧ s'.disp d = .idle ∧ s'.sendq = rest := by
  apply Exists.intro
  refine ⟨?_, ?_⟩
  · simp [step?, doRecv, hw, hr, hq]
    rfl
  · simp

/-- **after all workers retired a later dispatch spawns again**: no pool thread left (all exited after
their idle timeout), nobody stuck in the channel, `thread_limit >= 1`: the next `dispatch` passes the limit
check, spawns a thread, and that thread runs the job. -/
theorem respawn_after_retirement {limit nd : Nat} {s : State} (h : Reach limit nd false s) (hl : 1 ≤ limit)
    {d : Nat} (hd : d < s.nd) (hidle : s.disp d = .idle) (hall : ∀ w, w < s.nw → s.wrk w = .exited)
    (hq : s.sendq = []) (k : Kind) :
    ∃ s', run? s [.submit d k, .trySend d, .load d, .spawn d, .send d, .count s.nw, .recv s.nw] = some s'
      ∧ s'.wrk s.nw = .running s.njobs ∧ s'.disp d = .idle ∧ s'.nw = s.nw + 1 ∧ live s' = 1 := by
  have hI := reach_inv h
  obtain ⟨hlim, hres, _⟩ := reach_static h
  have hwait : s.waiting = [] := by
    cases hw : s.waiting with
    | nil => rfl
    | cons a l =>
      obtain ⟨h1, h2⟩ := hI.wait_parked a (by rw [hw]; simp)
      rw [hall a h1] at h2; cases h2
  have hc : s.counter = 0 := by
    rw [hI.counter_raw hres]
    exact cnt_zero_of _ _ _ (fun i hi => by rw [hall i hi]; rfl)
  have hl' : ¬ s.limit = 0 := by omega
  have hl'' : ¬ s.limit ≤ 0 := by omega
  have hlive0 : cnt s.wrk WState.alive s.nw = 0 := cnt_zero_of _ _ _ (fun i hi => by rw [hall i hi]; rfl)
  apply Exists.intro
  refine ⟨?_, ?_⟩
  · simp [run?, step?, doSubmit, doTrySend, doLoad, doSpawn, doSend, doCount, doRecv, hd, hidle, hwait, hc, hl',
      hl'', hres, hq, upd]
    rfl
  · refine ⟨by simp [upd], by simp [upd], rfl, ?_⟩
    show cnt _ WState.alive (s.nw + 1) = 1
    rw [cnt_succ]
    have : cnt (upd (upd (upd s.wrk s.nw .starting) s.nw .ready) s.nw (.running s.njobs)) WState.alive s.nw
        = cnt s.wrk WState.alive s.nw := by
      rw [cnt_upd_ge _ _ _ (Nat.le_refl _), cnt_upd_ge _ _ _ (Nat.le_refl _), cnt_upd_ge _ _ _ (Nat.le_refl _)]
    simp only [upd_same]
    rw [this, hlive0]
    rfl

/-- **a refused submission is retried by the submitter itself**: in every state in which `dispatch` has handed
the closure back, the submitting thread's next turn of the loop (`retry`) is enabled — it depends on no
driver event, no wake-up and no other thread (the drivers spin in `push_blocking`; they do not park the job
until the next poll). -/
theorem refused_submission_retried_by_submitter {s : State} {d j : Nat} (hd : d < s.nd) (hr : s.disp d = .refused j) :
    ∃ s', step? s (.retry d) = some s' ∧ s'.disp d = .trying j := by
  apply Exists.intro
  refine ⟨?_, ?_⟩
  · simp [step?, doRetry, hd, hr]
    rfl
  · simp

theorem takeOwned_of_mem : ∀ (l : List Done) (e : Done), e ∈ l → ∃ x rest, takeOwned e.owner l = some (x, rest)
  | [], e, h => by cases h
  | a :: l, e, h => by
    unfold takeOwned
    by_cases ho : a.owner = e.owner
    · exact ⟨a, l, by rw [if_pos ho]⟩
    · rw [if_neg ho]
      rcases List.mem_cons.mp h with rfl | h
      · exact absurd rfl ho
      · obtain ⟨x, r, hx⟩ := takeOwned_of_mem l e h
        exact ⟨x, a :: r, by rw [hx]⟩

/-- **completed results are drained on every poll**: whenever a result sits in a completion queue its owner's
`reap` is enabled, whatever else is going on (other file descriptors ready, other jobs running, the pool
saturated); the entry it takes is the oldest one of that owner. -/
theorem completed_result_always_reapable {s : State} {e : Done} (he : e ∈ s.completed) :
    ∃ s', step? s (.reap e.owner) = some s' ∧ s'.delivered.length = s.delivered.length + 1 := by
  obtain ⟨x, rest, hx⟩ := takeOwned_of_mem s.completed e he
  refine ⟨{ s with completed := rest, delivered := x :: s.delivered }, ?_, rfl⟩
  simp [step?, doReap, hx]

/-- **no stranding without timers and crashes**: on a schedule without idle timeouts and without jobs that
panic uncaught, every dispatcher between `thread::spawn` and the end of its rendezvous `send` is matched
by a distinct worker that will enter `recv` again; in particular, whenever a sender is blocked some
worker step (`count`, `recv`, `wake`, `finish`) is enabled. (F170 is exactly the failure of this
statement once `timeout` events are allowed: `Cex.C17.stranded_dispatch_counterexample`.) -/
theorem no_stranding_without_timers_and_crashes {limit nd : Nat} {reserve : Bool} {evs : List Event} {s : State}
    (hb : ∀ e, e ∈ evs → Benign e = true) (h : run? (init limit nd reserve) evs = some s) :
    pendingSends s ≤ cnt s.wrk WState.willRecv s.nw ∧
    (s.sendq ≠ [] → ∃ w, w < s.nw ∧
      ((step? s (.count w)).isSome ∨ (step? s (.recv w)).isSome ∨ (step? s (.wake w)).isSome
        ∨ (step? s (.finish w)).isSome)) := by
  have hI0 := inv_init limit nd reserve
  have hp0 : pendingSends (init limit nd reserve) ≤ cnt (init limit nd reserve).wrk WState.willRecv (init limit nd reserve).nw := by
    have : cnt (fun _ : Nat => DState.idle) DState.isSending nd = 0 := cnt_zero_of _ _ _ (fun _ _ => rfl)
    simp [pendingSends, init, this]
  have hp := pending_run hI0 (by intro j; simp [init]) hb hp0 h
  refine ⟨hp, ?_⟩
  intro hne
  have hI := inv_run hI0 h
  have hpos : 1 ≤ cnt s.wrk WState.willRecv s.nw := by
    have : 1 ≤ s.sendq.length := by
      cases hq : s.sendq with
      | nil => exact absurd hq hne
      | cons a l => simp
    unfold pendingSends at hp
    omega
  obtain ⟨w, hw, hwr⟩ := exists_of_cnt_pos _ _ _ hpos
  refine ⟨w, hw, ?_⟩
  cases hs : s.wrk w with
  | starting => left; cases hr : s.reserve <;> simp [step?, doCount, hw, hs, hr]
  | ready =>
    right; left
    cases hq : s.sendq with
    | nil => exact absurd hq hne
    | cons a l => obtain ⟨d, j⟩ := a; simp [step?, doRecv, hw, hs, hq]
  | parked =>
    have := hI.chan (by intro he; have := hI.parked_wait w hw hs; rw [he] at this; cases this)
    exact absurd this hne
  | handed j => right; right; left; simp [step?, doWake, hw, hs]
  | running j =>
    right; right; right
    by_cases hk : s.kind j = .raw <;> simp [step?, doFinish, hw, hs, hk]
  | leaving => rw [hs] at hwr; simp [WState.willRecv] at hwr
  | exited => rw [hs] at hwr; simp [WState.willRecv] at hwr

/-- the scheduler the driver uses for the forced single-dispatcher cases takes model steps only -/
theorem quiesce_is_a_schedule (fuel : Nat) (s : State) : run? s (quiesce fuel s).1 = some (quiesce fuel s).2 :=
  quiesce_valid fuel s

/-! ## 5. The trace acceptor run on recorded histories is sound for the model -/

/-- **Every schedule projects to an accepted history**: the observable history (`call`, `retOk`, `retBusy`,
`retPanic`, `begin`, `fin`) of any interleaving is accepted by `Spec.step`, the acceptor the driver runs on
the histories recorded from the real pool — so a rejected real history is a behaviour the model does not
have.  What the acceptor enforces: a job starts only inside or after an accepted `dispatch`, at most once,
on one thread at a time; a refused job was not started and `limit` other calls were accepted or are in
progress (needed for `counter >= thread_limit`); `fin` matches `begin`. -/
theorem history_accepted {limit nd : Nat} {reserve : Bool} {evs : List Event} {s : State}
    (h : run? (init limit nd reserve) evs = some s) :
    ∃ t, Spec.runObs (Spec.sinit limit) (trace (init limit nd reserve) evs) = some t ∧ Sim s t :=
  sim_run (inv_init _ _ _) (sim_init _ _ _) h

/-- what the accepted state says about the jobs: an accepted, finished job is settled; a job whose last
`dispatch` was refused is settled as long as the caller keeps it -/
theorem accepted_state_tracks_running {limit nd : Nat} {reserve : Bool} {evs : List Event} {s : State}
    (h : run? (init limit nd reserve) evs = some s) :
    ∃ t, Spec.runObs (Spec.sinit limit) (trace (init limit nd reserve) evs) = some t ∧
      (∀ w j, w < s.nw → s.wrk w = .running j → t.run j = .running w ∧ t.wjob w = some j) ∧
      (∀ d j, d < s.nd → s.disp d = .refused j → t.phase j = .busy d ∧ t.run j = .notRun) := by
  obtain ⟨t, ht, hS⟩ := history_accepted h
  refine ⟨t, ht, ?_, ?_⟩
  · intro w j hw hr
    have := hS.wok w hw
    rw [hr] at this
    exact this
  · intro d j hd hr
    have := hS.dok d hd
    rw [hr] at this
    exact this.2

/-! ## 6. Collecting: a panic in a blocking job reaches its submitter on every path -/

/-- **for every collection path**, a job that panicked with payload `p` makes the collector observe
`unwind p` — never a value, never an `Err` -/
theorem panic_reaches_every_collector (path : CollectPath) (p : Nat) :
    collect path (catchUnwindIo (.panicked p)) = .unwind p := rfl

/-- values and io errors come back unchanged on every path -/
theorem value_and_error_reach_every_collector (path : CollectPath) (v c : Nat) :
    collect path (catchUnwindIo (.ok v)) = .value v ∧ collect path (catchUnwindIo (.err c)) = .error c :=
  ⟨rfl, rfl⟩

/-- the collector unwinds exactly when the job panicked, with the job's payload -/
theorem collector_unwinds_iff_job_panicked (path : CollectPath) (r : JobResult) (p : Nat) :
    collect path (catchUnwindIo r) = .unwind p ↔ r = .panicked p := by
  cases r <;> simp [collect, catchUnwindIo, resumeUnwindIo]

/-! ## 7. Configuration extremes: the new worker reaches `recv` for every idle timeout -/

/-- **for every timeout value** (0, 1 ns, `u64::MAX / 2` s, `Duration::MAX`, …) the prologue of a new pool
thread ends in `recv_timeout` — the deadline arithmetic is checked, nothing panics before the first `recv` -/
theorem worker_reaches_recv_for_every_timeout (now timeout : Nat) :
    ∃ deadline, workerPrologue now timeout = .enterRecv deadline ∧ workerPrologue now timeout ≠ .panic :=
  ⟨checkedDeadline now timeout, rfl, by simp [workerPrologue]⟩

/-- an overflowing deadline means "never retire", and a representable one fires exactly from the deadline on -/
theorem deadline_checked (now timeout t : Nat) :
    (instantMax ≤ now + timeout → timerMayFire (checkedDeadline now timeout) t = false) ∧
    (now + timeout < instantMax → (timerMayFire (checkedDeadline now timeout) t = true ↔ now + timeout ≤ t)) := by
  unfold checkedDeadline timerMayFire
  constructor
  · intro h; rw [if_neg (by omega)]
  · intro h; rw [if_pos h]; simp

/-- **a dispatched job is received by the new worker**: once the limit check has passed (nobody parked, no
sender queued), `spawn`, `send`, and the new thread's `count` and `recv` are all enabled one after the
other and the thread runs the job — no timer event is involved, so this holds for every idle timeout. -/
theorem dispatched_job_received_by_new_worker {s : State} {d j : Nat} (hd : d < s.nd) (hs : s.disp d = .spawning j)
    (hw : s.waiting = []) (hq : s.sendq = []) :
    ∃ s', run? s [.spawn d, .send d, .count s.nw, .recv s.nw] = some s' ∧ s'.wrk s.nw = .running j
      ∧ s'.disp d = .idle ∧ s'.sendq = [] := by
  cases hr : s.reserve
  all_goals
    apply Exists.intro
    refine ⟨?_, ?_⟩
    · simp [run?, step?, doSpawn, doSend, doCount, doRecv, hd, hs, hw, hq, hr, upd]
      rfl
    · simp [upd]

/-! ## non-vacuity -/

/-- a schedule in which two jobs are accepted, run and delivered (one by `try_send` to the parked worker) -/
example : ∃ s, run? (init 1 1 false)
    [.submit 0 .value, .trySend 0, .load 0, .spawn 0, .send 0, .count 0, .recv 0, .finish 0, .recv 0,
     .submit 0 .caught, .trySend 0, .wake 0, .finish 0, .reap 0, .reap 0] = some s
    ∧ s.delivered.length = 2 ∧ ranCount s 0 = 1 ∧ ranCount s 1 = 1 := by
  refine ⟨_, rfl, ?_⟩; decide

/-- the two-dispatcher overshoot schedule (F10) is a schedule of the code as it is; its history is accepted -/
example : (Spec.runObs (Spec.sinit 1) (trace (init 1 2 false)
    [.submit 0 .value, .submit 1 .value, .trySend 0, .trySend 1, .load 0, .load 1,
     .spawn 0, .spawn 1, .send 0, .send 1, .count 0, .count 1, .recv 0, .recv 1])).map (·.maxrun) = some 2 := by
  decide

/-- a benign schedule (hypothesis of `no_stranding_without_timers_and_crashes`) with a blocked sender -/
example : ∃ s, run? (init 1 1 false) [.submit 0 .value, .trySend 0, .load 0, .spawn 0, .send 0] = some s
    ∧ s.sendq = [(0, 0)] ∧ (step? s (.count 0)).isSome := by
  refine ⟨_, rfl, ?_⟩; decide

/-- hypotheses of `respawn_after_retirement` are reachable: the worker has retired -/
example : ∃ s, run? (init 1 1 false)
    [.submit 0 .value, .trySend 0, .load 0, .spawn 0, .send 0, .count 0, .recv 0, .finish 0, .recv 0,
     .timeout 0, .exit 0, .reap 0] = some s ∧ s.wrk 0 = .exited ∧ s.disp 0 = .idle ∧ s.sendq = [] ∧ s.counter = 0 := by
  refine ⟨_, rfl, ?_⟩; decide

end Compio.Props.C17
