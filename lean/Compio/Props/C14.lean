/-
C14 — socket transports deliver exactly what was sent: the part compio wrote.

(1) result mapping of every receive flavour (Model/SockMap.lean),
(2) `io_uring_recvmsg_out` parsing (Model/RecvMsgOut.lean),
(3) the multishot stream adapters and `Incoming` (Model/MultiStream.lean).

TCP / UDP / Unix sockets themselves are the kernel's: they enter as the bytes `w` the kernel wrote
and the completion values; the differential harness covers that part (partial).
-/
import Compio.Lemmas.SockMap
import Compio.Lemmas.RecvMsgOut
import Compio.Lemmas.MultiStream
import Compio.Gen.SockRecv

namespace Compio.C14

open Compio Compio.Sock

/-! ## (1) result mapping -/

/-- `recv` into one buffer: for every buffer shape and every `w` the kernel wrote (`|w| ≤ capacity`)
the call returns `n = |w|`, the caller sees exactly `w` in the first `n` positions, the recorded length
is `max len n`, everything behind the `n` bytes — content and capacity — is as before. -/
theorem recv_single_exact (b : Buf) (w : Bytes) (hwf : b.WF') (hw : w.length ≤ b.cap) :
    ∃ b', mapRecv w.length (b.write w) = .ok (w.length, b') ∧
      b'.vis.take w.length = w ∧ b'.len = max b.len w.length ∧ b'.cap = b.cap ∧
      b'.vis.drop w.length = b.vis.drop w.length := by
  refine ⟨{ b.write w with len := max b.len w.length }, ?_, ?_, rfl, rfl, ?_⟩
  · simp [mapRecv, advanceTo_write b w hwf hw, Res.bind]
  · simp only [Buf.vis, Buf.write]
    rw [List.take_take]
    have : min w.length (max b.len w.length) = w.length := by omega
    rw [this]; simp
  · obtain ⟨⟨h1, _⟩, _⟩ := hwf
    simp only [Buf.vis, Buf.write]
    rw [List.drop_take, List.drop_take, List.drop_append_of_le_length (by omega)]
    simp
    by_cases h : w.length ≤ b.len
    · have : max b.len w.length - w.length = b.len - w.length := by omega
      rw [this]
    · have e1 : max b.len w.length - w.length = 0 := by omega
      have e2 : b.len - w.length = 0 := by omega
      rw [e1, e2]

/-- a fresh `Vec::with_capacity(cap)`: the caller gets exactly the received bytes -/
theorem recv_single_fresh (cap : Nat) (w : Bytes) (hw : w.length ≤ cap) :
    ∃ b', mapRecv w.length ((Buf.vecOf [] cap).write w) = .ok (w.length, b') ∧ b'.vis = w := by
  have hwf : (Buf.vecOf [] cap).WF' := by simp [Buf.WF', Buf.WF, Buf.vecOf]
  obtain ⟨b', e, h1, h2, _, _⟩ := recv_single_exact (Buf.vecOf [] cap) w hwf hw
  refine ⟨b', e, ?_⟩
  have hl : b'.len = w.length := by simpa [Buf.vecOf] using h2
  have : b'.vis.length ≤ w.length := by simp [Buf.vis, hl]; omega
  rw [← h1]; exact (List.take_of_length_le this).symm

/-- vectored receive (`recv_vectored`, `recv_from_vectored`, `recv_msg*`): for every list of members
and every `w` the kernel scattered over them (`|w| ≤ total capacity`), when the length is recorded
(`n > total_len`) or the members' lengths already cover what they received, the caller reads back
exactly `w` — member by member, in the positions the kernel filled — and no capacity changes. -/
theorem recv_vectored_exact (bs : List Buf) (w : Bytes) (hwf : ∀ b ∈ bs, b.WF')
    (hw : w.length ≤ totalCap bs)
    (hg : w.length > totalLen bs ∨ covers bs w.length = true) :
    ∃ bs', mapRecvVectored w.length (scatter bs w) = .ok (w.length, bs') ∧
      seen bs' w.length = w ∧ bs'.map (·.cap) = bs.map (·.cap) := by
  unfold mapRecvVectored advanceVecTo
  rw [totalLen_scatter]
  by_cases h : w.length > totalLen bs
  · obtain ⟨bs', e, s, m⟩ := setLenVec_scatter bs w hwf hw
    exact ⟨bs', by simp [h, e, Res.bind], s, m⟩
  · have hc : covers bs w.length = true := by
      cases hg with
      | inl h' => exact absurd h' h
      | inr h' => exact h'
    refine ⟨scatter bs w, by simp [h, Res.bind], seen_scatter_of_covers bs w hc hw, ?_⟩
    clear hg hc hw hwf h
    induction bs generalizing w with
    | nil => rfl
    | cons x xs ih => simp [scatter, Buf.write, ih]

/-- the usual receive shapes satisfy the guard: fresh vectors (`len = 0`) … -/
theorem guard_fresh (bs : List Buf) (n : Nat) (h : ∀ b ∈ bs, b.len = 0) :
    n > totalLen bs ∨ covers bs n = true := by
  have ht : totalLen bs = 0 := by
    induction bs with
    | nil => rfl
    | cons b r ih => simp [totalLen, h b (by simp), ih (fun x hx => h x (by simp [hx]))]
  by_cases hn : n = 0
  · right; subst hn; cases bs <;> simp [covers]
  · left; omega

/-- … and full members (arrays, zero-filled vectors used as arrays: `len = cap`) -/
theorem guard_full (bs : List Buf) (n : Nat) (h : ∀ b ∈ bs, b.len = b.cap) :
    covers bs n = true := by
  induction bs generalizing n with
  | nil => rfl
  | cons b r ih =>
    by_cases hn : n = 0
    · simp [covers, hn]
    · simp [covers, hn, h b (by simp), ih _ (fun x hx => h x (by simp [hx]))]
      omega

/-- a datagram longer than the room offered is cut to the capacity, never beyond: with the kernel's
part of the contract (`kDgram`: the prefix is written, `MSG_TRUNC` reported), `recv_msg*` returns
`n = min |d| cap ≤ cap`, the caller reads back exactly that prefix, and the flag is handed through. -/
theorem dgram_cut (bs : List Buf) (ctl : Buf) (d name : Bytes) (nameLen : Nat) (hwf : ∀ b ∈ bs, b.WF')
    (hg : (kDgram d (totalCap bs)).1.length > totalLen bs
      ∨ covers bs (kDgram d (totalCap bs)).1.length = true) :
    let w := (kDgram d (totalCap bs)).1
    let tr := (kDgram d (totalCap bs)).2
    let c : Comp := ⟨w.length, nameLen, name, 0, if tr then 0x20 else 0⟩
    ∃ bs' ctl', mapRecvMsg c (scatter bs w) ctl = .ok ((w.length, 0, intoAddr c, c.flags), (bs', ctl')) ∧
      w.length = min d.length (totalCap bs) ∧ w.length ≤ totalCap bs ∧
      seen bs' w.length = d.take (totalCap bs) ∧
      (c.flags = 0x20 ↔ totalCap bs < d.length) ∧ ctl' = ctl := by
  intro w tr c
  have hw : w.length ≤ totalCap bs := by simp [w, kDgram]; omega
  obtain ⟨bs', e, s, _⟩ := recv_vectored_exact bs w hwf hw hg
  have e' : advanceVecTo (scatter bs w) w.length = .ok bs' := by
    unfold mapRecvVectored at e
    cases h : advanceVecTo (scatter bs w) w.length with
    | ok x => simp [h, Res.bind] at e; rw [e]
    | panic => simp [h, Res.bind] at e
    | ub => simp [h, Res.bind] at e
  refine ⟨bs', ctl, ?_, ?_, hw, s, ?_, rfl⟩
  · simp [mapRecvMsg, c, e', Res.bind, advanceTo]
  · simp [w, kDgram]; omega
  · simp only [c, tr, kDgram]
    by_cases h : totalCap bs < d.length <;> simp [h]


/-- `recv_from`: the byte result is that of `recv`, the source address is handed through
(`Some` iff the kernel reported a name length) -/
theorem recv_from_exact (b : Buf) (w : Bytes) (c : Comp) (hwf : b.WF') (hw : w.length ≤ b.cap)
    (hn : c.n = w.length) :
    ∃ b', mapRecvFrom c (b.write w) = .ok ((w.length, intoAddr c), b') ∧
      b'.vis.take w.length = w ∧ b'.len = max b.len w.length ∧ b'.cap = b.cap := by
  obtain ⟨b', e, h1, h2, h3, _⟩ := recv_single_exact b w hwf hw
  refine ⟨b', ?_, h1, h2, h3⟩
  unfold mapRecv at e
  unfold mapRecvFrom
  rw [hn]
  cases h : advanceTo (b.write w) w.length with
  | ok x => rw [h] at e; simp [Res.bind] at e ⊢; exact e
  | panic => rw [h] at e; simp [Res.bind] at e
  | ub => rw [h] at e; simp [Res.bind] at e

/-- `recv_msg*`: payload as in `recv_vectored_exact`; the control buffer shows exactly the control
bytes the kernel wrote (`msg_controllen` of them); address and `msg_flags` are handed through
unchanged — in particular `MSG_TRUNC` / `MSG_CTRUNC` reach the caller -/
theorem recv_msg_exact (bs : List Buf) (ctl : Buf) (w cw : Bytes) (c : Comp)
    (hwf : ∀ b ∈ bs, b.WF') (hcwf : ctl.WF') (hw : w.length ≤ totalCap bs) (hcw : cw.length ≤ ctl.cap)
    (hg : w.length > totalLen bs ∨ covers bs w.length = true)
    (hn : c.n = w.length) (hc : c.ctlLen = cw.length) :
    ∃ bs' ctl', mapRecvMsg c (scatter bs w) (ctl.write cw)
        = .ok ((w.length, cw.length, intoAddr c, c.flags), (bs', ctl')) ∧
      seen bs' w.length = w ∧ ctl'.vis.take cw.length = cw ∧ ctl'.len = max ctl.len cw.length := by
  obtain ⟨bs', e, s, _⟩ := recv_vectored_exact bs w hwf hw hg
  have e' : advanceVecTo (scatter bs w) w.length = .ok bs' := by
    unfold mapRecvVectored at e
    cases h : advanceVecTo (scatter bs w) w.length with
    | ok x => simp [h, Res.bind] at e; rw [e]
    | panic => simp [h, Res.bind] at e
    | ub => simp [h, Res.bind] at e
  have ec := advanceTo_write ctl cw hcwf hcw
  refine ⟨bs', { ctl.write cw with len := max ctl.len cw.length }, ?_, s, ?_, rfl⟩
  · simp [mapRecvMsg, hn, hc, e', ec, Res.bind]
  · simp only [Buf.vis, Buf.write]
    rw [List.take_take]
    have : min cw.length (max ctl.len cw.length) = cw.length := by omega
    rw [this]; simp

/-- the clamp table: when the receive call returns at most the capacity (always, unless the caller
passes `MSG_TRUNC` as a receive flag — compio-net never does) every flavour on every driver reports
exactly that value -/
theorem compLen_exact (op : ROp) (drv : Drv) (ret cap : Nat) (h : ret ≤ cap) :
    compLen op drv ret cap = ret := by
  unfold compLen; split <;> omega

/-- the flavours that clamp never report more than the capacity -/
theorem compLen_clamped (op : ROp) (drv : Drv) (ret cap : Nat) (h : clamps op drv = true) :
    compLen op drv ret cap ≤ cap := by
  unfold compLen; rw [if_pos h]; omega

theorem pool_write_advance (cap : Nat) (w : Bytes) (hw : w.length ≤ cap) :
    advanceTo ((Buf.poolOf cap).write w) w.length = .ok ⟨.pool, w, w.length, cap⟩ := by
  have e : (Buf.poolOf cap).write w = ⟨.pool, w, 0, cap⟩ := by simp [Buf.poolOf, Buf.write]
  rw [e]
  unfold advanceTo
  by_cases h : w.length > 0
  · have hm : min w.length cap = w.length := by omega
    simp [h, Buf.setLen, hm]
  · have h0 : w.length = 0 := by omega
    simp [h0]

/-- managed receive (`recv_managed`): 0 bytes is `Ok(None)`; otherwise the pool buffer shows exactly
the received bytes (`|w| ≤` its capacity) -/
theorem managed_exact (cap : Nat) (w : Bytes) (hw : w.length ≤ cap) :
    takeBuffer w.length (some ((Buf.poolOf cap).write w)) =
      if w.length = 0 then Managed.none else Managed.some ⟨.pool, w, w.length, cap⟩ := by
  unfold takeBuffer
  by_cases h : w.length = 0
  · simp [h]
  · simp [h, pool_write_advance cap w hw]

/-- `recv_msg_managed`: `Ok(None)` iff 0 bytes; otherwise pool buffer = received bytes, control buffer
advanced by the control length, address and flags handed through -/
theorem managed_msg_exact (cap : Nat) (w cw : Bytes) (ctl : Buf) (c : Comp) (hw : w.length ≤ cap)
    (hcwf : ctl.WF') (hcw : cw.length ≤ ctl.cap) (hn : c.n = w.length) (hc : c.ctlLen = cw.length)
    (hne : w.length ≠ 0) :
    takeBufferMsg c (some ((Buf.poolOf cap).write w)) (ctl.write cw) =
      .some (⟨.pool, w, w.length, cap⟩, { ctl.write cw with len := max ctl.len cw.length }, intoAddr c, c.flags) := by
  unfold takeBufferMsg
  rw [hn, managed_exact cap w hw, if_neg hne]
  simp only
  rw [hc, advanceTo_write ctl cw hcwf hcw]

/-- the address is extracted iff the kernel reported a name length -/
theorem intoAddr_spec (c : Comp) :
    intoAddr c = if c.nameLen = 0 then none else some (c.name.take c.nameLen) := by
  unfold intoAddr; by_cases h : c.nameLen = 0 <;> simp [h]

/-- polling path of the multishot datagram receives (every build since the F140 repair): the fallback
op records the result, so `data()` is exactly what was received -/
theorem fallbackMulti_ok (cap : Nat) (w : Bytes) (hw : w.length ≤ cap) :
    ((FallbackMulti.mk ((Buf.poolOf cap).write w) 0).setResult w.length).takeBuffer
      = .ok ⟨.pool, w, w.length, cap⟩ := by
  simp [FallbackMulti.setResult, FallbackMulti.takeBuffer, pool_write_advance cap w hw]


/-! ## (2) `io_uring_recvmsg_out` parsing -/

section RecvMsgOut
open Compio.RecvMsgOut

/-- a slice handed to the caller lies inside the buffer -/
def InBounds (buf s : Bytes) : Prop := ∃ off, s = (buf.drop off).take s.length ∧ off + s.length ≤ buf.length

/-- Kernel-contract buffer (`layout`): `new` accepts it and `data / ancillary / addr / flags` return
exactly the payload, the control data, the source address and the flags. -/
theorem recvmsg_out_roundtrip (name ctl payload : Bytes) (flags clen : Nat)
    (hn : name.length ≤ NLEN) (hc : ctl.length ≤ clen) (hcl : clen < 2 ^ 32)
    (hp : payload.length < 2 ^ 32) (hf : flags < 2 ^ 32) :
    ∃ p, RecvMsgOut.new (layout name ctl payload flags clen) clen = .ok p ∧
      p.data = .ok payload ∧ p.ancillary = .ok ctl ∧
      p.addr = .ok (if name.length = 0 then none else some name) ∧ p.flags = flags := by
  have hn32 : name.length < 2 ^ 32 := by unfold NLEN at hn; omega
  have hc32 : ctl.length < 2 ^ 32 := by omega
  have hh := readHdr_layout name ctl payload flags clen hn32 hc32 hp hf
  have hl := layout_length name ctl payload flags clen hn hc
  refine ⟨⟨layout name ctl payload flags clen, clen⟩, ?_, ?_, ?_, ?_, ?_⟩
  · unfold RecvMsgOut.new
    rw [hh, hl]
    have : ¬ (HDR + NLEN + clen + payload.length < HDR) := by omega
    have h2 : ¬ (HDR + NLEN + clen + payload.length ≥ USIZE) := by unfold USIZE HDR NLEN; omega
    simp [this, h2]
  · unfold Parsed.data
    simp only
    rw [hl]
    have : ¬ (HDR + NLEN + clen > HDR + NLEN + clen + payload.length) := by omega
    rw [if_neg this]
    congr 1
    have e : HDR + NLEN + clen = HDR + (NLEN + clen) := by omega
    rw [e, ← List.drop_drop, layout_drop_hdr]
    have : (pad name NLEN ++ pad ctl clen).length = NLEN + clen := by
      simp [pad_length _ _ hn, pad_length _ _ hc]
    rw [List.drop_left' this]
  · unfold Parsed.ancillary
    simp only
    rw [hh, hl]
    have : ¬ (HDR + NLEN + ctl.length > HDR + NLEN + clen + payload.length) := by omega
    rw [if_neg this]
    congr 1
    rw [← List.drop_drop, layout_drop_hdr, List.append_assoc, List.drop_left' (pad_length _ _ hn)]
    simp [pad]
  · unfold Parsed.addr
    simp only
    rw [hh]
    by_cases h0 : name.length = 0
    · simp [h0]
    · have : ¬ name.length > NLEN := by omega
      simp only [h0, this, if_false]
      congr 2
      rw [layout_drop_hdr, List.append_assoc]
      simp [pad]
  · unfold Parsed.flags; rw [hh]

/-- For **arbitrary** buffer contents: if `new` does not trip an `assert!`, the header fields are
bounded by the buffer: the buffer holds header + name area + control area + `payloadlen` bytes. -/
theorem new_ok_bounds (buf : Bytes) (clen : Nat) (p : Parsed) (h : RecvMsgOut.new buf clen = .ok p) :
    p.buf = buf ∧ p.clen = clen ∧ HDR + NLEN + clen + (readHdr buf).payloadlen ≤ buf.length := by
  unfold RecvMsgOut.new at h
  split at h
  · cases h
  · simp only at h
    split at h
    · cases h
    · split at h
      · cases h
      · cases h; refine ⟨rfl, rfl, ?_⟩; omega

/-- arbitrary header: `data()` never panics after `new` and is the in-bounds tail behind the control
area — at least `payloadlen` bytes long (the code does *not* cut it to `payloadlen`). -/
theorem data_in_bounds (buf : Bytes) (clen : Nat) (p : Parsed) (h : RecvMsgOut.new buf clen = .ok p) :
    ∃ d, p.data = .ok d ∧ d = buf.drop (HDR + NLEN + clen) ∧ InBounds buf d ∧
      (readHdr buf).payloadlen ≤ d.length := by
  obtain ⟨hb, hc, hlen⟩ := new_ok_bounds buf clen p h
  refine ⟨buf.drop (HDR + NLEN + clen), ?_, rfl, ⟨HDR + NLEN + clen, ?_, ?_⟩, ?_⟩
  · unfold Parsed.data
    simp only [hb, hc]
    have : ¬ (HDR + NLEN + clen > buf.length) := by omega
    rw [if_neg this]
  · exact (List.take_of_length_le (by simp)).symm
  · simp; omega
  · simp; omega

/-- arbitrary header: `ancillary()` either panics (slice index check) or returns an in-bounds slice;
with `controllen ≤ clen` — what the kernel guarantees — it never panics and stays inside the control
area `[16 + NLEN, 16 + NLEN + clen)`. -/
theorem ancillary_in_bounds (buf : Bytes) (clen : Nat) (p : Parsed) (h : RecvMsgOut.new buf clen = .ok p) :
    (p.ancillary = .panic ∧ HDR + NLEN + (readHdr buf).controllen > buf.length) ∨
    (∃ a, p.ancillary = .ok a ∧ a.length = (readHdr buf).controllen ∧
      a = (buf.drop (HDR + NLEN)).take a.length ∧ HDR + NLEN + a.length ≤ buf.length) := by
  obtain ⟨hb, _, _⟩ := new_ok_bounds buf clen p h
  unfold Parsed.ancillary
  simp only [hb]
  by_cases hgt : HDR + NLEN + (readHdr buf).controllen > buf.length
  · left; rw [if_pos hgt]; exact ⟨rfl, hgt⟩
  · right
    rw [if_neg hgt]
    have hl : ((buf.drop (HDR + NLEN)).take (readHdr buf).controllen).length = (readHdr buf).controllen := by
      simp; omega
    exact ⟨_, rfl, hl, by rw [hl], by rw [hl]; omega⟩

theorem ancillary_no_panic (buf : Bytes) (clen : Nat) (p : Parsed) (h : RecvMsgOut.new buf clen = .ok p)
    (hk : (readHdr buf).controllen ≤ clen) : ∃ a, p.ancillary = .ok a ∧ a.length ≤ clen := by
  obtain ⟨_, _, hlen⟩ := new_ok_bounds buf clen p h
  rcases ancillary_in_bounds buf clen p h with ⟨_, hgt⟩ | ⟨a, e, l, _, _⟩
  · omega
  · exact ⟨a, e, by omega⟩

/-- arbitrary header: `addr()` is memory-safe exactly when `namelen ≤ NLEN` (the kernel never reports
more than the registered name area's worth of a real address); the copy source is inside the buffer. -/
theorem addr_in_bounds (buf : Bytes) (clen : Nat) (p : Parsed) (h : RecvMsgOut.new buf clen = .ok p)
    (hk : (readHdr buf).namelen ≤ NLEN) :
    ∃ a, p.addr = .ok a ∧ (∀ x, a = some x → x.length = (readHdr buf).namelen ∧
      x = (buf.drop HDR).take x.length ∧ HDR + x.length ≤ buf.length) := by
  obtain ⟨hb, _, hlen⟩ := new_ok_bounds buf clen p h
  unfold Parsed.addr
  simp only [hb]
  by_cases h0 : (readHdr buf).namelen = 0
  · exact ⟨none, by simp [h0], by intro x hx; cases hx⟩
  · have : ¬ (readHdr buf).namelen > NLEN := by omega
    refine ⟨some ((buf.drop HDR).take (readHdr buf).namelen), by simp [h0, this], ?_⟩
    intro x hx
    cases hx
    have hl : ((buf.drop HDR).take (readHdr buf).namelen).length = (readHdr buf).namelen := by
      simp; unfold NLEN at hk; unfold HDR NLEN at hlen; unfold HDR; omega
    exact ⟨hl, by rw [hl], by rw [hl]; unfold NLEN at hk; unfold HDR NLEN at hlen; unfold HDR; omega⟩

example : ∃ p, RecvMsgOut.new (layout [2, 0, 0x1f, 0x90] [] [0x68, 0x69] 0 0) 0 = .ok p ∧
    p.data = .ok [0x68, 0x69] ∧ p.addr = .ok (some [2, 0, 0x1f, 0x90]) :=
  recvmsg_out_roundtrip [2, 0, 0x1f, 0x90] [] [0x68, 0x69] 0 0 (by decide) (by decide) (by decide)
    (by decide) (by decide) |>.imp fun _ h => ⟨h.1, h.2.1, h.2.2.2.1⟩

end RecvMsgOut


/-! ## (3) multishot stream adapters -/

section MultiStream
open Compio.MultiStream

/-- `SubmitMulti`, **every schedule** of kernel completions (`arrive`) and consumer polls: what the
polls returned so far, followed by what is queued / final / not yet posted, is always the submission's
completion script (up to its terminal CQE) — nothing is lost, duplicated or reordered. -/
theorem sm_exactly_once_in_order (script : List Cqe) (evs : List Ev) :
    somes ((SM.new script).run evs).1 ++ ((SM.new script).run evs).2.remaining = cut script := by
  have := run_conserves (SM.new script) evs
  simpa [SM.new, SM.remaining] using this

/-- … in particular the returned completions are a prefix of the script -/
theorem sm_prefix (script : List Cqe) (evs : List Ev) :
    somes ((SM.new script).run evs).1 <+: cut script :=
  ⟨_, sm_exactly_once_in_order script evs⟩

/-- `Ready(None)` (the stream is finished) is never reported while a completion is outstanding -/
theorem sm_none_means_done (script : List Cqe) (evs : List Ev)
    (h : none ∈ ((SM.new script).run evs).1) : somes ((SM.new script).run evs).1 = cut script := by
  have := run_none_only_when_done (SM.new script) evs h
  simpa [SM.new, SM.remaining] using this

/-- bounded progress: once the terminal completion was posted, `queue.length + 1` polls return
everything outstanding in order and finish the stream -/
theorem sm_drains (s : SM) (hst : s.st ≠ .finished) (c : Cqe) (ht : s.term = some c) :
    (s.run (List.replicate (s.queue.length + 1) .poll)).1 = (s.queue ++ [c]).map some ∧
      (s.run (List.replicate (s.queue.length + 1) .poll)).2.st = .finished :=
  drain_all s hst c ht

/-- the bridge to the await form: with completions filed the way the driver files them (`SM.WF`, an
invariant of `arrive`), `inner.is_terminated()` after a returned completion holds exactly when that
completion carried no `IORING_CQE_F_MORE` — `Managed.next` branches on `c.more` for this reason. -/
theorem sm_terminated_iff_no_more (s s' : SM) (c : Cqe) (h : s.WF) (hst : s.st ≠ .finished)
    (hp : s.poll = (.ready (some c), s')) : (s'.st = .finished ↔ c.more = false) ∧ s'.WF :=
  poll_terminated_iff s s' c h hst hp

theorem sm_wf_invariant (script : List Cqe) : (SM.new script).WF ∧ ∀ s : SM, s.WF → s.arrive.WF :=
  ⟨wf_new script, wf_arrive⟩

/-- `SubmitMultiStream` consumes the live submission one completion per `next`; the token is
determined by that completion alone (`tokOf`), a terminal completion takes the op. -/
theorem stream_one_token_per_completion (s : Stream) (c : Cqe) (rest : List Cqe)
    (h : s.op = some ⟨some (c :: rest)⟩) :
    s.next = (tokOf s.fl c, { s with op := some ⟨if c.more then some rest else none⟩ }) :=
  next_live s c rest h

/-- after a terminal completion (whatever it was: data, error, `ENOBUFS`) the next poll of an
un-cancelled stream submits the operation again and yields the first completion of the new submission -/
theorem stream_resubmits (s : Stream) (c : Cqe) (r : List Cqe) (rest : List Sub)
    (h : s.op = some ⟨none⟩) (hc : s.cancelled = false) (hs : s.subs = .op (c :: r) :: rest) :
    s.next = (tokOf s.fl c,
      { s with op := some ⟨if c.more then some r else none⟩, subs := rest, nsub := s.nsub + 1 }) :=
  next_resubmit s c r rest (Or.inr h) hc hs

/-- end of stream: a terminal completion with 0 bytes (or without a buffer) is `Ready(None)` for the
byte flavour (`recv_multi` / `read_multi`) -/
theorem stream_eof_token (c : Cqe) (hm : c.more = false) (n : Nat) (hr : c.res = .ok n)
    (h0 : n = 0 ∨ c.buf = none) : tokOf .bytes c = .end_ := by
  unfold tokOf
  rw [hm, hr]
  cases hb : c.buf with
  | none => simp
  | some b =>
    rcases h0 with h0 | h0
    · subst h0; simp [itemOrEnd]
    · rw [hb] at h0; cases h0

/-- a non-empty received buffer is yielded as is -/
theorem stream_item_token (fl : Fl) (c : Cqe) (b : Bytes) (n : Nat) (hr : c.res = .ok n)
    (hb : c.buf = some b) (hne : (b.take n) ≠ []) : tokOf fl c = .item (b.take n) := by
  have : ¬ (fl = Fl.bytes ∧ (b.take n).isEmpty = true) := by
    intro ⟨_, h⟩; exact hne (List.isEmpty_iff.mp h)
  unfold tokOf itemOrEnd
  cases hm : c.more <;> simp only [hr, hb, if_neg this] <;> simp

/-- an error completion is yielded exactly as that error -/
theorem stream_err_token (fl : Fl) (c : Cqe) (e : Err) (hr : c.res = .err e)
    (hb : c.more = false ∨ c.buf ≠ none) : tokOf fl c = .err e := by
  unfold tokOf
  cases hm : c.more with
  | false => simp [hr]
  | true =>
    rcases hb with hb | hb
    · rw [hm] at hb; cases hb
    · cases hbuf : c.buf with
      | none => exact absurd hbuf hb
      | some b => simp [hr]

/-- cancel: once the token fired and no submission is in flight the stream ends, submits nothing, and
stays ended -/
theorem stream_cancel_ends (s : Stream) (h : s.Idle) :
    (s.cancel.next).1 = .end_ ∧ (s.cancel.next).2.nsub = s.nsub ∧
      ((s.cancel.next).2.next).1 = .end_ ∧ ((s.cancel.next).2.next).2.nsub = s.nsub := by
  have hi : s.cancel.Idle := h
  have e1 := next_cancelled s.cancel hi rfl
  have hi2 : ({ s.cancel with op := none } : Stream).Idle := Or.inl rfl
  have e2 := next_cancelled { s.cancel with op := none } hi2 rfl
  rw [e1]
  refine ⟨rfl, rfl, ?_, ?_⟩ <;> rw [e2] <;> rfl

/-- cancel does not drop what the running operation already holds: with a submission live, a cancelled
stream still yields every completion of that submission (the token is only consulted between
submissions), so bytes already taken from the socket reach the reader -/
theorem stream_cancel_keeps_queued (s : Stream) (c : Cqe) (rest : List Cqe)
    (h : s.op = some ⟨some (c :: rest)⟩) :
    s.cancel.next = (tokOf s.fl c, { s.cancel with op := some ⟨if c.more then some rest else none⟩ }) :=
  next_live s.cancel c rest h

/-- … all of them, in order, before the stream ends: a cancelled stream whose live submission is
`script` (complete) yields exactly `script.map tokOf`, then `None` without re-submitting -/
theorem stream_cancel_drains_then_ends (s : Stream) (script : List Cqe) (hc : complete script = true)
    (h : s.op = some ⟨some script⟩) :
    (Stream.take script.length s.cancel).1 = script.map (tokOf s.fl) ∧
      ((Stream.take script.length s.cancel).2.next).1 = .end_ ∧
      ((Stream.take script.length s.cancel).2.next).2.nsub = s.nsub := by
  have e := take_live s.cancel script hc h
  rw [e]
  refine ⟨rfl, ?_, ?_⟩
  · have := next_cancelled ({ s.cancel with op := some ⟨none⟩ } : Stream) (Or.inr rfl) rfl
    rw [this]
  · have := next_cancelled ({ s.cancel with op := some ⟨none⟩ } : Stream) (Or.inr rfl) rfl
    rw [this]; rfl

/-- a failing factory yields its error and submits nothing -/
theorem stream_factory_error (s : Stream) (k : Nat) (rest : List Sub) (h : s.Idle)
    (hc : s.cancelled = false) (hs : s.subs = .fail k :: rest) :
    s.next = (.err (.factory k), { s with op := none, subs := rest }) :=
  next_factory_fail s k rest h hc hs

/-- **for every script** of complete submissions (`more … more terminal`), a fresh stream polled once
per completion yields the tokens of all completions of all submissions — in order, each exactly
once —, has re-submitted after every terminal completion (one submission per script) and used up the
scripts. -/
theorem stream_exactly_once_in_order (fl : Fl) (subs : List Sub) (hs : allComplete subs = true) :
    (Stream.take (scriptsOf subs).length (Stream.new fl subs)).1 = (scriptsOf subs).map (tokOf fl) ∧
    (Stream.take (scriptsOf subs).length (Stream.new fl subs)).2.nsub = subs.length ∧
    (Stream.take (scriptsOf subs).length (Stream.new fl subs)).2.subs = [] := by
  obtain ⟨a, b, c, _⟩ := take_all (Stream.new fl subs) subs (Or.inl rfl) rfl rfl hs
  exact ⟨a, by simpa [Stream.new] using b, c⟩

/-- the model's loop bound is never hit: `next` does not return `fuel` -/
theorem stream_next_total (s : Stream) (h : s.Idle ∨ ∃ l, s.op = some ⟨some l⟩) : s.next.1 ≠ .fuel := by
  rcases h with h | ⟨l, h⟩
  · rw [next_idle s h]
    unfold Stream.idleStep
    split
    · simp
    · split
      · simp
      · simp
      · simp
      · rename_i c r rest _
        unfold tokOf itemOrEnd
        simp only
        repeat' split
        all_goals simp
  · cases l with
    | nil => rw [next_live_pending s h]; simp
    | cons c r =>
      rw [next_live s c r h]
      unfold tokOf itemOrEnd
      simp only
      repeat' split
      all_goals simp

/-- `Incoming`: the descriptors handed to the caller are exactly the `conn` tokens, in order -/
theorem incoming_yields_tokens (subs : List (List ACqe)) (n : Nat) :
    (Inc.take n (Inc.new subs)).2.yielded = conns (Inc.take n (Inc.new subs)).1 := by
  have := inc_take_yielded n (Inc.new subs)
  simpa [Inc.new] using this

/-- `Incoming`, every script, any number of polls, then drop: every descriptor the kernel handed to a
submitted accept operation was either yielded to the caller or closed by compio — exactly once each,
in kernel order; connections of submissions never made stay in the listen backlog. -/
theorem incoming_exactly_once_or_closed (subs : List (List ACqe)) (n : Nat) :
    let s := (Inc.take n (Inc.new subs)).2
    s.drop.yielded ++ s.drop.closed ++ backlog s.drop.subs = backlog subs ∧
      s.closed = [] := by
  intro s
  obtain ⟨hacc, hcl⟩ := inc_take_acc n (Inc.new subs)
  have hcl' : s.closed = [] := hcl
  refine ⟨?_, hcl'⟩
  have h0 : (Inc.new subs).acc = backlog subs := by simp [Inc.acc, Inc.new, Inc.owed]
  rw [h0] at hacc
  rw [← hacc]
  show s.drop.yielded ++ s.drop.closed ++ backlog s.drop.subs = s.yielded ++ s.owed ++ backlog s.subs
  unfold Inc.drop Inc.owed
  cases hop : s.op <;> simp [hcl']

/-- terminal completion WITH a value: when the kernel ends a multishot accept with a final *successful*
completion (descriptor, no `F_MORE` — it does so when the completion queue is full), that connection is
yielded like any other (`Accept::set_result` stored it, `Incoming` takes the finished op), and the next
poll submits a new accept -/
theorem incoming_terminal_success (s : Inc) (id : Nat) (rest : List ACqe) (sc : List ACqe) (subs : List (List ACqe))
    (h : s.op = .live (⟨.fd id, false⟩ :: rest)) (hs : s.subs = sc :: subs) :
    s.next = (.conn id, { s with op := .none, yielded := s.yielded ++ [id] }) ∧
      (s.next.2.next).2.nsub = s.nsub + 1 ∧ (s.next.2.next).2.subs = subs := by
  have e : s.next = (.conn id, { s with op := .none, yielded := s.yielded ++ [id] }) := by
    have := inc_nextF_live 2 s ⟨.fd id, false⟩ rest h
    simpa [Inc.next, atokOf, fdOf, afterOp] using this
  refine ⟨e, ?_, ?_⟩
  · rw [e]
    show (Inc.nextF 3 _).2.nsub = _
    rw [inc_nextF_none 1 _ rfl]
    unfold Inc.idleStep
    simp only [hs]
    cases sc <;> rfl
  · rw [e]
    show (Inc.nextF 3 _).2.subs = _
    rw [inc_nextF_none 1 _ rfl]
    unfold Inc.idleStep
    simp only [hs]
    cases sc <;> rfl

/-- a connection is never handed out twice: distinct descriptors stay distinct across `yielded` and
`closed` -/
theorem incoming_no_duplicates (subs : List (List ACqe)) (n : Nat) (hd : (backlog subs).Nodup) :
    let s := (Inc.take n (Inc.new subs)).2
    (s.drop.yielded ++ s.drop.closed).Nodup := by
  intro s
  have := (incoming_exactly_once_or_closed subs n).1
  rw [← this] at hd
  exact (List.nodup_append.mp hd).1

example : (Stream.take 4 (Stream.new .bytes
    [.op [⟨.ok 2, true, some [1, 2, 3]⟩, ⟨.err .busy, false, none⟩], .op [⟨.ok 1, true, some [9]⟩, ⟨.ok 0, false, none⟩]])).1
    = [.item [1, 2], .err .busy, .item [9], .end_] := by decide

/-- `incoming_exactly_once_or_closed` on a script with terminal-success entries (completion queue of 4:
every 4th connection ends its submission successfully) -/
example :
    let subs : List (List ACqe) :=
      [[⟨.fd 0, true⟩, ⟨.fd 1, true⟩, ⟨.fd 2, true⟩, ⟨.fd 3, false⟩],
       [⟨.fd 4, true⟩, ⟨.fd 5, true⟩, ⟨.fd 6, true⟩, ⟨.fd 7, false⟩], [⟨.fd 8, true⟩, ⟨.fd 9, true⟩]]
    (Inc.take 9 (Inc.new subs)).1 = (List.range 9).map ATok.conn ∧
      (Inc.take 9 (Inc.new subs)).2.nsub = 3 ∧
      (Inc.take 9 (Inc.new subs)).2.drop.closed = [9] := by decide

example : (Inc.take 3 (Inc.new [[⟨.fd 7, true⟩, ⟨.fd 8, true⟩, ⟨.fd 9, true⟩, ⟨.fd 10, true⟩]])).2.drop.closed = [10] := by
  decide

end MultiStream

/-! ## (4) tie to the sources: theorems over the regenerated `Gen/SockRecv.lean`

`Gen/SockRecv.lean` is rewritten from /repo by the extractor target `SockRecv` at every check
(compio-driver `op/managed/iour.rs`: `io_uring_recvmsg_out`, `NLEN`, `RecvMsgMultiResultImpl::{new,data,addr,
ancillary,flags}`; `op/socket/unix.rs`: the value each polling receive `call()` returns; compio-net
`socket/mod.rs`: the tail of `recv*`).  The theorems say: the hand model the driver executes IS what the source
says — a change of an offset expression, a dropped term, a swapped field, a removed / added clamp, another
advance function breaks one of these proofs without any test case having to sample it. -/

section GenTie
open Compio.RecvMsgOut
open Compio.Gen.SockRecv (Tail)

/-- the header as the generated field offsets read it -/
def genHdr (buf : Bytes) : Gen.SockRecv.Hdr :=
  { namelen := leU32 buf Gen.SockRecv.off_namelen, controllen := leU32 buf Gen.SockRecv.off_controllen,
    payloadlen := leU32 buf Gen.SockRecv.off_payloadlen, flags := leU32 buf Gen.SockRecv.off_flags }

/-- `readHdr` reads every field at the offset the `#[repr(C)]` struct in the source gives it. -/
theorem gen_header_fields (buf : Bytes) :
    (readHdr buf).namelen = (genHdr buf).namelen ∧ (readHdr buf).controllen = (genHdr buf).controllen ∧
    (readHdr buf).payloadlen = (genHdr buf).payloadlen ∧ (readHdr buf).flags = (genHdr buf).flags ∧
    HDR = Gen.SockRecv.HDR ∧ NLEN = Gen.SockRecv.NLEN :=
  ⟨rfl, rfl, rfl, rfl, rfl, rfl⟩

/-- the model's `new` = the two asserts of the source with the source's `total_len` sum (all buffers, all `clen`). -/
theorem gen_new_eq (buf : Bytes) (clen : Nat) :
    RecvMsgOut.new buf clen =
      if buf.length < Gen.SockRecv.newMinLen then .panic
      else if Gen.SockRecv.newTotal clen (genHdr buf) ≥ USIZE then .panic
      else if buf.length < Gen.SockRecv.newTotal clen (genHdr buf) then .panic
      else .ok ⟨buf, clen⟩ := rfl

/-- the model's `data()` slices at the source's offset expression. -/
theorem gen_data_eq (p : Parsed) :
    p.data = if Gen.SockRecv.dataOff p.clen (genHdr p.buf) > p.buf.length then .panic
             else .ok (p.buf.drop (Gen.SockRecv.dataOff p.clen (genHdr p.buf))) := rfl

/-- the model's `ancillary()` is the source's range `[ancStart .. ancEnd]`. -/
theorem gen_ancillary_eq (p : Parsed) :
    p.ancillary = if Gen.SockRecv.ancEnd p.clen (genHdr p.buf) > p.buf.length then .panic
      else .ok ((p.buf.drop (Gen.SockRecv.ancStart p.clen (genHdr p.buf))).take
            (Gen.SockRecv.ancEnd p.clen (genHdr p.buf) - Gen.SockRecv.ancStart p.clen (genHdr p.buf))) := by
  have h : Gen.SockRecv.ancEnd p.clen (genHdr p.buf) - Gen.SockRecv.ancStart p.clen (genHdr p.buf)
      = (readHdr p.buf).controllen := by
    show (Gen.SockRecv.HDR + Gen.SockRecv.NLEN) + (genHdr p.buf).controllen - (Gen.SockRecv.HDR + Gen.SockRecv.NLEN) = _
    rw [Nat.add_sub_cancel_left]; rfl
  rw [h]; rfl

/-- the model's `addr()`: `None` test, source offset, copy length and destination size as in the source. -/
theorem gen_addr_eq (p : Parsed) :
    p.addr = if Gen.SockRecv.addrIsNone (genHdr p.buf) = true then .ok none
      else if Gen.SockRecv.addrCopyLen (genHdr p.buf) > Gen.SockRecv.NLEN then .ub
      else .ok (some ((p.buf.drop (Gen.SockRecv.addrOff p.clen (genHdr p.buf))).take
            (Gen.SockRecv.addrCopyLen (genHdr p.buf)))) := by
  have e : (Gen.SockRecv.addrIsNone (genHdr p.buf) = true) ↔ (readHdr p.buf).namelen = 0 := by
    show (((genHdr p.buf).namelen == 0) = true) ↔ _
    rw [Nat.beq_eq_true_eq]; exact Iff.rfl
  by_cases h0 : (readHdr p.buf).namelen = 0
  · rw [if_pos (e.mpr h0)]; unfold Parsed.addr; simp only [h0, if_true]
  · rw [if_neg (fun h => h0 (e.mp h))]; unfold Parsed.addr; simp only [h0, if_false]; rfl

/-- the model's `flags()` returns the field the source returns. -/
theorem gen_flags_eq (p : Parsed) : p.flags = Gen.SockRecv.flagsOf (genHdr p.buf) := rfl

/-- Stated over the generated offsets alone: the areas the accessors address are laid out back to back exactly as
the kernel writes them — header, name area of `NLEN`, control area of the registered `clen`, payload — and `new`'s
bound is the end of the payload.  (Dropping or adding a term in any offset expression of the source breaks this.) -/
theorem gen_layout_consistent (clen : Nat) (h : Gen.SockRecv.Hdr) :
    Gen.SockRecv.newMinLen = 16 ∧
    Gen.SockRecv.addrOff clen h = 16 ∧
    Gen.SockRecv.ancStart clen h = Gen.SockRecv.addrOff clen h + 128 ∧
    Gen.SockRecv.ancEnd clen h = Gen.SockRecv.ancStart clen h + h.controllen ∧
    Gen.SockRecv.dataOff clen h = Gen.SockRecv.ancStart clen h + clen ∧
    Gen.SockRecv.newTotal clen h = Gen.SockRecv.dataOff clen h + h.payloadlen :=
  ⟨rfl, rfl, rfl, rfl, rfl, rfl⟩

/-- Kernel-contract buffer read through the GENERATED offsets and header fields: the bytes from `dataOff` on are the
payload, the range `[ancStart, ancEnd)` is the control data, `addrCopyLen` bytes at `addrOff` are the source address
(and `addrIsNone` is false for a non-empty name), `flagsOf` are the flags. -/
theorem gen_layout_roundtrip (name ctl payload : Bytes) (flags clen : Nat)
    (hn : name.length ≤ NLEN) (hc : ctl.length ≤ clen) (hcl : clen < 2 ^ 32)
    (hp : payload.length < 2 ^ 32) (hf : flags < 2 ^ 32) :
    let buf := layout name ctl payload flags clen
    let h := genHdr buf
    buf.drop (Gen.SockRecv.dataOff clen h) = payload ∧
    (buf.drop (Gen.SockRecv.ancStart clen h)).take (Gen.SockRecv.ancEnd clen h - Gen.SockRecv.ancStart clen h) = ctl ∧
    (name.length ≠ 0 → Gen.SockRecv.addrIsNone h = false ∧
      (buf.drop (Gen.SockRecv.addrOff clen h)).take (Gen.SockRecv.addrCopyLen h) = name) ∧
    Gen.SockRecv.flagsOf h = flags := by
  intro buf h
  obtain ⟨p, hnew, hd, ha, had, hfl⟩ := recvmsg_out_roundtrip name ctl payload flags clen hn hc hcl hp hf
  obtain ⟨hb, hcl', _⟩ := new_ok_bounds _ _ _ hnew
  rw [gen_data_eq, hb, hcl'] at hd
  rw [gen_ancillary_eq, hb, hcl'] at ha
  rw [gen_addr_eq, hb, hcl'] at had
  rw [gen_flags_eq, hb] at hfl
  refine ⟨?_, ?_, ?_, hfl⟩
  · split at hd
    · cases hd
    · exact R.ok.inj hd
  · split at ha
    · cases ha
    · exact R.ok.inj ha
  · intro hne
    rw [if_neg hne] at had
    by_cases hnone : Gen.SockRecv.addrIsNone (genHdr (layout name ctl payload flags clen)) = true
    · rw [if_pos hnone] at had; cases had
    · rw [if_neg hnone] at had
      refine ⟨by simpa using hnone, ?_⟩
      split at had
      · cases had
      · exact Option.some.inj (R.ok.inj had)

example : (layout [2, 0, 0x1f, 0x90] [] [0x68, 0x69] 0 0).drop
    (Gen.SockRecv.dataOff 0 (genHdr (layout [2, 0, 0x1f, 0x90] [] [0x68, 0x69] 0 0))) = [0x68, 0x69] :=
  (gen_layout_roundtrip [2, 0, 0x1f, 0x90] [] [0x68, 0x69] 0 0 (by decide) (by decide) (by decide)
    (by decide) (by decide)).1

/-- the clamp table of the model (`clamps`, used by `compLen` and by the driver's predictions) is the table read
from the `call()` bodies in `op/socket/unix.rs`; io_uring cannot clamp (`OpCode::set_result` gets `&io::Result`). -/
theorem gen_clamps_poll :
    clamps .recv .poll = Gen.SockRecv.pollClampsRecv ∧
    clamps .recvVectored .poll = Gen.SockRecv.pollClampsRecvVectored ∧
    clamps .recvFrom .poll = Gen.SockRecv.pollClampsRecvFrom ∧
    clamps .recvFromVectored .poll = Gen.SockRecv.pollClampsRecvFromVectored ∧
    clamps .recvMsg .poll = Gen.SockRecv.pollClampsRecvMsg ∧
    ∀ op, clamps op .uring = false :=
  ⟨rfl, rfl, rfl, rfl, rfl, fun op => by cases op <;> rfl⟩

/-- single-buffer tail of `Socket::recv*` as described by the generated `Tail` -/
def applyTail1 (t : Tail) (c : Comp) (b : Buf) : Res ((Nat × Option Bytes) × Buf) :=
  (advanceTo b c.n).bind fun b' => .ok ((c.n, if t.addr then intoAddr c else none), b')

/-- vectored tail -/
def applyTailV (t : Tail) (c : Comp) (bs : List Buf) : Res ((Nat × Option Bytes) × List Buf) :=
  (advanceVecTo bs c.n).bind fun bs' => .ok ((c.n, if t.addr then intoAddr c else none), bs')

/-- `recv` / `recv_from`: the source builds `Recv` / `RecvFrom`, advances with `map_advanced` (`vec = false`),
applies `map_addr` only for `recv_from`; the model's mapping functions are exactly that. -/
theorem gen_tail_single :
    Gen.SockRecv.recv = ⟨"Recv", false, false⟩ ∧ Gen.SockRecv.recvFrom.op = "RecvFrom" ∧
    Gen.SockRecv.recvFrom.vec = false ∧
    (∀ n b, mapRecv n b = (applyTail1 Gen.SockRecv.recv ⟨n, 0, [], 0, 0⟩ b).bind fun r => .ok (r.1.1, r.2)) ∧
    (∀ c b, mapRecvFrom c b = applyTail1 Gen.SockRecv.recvFrom c b) := by
  refine ⟨rfl, rfl, rfl, ?_, fun _ _ => rfl⟩
  intro n b
  simp only [mapRecv, applyTail1]
  cases advanceTo b n <;> rfl

/-- `recv_vectored` / `recv_from_vectored` / `recv_msg_vectored` (and `recv_msg` = its one-member case): ops,
`map_vec_advanced`, `map_addr` as in the source. -/
theorem gen_tail_vectored :
    Gen.SockRecv.recvVectored = ⟨"RecvVectored", false, true⟩ ∧
    Gen.SockRecv.recvFromVectored.op = "RecvFromVectored" ∧ Gen.SockRecv.recvFromVectored.vec = true ∧
    Gen.SockRecv.recvMsgVectored.op = "RecvMsg" ∧ Gen.SockRecv.recvMsgVectored.vec = true ∧
    Gen.SockRecv.recvMsgIsOneMemberVectored = true ∧
    (∀ n bs, mapRecvVectored n bs =
      (applyTailV Gen.SockRecv.recvVectored ⟨n, 0, [], 0, 0⟩ bs).bind fun r => .ok (r.1.1, r.2)) ∧
    (∀ c bs, mapRecvFromVectored c bs = applyTailV Gen.SockRecv.recvFromVectored c bs) ∧
    (∀ c bs ctl, mapRecvMsg c bs ctl =
      (applyTailV Gen.SockRecv.recvMsgVectored c bs).bind fun r =>
        (advanceTo ctl c.ctlLen).bind fun ctl' => .ok ((c.n, c.ctlLen, r.1.2, c.flags), (r.2, ctl'))) := by
  refine ⟨rfl, rfl, rfl, rfl, rfl, rfl, ?_, fun _ _ => rfl, ?_⟩
  · intro n bs
    simp only [mapRecvVectored, applyTailV]
    cases advanceVecTo bs n <;> rfl
  · intro c bs ctl
    simp only [mapRecvMsg, applyTailV]
    cases advanceVecTo bs c.n <;> rfl

end GenTie

/-! ## (5) histories: every sequence of receive calls on a byte stream -/

/-- one receive call on a stream socket, by buffer shape (fresh buffers) -/
inductive RecvOp where
  | one (cap : Nat)            -- `recv` / read half / `recv_from` into `Vec::with_capacity(cap)`
  | vec (caps : List Nat)      -- `recv_vectored` / `recv_msg*` into fresh vectors of these capacities
  deriving Repr

def freshBufs (caps : List Nat) : List Buf := caps.map (Buf.vecOf [])

/-- room the call offers to the kernel -/
def room : RecvOp → Nat
  | .one cap => cap
  | .vec caps => totalCap (freshBufs caps)

/-- one call: the kernel moves a prefix of the queue `q` into the buffer(s) (`kStream`, `write`/`scatter`), the
completion goes through `mapRecv` / `mapRecvVectored`; result = (what the caller reads, what stays queued) -/
def recvStep (q : Bytes) : RecvOp → Res (Bytes × Bytes)
  | .one cap =>
    (mapRecv (kStream q cap).1.length ((Buf.vecOf [] cap).write (kStream q cap).1)).bind fun r =>
      .ok (r.2.vis.take r.1, (kStream q cap).2)
  | .vec caps =>
    (mapRecvVectored (kStream q (totalCap (freshBufs caps))).1.length
        (scatter (freshBufs caps) (kStream q (totalCap (freshBufs caps))).1)).bind fun r =>
      .ok (seen r.2 r.1, (kStream q (totalCap (freshBufs caps))).2)

/-- a whole history of calls -/
def recvAll : Bytes → List RecvOp → Res (Bytes × Bytes)
  | q, [] => .ok ([], q)
  | q, op :: r => (recvStep q op).bind fun s => (recvAll s.2 r).bind fun t => .ok (s.1 ++ t.1, t.2)

def totalRoom : List RecvOp → Nat
  | [] => 0
  | op :: r => room op + totalRoom r

theorem recvStep_exact (q : Bytes) (op : RecvOp) :
    ∃ got rest, recvStep q op = .ok (got, rest) ∧ got ++ rest = q ∧ got.length = min (room op) q.length := by
  cases op with
  | one cap =>
    have hw : (q.take cap).length ≤ cap := by simp; omega
    obtain ⟨b', e, hv⟩ := recv_single_fresh cap (q.take cap) hw
    refine ⟨q.take cap, q.drop cap, ?_, List.take_append_drop _ _, by simp [room]⟩
    simp only [recvStep, kStream]
    rw [e]
    simp [Res.bind, hv]
    exact List.take_of_length_le (by simp)
  | vec caps =>
    have hw : (q.take (totalCap (freshBufs caps))).length ≤ totalCap (freshBufs caps) := by simp; omega
    have hwf : ∀ b ∈ freshBufs caps, b.WF' := by
      intro b hb
      obtain ⟨c, _, rfl⟩ := List.mem_map.mp hb
      simp [Buf.WF', Buf.WF, Buf.vecOf]
    have hl : ∀ b ∈ freshBufs caps, b.len = 0 := by
      intro b hb
      obtain ⟨c, _, rfl⟩ := List.mem_map.mp hb
      simp [Buf.vecOf]
    obtain ⟨bs', e, hs, _⟩ := recv_vectored_exact (freshBufs caps) _ hwf hw (guard_fresh _ _ hl)
    refine ⟨q.take (totalCap (freshBufs caps)), q.drop (totalCap (freshBufs caps)), ?_,
      List.take_append_drop _ _, by simp [room]⟩
    simp only [recvStep, kStream]
    rw [e]
    simp only [Res.bind]
    rw [hs]

/-- **All histories.**  Whatever sequence of receive calls (single-buffer or vectored, any capacities, also 0) is
made on a stream whose queue holds `q`: no call fails, what the caller has read in total followed by what is still
queued is exactly `q` — nothing lost, duplicated or reordered — and the amount read is `min (Σ room) |q|`. -/
theorem stream_history_exact (q : Bytes) (ops : List RecvOp) :
    ∃ got rest, recvAll q ops = .ok (got, rest) ∧ got ++ rest = q ∧
      got.length = min (totalRoom ops) q.length := by
  induction ops generalizing q with
  | nil => exact ⟨[], q, rfl, rfl, by simp [totalRoom]⟩
  | cons op r ih =>
    obtain ⟨g1, r1, e1, h1, l1⟩ := recvStep_exact q op
    obtain ⟨g2, r2, e2, h2, l2⟩ := ih r1
    refine ⟨g1 ++ g2, r2, ?_, ?_, ?_⟩
    · simp [recvAll, e1, e2, Res.bind]
    · rw [List.append_assoc, h2, h1]
    · have hq : q.length = g1.length + r1.length := by rw [← h1]; simp
      simp only [List.length_append, totalRoom]
      omega

/-- with enough room in total the receiver has read the sender's byte sequence, all of it, and the queue is empty
(the next receive reports the end of the stream once the peer has shut down). -/
theorem stream_history_complete (q : Bytes) (ops : List RecvOp) (h : q.length ≤ totalRoom ops) :
    recvAll q ops = .ok (q, []) := by
  obtain ⟨got, rest, e, ha, hl⟩ := stream_history_exact q ops
  have hq : q.length = got.length + rest.length := by rw [← ha]; simp
  have hr : rest = [] := List.eq_nil_of_length_eq_zero (by omega)
  subst hr
  rw [e]; simp at ha; rw [ha]

example : recvAll [1, 2, 3, 4, 5, 6, 7] [.one 2, .vec [1, 0, 3], .one 0, .one 8] = .ok ([1, 2, 3, 4, 5, 6, 7], []) :=
  stream_history_complete _ _ (by decide)


/-- one datagram receive into a fresh `Vec::with_capacity(cap)`: (what the caller reads, `MSG_TRUNC`) -/
def dgramStep (d : Bytes) (cap : Nat) : Res (Bytes × Bool) :=
  (mapRecv (kDgram d cap).1.length ((Buf.vecOf [] cap).write (kDgram d cap).1)).bind fun r =>
    .ok (r.2.vis.take r.1, (kDgram d cap).2)

/-- a history of datagram receives on a socket whose queue holds `ds` (a receive on an empty queue waits: the
history ends there); result = (items in order, datagrams still queued) -/
def dgramAll : List Bytes → List Nat → Res (List (Bytes × Bool) × List Bytes)
  | ds, [] => .ok ([], ds)
  | [], _ :: _ => .ok ([], [])
  | d :: ds, c :: cs => (dgramStep d c).bind fun x => (dgramAll ds cs).bind fun t => .ok (x :: t.1, t.2)

theorem dgramStep_exact (d : Bytes) (cap : Nat) :
    dgramStep d cap = .ok (d.take cap, decide (cap < d.length)) := by
  have hw : (d.take cap).length ≤ cap := by simp; omega
  obtain ⟨b', e, hv⟩ := recv_single_fresh cap (d.take cap) hw
  simp only [dgramStep, kDgram]
  rw [e]
  simp [Res.bind, hv]
  exact List.take_of_length_le (by simp)

/-- **All datagram histories.**  The k-th receive returns the k-th queued datagram — each exactly once, in order —
cut to the buffer's capacity (never beyond it), flagged truncated iff it did not fit; the datagrams not yet
received stay queued unchanged. -/
theorem dgram_history_exact (ds : List Bytes) (caps : List Nat) :
    dgramAll ds caps = .ok ((List.zip ds caps).map (fun x => (x.1.take x.2, decide (x.2 < x.1.length))),
      ds.drop caps.length) := by
  induction ds generalizing caps with
  | nil => cases caps <;> simp [dgramAll]
  | cons d ds ih =>
    cases caps with
    | nil => simp [dgramAll]
    | cons c cs => simp [dgramAll, dgramStep_exact, ih cs, Res.bind]

theorem dgram_history_within_capacity (ds : List Bytes) (caps : List Nat) :
    ∃ items rest, dgramAll ds caps = .ok (items, rest) ∧ items.length = min ds.length caps.length ∧
      ∀ k (hk : k < items.length), ∃ c, caps[k]? = some c ∧ (items[k]).1.length ≤ c := by
  refine ⟨_, _, dgram_history_exact ds caps, by simp, ?_⟩
  intro k hk
  have hk' : k < ds.length ∧ k < caps.length := by
    simp at hk; omega
  refine ⟨caps[k], by simp [hk'.2], ?_⟩
  simp
  omega

example : dgramAll [[1, 2, 3], [], [4, 5]] [2, 4] = .ok ([([1, 2], true), ([], false)], [[4, 5]]) := by
  rw [dgram_history_exact]; rfl


/-! non-vacuity -/

example : ∃ b', mapRecv 3 ((Buf.vecOf [9, 9, 9, 9, 9] 8).write [1, 2, 3]) = .ok (3, b') ∧
    b'.vis = [1, 2, 3, 9, 9] := ⟨_, rfl, rfl⟩

example : ∃ bs', mapRecvVectored 5 (scatter [Buf.vecOf [] 2, Buf.arrOf [0xee, 0xee], Buf.vecOf [] 4] [1, 2, 3, 4, 5])
      = .ok (5, bs') ∧ bs'.map (·.vis) = [[1, 2], [3, 4], [5]] := ⟨_, rfl, rfl⟩

example : (kDgram [1, 2, 3, 4, 5] 3) = ([1, 2, 3], true) := rfl

end Compio.C14
