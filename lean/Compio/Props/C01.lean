/-
C01 — In-flight operations keep their memory and descriptors alive.

All theorems quantify over EVERY event list accepted from a fresh proactor of either driver and any
submission-queue capacity (`run Cfg.gen (init d cap) evs = some s`): every interleaving of submit, kernel
completion, future drop (`Proactor::cancel`), plain key drop, cancel token, late registration, pool job
completion and driver drop — in particular every sequence of `Proactor` calls the harness executes, because
the model driver pushes each line through the same `step`.

`Cfg.gen` carries what the extractor reads from `impl Drop for iour::Driver`: the ORDER of its statements
(`Gen.iourDriverDrop`) and whether its CQ drain loop looks at the `more` flag (`Gen.iourDropDrainChecksMore`).

No guard is left: the former guard `hazard = false` (finding F13: the `Drop` drain loop turned CQEs flagged `more`
into keys) is discharged by `no_hazard`, because the repaired loop — as read from the source by the extractor — skips
such CQEs. Pre-fix witnesses: `Compio.Cex.C01`.

Kernel assumption A-K1 is built into the LTS: `kPost` is only accepted for an op the kernel still has in
flight and while the ring is open.
-/
import Compio.Lemmas.KeyLifeArm

namespace Compio.Props.C01

open Compio Compio.KeyLife Compio.PollQueues

variable {d : Drv} {cap : Nat} {evs : List Event} {s : State}

/-! ### the F13 guard is discharged

`State.hazard` records that the drain loop of `Drop for iour::Driver` turned a CQE flagged `more` back into a key
(finding F13). Since commit 4ea6d14 the loop skips such CQEs; the extractor reads that from the source
(`Gen.iourDropDrainChecksMore = true`), and with it the flag can never be raised: the ownership theorems below hold
for EVERY run, without guard. (`Compio.Cex.C01` keeps the pre-fix loop as a witness.) -/

/-- the guard can only be broken by the drain statement of `Drop` meeting an unseen CQE flagged `more`
while the loop does not test the flag -/
theorem hazard_only_by_drop_drain {c : Cfg} {s s' : State} {e : Event} (h : step c s e = some s')
    (h0 : s.hazard = false) (h1 : s'.hazard = true) :
    e = .dropStep ∧ c.drainChecksMore = false ∧ ∃ o, o ∈ s.ops ∧ o.pendMore ≠ [] := by
  rcases hazard_step h with h2 | ⟨he, h2⟩
  · rw [h2, h0] at h1; cases h1
  · rw [h2, h0] at h1
    simp only [Bool.false_or, Bool.and_eq_true, Bool.not_eq_true', List.any_eq_true] at h1
    obtain ⟨hc, o, hm, hp⟩ := h1
    refine ⟨he, hc, o, hm, ?_⟩
    intro hnil; rw [hnil] at hp; simp at hp

/-- once the drain loop tests `more(flags)` (the repair of F13) the guard never fails -/
theorem no_hazard_when_drain_checks_more {c : Cfg} (hc : c.drainChecksMore = true) :
    ∀ (evs : List Event) (s s' : State), s.hazard = false → run c s evs = some s' → s'.hazard = false := by
  intro evs
  induction evs with
  | nil => intro s s' h0 h; simp [run] at h; subst h; exact h0
  | cons e es ih =>
    intro s s' h0 h
    simp only [run] at h
    split at h
    · rename_i s1 hs1
      refine ih s1 s' ?_ h
      cases hz : s1.hazard
      · rfl
      · have := (hazard_only_by_drop_drain hs1 h0 hz).2.1
        rw [hc] at this; cases this
    · cases h

/-- **no hazard with the code as it is**: the extracted `Drop` loop tests `more(flags)` -/
theorem no_hazard (h : run Cfg.gen (init d cap) evs = some s) : s.hazard = false :=
  no_hazard_when_drain_checks_more (c := Cfg.gen) rfl evs _ _ rfl h


/-- **refcount = |holders|**: the strong count of an operation always equals the number of places that own a
key: caller handles, the user_data leaked to the kernel (`in_flight`), entries of the completed channel, the
frozen key of a running pool job, occurrences in the fd queue of the polling driver. Cancel tokens (weak) do
not count. -/
theorem refcount_eq_holders (h : run Cfg.gen (init d cap) evs = some s) 
    {i : Nat} {o : Op} (ho : s.ops[i]? = some o) :
    o.rc = o.user + b2n o.inFl + o.chan.length + b2n o.poolRun + ((s.reg o.fd).sel o.dir).count o.id :=
  ((reach_inv h (no_hazard h)).ops i o ho).1.rc_eq

/-- **kernel in flight ⇒ the leaked reference is among the holders**: while the ring is open, an op whose SQE
is queued or which the kernel has not finished keeps its user_data in `in_flight`, so its storage is neither
freed nor handed back: buffer, control data and descriptor stay allocated and in place. -/
theorem kernel_inflight_keeps_leaked_ref (h : run Cfg.gen (init d cap) evs = some s) 
    {i : Nat} {o : Op} (ho : s.ops[i]? = some o) (hr : s.ring = true)
    (hk : o.kstat = .queued ∨ o.kstat = .inflight) :
    o.inFl = true ∧ 0 < o.rc ∧ o.freed = 0 ∧ o.returned = 0 := by
  have ok := ((reach_inv h (no_hazard h)).ops i o ho).1
  have hfl := ok.kern hr hk
  have hrc : 0 < o.rc := by rw [ok.rc_eq]; unfold holders; rw [hfl]; simp; omega
  have := ok.rcok.rel1 hrc
  exact ⟨hfl, hrc, by omega, by omega⟩

/-- **released at most once, never touched afterwards**: freed at most once, handed back at most once, never
both, and no key is ever used or dropped after the release (no double free, no use after free). -/
theorem released_at_most_once (h : run Cfg.gen (init d cap) evs = some s) 
    {i : Nat} {o : Op} (ho : s.ops[i]? = some o) :
    o.freed + o.returned ≤ 1 ∧ o.uaf = false := by
  have ok := ((reach_inv h (no_hazard h)).ops i o ho).1
  refine ⟨?_, ok.rcok.no_uaf⟩
  by_cases hrc : o.rc = 0
  · have := ok.rcok.rel0 hrc; omega
  · have := ok.rcok.rel1 (by omega); omega

/-- the release happens exactly when the last holder goes -/
theorem released_iff_no_holder (h : run Cfg.gen (init d cap) evs = some s) 
    {i : Nat} {o : Op} (ho : s.ops[i]? = some o) :
    (o.freed + o.returned = 1 ↔ o.rc = 0) := by
  have ok := ((reach_inv h (no_hazard h)).ops i o ho).1
  constructor
  · intro h1
    by_cases hrc : o.rc = 0
    · exact hrc
    · have := ok.rcok.rel1 (by omega); omega
  · exact ok.rcok.rel0

/-- **freed ⇒ the kernel is done with it, or the ring is closed** -/
theorem freed_only_when_kernel_done_or_ring_closed (h : run Cfg.gen (init d cap) evs = some s)
    {i : Nat} {o : Op} (ho : s.ops[i]? = some o) (hf : o.freed = 1) :
    (o.kstat ≠ .queued ∧ o.kstat ≠ .inflight) ∨ s.ring = false := by
  cases hr : s.ring
  · exact Or.inr rfl
  · left
    constructor
    · intro hk
      have := kernel_inflight_keeps_leaked_ref h ho hr (Or.inl hk)
      omega
    · intro hk
      have := kernel_inflight_keeps_leaked_ref h ho hr (Or.inr hk)
      omega

/-- **the pool job holds a reference while it runs** (the frozen key): an `Asyncify` closure never runs on
released storage, however early the caller gives up. -/
theorem pool_job_holds_ref (h : run Cfg.gen (init d cap) evs = some s) 
    {i : Nat} {o : Op} (ho : s.ops[i]? = some o) (hp : o.poolRun = true) :
    0 < o.rc ∧ o.freed = 0 ∧ o.returned = 0 := by
  have ok := ((reach_inv h (no_hazard h)).ops i o ho).1
  have hrc : 0 < o.rc := by rw [ok.rc_eq]; unfold holders; rw [hp]; simp; omega
  have := ok.rcok.rel1 hrc
  exact ⟨hrc, by omega, by omega⟩

/-- **zero-copy: buffer handed back ⇒ notification CQE seen**. An operation that was handed to the kernel goes
back to the caller only after `poll_entries` processed its FINAL CQE — for `SendZc` that is the notification,
the send result travels as a `more` CQE through `push_multishot` — and a final CQE means the kernel is done.
(No guard needed.) -/
theorem handed_back_only_after_final_cqe {c : Cfg} (h : run c (init d cap) evs = some s)
    {i : Nat} {o : Op} (ho : s.ops[i]? = some o) (hret : 0 < o.returned) (hk : o.kstat ≠ .none) :
    o.finalSeen = true ∧ o.kstat = .done := by
  have ok := reach_inv2 h i o ho
  have := ok.returned_final hret hk
  exact ⟨this, ok.final_done this⟩

/-- **no leak, no double free at the end**: once the driver is dropped, every pool job has finished and the
caller has released its handles, every operation has been released exactly once (freed by the driver or handed
back to the caller). -/
theorem no_leak_after_driver_drop (h : run Cfg.gen (init d cap) evs = some s) 
    (hdead : s.alive = false) (hpc : s.dropPc = none)
    (hjobs : ∀ (i : Nat) (o : Op), s.ops[i]? = some o → o.poolRun = false)
    {i : Nat} {o : Op} (ho : s.ops[i]? = some o) (hu : o.user = 0) :
    o.freed + o.returned = 1 := by
  have hi := reach_inv h (no_hazard h)
  have ok := (hi.ops i o ho).1
  obtain ⟨hch, hreg, hfl⟩ := hi.dead_ok hdead hpc
  have hchan := hi.chan_ok hch hjobs i o ho
  have hrc : o.rc = 0 := by
    rw [ok.rc_eq]
    unfold holders qcount
    rw [hu, hfl i o ho, hchan, hjobs i o ho, hreg o.fd]
    cases o.dir <;> simp [FdQ.empty, FdQ.sel]
  exact ok.rcok.rel0 hrc

/-- after the driver is dropped nothing is leaked to the kernel any more and no fd queue holds a key -/
theorem driver_drop_releases_driver_side (h : run Cfg.gen (init d cap) evs = some s) 
    (hdead : s.alive = false) (hpc : s.dropPc = none) {i : Nat} {o : Op} (ho : s.ops[i]? = some o) :
    o.inFl = false ∧ (∀ fd, s.reg fd = FdQ.empty) := by
  obtain ⟨_, hreg, hfl⟩ := (reach_inv h (no_hazard h)).dead_ok hdead hpc
  exact ⟨hfl i o ho, hreg⟩

/-- **polling driver: the key stored in the poller is a key the driver owns.** While the proactor is alive, what
the poller watches for a descriptor is `event()` of its queues, so the user-data key an event carries (it is
dereferenced through a `BorrowedKey` in `poll`) is the head of a queue: that operation exists, the queue holds a
counted reference to it, and it has not been released. -/
theorem poller_key_is_alive (h : run Cfg.gen (init d cap) evs = some s) 
    (ha : s.alive = true) {fd k : Nat} (hk : (s.armed fd).key = some k) :
    s.armed fd = (s.reg fd).event ∧
      ∃ o, s.ops[k]? = some o ∧ o.fd = fd ∧ 0 < o.rc ∧ o.freed = 0 ∧ o.returned = 0 := by
  have hi := reach_inv h (no_hazard h)
  have harm := run_arm gen_good evs _ _ (inv_init _ d cap) (arm_init d cap) h (no_hazard h) ha fd
  refine ⟨harm, ?_⟩
  rw [harm] at hk
  -- the key is the head of the write queue, else of the read queue
  have hmem : ∃ dir, k ∈ (s.reg fd).sel dir := by
    unfold FdQ.event at hk
    simp only at hk
    cases hw : (s.reg fd).wq.head? with
    | some w =>
      rw [hw] at hk; simp only [Option.some.injEq] at hk; subst hk
      exact ⟨.wr, List.mem_of_mem_head? hw⟩
    | none =>
      rw [hw] at hk; simp only at hk
      exact ⟨.rd, List.mem_of_mem_head? hk⟩
  obtain ⟨dir, hm⟩ := hmem
  obtain ⟨o, ho, hfd, hdir⟩ := hi.qmem fd dir k hm
  obtain ⟨ok, hid⟩ := hi.ops k o ho
  have hq : 0 < qcount s.reg o := by
    unfold qcount; rw [hfd, hdir, hid]; exact List.count_pos_iff.mpr hm
  have hrc : 0 < o.rc := by rw [ok.rc_eq]; unfold holders; omega
  have := ok.rcok.rel1 hrc
  exact ⟨o, ho, hfd, hrc, by omega, by omega⟩

/-- **`remove_one` re-registers the descriptor** (cancel on the polling driver, `cancel_one` → `remove_one` → `renew`):
after the cancelled key has left the queues, what the poller carries for that descriptor is `event()` of the REMAINING
queues — in particular its user-data key is the new front waiter (a member of the old queue other than the cancelled
op), or nothing; it is never the cancelled op, whose storage is about to be released. Together with
`poller_key_is_alive` (every state reached by such a step): a readiness event is never routed through released
storage. (The re-registration cannot be skipped when only the key changes: the interest bits may be the same.) -/
theorem cancel_rearms_poller_with_live_front (c : Cfg) (s : State) (id : Nat) (o : Op)
    (posts : List (Nat × Bool × Res)) (hd : s.drv = .poll) (hk : o.kind ≠ .blocking) :
    (cancelIssue c s id o posts).armed o.fd = ((cancelIssue c s id o posts).reg o.fd).event ∧
      ((cancelIssue c s id o posts).armed o.fd).key ≠ some id ∧
      ∀ k, ((cancelIssue c s id o posts).armed o.fd).key = some k →
        k ≠ id ∧ (k ∈ (s.reg o.fd).rq ∨ k ∈ (s.reg o.fd).wq) := by
  have hreg : (cancelIssue c s id o posts).reg = upd s.reg o.fd ((s.reg o.fd).remove id) := by
    unfold cancelIssue driverCancel pollCancel; simp [hd, hk]
  have harm : (cancelIssue c s id o posts).armed = upd s.armed o.fd ((s.reg o.fd).remove id).event := by
    unfold cancelIssue driverCancel pollCancel; simp [hd, hk]
  have key : ∀ k, ((s.reg o.fd).remove id).event.key = some k →
      k ≠ id ∧ (k ∈ (s.reg o.fd).rq ∨ k ∈ (s.reg o.fd).wq) := by
    intro k hkk
    unfold FdQ.event FdQ.remove at hkk
    simp only at hkk
    cases hw : (List.filter (fun x => x != id) (s.reg o.fd).wq).head? with
    | some w =>
      rw [hw] at hkk; simp only [Option.some.injEq] at hkk; subst hkk
      have := mem_filter_ne.mp (List.mem_of_mem_head? hw)
      exact ⟨this.2, Or.inr this.1⟩
    | none =>
      rw [hw] at hkk; simp only at hkk
      have := mem_filter_ne.mp (List.mem_of_mem_head? hkk)
      exact ⟨this.2, Or.inl this.1⟩
  refine ⟨by rw [hreg, harm]; simp only [upd_same], ?_, ?_⟩
  · rw [harm]; simp only [upd_same]
    intro h; exact (key id h).1 rfl
  · intro k hk'
    rw [harm] at hk'; simp only [upd_same] at hk'
    exact key k hk'

/-- **the ring is closed before in-flight keys are freed** — over the statement order extracted from
`impl Drop for iour::Driver`: every `freeInFlight` statement is preceded by a `closeRing`, and the order is
exactly the one the invariant proof (`step_inv`) needs. -/
theorem ring_closed_before_free :
    (∀ k, Gen.iourDriverDrop[k]? = some .freeInFlight → (Gen.iourDriverDrop.take k).contains .closeRing = true) ∧
      GoodCfg Cfg.gen := by
  refine ⟨?_, gen_good⟩
  intro k hk
  have hlt : k < 3 := by
    have := (List.getElem?_eq_some_iff.mp hk).1
    simpa [Gen.iourDriverDrop] using this
  match k, hlt with
  | 0, _ => simp [Gen.iourDriverDrop] at hk
  | 1, _ => simp [Gen.iourDriverDrop] at hk
  | 2, _ => decide

/-- inside `Drop`, the ring is open exactly until the `closeRing` statement has run, and from the
`freeInFlight` statement on nothing is leaked -/
theorem drop_phase (h : run Cfg.gen (init d cap) evs = some s) {k : Nat}
    (hk : s.dropPc = some k) :
    s.ring = !(((dropProg Cfg.gen s.drv).take k).contains .closeRing) ∧
      ((((dropProg Cfg.gen s.drv).take k).contains .freeInFlight) = true →
        ∀ (i : Nat) (o : Op), s.ops[i]? = some o → o.inFl = false) := by
  obtain ⟨_, _, _, h4, h5⟩ := (reach_inv h (no_hazard h)).pc_ok k hk
  exact ⟨h4, h5⟩

/-! ### non-vacuity: the hypotheses are met by concrete, non-trivial runs -/

/-- a receive is in flight on io_uring, the caller has dropped its future (`Proactor::cancel`): the kernel's
leaked reference is the only holder, nothing is freed -/
example :
    (run Cfg.gen (init .iour 2) [.pushSq .single 0 .rd, .submit, .userCancel 0 []]).map
      (fun s => (s.hazard, s.ring, s.ops.map fun o => (o.kstat, o.rc, o.user, o.inFl, o.freed, o.cancelSq)))
    = some (false, true, [(.inflight, 1, 0, true, 0, 1)]) := by rfl

/-- … the kernel honours the cancel, the final CQE is processed: freed exactly once -/
example :
    (run Cfg.gen (init .iour 2) [.pushSq .single 0 .rd, .submit, .userCancel 0 [], .submit,
        .kPost 0 false ECANCELED, .pollEntries]).map
      (fun s => s.ops.map fun o => (o.kstat, o.rc, o.inFl, o.freed, o.returned, o.result))
    = some [(.done, 0, false, 1, 0, some ECANCELED)] := by rfl

/-- driver dropped with the receive still in flight: freed once, after the ring was closed -/
example :
    (run Cfg.gen (init .iour 2) [.pushSq .single 0 .rd, .submit, .userDrop 0, .dropBegin, .dropStep, .dropStep,
        .dropStep, .dropStep]).map
      (fun s => (s.hazard, s.alive, s.dropPc, s.ring, s.ops.map fun o => (o.kstat, o.rc, o.user, o.freed)))
    = some (false, false, none, false, [(.inflight, 0, 0, 1)]) := by rfl

/-- zero-copy send: the send result arrives as a `more` CQE, the buffer goes back only after the notification -/
example :
    (run Cfg.gen (init .iour 4) [.pushSq .zc 6 .wr, .submit, .kPost 0 true (.ok 5), .pollEntries, .userPop 0,
        .kPost 0 false (.ok 0), .pollEntries, .userPop 0]).map
      (fun s => s.ops.map fun o => (o.multi, o.result, o.returned, o.finalSeen, o.kstat))
    = some [([.ok 5], some (.ok 0), 1, true, .done)] := by rfl

/-- a pool job outlives both the caller's handle and the proactor; its reference is the last one -/
example :
    (run Cfg.gen (init .poll 8) [.pushBlocking, .userCancel 0 [], .dropBegin, .dropStep, .dropStep]).map
      (fun s => (s.alive, s.dropPc, s.ops.map fun o => (o.poolRun, o.rc, o.freed)))
    = some (false, none, [(true, 1, 0)]) := by rfl

example :
    (run Cfg.gen (init .poll 8) [.pushBlocking, .userCancel 0 [], .dropBegin, .dropStep, .dropStep,
        .poolDone 0 (.ok 7)]).map
      (fun s => s.ops.map fun o => (o.poolRun, o.rc, o.freed, o.uaf))
    = some [(false, 0, 1, false)] := by rfl

/-- the former F13 shape: zero-copy send submitted, both CQEs unseen, caller still holds the key, proactor dropped —
the op is NOT released under the caller; it is freed exactly once when the caller lets go -/
example :
    (run Cfg.gen (init .iour 4) [.pushSq .zc 6 .wr, .submit, .kPost 0 true (.ok 5), .kPost 0 false (.ok 0),
        .dropBegin, .dropStep, .dropStep, .dropStep, .dropStep]).map
      (fun s => (s.hazard, s.ops.map fun o => (o.user, o.rc, o.freed, o.uaf)))
    = some (false, [(1, 1, 0, false)]) := by rfl

example :
    (run Cfg.gen (init .iour 4) [.pushSq .zc 6 .wr, .submit, .kPost 0 true (.ok 5), .kPost 0 false (.ok 0),
        .dropBegin, .dropStep, .dropStep, .dropStep, .dropStep, .userDrop 0]).map
      (fun s => s.ops.map fun o => (o.user, o.rc, o.freed, o.uaf))
    = some [(0, 0, 1, false)] := by rfl

end Compio.Props.C01
