/-
C03 — a wake-up from any thread is never lost.

Model: Compio.Model.Wake (N waker threads × the runtime thread × a deterministic kernel), every interleaving is
a `List Event`. All accesses to the awake flag and the task word go through the definitions regenerated from
the sources (Gen/AwakeFlag.lean, Gen/TaskState.lean); the order of the calls in the driver's `poll`/`flush`,
in `Remote::schedule`, `drain_sync`, `tick`, `block_on` and compio-compat's `drive` is regenerated into
Gen/WakeOrder.lean and compared with the order the model executes (section "call order").

The theorems are for sequentially consistent atomics. Reorderings permitted by the orderings actually written
in the source are NOT modelled; `orderings_sufficient` checks that the orderings in the source are at least the
table the SC argument relies on.

`Good cfg`: the code as it is now — `flush` arms the notifier (b814cbc) and `Remote::schedule` wakes the driver
after every push (e1c512a). The pre-fix orders are refuted in Compio.Cex.C03.
-/
import Compio.Lemmas.WakeProgress
import Compio.Gen.WakeOrder

namespace Compio.Props.C03
open Compio.Wake Compio.Gen Compio.TaskWord

/-- the configuration switches describe the code as it is in the tree -/
def Good (cfg : Cfg) : Prop := cfg.flushArms = true ∧ cfg.rewake = true

theorem inv_of_reachable {cfg : Cfg} {s : State} (hg : Good cfg) (h : Reachable cfg s) : Inv s :=
  inv_reachable hg.1 hg.2 h

/-! ### flag algebra -/

/-- the three operations of `AwakeFlag`, as coded, keep the byte inside {0,1,2,3} -/
theorem flag_closed (w : Nat) (h : w ≤ 3) :
    AwakeFlag.set w ≤ 3 ∧ (AwakeFlag.reset w).1 ≤ 3 ∧ (AwakeFlag.wake w).1 ≤ 3 := by
  have : w = 0 ∨ w = 1 ∨ w = 2 ∨ w = 3 := by omega
  rcases this with rfl | rfl | rfl | rfl <;> decide

/-- `wake` always leaves the NOTIFIED bit set and reports whether the byte was non-zero; `reset` returns exactly
the NOTIFIED bit and leaves IDLE; `set` leaves AWAKE without NOTIFIED -/
theorem flag_ops (w : Nat) (h : w ≤ 3) :
    nbit (AwakeFlag.wake w).1 = true ∧ (AwakeFlag.wake w).2 = (w != 0) ∧
    (AwakeFlag.reset w).1 = 0 ∧ (AwakeFlag.reset w).2 = nbit w ∧ AwakeFlag.set w = 2 ∧ AwakeFlag.new = 0 :=
  ⟨wake_nbit h, wake_ret h, reset_fst w, reset_snd h, set_eq w, new_eq⟩

theorem flag_in_range {cfg : Cfg} {s : State} (hg : Good cfg) (h : Reachable cfg s) : s.flag ≤ 3 :=
  (inv_of_reachable hg h).flagLe

/-! ### the `pending` counter -/

/-- in every reachable state `pending` is an upper bound of the queue length — it counts the queued ids, the
reservations of threads that have not pushed yet and what the consumer has popped but not yet subtracted — and no
`fetch_sub` ever wrapped around -/
theorem pending_ge_sync {cfg : Cfg} {s : State} (hg : Good cfg) (h : Reachable cfg s) :
    s.sync.length ≤ s.pending ∧ s.uflow = false ∧
    s.pending = s.sync.length + cnt s resvP + drained s.rt := by
  have hi := inv_of_reachable hg h
  exact ⟨by have := hi.pend; omega, hi.noUflow, hi.pend⟩

/-! ### SCHEDULED means queued or held -/

/-- a live task whose SCHEDULED bit is set is in the sync queue, in the hot list, or a waker thread that passed
the SCHEDULED check still holds it (between `start_scheduling` and the push) -/
theorem scheduled_is_queued {cfg : Cfg} {s : State} (hg : Good cfg) (h : Reachable cfg s) (t : Nat)
    (hs : TaskState.isScheduled (s.word t) = true) (hd : s.dropped t = false)
    (hc : TaskState.isCancelled (s.word t) = false) :
    t ∈ s.sync ∨ t ∈ s.hot ∨ ∃ w, w < s.cfg.nw ∧ holdsP t (s.wk w) = true := by
  rcases (inv_of_reachable hg h).sched t hs hd hc with h1 | h1 | h1
  · exact Or.inl h1
  · exact Or.inr (Or.inl h1)
  · exact Or.inr (Or.inr ((cnt_pos_iff _ _).1 h1))

/-! ### no lost wake -/

/-- the obligation created by a wake of task t that has returned: the id is in the hot list (the runtime polls
with a zero timeout), or it is in the sync queue and the runtime thread is covered (`cov`: it will drain before it
can block — see `cov_not_blocked`) or the pusher is just about to wake the driver, or another waker thread holds
the id and has not pushed yet -/
def Owes (s : State) (t : Nat) : Prop :=
  t ∈ s.hot ∨
  (t ∈ s.sync ∧ (cov s = true ∨ ∃ w, w < s.cfg.nw ∧ aboutP (s.wk w) = true)) ∨
  ∃ w, w < s.cfg.nw ∧ holdsP t (s.wk w) = true

/-- NO LOST WAKE (tasks): in every reachable state, if some `wake()` on task t has returned since the last poll
of t started (`woken`; coalesced calls included) and t is neither dropped (completed) nor cancelled, the
obligation holds. The environment cannot make it disappear: it is a state invariant. -/
theorem no_lost_wake_task {cfg : Cfg} {s : State} (hg : Good cfg) (h : Reachable cfg s) (t : Nat)
    (hw : s.woken t = true) (hd : s.dropped t = false) (hc : TaskState.isCancelled (s.word t) = false) :
    Owes s t := by
  have hi := inv_of_reachable hg h
  have hs := hi.wokenSched t hw
  rcases hi.sched t hs hd hc with h1 | h1 | h1
  · refine Or.inr (Or.inl ⟨h1, ?_⟩)
    have hne : s.sync ≠ [] := by intro e; rw [e] at h1; cases h1
    rcases hi.covSync hne with h2 | h2
    · exact Or.inl h2
    · exact Or.inr ((cnt_pos_iff _ _).1 h2)
  · exact Or.inl h1
  · exact Or.inr (Or.inr ((cnt_pos_iff _ _).1 h1))

/-- coalescing never drops: the ghost flag `woken t` is raised by EVERY returning call whose linearisation point
(`start_scheduling`) lies after the start of the last poll of t, whether it pushed or was coalesced -/
theorem returning_wake_is_recorded (s s' : State) (w t : Nat)
    (hpc : (s.wk w).pc = .fin) (hk : (s.wk w).kind = .task t) (hseq : (s.wk w).seq0 = s.pollSeq t)
    (hs : wStep s w = some s') : s'.woken t = true ∧ (s'.wk w).pc = .idle := by
  unfold wStep at hs
  simp only [hpc, hk] at hs
  simp only [Option.some.injEq] at hs
  subst hs
  simp [setWk, hseq]

/-- NO LOST WAKE (main future): if a wake of the main future has returned and no poll of it started since,
the runtime thread is covered -/
theorem no_lost_wake_main {cfg : Cfg} {s : State} (hg : Good cfg) (h : Reachable cfg s)
    (hw : s.mainWoken = true) : covM s = true :=
  (inv_of_reachable hg h).covMain hw

/-! ### (i) the wait does not block forever -/

/-- the runtime thread can only be blocked in the kernel wait of its own loop or in the external loop's wait -/
theorem rt_blocks_only_in_wait (s : State) (h : rtStep s .go = none) : s.rt = .wait ∨ s.rt = .xwait :=
  blocked_only_in_wait s h

/-- own loop: in a reachable state in which the runtime thread is at the kernel wait and is covered (a queued id
whose pusher finished, a woken main future, or a hot task), the wait returns — `reset` had returned "notified"
(`needWait = false`), or the eventfd / poller is signalled and (io_uring) the notifier's poll is armed so that a
completion is there, or the timeout is zero — unless a waker thread is still between taking the NOTIFIED bit and
its `write`, and that thread can always move (`signaller_not_blocked`) -/
theorem covered_wait_returns {cfg : Cfg} {s : State} (hg : Good cfg) (h : Reachable cfg s)
    (hpc : s.rt = .wait) (hl : s.cfg.loop = .own) (hc : cov s = true ∨ covM s = true ∨ s.hot ≠ []) :
    (rtStep s .go).isSome = true ∨ ∃ w, w < s.cfg.nw ∧ inflightP (s.wk w) = true := by
  rcases wait_returns (inv_of_reachable hg h) hpc hl hc with h1 | h1
  · exact Or.inl h1
  · exact Or.inr ((cnt_pos_iff _ _).1 h1)

/-- external loop (flush → wait on the descriptor → clear → poll_with(0)), under the repaired `flush`: the same for
the wait on the descriptor: it is readable (or the loop uses a zero timeout) -/
theorem covered_external_wait_returns {cfg : Cfg} {s : State} (hg : Good cfg) (h : Reachable cfg s)
    (hpc : s.rt = .xwait) (hc : cov s = true ∨ covM s = true ∨ s.hot ≠ []) :
    (rtStep s .go).isSome = true ∨ ∃ w, w < s.cfg.nw ∧ inflightP (s.wk w) = true := by
  rcases xwait_returns (inv_of_reachable hg h) hpc hc with h1 | h1
  · exact Or.inl h1
  · exact Or.inr ((cnt_pos_iff _ _).1 h1)

/-- what "the wait returns" means at the external wait: zero timeout or readable descriptor -/
theorem external_wait_enabled_iff (s : State) (hpc : s.rt = .xwait) :
    (rtStep s .go).isSome = true ↔ (s.zero = true ∨ fdReadable s = true) := by
  unfold rtStep
  simp only [hpc]
  split <;> simp_all

/-- THE NOTIFIER IS ARMED WHEN THE RUNTIME PARKS. The notifier's multishot poll has three states (`Arm`): `needPush`
(`NEED_PUSH_NOTIFIER`: never queued, or the kernel has terminated the multishot poll — final completion without `MORE`,
reaped in `Driver::poll` (`RtEv.noMore`) or on the overflow path of `push_raw` (`RtEv.pushNoMore`), whatever its result),
`queued` (re-arm pending in the submission queue), `live`. In every reachable state in which the io_uring runtime thread
is at its kernel wait, or (external loop, repaired `flush`) at the wait on the descriptor, the poll is `live`; one and
two steps earlier the re-arm is pending. So an eventfd write after the park produces a completion. -/
theorem parked_notifier_armed {cfg : Cfg} {s : State} (hg : Good cfg) (h : Reachable cfg s) (hd : s.cfg.drv = .iour) :
    ((s.rt = .wait ∨ s.rt = .xwait ∨ s.rt = .xreset) → s.arm = .live) ∧
    ((s.rt = .submit ∨ s.rt = .xsubmit) → s.arm ≠ .needPush) := by
  have hi := inv_of_reachable hg h
  refine ⟨?_, ?_⟩
  · rintro (h1 | h1 | h1)
    · exact hi.armW hd h1
    · exact hi.armXW hd (Or.inl h1)
    · exact hi.armXW hd (Or.inr h1)
  · rintro (h1 | h1)
    · exact hi.armS hd h1
    · exact hi.armXS hd h1

/-- and therefore: a write to the eventfd while the runtime is parked posts a completion (and signals the registered
eventfd), i.e. the wait returns -/
theorem write_while_parked_signals {cfg : Cfg} {s : State} (hg : Good cfg) (h : Reachable cfg s) (hd : s.cfg.drv = .iour)
    (hp : s.rt = .wait ∨ s.rt = .xwait) : (kWrite s).cq = true ∧ fdReadable (kWrite s) = true := by
  have ha : s.arm = .live := (parked_notifier_armed hg h hd).1 (by rcases hp with h1 | h1 <;> simp [h1])
  simp [kWrite, posts, fdReadable, hd, ha]

/-- the kernel terminating the multishot poll (a NOTIFY completion without MORE) always leaves `NEED_PUSH_NOTIFIER`,
on both paths that reap it -/
theorem terminated_poll_needs_push (s s' : State) :
    (rtStep s .noMore = some s' → s'.arm = .needPush) ∧ (rtStep s .pushNoMore = some s' → s'.arm = .needPush) := by
  refine ⟨?_, ?_⟩ <;> intro h <;> unfold rtStep at h <;> (repeat' split at h) <;>
    (try simp only [Option.some.injEq, reduceCtorEq] at h) <;> (try subst h) <;>
    first | rfl | contradiction | (simp_all; done) | cases h

/-- a waker thread between `fetch_or` and `write` is never blocked -/
theorem signaller_not_blocked {s : State} {w : Nat} (hw : w < s.cfg.nw) (h : inflightP (s.wk w) = true) :
    (step s (.w w)).isSome = true := by
  simp only [step, hw, decide_true, if_true]
  exact inflight_can_step h

/-- a waker thread that holds an id (passed the SCHEDULED check, not pushed yet) or has pushed and is about to wake the
driver always has an enabled step: the only "waiting" in `Remote::schedule` is the spin loop, which is a step -/
theorem pusher_not_blocked {s : State} {w t : Nat} (hw : w < s.cfg.nw)
    (h : holdsP t (s.wk w) = true ∨ (aboutP (s.wk w) = true ∧ (s.wk w).kind = .task t)) :
    (step s (.w w)).isSome = true := by
  simp only [step, hw, decide_true, if_true]
  unfold wStep
  rcases h with h | ⟨h, hk⟩
  · simp only [holdsP, Bool.and_eq_true, Bool.or_eq_true, beq_iff_eq, Bool.not_eq_true'] at h
    obtain ⟨⟨hk, _⟩, hpc⟩ := h
    rcases hpc with ((((((hpc | hpc) | hpc) | hpc) | hpc) | hpc) | hpc) <;> simp only [hpc, hk] <;> (repeat' split) <;> simp
  · simp only [aboutP, Bool.and_eq_true, beq_iff_eq] at h
    simp only [h.2, hk]
    (repeat' split) <;> simp

/-! ### (ii) bounded progress of the runtime thread alone -/

theorem reachable_cfg {cfg : Cfg} {s : State} (h : Reachable cfg s) : s.cfg = cfg := by
  obtain ⟨evs, he⟩ := h
  exact run_cfg he

/-- BOUNDED PROGRESS (tasks). In a reachable state in which a live task t sits in the hot list or in the sync
queue, and no waker thread is in the middle of its driver wake-up (between push and `fetch_or`, or between
`fetch_or` and `write`: those threads are never blocked and need at most three steps), the runtime thread ALONE —
every poll returning Pending, no step of any other thread, no timeout — starts a poll of t within
`(posOf s t + 2) * (|sync| + 22)` of its own steps, where `posOf` is the position of t in the hot list (if it is in
the sync queue: behind everything hot and its predecessors in the queue). One tick serves `max_interval ≥ 1` hot
tasks, so this is at most `posOf + 1` ticks; the deterministic continuation never blocks. -/
theorem queued_task_is_polled {cfg : Cfg} {s : State} (hg : Good cfg) (h : Reachable cfg s) (t : Nat)
    (hm : 1 ≤ cfg.maxInt) (hd : s.dropped t = false) (hc : TaskState.isCancelled (s.word t) = false)
    (hq : t ∈ s.hot ∨ t ∈ s.sync) (hni : cnt s inflightP = 0) (hna : cnt s aboutP = 0) :
    ∃ n, n ≤ (posOf s t + 2) * (s.sync.length + 22) ∧ (rtRun n s).polls t = s.polls t + 1 := by
  have hcfg := reachable_cfg h
  have hdue : Due s.sync.length s t :=
    { inv := inv_of_reachable hg h, fa := by rw [hcfg]; exact hg.1, mpos := by rw [hcfg]; exact hm,
      alive := ⟨hd, hc⟩, queued := hq, noInflight := hni, noAbout := hna, len := Nat.le_refl _ }
  obtain ⟨n, hn, hp⟩ := due_progress t _ s hdue (Nat.le_refl _)
  refine ⟨n, ?_, hp⟩
  have hw : wOf s ≤ 2 * s.sync.length + 26 := wPc_le _ _
  have : (posOf s t + 2) * (s.sync.length + 22) = posOf s t * (s.sync.length + 22) + 2 * (s.sync.length + 22) := by
    rw [Nat.add_mul]
  omega

/-- BOUNDED PROGRESS (main future): if a wake of the main future has returned and no waker thread is between
`fetch_or` and `write`, the runtime thread alone starts the next poll of the main future within
`|sync| + 2 * max_interval + 30` steps (at most the rest of the current iteration of its loop) -/
theorem woken_main_is_polled {cfg : Cfg} {s : State} (hg : Good cfg) (h : Reachable cfg s)
    (hw : s.mainWoken = true) (hni : cnt s inflightP = 0) :
    ∃ n, n ≤ mOf s + 1 ∧ (rtRun n s).mainPolls = s.mainPolls + 1 := by
  have hcfg := reachable_cfg h
  exact dueM_progress _ s { inv := inv_of_reachable hg h, fa := by rw [hcfg]; exact hg.1, woken := hw,
                            noInflight := hni } (Nat.le_refl _)

/-! ### full queue: the waking thread waits instead of discarding -/

/-- with a full queue the push step changes nothing but the thread's own program counter: first the driver is
woken (once), then the thread spins -/
theorem full_queue_spins (s : State) (w t : Nat) (hpc : (s.wk w).pc = .push) (hk : (s.wk w).kind = .task t)
    (hfull : ¬ s.sync.length < s.cfg.q) :
    ∃ s', wStep s w = some s' ∧ s'.sync = s.sync ∧ s'.pending = s.pending ∧ (s'.wk w).pushed = (s.wk w).pushed ∧
      ((s'.wk w).pc = .dwake ∨ (s'.wk w).pc = .spin) := by
  unfold wStep
  simp only [hpc, hk, hfull, if_false]
  split <;> exact ⟨_, rfl, rfl, rfl, by simp [setWk], by simp [setWk]⟩

/-- a call of `Remote::schedule` reaches its last step (`finish_scheduling`) without having pushed only if it was
coalesced with an earlier wake (SCHEDULED was set), or the task is completed, cancelled or dropped -/
theorem returns_without_push_only_if (s s' : State) (w t : Nat) (hk : (s.wk w).kind = .task t)
    (hs : wStep s w = some s') (hfin : (s'.wk w).pc = .fin) (hnot : (s.wk w).pc ≠ .fin)
    (hnp : (s'.wk w).pushed = false) :
    ((s.wk w).pc = .sched ∧ (TaskState.isScheduled (s.word t) || TaskState.isCompleted (s.word t)
        || TaskState.isCancelled (s.word t)) = true) ∨
    ((s.wk w).pc = .load ∧ s.dropped t = true) ∨
    ((s.wk w).pc = .spin ∧ TaskState.isCancelled (s.word t) = true) := by
  unfold wStep at hs
  unfold mainDone at hs
  repeat' split at hs
  all_goals (try simp only [Option.some.injEq, reduceCtorEq] at hs)
  all_goals (try subst hs)
  all_goals (simp only [setWk, subPending, kWrite, upd_same] at hfin hnp)
  all_goals (simp_all)

/-! ### call order: the model's threads execute the calls in the order extracted from the sources -/

def names (l : List (String × String)) (keep : List String) : List String :=
  (l.map Prod.fst).filter (fun c => keep.contains c)

/-- the call a program point of the runtime thread stands for -/
def callOfPc : RtPc → Option String
  | .reset | .xreset => some "reset"
  | .arm | .xarm => some "arm_notifier"
  | .submit | .xsubmit => some "submit_auto"      -- `.submit` = the submission half, `.wait` = its waiting half
  | .setAwake1 | .setAwake2 => some "set_awake"
  | .consume => some "poll_entries"                -- `.clear` = `notifier.clear()` inside it
  | _ => none

/-- program points the runtime thread passes, starting at `s.rt`, for `n` steps (`.go`) -/
def pcTrace : Nat → State → List RtPc
  | 0, _ => []
  | n + 1, s => s.rt :: match rtStep s .go with
    | some s' => pcTrace n s'
    | none => []

def cfgOf (d : Drv) (l : Loop) : Cfg := { drv := d, loop := l, q := 1, maxInt := 1, nw := 0, flushArms := true, rewake := true }

/-- `iour::Driver::poll`: the model runs reset, arm_notifier, submit_auto(wait), set_awake, poll_entries, set_awake —
the order in the source -/
theorem iour_poll_order :
    (pcTrace 8 { (init (cfgOf .iour .own)) with rt := .reset, cq := true }).filterMap callOfPc =
      names WakeOrder.iourPoll ["reset", "arm_notifier", "submit_auto", "set_awake", "poll_entries"] := by
  decide

/-- `iour::Driver::flush` (external loop): arm_notifier, submit_auto, reset — the order in the source; in particular
the notifier IS armed by `flush` (the repair of F16) -/
theorem iour_flush_order :
    (pcTrace 3 { (init (cfgOf .iour .ext)) with rt := .xarm }).filterMap callOfPc =
      names WakeOrder.iourFlush ["reset", "arm_notifier", "submit_auto"] := by
  decide

/-- the protocol order every `poll` must respect: `reset` before the wait, arming before the wait, `set_awake`
only after the wait -/
def orderOk (wait : String) (l : List String) : Bool :=
  match l.idxOf wait, l.idxOf "reset" with
  | iw, ir =>
    decide (iw < l.length) && decide (ir < iw) &&
    (!(l.contains "arm_notifier") || decide (l.idxOf "arm_notifier" < iw)) &&
    decide (iw < l.idxOf "set_awake")

theorem poll_orders_ok :
    orderOk "submit_auto" (names WakeOrder.iourPoll ["reset", "arm_notifier", "submit_auto", "set_awake", "poll_entries"]) = true ∧
    orderOk "wait" (names WakeOrder.pollPoll ["reset", "wait", "set_awake", "with_events"]) = true := by
  decide

/-- the early exits of `iour::Driver::poll` (`arm_notifier()?`, `submit_auto()?`) come before the first `set_awake`:
the model's timed-out wait returns without touching the flag -/
theorem iour_poll_early_exits :
    WakeOrder.iourPoll.map Prod.fst =
      ["poll_blocking", "return", "reset", "arm_notifier", "?", "submit_auto", "?", "set_awake", "poll_entries", "set_awake"] := by
  decide

/-- `poll::Driver::poll`: reset, wait, set_awake, then `with_events` whose last action is `set_awake`;
`poll::Driver::flush`: reset only -/
theorem poll_driver_order :
    names WakeOrder.pollPoll ["reset", "wait", "set_awake", "with_events"] = ["reset", "wait", "set_awake", "with_events"] ∧
    WakeOrder.pollWithEvents.map Prod.fst = ["f", "set_awake"] ∧
    WakeOrder.pollFlush.map Prod.fst = ["reset"] := by
  decide

/-- the driver waker on both drivers: `fetch_or` first, the syscall only if it returned false -/
theorem wake_by_ref_shape :
    WakeOrder.iourWakeByRef = [("wake", ""), ("write", "if !self.awake.wake()")] ∧
    WakeOrder.pollWakeByRef = [("wake", ""), ("notify", "if !self.awake.wake()")] := by
  decide

/-- `poll_entries`, ALL its calls on the notifier / the flag: a NOTIFY completion without MORE re-arms
(`NEED_PUSH_NOTIFIER`) and the eventfd is cleared — nothing else; in particular the awake flag is not touched
(`poll_entries` also runs on the overflow path of `push_raw`, outside `poll`: seed C03-a added a `set_awake` here).
`arm_notifier` pushes only when the flag is set and clears it afterwards -/
theorem notifier_shape :
    WakeOrder.iourPollEntries =
      [("completion", ""), ("more", "for cqueue"), ("insert", "if !more(flags)"), ("clear", "for cqueue"),
       ("more", "for cqueue"), ("remove", "else(more(flags))")] ∧
    WakeOrder.iourArmNotifier.map Prod.fst = ["contains", "push_raw", "?", "remove"] := by
  decide

/-- `push_raw`: push; when the submission queue is full: `submit_auto`, then `poll_entries`, and retry — no call on
the notifier or the flag -/
theorem push_raw_shape :
    WakeOrder.iourPushRaw.map Prod.fst = ["submission", "push", "sync", "submit_auto", "return", "poll_entries"] := by
  decide

/-- the model's overflow step is exactly that: the submission (`doSubmit`), then the reaping of a NOTIFY completion
(`consume` + `clear` of `Driver::poll`), then the entry alone in the queue; flag, `needWait`, timeout, queues and ghost
state are untouched -/
theorem overflow_is_submit_then_reap (s : State) :
    (overflowPush s).arm = (doSubmit s).arm ∧ (overflowPush s).xfd = (doSubmit s).xfd ∧
    (overflowPush s).cq = false ∧ (overflowPush s).efd = (if (doSubmit s).cq then 0 else s.efd) ∧
    (overflowPush s).sq = 1 ∧ (overflowPush s).flag = s.flag ∧ (overflowPush s).needWait = s.needWait ∧
    (overflowPush s).zero = s.zero ∧ (overflowPush s).sync = s.sync ∧ (overflowPush s).hot = s.hot ∧
    (overflowPush s).mainWoken = s.mainWoken ∧ (overflowPush s).rt = s.rt := by
  simp [overflowPush, doSubmit]

/-- an operation submitted from inside a poll (with or without overflow of the submission queue) changes neither
the flag nor the coverage of the runtime thread nor the obligations: a NOTIFY completion reaped on that path leaves
the NOTIFIED bit in place, so the next `reset` still reports it (`no_lost_wake_task` / `no_lost_wake_main` hold in the
state after the step because it is reachable) -/
theorem push_keeps_obligations (s s' : State) (h : rtStep s .push = some s') :
    s'.flag = s.flag ∧ cov s' = cov s ∧ covM s' = covM s ∧ s'.mainWoken = s.mainWoken ∧ s'.woken = s.woken ∧
    s'.sync = s.sync ∧ s'.hot = s.hot ∧ s'.rt = s.rt := by
  unfold rtStep at h
  repeat' split at h
  all_goals (try simp only [Option.some.injEq, reduceCtorEq] at h)
  all_goals (try subst h)
  all_goals (try simp only [overflowPush])
  all_goals (first | (simp_all [cov, covM, covOf]; done) | cases h)

/-- `Remote::schedule`: start_scheduling, (coalesce / finished: finish, return), load shared (null: finish, return),
pending.fetch_add, push loop [wake once, else cancelled? fetch_sub, finish, return, else yield], wake, finish.
The guard of the wake-up AFTER the loop does not mention `notified` (the repair of F030): the model's `rewake = true`. -/
theorem remote_schedule_shape :
    WakeOrder.remoteSchedule.map Prod.fst =
      ["start_scheduling", "is_scheduled", "is_completed", "is_cancelled", "finish_scheduling", "return",
       "load", "finish_scheduling", "return", "fetch_add", "push", "wake_by_ref", "load", "is_cancelled",
       "fetch_sub", "finish_scheduling", "return", "yield_now", "wake_by_ref", "finish_scheduling"] ∧
    WakeOrder.remoteSchedule.getLast? = some ("finish_scheduling", "") ∧
    (WakeOrder.remoteSchedule.filter (fun c => c.1 == "wake_by_ref")).map Prod.snd =
      ["if !notified&&letSome(refwaker)=shared.waker", "if letSome(refwaker)=shared.waker"] := by
  decide

/-- the call a program point of a waker thread stands for -/
def callOfWPc : WPc → Option String
  | .sched => some "start_scheduling"
  | .load => some "load"
  | .reserve => some "fetch_add"
  | .push => some "push"
  | .dwake => some "wake_by_ref"
  | .fin => some "finish_scheduling"
  | _ => none

def wpcTrace (w : Nat) : Nat → State → List WPc
  | 0, _ => []
  | n + 1, s => (s.wk w).pc :: match wStep s w with
    | some s' => wpcTrace w n s'
    | none => []

/-- the model's waker thread (uncontended path) executes the calls of `Remote::schedule` in the source's order -/
theorem remote_schedule_order :
    (match step (init { (cfgOf .iour .own) with nw := 1 }) (.wStart 0 (.task 0)) with
      | some s => (wpcTrace 0 7 s).filterMap callOfWPc
      | none => []) =
    ((WakeOrder.remoteSchedule.filter
        (fun c => c.2 == "" || c.2 == "while-cond shared.sync.push(self.header().id).is_err()"
          || c.2 == "if letSome(refwaker)=shared.waker")).map Prod.fst).filter
      (fun c => ["start_scheduling", "load", "fetch_add", "push", "wake_by_ref", "finish_scheduling"].contains c) := by
  decide

/-- `Local::schedule`, `drain_sync`, `Executor::tick`, `Task::run`: the order the model follows -/
theorem executor_shapes :
    WakeOrder.localSchedule.map Prod.fst = ["load", "return", "drain_sync", "make_hot", "wake_by_ref"] ∧
    WakeOrder.drainSync = [("load", ""), ("return", "if self.pending.load(Ordering::Acquire)==0"),
      ("pop", "while-cond letSome(id)=self.sync.pop()"), ("make_hot", "while letSome(id)=self.sync.pop()"),
      ("fetch_sub", "if drained!=0")] ∧
    names WakeOrder.tick ["drain_sync", "iter_hot", "make_cold", "run", "drop", "remove", "reset", "has_hot"] =
      ["drain_sync", "iter_hot", "make_cold", "run", "drop", "remove", "reset", "has_hot"] ∧
    WakeOrder.taskRun.map Prod.fst = ["unschedule", "is_cancelled", "return", "run_future", "finish_running"] := by
  decide

/-- the two loops: `block_on` = poll main, run, poll_with(0) | poll;  compio-compat `drive` = poll main, run, flush,
wait, clear, poll_with -/
theorem loop_shapes :
    WakeOrder.blockOn.map Prod.fst = ["waker", "poll", "run", "return", "run", "poll_with", "poll"] ∧
    (WakeOrder.blockOn.filter (fun c => c.1 == "poll_with" || (c.1 == "poll" && c.2 != "loop"))).map Prod.snd =
      ["if remaining_tasks", "else(remaining_tasks)"] ∧
    names WakeOrder.compatDrive ["poll", "run", "flush", "wait", "clear", "poll_with"] =
      ["poll", "run", "run", "flush", "wait", "clear", "poll_with"] := by
  decide

/-! ### wake-consuming sites

`Driver::flush` and `AwakeFlag::reset` CONSUME a notification (the flag goes back to IDLE) and report it in their
result. Whoever calls them must act on the bit — `Driver::poll` skips the kernel wait, `flush` hands it to its caller,
compio-compat's loop uses a zero timeout — otherwise a wake recorded only as NOTIFIED is thrown away and the next
`poll` sleeps (seed C03-4b: `Runtime::unregister_files/personality` calling `driver.flush();`). The extractor lists every
call site in the runtime / driver front ends, the three driver back ends and compio-compat with what happens to the
returned bit. -/

/-- no site discards a consumed notification: every `flush()` / `reset()` result is returned to the caller or used in an
expression (never a statement-position call, never `let _ =`) -/
theorem no_site_discards_notification :
    WakeOrder.flushSites.all (fun c => c.2.2 == "returned" || c.2.2 == "used") = true := by
  decide

/-- and the sites are exactly these (a new wake-consuming site has to be looked at: in the model only `Driver::poll`
(`reset`), `flush` (`xreset`, result into the loop's timeout) reset the flag) -/
theorem flush_sites_known :
    WakeOrder.flushSites =
      [("compio-runtime/src/lib.rs::flush", "flush", "returned"),
       ("compio-driver/src/lib.rs::flush", "flush", "returned"),
       ("compio-driver/src/sys/driver/fusion/mod.rs::flush", "flush", "used"),
       ("compio-driver/src/sys/driver/fusion/mod.rs::flush", "flush", "used"),
       ("compio-driver/src/sys/driver/iour/mod.rs::flush", "reset", "used"),
       ("compio-driver/src/sys/driver/iour/mod.rs::poll", "reset", "used"),
       ("compio-driver/src/sys/driver/iour/notify.rs::reset", "reset", "returned"),
       ("compio-driver/src/sys/driver/iour/notify.rs::reset", "reset", "returned"),
       ("compio-driver/src/sys/driver/poll/mod.rs::flush", "reset", "returned"),
       ("compio-driver/src/sys/driver/poll/mod.rs::poll", "reset", "used"),
       ("compio-driver/src/sys/driver/poll/mod.rs::reset", "reset", "returned"),
       ("compio-compat/src/lib.rs::drive", "flush", "used")] := by
  decide

/-- in the model the flag is reset only by the two steps that act on the result: `reset` (sets `needWait`) and
`xreset` (feeds the loop's timeout); every other step of the runtime thread leaves the NOTIFIED bit alone or sets it,
except `set_awake`, which is followed by a poll of the main future and a drain before any wait -/
theorem only_poll_and_flush_reset_the_flag (s s' : State) (e : RtEv) (h : rtStep s e = some s') (hf : s.flag ≤ 3)
    (hb : nbit s.flag = true) (hn : nbit s'.flag = false) :
    s.rt = .reset ∨ s.rt = .xreset ∨ s.rt = .setAwake1 ∨ s.rt = .setAwake2 := by
  have hw := wake_nbit hf
  rt_step h
  all_goals (try simp only [subPending, dropTask, startPoll, kWrite, overflowPush, doSubmit] at hn)
  all_goals (first | (simp_all; done) | (exfalso; simp_all))

/-! ### memory orderings

The proofs above are for sequentially consistent atomics. What the SC argument uses: every access to the flag
that must be totally ordered against the others is a read-modify-write with AcqRel (`reset`, `wake`), a value
published for another thread is written with at least Release, read with at least Acquire. The table below is
checked against the orderings WRITTEN IN THE SOURCE (regenerated on every run). It does not make the proof a
weak-memory proof: e.g. `AwakeFlag::set` is a Release STORE followed (much later) by the Acquire load of `pending`,
a store→load pair the C++ model may reorder; such executions are not modelled. -/

/-- (acquire, release) strength of an ordering as written -/
def ordBits (o : String) : Bool × Bool :=
  if o = "Ordering::Acquire" ∨ o = "Strong::ACQUIRE" ∨ o = "C::ACQUIRE" then (true, false)
  else if o = "Ordering::Release" ∨ o = "Strong::RELEASE" ∨ o = "C::RELEASE" then (false, true)
  else if o = "Ordering::AcqRel" ∨ o = "Strong::ACQ_REL" ∨ o = "C::ACQ_REL" ∨ o = "Ordering::SeqCst" then (true, true)
  else (false, false)

def atLeast (need have_ : Bool × Bool) : Bool := (!need.1 || have_.1) && (!need.2 || have_.2)

/-- minimum orderings the SC argument relies on: (where, method, acquire, release) -/
def required : List (String × String × Bool × Bool) := [
  ("flag", "reset", true, true), ("flag", "wake", true, true), ("flag", "set", false, true),
  ("word", "startScheduling", true, true), ("word", "unschedule", true, true),
  ("word", "finishScheduling", false, true), ("word", "setCancelled", true, true), ("word", "load", true, false),
  ("remote", "load", true, false), ("remote", "fetch_add", false, true), ("remote", "fetch_sub", false, true),
  ("drain", "load", true, false), ("drain", "fetch_sub", false, true)]

def written (wh m : String) : Option String :=
  match wh with
  | "flag" => (AwakeFlag.orderings.find? (fun e => e.1 == m)).map (fun e => e.2.2)
  | "word" => (TaskState.orderings.find? (fun e => e.1 == m)).map Prod.snd
  | "remote" => (WakeOrder.remoteScheduleOrd.find? (fun e => e.1 == m)).map Prod.snd
  | "drain" => (WakeOrder.drainSyncOrd.find? (fun e => e.1 == m)).map Prod.snd
  | _ => none

/-- every ordering written in the source is at least the one in the table; weakening one breaks this theorem -/
theorem orderings_sufficient :
    required.all (fun r => match written r.1 r.2.1 with
      | some o => atLeast (r.2.2.1, r.2.2.2) (ordBits o)
      | none => false) = true := by
  decide

/-! ### non-vacuity: the hypotheses are satisfiable on non-trivial states -/

/-- a concrete interleaving: thread 0 wakes task 5 completely while the runtime sleeps in the kernel, thread 1 starts a
second wake of the same task and is coalesced -/
def demoCfg : Cfg := { drv := .iour, loop := .own, q := 2, maxInt := 2, nw := 2, flushArms := true, rewake := true }

def demoTrace : List Event :=
  [.rt .go, .rt .go, .rt .go, .rt .go, .rt .go, .rt .go, .rt .go,
   .wStart 0 (.task 5), .w 0, .w 0, .w 0, .w 0, .w 0, .w 0, .w 0,
   .wStart 1 (.task 5), .w 1, .w 1]

def demoState : State := (run (init demoCfg) demoTrace).getD (init demoCfg)

theorem demo_reachable : Reachable demoCfg demoState := by
  refine ⟨demoTrace, ?_⟩
  unfold demoState
  cases h : run (init demoCfg) demoTrace with
  | some s => rfl
  | none =>
    have : (run (init demoCfg) demoTrace).isSome = true := by decide
    rw [h] at this; cases this

example : Good demoCfg := ⟨rfl, rfl⟩

/-- the hypotheses of `no_lost_wake_task` and of `queued_task_is_polled` hold there (and both wake() calls returned) -/
example : demoState.woken 5 = true ∧ demoState.dropped 5 = false ∧ TaskState.isCancelled (demoState.word 5) = false ∧
    5 ∈ demoState.sync ∧ demoState.rt = .wait ∧ cnt demoState inflightP = 0 ∧ cnt demoState aboutP = 0 ∧
    (demoState.wk 0).pc = .idle ∧ (demoState.wk 1).pc = .idle ∧ cov demoState = true ∧
    (rtStep demoState .go).isSome = true := by
  decide

/-- and the bound of `queued_task_is_polled` is met: the runtime thread alone polls task 5 after 13 of its steps
(bound: (0 + 2) * (1 + 22) = 46) -/
example : (rtRun 13 demoState).polls 5 = demoState.polls 5 + 1 ∧ posOf demoState 5 = 0 ∧ demoState.sync.length = 1 := by
  decide

/-- main future: thread 0 wakes it while the runtime sleeps -/
def demoMain : State :=
  (run (init demoCfg) [.rt .go, .rt .go, .rt .go, .rt .go, .rt .go, .rt .go, .rt .go,
    .wStart 0 .main, .w 0, .w 0]).getD (init demoCfg)

example : demoMain.mainWoken = true ∧ demoMain.rt = .wait ∧ covM demoMain = true ∧ cnt demoMain inflightP = 0 ∧
    (rtRun 6 demoMain).mainPolls = demoMain.mainPolls + 1 := by
  decide

end Compio.Props.C03
