import Compio.Model.Wake
import Compio.Gen.WakeOrder

namespace Compio.Props.C03
open Compio.Wake Compio.Gen

/-- flag algebra: the three operations keep the byte inside {0,1,2,3} -/
theorem flag_closed (w : Nat) (h : w ≤ 3) :
    AwakeFlag.set w ≤ 3 ∧ (AwakeFlag.reset w).1 ≤ 3 ∧ (AwakeFlag.wake w).1 ≤ 3 := by
  have : w = 0 ∨ w = 1 ∨ w = 2 ∨ w = 3 := by omega
  rcases this with rfl | rfl | rfl | rfl <;> decide

end Compio.Props.C03
