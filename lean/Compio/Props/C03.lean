/-
C03 — a wake-up from any thread is never lost.

Model: Compio.Model.Wake (N waker threads × the runtime thread × a deterministic kernel), every interleaving is
a `List Event`. All accesses to the awake flag and the task word go through the definitions regenerated from
the sources (Gen/AwakeFlag.lean, Gen/TaskState.lean); the order of the calls in the driver's `poll`/`flush`,
in `Remote::schedule`, `drain_sync`, `tick`, `block_on` and compio-compat's `drive` is regenerated into
Gen/WakeOrder.lean and compared with the order the model executes (section "call order").

The theorems are for sequentially consistent atomics. Reorderings permitted by the orderings actually written
in the source are NOT modelled; `orderings_sufficient` checks that the orderings in the source are at least the
table the SC argument relies on.

`Good cfg`: the code as it is now — `flush` arms the notifier (b814cbc) and `Remote::schedule` wakes the driver
after every push (e1c512a). The pre-fix orders are refuted in Compio.Cex.C03.
-/
import Compio.Lemmas.WakeInv
import Compio.Gen.WakeOrder

namespace Compio.Props.C03
open Compio.Wake Compio.Gen Compio.TaskWord

/-- the configuration switches describe the code as it is in the tree -/
def Good (cfg : Cfg) : Prop := cfg.flushArms = true ∧ cfg.rewake = true

theorem inv_of_reachable {cfg : Cfg} {s : State} (hg : Good cfg) (h : Reachable cfg s) : Inv s :=
  inv_reachable hg.1 hg.2 h

/-! ### flag algebra -/

/-- the three operations of `AwakeFlag`, as coded, keep the byte inside {0,1,2,3} -/
theorem flag_closed (w : Nat) (h : w ≤ 3) :
    AwakeFlag.set w ≤ 3 ∧ (AwakeFlag.reset w).1 ≤ 3 ∧ (AwakeFlag.wake w).1 ≤ 3 := by
  have : w = 0 ∨ w = 1 ∨ w = 2 ∨ w = 3 := by omega
  rcases this with rfl | rfl | rfl | rfl <;> decide

/-- `wake` always leaves the NOTIFIED bit set and reports whether the byte was non-zero; `reset` returns exactly
the NOTIFIED bit and leaves IDLE; `set` leaves AWAKE without NOTIFIED -/
theorem flag_ops (w : Nat) (h : w ≤ 3) :
    nbit (AwakeFlag.wake w).1 = true ∧ (AwakeFlag.wake w).2 = (w != 0) ∧
    (AwakeFlag.reset w).1 = 0 ∧ (AwakeFlag.reset w).2 = nbit w ∧ AwakeFlag.set w = 2 ∧ AwakeFlag.new = 0 :=
  ⟨wake_nbit h, wake_ret h, reset_fst w, reset_snd h, set_eq w, new_eq⟩

theorem flag_in_range {cfg : Cfg} {s : State} (hg : Good cfg) (h : Reachable cfg s) : s.flag ≤ 3 :=
  (inv_of_reachable hg h).flagLe

/-! ### the `pending` counter -/

/-- in every reachable state `pending` is an upper bound of the queue length — it counts the queued ids, the
reservations of threads that have not pushed yet and what the consumer has popped but not yet subtracted — and no
`fetch_sub` ever wrapped around -/
theorem pending_ge_sync {cfg : Cfg} {s : State} (hg : Good cfg) (h : Reachable cfg s) :
    s.sync.length ≤ s.pending ∧ s.uflow = false ∧
    s.pending = s.sync.length + cnt s resvP + drained s.rt := by
  have hi := inv_of_reachable hg h
  exact ⟨by have := hi.pend; omega, hi.noUflow, hi.pend⟩

/-! ### SCHEDULED means queued or held -/

/-- a live task whose SCHEDULED bit is set is in the sync queue, in the hot list, or a waker thread that passed
the SCHEDULED check still holds it (between `start_scheduling` and the push) -/
theorem scheduled_is_queued {cfg : Cfg} {s : State} (hg : Good cfg) (h : Reachable cfg s) (t : Nat)
    (hs : TaskState.isScheduled (s.word t) = true) (hd : s.dropped t = false)
    (hc : TaskState.isCancelled (s.word t) = false) :
    t ∈ s.sync ∨ t ∈ s.hot ∨ ∃ w, w < s.cfg.nw ∧ holdsP t (s.wk w) = true := by
  rcases (inv_of_reachable hg h).sched t hs hd hc with h1 | h1 | h1
  · exact Or.inl h1
  · exact Or.inr (Or.inl h1)
  · exact Or.inr (Or.inr ((cnt_pos_iff _ _).1 h1))

/-! ### no lost wake -/

/-- the obligation created by a wake of task t that has returned: the id is in the hot list (the runtime polls
with a zero timeout), or it is in the sync queue and the runtime thread is covered (`cov`: it will drain before it
can block — see `cov_not_blocked`) or the pusher is just about to wake the driver, or another waker thread holds
the id and has not pushed yet -/
def Owes (s : State) (t : Nat) : Prop :=
  t ∈ s.hot ∨
  (t ∈ s.sync ∧ (cov s = true ∨ ∃ w, w < s.cfg.nw ∧ aboutP (s.wk w) = true)) ∨
  ∃ w, w < s.cfg.nw ∧ holdsP t (s.wk w) = true

/-- NO LOST WAKE (tasks): in every reachable state, if some `wake()` on task t has returned since the last poll
of t started (`woken`; coalesced calls included) and t is neither dropped (completed) nor cancelled, the
obligation holds. The environment cannot make it disappear: it is a state invariant. -/
theorem no_lost_wake_task {cfg : Cfg} {s : State} (hg : Good cfg) (h : Reachable cfg s) (t : Nat)
    (hw : s.woken t = true) (hd : s.dropped t = false) (hc : TaskState.isCancelled (s.word t) = false) :
    Owes s t := by
  have hi := inv_of_reachable hg h
  have hs := hi.wokenSched t hw
  rcases hi.sched t hs hd hc with h1 | h1 | h1
  · refine Or.inr (Or.inl ⟨h1, ?_⟩)
    have hne : s.sync ≠ [] := by intro e; rw [e] at h1; cases h1
    rcases hi.covSync hne with h2 | h2
    · exact Or.inl h2
    · exact Or.inr ((cnt_pos_iff _ _).1 h2)
  · exact Or.inl h1
  · exact Or.inr (Or.inr ((cnt_pos_iff _ _).1 h1))

/-- coalescing never drops: the ghost flag `woken t` is raised by EVERY returning call whose linearisation point
(`start_scheduling`) lies after the start of the last poll of t, whether it pushed or was coalesced -/
theorem returning_wake_is_recorded (s s' : State) (w t : Nat)
    (hpc : (s.wk w).pc = .fin) (hk : (s.wk w).kind = .task t) (hseq : (s.wk w).seq0 = s.pollSeq t)
    (hs : wStep s w = some s') : s'.woken t = true ∧ (s'.wk w).pc = .idle := by
  unfold wStep at hs
  simp only [hpc, hk] at hs
  simp only [Option.some.injEq] at hs
  subst hs
  simp [setWk, hseq]

/-- NO LOST WAKE (main future): if a wake of the main future has returned and no poll of it started since,
the runtime thread is covered -/
theorem no_lost_wake_main {cfg : Cfg} {s : State} (hg : Good cfg) (h : Reachable cfg s)
    (hw : s.mainWoken = true) : covM s = true :=
  (inv_of_reachable hg h).covMain hw

end Compio.Props.C03
