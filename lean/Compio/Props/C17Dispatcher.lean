/-
C17 (session 3, seeds 5a / 5b) — the bound is a bound over ALL entry points that share a builder, and the slot of a
pool thread is given back on every exit path of the worker.

1. `ProactorBuilder`'s pool configuration (`compio-driver/src/lib.rs`: `ThreadPoolBuilder::{Create, Reuse}`,
   `create_or_get_thread_pool`, `force_reuse_thread_pool`) and the statement order of `Dispatcher::new_impl`
   (`compio-dispatcher/src/lib.rs`): pools are numbered by an allocation counter (every `AsyncifyPool::new` is a new
   pool).  With `force_reuse_thread_pool()` BEFORE `create_or_get_thread_pool()` (the code as it is) the dispatcher's
   handle (`dispatch_blocking`, `join`) and the pool of every worker runtime (`spawn_blocking`, `Asyncify` ops) are
   the same pool for every builder state, so the theorems of Props/C17.lean (any number `nd` of dispatchers of ONE
   `State`) bound the union of the entry points.  In the other order a `Create` builder yields two pools.
2. `finish` of a raw (uncaught) panicking job leads to `leaving`, and `exit` (the guard's `fetch_sub`) is enabled
   there: the counter goes down by one on the unwinding path exactly as on the timeout path.
-/
import Compio.Model.AsyncifyPool

namespace Compio.Props.C17
open Compio Compio.Asyncify

/-- `ThreadPoolBuilder` -/
inductive PoolCfg where
  | create (limit : Nat)
  | reuse (pool : Nat)
  deriving DecidableEq, Repr

/-- a `ProactorBuilder` as far as the pool goes + the allocation counter of pools -/
structure PB where
  cfg : PoolCfg
  fresh : Nat
  deriving DecidableEq, Repr

/-- `create_or_get_thread_pool(&self)`: `Create` makes a NEW pool every time and leaves the builder as it is -/
def createOrGet (b : PB) : Nat × PB :=
  match b.cfg with
  | .create _ => (b.fresh, { b with fresh := b.fresh + 1 })
  | .reuse p => (p, b)

/-- `force_reuse_thread_pool`: `self.reuse_thread_pool(self.create_or_get_thread_pool())` -/
def forceReuse (b : PB) : PB :=
  let (p, b') := createOrGet b
  { b' with cfg := .reuse p }

/-- the worker runtimes: each builds its `Proactor` from a clone of the builder (`create_or_reuse`) -/
def runtimePools : Nat → PB → List Nat
  | 0, _ => []
  | n + 1, b => let (p, b') := createOrGet b; p :: runtimePools n { b' with cfg := b.cfg }

/-- `Dispatcher::new_impl`: (`pool` of the dispatcher, pools of the `nthreads` worker runtimes);
`forceFirst = true` is the statement order of the code -/
def newImpl (forceFirst : Bool) (b : PB) (nthreads : Nat) : Nat × List Nat :=
  if forceFirst then
    let b1 := forceReuse b
    let (p, b2) := createOrGet b1
    (p, runtimePools nthreads b2)
  else
    let (p, b1) := createOrGet b
    let b2 := forceReuse b1
    (p, runtimePools nthreads b2)

theorem runtimePools_reuse (n : Nat) (p f : Nat) :
    ∀ q ∈ runtimePools n { cfg := .reuse p, fresh := f }, q = p := by
  induction n with
  | zero => intro q h; simp [runtimePools] at h
  | succ n ih =>
    intro q h
    simp [runtimePools, createOrGet] at h
    rcases h with h | h
    · exact h
    · exact ih q h

/-- **one pool behind every entry point**: for every builder state (default `Create` with any limit, or `Reuse`) and
any number of worker threads, every worker runtime's pool is the dispatcher's own pool — so `running ≤ limit`
(`running_le_limit_of_reserve`, `live_le_limit_of_serial_spawns`, which hold for any number of dispatchers of one
pool) bounds `spawn_blocking` + `dispatch_blocking` + `join` jobs together -/
theorem dispatcher_entry_points_share_one_pool (b : PB) (nthreads : Nat) :
    ∀ q ∈ (newImpl true b nthreads).2, q = (newImpl true b nthreads).1 := by
  cases b with
  | mk cfg fresh =>
    cases cfg with
    | create l =>
      simp only [newImpl, forceReuse, createOrGet, if_true]
      exact runtimePools_reuse nthreads fresh (fresh + 1)
    | reuse p =>
      simp only [newImpl, forceReuse, createOrGet, if_true]
      exact runtimePools_reuse nthreads p fresh

/-- the other statement order (seed 5a): a `Create` builder gives the dispatcher a pool of its own — two pools, each
with the whole limit -/
theorem handle_before_force_splits_the_pool (l f n : Nat) :
    ∀ q ∈ (newImpl false { cfg := .create l, fresh := f } n).2, q ≠ (newImpl false { cfg := .create l, fresh := f } n).1 := by
  simp only [newImpl, forceReuse, createOrGet]
  intro q h
  have := runtimePools_reuse n (f + 1) (f + 1 + 1) q h
  simp at this ⊢
  omega

example : newImpl true { cfg := .create 2, fresh := 0 } 3 = (0, [0, 0, 0]) := by decide
example : newImpl false { cfg := .create 2, fresh := 0 } 3 = (0, [1, 1, 1]) := by decide

/-- **the slot is given back on the unwinding path**: a worker inside a raw (uncaught) panicking job can finish
(the thread dies) and then `exit` — the guard's `fetch_sub`, created before the receive loop — is enabled and takes
the counter down by one, exactly as after an idle timeout -/
theorem crashed_worker_gives_slot_back (s : State) (w j : Nat) (hw : w < s.nw)
    (hr : s.wrk w = .running j) (hk : s.kind j = .raw) :
    ∃ s1 s2, step? s (.finish w) = some s1 ∧ step? s1 (.exit w) = some s2
      ∧ s2.counter = s.counter - 1 ∧ s2.wrk w = .exited ∧ s2.crashed = j :: s.crashed := by
  refine ⟨{ s with wrk := upd s.wrk w .leaving, crashed := j :: s.crashed },
    { s with wrk := upd (upd s.wrk w .leaving) w .exited, crashed := j :: s.crashed, counter := s.counter - 1 },
    ?_, ?_, rfl, ?_, rfl⟩
  · simp [step?, doFinish, hw, hr, hk]
  · simp [step?, doExit, hw, upd]
  · simp [upd]

end Compio.Props.C17
