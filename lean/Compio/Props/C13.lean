/-
C13 — framing and ancillary codecs: round-trip and hostile-input safety.
Property theorems only (helper lemmas live in Compio/Lemmas). All statements are unbounded:
every frame list, payload, fragmentation, framer parameter, byte string.
-/
import Compio.Lemmas.Frame
import Compio.Lemmas.Cmsg
import Compio.Lemmas.CmsgRoundtrip
import Compio.Lemmas.CmsgRefuse

namespace Compio.Props.C13
open Compio Compio.Frame

/-! ## 1. What a framer must satisfy for the stream to round-trip -/

/-- `enc`/`ext` form a sound framer on the payloads satisfying `wf`. -/
structure FramerOK (enc : Bytes → Bytes) (ext : Bytes → Extract) (wf : Bytes → Prop)
    (pre suf : Bytes → Nat) : Prop where
  /-- a buffer beginning with a whole encoded frame yields that frame, whatever follows -/
  complete : ∀ p rest, wf p → ext (enc p ++ rest) = .frame (pre p) p.length (suf p)
  /-- the payload sits at `pre .. pre + |p|` of the encoding -/
  layout : ∀ p, wf p → (enc p).length = pre p + p.length + suf p ∧ ((enc p).drop (pre p)).take p.length = p
  /-- a strict prefix of an encoded frame is "incomplete", never a (wrong) frame or an error -/
  incomplete : ∀ p b, wf p → b <+: enc p → b.length < (enc p).length → ext b = .none
  /-- nothing buffered: nothing extracted -/
  empty : ext [] = .none

/-- well-formed payload for `LengthDelimited`: the length fits the field (and `usize`) -/
def ldWf (f : LD) (p : Bytes) : Prop := p.length < 256 ^ f.lfl ∧ f.lfl + p.length < usizeLimit

/-- well-formed payload for a delimiter `d`: the first occurrence of `d` in `p ++ d` is the appended one -/
def anyWf (d : Bytes) (p : Bytes) : Prop := findSub d (p ++ d) = some p.length

theorem ld_framer_ok (f : LD) (hl : 1 ≤ f.lfl) :
    FramerOK f.enclose f.extract (ldWf f) (fun _ => f.lfl) (fun _ => 0) where
  complete p rest h := LD.extract_enclose_append f p rest h.1 h.2
  layout p _ := by simp [LD.enclose]
  incomplete p b h hb hl := LD.extract_strict_prefix f p b h.1 h.2 hb hl
  empty := by
    unfold LD.extract
    rw [if_pos (by simp; omega)]

theorem any_framer_ok (d : Bytes) (hd : d ≠ []) :
    FramerOK (anyEnclose d) (anyExtract d) (anyWf d) (fun _ => 0) (fun _ => d.length) where
  complete p rest h := by
    have hne : (p ++ (d ++ rest)).isEmpty = false := by
      simp only [List.isEmpty_eq_false_iff]
      intro h0
      simp at h0
      exact hd h0.2.1
    have hd' : d.isEmpty = false := by cases d <;> simp_all
    unfold anyExtract
    simp only [anyEnclose, List.append_assoc, hne, hd']
    rw [findSub_append d p rest hd h]
    simp
  layout p _ := by simp [anyEnclose]
  incomplete p b h hb hl := by
    unfold anyExtract
    by_cases he : b.isEmpty
    · simp [he]
    · have hd' : d.isEmpty = false := by cases d <;> simp_all
      simp only [he, hd']
      -- an occurrence inside a strict prefix of `p ++ d` would be an earlier occurrence in `p ++ d`
      cases hf : findSub d b with
      | none => simp
      | some q =>
        exfalso
        obtain ⟨t, ht⟩ := hb
        have hbound := findSub_bound d b q hf
        have hq : findSub d (b ++ t) = some q := findSub_append_right d b t q hf
        rw [ht] at hq
        simp only [anyEnclose] at hq hl
        rw [h] at hq
        simp at hq hl
        omega
  empty := by simp [anyExtract]

/-! ## 2. Every fragmentation decodes to the same frame list (nothing merged, split or dropped) -/

/-- One `poll_next`: if the unread stream (`buf` ++ the fragments still to come) starts with the
encoding of a well-formed payload `p`, the poll yields exactly `p` and leaves exactly the rest. -/
theorem pollNext_delivers {enc ext wf pre suf} (ok : FramerOK enc ext wf pre suf)
    (p : Bytes) (hp : wf p) (tail : Bytes) :
    ∀ (frags : List Bytes) (buf : Bytes), (∀ f ∈ frags, f ≠ []) →
      buf ++ frags.flatten = enc p ++ tail →
      ∃ (frags' : List Bytes) (buf' : Bytes),
        pollNext ext ⟨buf, false⟩ (frags.map Frag.data)
          = (.item p, ⟨buf', false⟩, frags'.map Frag.data)
        ∧ buf' ++ frags'.flatten = tail ∧ (∀ f ∈ frags', f ≠ []) := by
  obtain ⟨hlen, hpay⟩ := ok.layout p hp
  -- the case where the whole frame is already buffered, shared by both induction cases
  have whole : ∀ (frags : List Bytes) (buf : Bytes), (∀ f ∈ frags, f ≠ []) →
      buf ++ frags.flatten = enc p ++ tail → (enc p).length ≤ buf.length →
      ∃ (frags' : List Bytes) (buf' : Bytes),
        pollNext ext ⟨buf, false⟩ (frags.map Frag.data)
          = (.item p, ⟨buf', false⟩, frags'.map Frag.data)
        ∧ buf' ++ frags'.flatten = tail ∧ (∀ f ∈ frags', f ≠ []) := by
    intro frags buf hne hcat hge
    have hpre : enc p <+: buf :=
      List.prefix_of_prefix_length_le ⟨tail, hcat.symm⟩ (List.prefix_append _ _) hge
    obtain ⟨r, hr⟩ := hpre
    subst hr
    refine ⟨frags, r, ?_, ?_, hne⟩
    · rw [pollNext_frame ext _ _ (pre p) p.length (suf p) (ok.complete p r hp) (by simp; omega)]
      have h1 : ((enc p ++ r).drop (pre p)).take p.length = p := by
        rw [List.drop_append_of_le_length (by omega), List.take_append_of_le_length (by simp; omega)]
        exact hpay
      have h2 : (enc p ++ r).drop (pre p + p.length + suf p) = r := by
        rw [← hlen]; simp
      simp [h1, h2]
    · rw [List.append_assoc] at hcat
      exact List.append_cancel_left hcat
  intro frags
  induction frags with
  | nil =>
    intro buf hne hcat
    refine whole [] buf hne hcat ?_
    have := congrArg List.length hcat
    simp at this; omega
  | cons f fs ih =>
    intro buf hne hcat
    by_cases hlt : buf.length < (enc p).length
    · -- the buffer is a strict prefix of the encoding: extract says "incomplete", one more read
      have hpre : buf <+: enc p :=
        List.prefix_of_prefix_length_le ⟨(f :: fs).flatten, hcat⟩ (List.prefix_append _ _) (by omega)
      have hnone := ok.incomplete p buf hp hpre hlt
      have hf : f ≠ [] := hne f (by simp)
      obtain ⟨frags', buf', h, h2, h3⟩ := ih (buf ++ f) (fun g hg => hne g (by simp [hg]))
        (by simpa [List.append_assoc] using hcat)
      refine ⟨frags', buf', ?_, h2, h3⟩
      rw [List.map_cons, pollNext_none_data ext ⟨buf, false⟩ f _ hnone hf]
      exact h
    · exact whole (f :: fs) buf hne hcat (by omega)

/-- **Round trip under every fragmentation.** Encode any list of well-formed payloads, cut the byte
stream into any non-empty fragments, feed them to the `Framed` read loop: it yields exactly the
payloads, in order, then end-of-stream. -/
theorem stream_roundtrip {enc ext wf pre suf} (ok : FramerOK enc ext wf pre suf)
    (ps : List Bytes) (hwf : ∀ p ∈ ps, wf p) :
    ∀ (frags : List Bytes) (buf : Bytes), (∀ f ∈ frags, f ≠ []) →
      buf ++ frags.flatten = encodeAll enc ps →
      ∀ fuel, ps.length + 1 ≤ fuel →
        runAll ext fuel ⟨buf, false⟩ (frags.map Frag.data) = ps.map Out.item ++ [Out.done] := by
  induction ps with
  | nil =>
    intro frags buf hne hcat fuel hfuel
    simp only [encodeAll, List.map_nil, List.flatten_nil, List.append_eq_nil_iff] at hcat
    obtain ⟨hb, hf⟩ := hcat
    have hfr : frags = [] := by
      cases frags with
      | nil => rfl
      | cons f fs =>
        exfalso
        simp only [List.flatten_cons, List.append_eq_nil_iff] at hf
        exact hne f (by simp) hf.1
    subst hb hfr
    obtain ⟨n, rfl⟩ : ∃ n, fuel = n + 1 := ⟨fuel - 1, by simp at hfuel; omega⟩
    simp [runAll, pollNext_none_nil ext ⟨[], false⟩ ok.empty]
  | cons p ps ih =>
    intro frags buf hne hcat fuel hfuel
    obtain ⟨n, rfl⟩ : ∃ n, fuel = n + 1 := ⟨fuel - 1, by simp at hfuel; omega⟩
    have hcat' : buf ++ frags.flatten = enc p ++ encodeAll enc ps := by
      simpa [encodeAll] using hcat
    obtain ⟨frags', buf', h, h2, h3⟩ :=
      pollNext_delivers ok p (hwf p (by simp)) (encodeAll enc ps) frags buf hne hcat'
    have := ih (fun q hq => hwf q (by simp [hq])) frags' buf' h3 h2 n (by simp at hfuel; omega)
    simp [runAll, h, this]

/-- instance for `LengthDelimited` (length field of 1..8 bytes, either endianness) -/
theorem length_delimited_roundtrip (f : LD) (hl : 1 ≤ f.lfl) (ps : List Bytes)
    (hwf : ∀ p ∈ ps, ldWf f p) (frags : List Bytes) (hne : ∀ g ∈ frags, g ≠ [])
    (hcat : frags.flatten = encodeAll f.enclose ps) :
    runAll f.extract (ps.length + 1) RState.init (frags.map Frag.data)
      = ps.map Out.item ++ [Out.done] :=
  stream_roundtrip (ld_framer_ok f hl) ps hwf frags [] hne (by simpa using hcat) _ (Nat.le_refl _)

/-- instance for `AnyDelimited` / `CharDelimited` (any non-empty delimiter) -/
theorem any_delimited_roundtrip (d : Bytes) (hd : d ≠ []) (ps : List Bytes)
    (hwf : ∀ p ∈ ps, anyWf d p) (frags : List Bytes) (hne : ∀ g ∈ frags, g ≠ [])
    (hcat : frags.flatten = encodeAll (anyEnclose d) ps) :
    runAll (anyExtract d) (ps.length + 1) RState.init (frags.map Frag.data)
      = ps.map Out.item ++ [Out.done] :=
  stream_roundtrip (any_framer_ok d hd) ps hwf frags [] hne (by simpa using hcat) _ (Nat.le_refl _)

/-- the well-formedness predicate of delimiters is satisfiable whenever the payload avoids every
byte of the delimiter (what the harness generator does) -/
theorem anyWf_of_disjoint (d p : Bytes) (hd : d ≠ []) (h : ∀ x ∈ p, x ∉ d) : anyWf d p :=
  findSub_of_disjoint d p hd h

/-! ## 3. Hostile input: arbitrary bytes give frames or errors — no panic, no out-of-range frame,
no endless loop -/

/-- a framer whose frames always lie inside the buffer and are never empty -/
structure Bounded (ext : Bytes → Extract) : Prop where
  no_panic : ∀ b, ext b ≠ .panic
  in_range : ∀ b p l s, ext b = .frame p l s → p + l + s ≤ b.length ∧ 0 < p + l + s

theorem ld_bounded (f : LD) (hl : 1 ≤ f.lfl) : Bounded f.extract where
  no_panic b := by
    unfold LD.extract
    by_cases h1 : b.length < f.lfl
    · simp [h1]
    · simp only [h1, if_false]
      by_cases h2 : usizeLimit ≤ f.lfl + decodeLen f.be (b.take f.lfl)
      · simp [h2]
      · simp only [h2, if_false]
        by_cases h3 : b.length < f.lfl + decodeLen f.be (b.take f.lfl) <;> simp [h3]
  in_range b p l s h := by
    unfold LD.extract at h
    by_cases h1 : b.length < f.lfl
    · simp [h1] at h
    · simp only [h1, if_false] at h
      by_cases h2 : usizeLimit ≤ f.lfl + decodeLen f.be (b.take f.lfl)
      · simp [h2] at h
      · simp only [h2, if_false] at h
        by_cases h3 : b.length < f.lfl + decodeLen f.be (b.take f.lfl)
        · simp [h3] at h
        · simp only [h3, if_false, Extract.frame.injEq] at h
          obtain ⟨rfl, rfl, rfl⟩ := h
          omega

theorem any_bounded (d : Bytes) (hd : d ≠ []) : Bounded (anyExtract d) where
  no_panic b := by
    have hd' : d.isEmpty = false := by cases d <;> simp_all
    unfold anyExtract
    by_cases h1 : b.isEmpty
    · simp [h1]
    · simp only [h1, hd']
      cases findSub d b <;> simp
  in_range b p l s h := by
    have hd' : d.isEmpty = false := by cases d <;> simp_all
    have hdl : 0 < d.length := by cases d <;> simp_all
    unfold anyExtract at h
    by_cases h1 : b.isEmpty
    · simp [h1] at h
    · simp only [h1, hd'] at h
      cases hf : findSub d b with
      | none => simp [hf] at h
      | some pos =>
        simp only [hf, Bool.false_eq_true, if_false, Extract.frame.injEq] at h
        obtain ⟨rfl, rfl, rfl⟩ := h
        have := findSub_bound d b pos hf
        omega

theorem noop_bounded (m : Nat) (hm : 0 < m) : Bounded (noopExtract m) where
  no_panic b := by unfold noopExtract; split <;> simp
  in_range b p l s h := by
    unfold noopExtract at h
    by_cases h1 : b.isEmpty
    · simp [h1] at h
    · have hb : 0 < b.length := by
        cases hbb : b with
        | nil => simp [hbb] at h1
        | cons x xs => simp
      simp only [h1, Bool.false_eq_true, if_false, Extract.frame.injEq] at h
      obtain ⟨rfl, rfl, rfl⟩ := h
      split <;> omega

/-- the read loop never panics, whatever bytes, zero-length reads and I/O errors arrive -/
theorem pollNext_no_panic {ext} (hb : Bounded ext) :
    ∀ (frags : List Frag) (st : RState), (pollNext ext st frags).1 ≠ .panic := by
  intro frags
  induction frags with
  | nil =>
    intro st
    cases hext : ext st.buf with
    | panic => exact absurd hext (hb.no_panic _)
    | err => simp [pollNext_err ext st _ hext]
    | frame p l s => simp [pollNext_frame ext st _ p l s hext (hb.in_range _ p l s hext).1]
    | none => simp [pollNext_none_nil ext st hext]
  | cons f fs ih =>
    intro st
    cases hext : ext st.buf with
    | panic => exact absurd hext (hb.no_panic _)
    | err => simp [pollNext_err ext st _ hext]
    | frame p l s => simp [pollNext_frame ext st _ p l s hext (hb.in_range _ p l s hext).1]
    | none =>
      cases f with
      | ioerr => simp [pollNext_none_ioerr ext st fs hext]
      | data bs =>
        by_cases hbs : bs = []
        · subst hbs
          rw [pollNext_none_zero ext st fs hext]
          split
          · simp
          · exact ih _
        · rw [pollNext_none_data ext st bs fs hext hbs]
          exact ih _

/-- each yielded item consumes at least one buffered byte: the measure strictly decreases -/
theorem pollNext_measure {ext} (hb : Bounded ext) :
    ∀ (frags : List Frag) (st : RState),
      fuelFor (pollNext ext st frags).2.1 (pollNext ext st frags).2.2 ≤ fuelFor st frags ∧
      (∀ b, (pollNext ext st frags).1 = .item b →
        fuelFor (pollNext ext st frags).2.1 (pollNext ext st frags).2.2 < fuelFor st frags) := by
  have frameCase : ∀ (frags : List Frag) (st : RState) (p l s : Nat), ext st.buf = .frame p l s →
      fuelFor (pollNext ext st frags).2.1 (pollNext ext st frags).2.2 ≤ fuelFor st frags ∧
      (∀ b, (pollNext ext st frags).1 = .item b →
        fuelFor (pollNext ext st frags).2.1 (pollNext ext st frags).2.2 < fuelFor st frags) := by
    intro frags st p l s hext
    have hr := hb.in_range _ p l s hext
    rw [pollNext_frame ext st _ p l s hext hr.1]
    simp only [fuelFor, List.length_drop]
    constructor
    · omega
    · intro _ _; omega
  intro frags
  induction frags with
  | nil =>
    intro st
    cases hext : ext st.buf with
    | panic => exact absurd hext (hb.no_panic _)
    | err => simp [pollNext_err ext st _ hext]
    | frame p l s => exact frameCase [] st p l s hext
    | none => simp [pollNext_none_nil ext st hext, fuelFor]
  | cons f fs ih =>
    intro st
    cases hext : ext st.buf with
    | panic => exact absurd hext (hb.no_panic _)
    | err => simp [pollNext_err ext st _ hext]
    | frame p l s => exact frameCase (f :: fs) st p l s hext
    | none =>
      cases f with
      | ioerr => simp [pollNext_none_ioerr ext st fs hext, fuelFor]
      | data bs =>
        by_cases hbs : bs = []
        · subst hbs
          rw [pollNext_none_zero ext st fs hext]
          split
          · simp [fuelFor]
          · have := ih { st with eof := true }
            simpa [fuelFor] using this
        · rw [pollNext_none_data ext st bs fs hext hbs]
          have := ih { st with buf := st.buf ++ bs }
          simp only [fuelFor, List.length_append, List.map_cons, List.sum_cons] at this ⊢
          constructor
          · omega
          · intro b hbi; have := this.2 b hbi; omega

/-- **No endless loop**: for every input the stream ends (`done`, `err`) within `fuelFor` polls —
the poll budget is never what stops it. -/
theorem runAll_ends {ext} (hb : Bounded ext) :
    ∀ (n : Nat) (st : RState) (frags : List Frag), fuelFor st frags ≤ n →
      ∃ (items : List Bytes) (o : Out),
        runAll ext n st frags = items.map Out.item ++ [o] ∧ (o = .done ∨ o = .err) := by
  intro n
  induction n with
  | zero => intro st frags h; simp [fuelFor] at h
  | succ n ih =>
    intro st frags h
    have hm := pollNext_measure hb frags st
    have hp := pollNext_no_panic hb frags st
    unfold runAll
    generalize pollNext ext st frags = r at hm hp
    obtain ⟨o, st', frags'⟩ := r
    cases o with
    | item b =>
      have hlt := hm.2 b rfl
      obtain ⟨items, o', h1, h2⟩ := ih st' frags' (by simp at hlt; omega)
      exact ⟨b :: items, o', by simp [h1], h2⟩
    | err => exact ⟨[], .err, by simp, Or.inr rfl⟩
    | done => exact ⟨[], .done, by simp, Or.inl rfl⟩
    | panic => simp at hp

/-! ## 4. Control messages -/

open Compio.Cmsg in
/-- every header the iterator dereferences lies inside the buffer, for arbitrary bytes -/
theorem cmsg_iter_in_bounds (buf : Bytes) (fuel : Nat) :
    ∀ x ∈ iterFrom buf fuel (firsthdr buf.length), x.1 + hdr ≤ buf.length :=
  Cmsg.iterFrom_in_bounds buf fuel _ (by unfold firsthdr; split <;> simp_all)

open Compio.Cmsg in
/-- the iterator terminates on arbitrary bytes: `iterFuel` steps are always enough -/
theorem cmsg_iter_terminates (buf : Bytes) (fuel : Nat) (h : iterFuel buf ≤ fuel) :
    iterFrom buf fuel (firsthdr buf.length) = iterFrom buf (iterFuel buf) (firsthdr buf.length) :=
  Cmsg.iterFrom_stable buf fuel h

open Compio.Cmsg in
/-- a decoded value only ever covers payload bytes of its own message (repair of F7b) -/
theorem cmsg_decode_within_message (buf : Bytes) (off n : Nat) (bs : Bytes)
    (h : decodeData buf off n = .ok bs) : cmsgLen n ≤ (readHeader buf off).len ∨ n = 0 := by
  simp only [decodeData] at h
  split at h
  · simp at h
  · rename_i hlt
    simp [cmsgLen] at hlt ⊢
    omega

open Compio.Cmsg in
/-- **Builder / iterator round trip.** Push any list of well-formed messages into a fresh builder of
any capacity: the bytes handed to the kernel are exactly the accepted messages laid out one after the
other; iterating them yields exactly the accepted messages (level, type, length) in order; decoding
each yields exactly its payload. -/
theorem cmsg_builder_iter_roundtrip (cap : Nat) (b : Builder) (hnew : Builder.new cap = .ok b)
    (msgs : List Msg) (hwf : ∀ m ∈ msgs, m.wf) :
    let acc := accepted msgs (b.pushAll msgs).2
    (b.pushAll msgs).1.finish = flat acc ∧
    (acc ≠ [] → iter (b.pushAll msgs).1.finish = .msgs (hdrsFrom 0 acc)) ∧
    decodeAll (b.pushAll msgs).1.finish 0 acc = acc.map (fun m => Decoded.ok m.2.2) := by
  intro acc
  have hinv := pushAll_inv msgs b [] (binv_new cap b hnew) hwf
  simp only [List.nil_append] at hinv
  have hfin := finish_eq _ _ hinv
  have hacc : ∀ m ∈ acc, m.wf := fun m hm => hwf m (accepted_subset msgs _ m hm)
  refine ⟨hfin, ?_, ?_⟩
  · intro hne
    rw [hfin]
    exact iter_flat acc hacc hne
  · rw [hfin]
    simpa using decodeAll_flat acc [] hacc

open Compio.Cmsg in
/-- a list whose total `CMSG_SPACE` fits the buffer is accepted completely ("any list that fits") -/
theorem cmsg_all_that_fit_are_accepted (cap : Nat) (b : Builder) (hnew : Builder.new cap = .ok b)
    (msgs : List Msg) (hwf : ∀ m ∈ msgs, m.wf) (hfit : (flat msgs).length ≤ cap) :
    accepted msgs (b.pushAll msgs).2 = msgs := by
  have hb := binv_new cap b hnew
  have hcap : b.cap = cap := by
    unfold Builder.new at hnew
    split at hnew
    · simp at hnew
    · simp at hnew; subst hnew; rfl
  exact pushAll_all_ok msgs b [] hb hwf (by simp [flat, hcap] at *; exact hfit)

/-! ### payload encoders that may fail (session 3, seed C13-5a) -/

open Compio.Cmsg in
/-- a push whose `AncillaryData::encode` fails leaves the builder exactly as it was (cursor, length,
bytes) and is never reported as accepted — whatever the builder state -/
theorem cmsg_refused_push_is_noop (b : Builder) (l t d : Bytes) :
    (b.pushR true l t d).1 = b ∧ (b.pushR true l t d).2 ≠ .ok := by
  refine ⟨pushR_refused_noop b l t d, ?_⟩
  unfold Builder.pushR; split
  · simp
  · split <;> simp

open Compio.Cmsg in
/-- with an encoder that does not fail, `pushR` is `push` (the function of the theorems above) -/
theorem cmsg_pushR_willing_eq_push (b : Builder) (l t d : Bytes) :
    (b.pushR false l t d).1 = (b.push l t d).1 ∧
    ((b.pushR false l t d).2 = .ok ↔ (b.push l t d).2 = .ok) := by
  cases h : b.offset with
  | none => simp [Builder.pushR, Builder.push, h]
  | some off =>
    by_cases h2 : off + space d.length ≤ b.cap <;> simp [Builder.pushR, Builder.push, h, h2]

open Compio.Cmsg in
/-- **Builder / iterator round trip with failing encoders.** Push any sequence of well-formed messages
into a fresh builder of any capacity, each with an encoder that either works or fails (arbitrary
pattern): the finished buffer is exactly the accepted messages laid out one after the other, the
iterator yields exactly them in order, and each decodes to its payload. In particular a refused
message leaves no trace and does not displace a later one. -/
theorem cmsg_builder_refusing_roundtrip (cap : Nat) (b : Builder) (hnew : Builder.new cap = .ok b)
    (its : List Item) (hwf : ∀ it ∈ its, it.2.wf) :
    let acc := acceptedR its (b.pushAllR its).2
    (b.pushAllR its).1.finish = flat acc ∧
    (acc ≠ [] → iter (b.pushAllR its).1.finish = .msgs (hdrsFrom 0 acc)) ∧
    decodeAll (b.pushAllR its).1.finish 0 acc = acc.map (fun m => Decoded.ok m.2.2) := by
  intro acc
  have hinv := pushAllR_inv its b [] (binv_new cap b hnew) hwf
  simp only [List.nil_append] at hinv
  have hfin := finish_eq _ _ hinv
  have hacc : ∀ m ∈ acc, m.wf := fun m hm => by
    obtain ⟨it, hit, e⟩ := acceptedR_subset its _ m hm
    exact e ▸ hwf it hit
  refine ⟨hfin, ?_, ?_⟩
  · intro hne
    rw [hfin]
    exact iter_flat acc hacc hne
  · rw [hfin]
    simpa using decodeAll_flat acc [] hacc

open Compio.Cmsg in
/-- "any list that fits": when the messages whose encoder works fit the buffer together, exactly
they are accepted — a refused push does not use up a slot -/
theorem cmsg_willing_that_fit_are_accepted (cap : Nat) (b : Builder) (hnew : Builder.new cap = .ok b)
    (its : List Item) (hwf : ∀ it ∈ its, it.2.wf) (hfit : (flat (willing its)).length ≤ cap) :
    acceptedR its (b.pushAllR its).2 = willing its := by
  have hb := binv_new cap b hnew
  have hcap : b.cap = cap := by
    unfold Builder.new at hnew
    split at hnew
    · simp at hnew
    · simp at hnew; subst hnew; rfl
  exact pushAllR_willing its b [] hb hwf (by simp [flat, hcap] at *; exact hfit)

/-- non-vacuity: accepted, refused, accepted in a 64-byte buffer: both accepted messages come back -/
example : (match Compio.Cmsg.Builder.new 64 with
    | .ok b => (b.pushAllR [(false, [1,0,0,0], [10,0,0,0], [7]), (true, [2,0,0,0], [20,0,0,0], [8]),
                            (false, [3,0,0,0], [30,0,0,0], [9])]).2
    | .panic => []) = [.ok, .refused, .ok] := by decide

/-! ## 5. Non-vacuity: the hypotheses above are met by concrete, non-trivial data -/

example : ldWf ⟨2, true⟩ [1, 2, 3] := by unfold ldWf usizeLimit; simp
example : anyWf [10] [97, 98] := by unfold anyWf; decide
example : runAll (LD.extract ⟨1, false⟩) 3 RState.init
    ([[2, 97], [98, 0]].map Frag.data) = [.item [97, 98], .item [], .done] := by decide
example : (LD.extract ⟨8, true⟩ [255, 255, 255, 255, 255, 255, 255, 255, 1]) = .err := by decide
example : Compio.Cmsg.Msg.wf ([1, 0, 0, 0], [2, 0, 0, 0], [7, 9]) := by
  unfold Compio.Cmsg.Msg.wf Compio.Cmsg.cmsgLen Compio.Cmsg.hdr; simp

end Compio.Props.C13
