/-
C01, operations waiting on SEVERAL descriptors (polling driver: `Splice` = `wait_for_many([readable(in), writable(out)])`).

`Proactor::cancel` tells the caller that the operation is his no longer (the key is consumed, the cancellation is
reported through the completed channel). For that to be true the polling driver must forget the key on EVERY descriptor
the operation was registered on: a key left in one interest queue keeps the operation, its buffers and the descriptors it
owns alive, and the poller keeps its address as user data.

The theorems are about `Compio.MultiFd.step`, the function the model driver `c01d` runs on the `mfd` cases of the
harness, instantiated with the loop shape the extractor reads from `poll::Driver::cancel`
(`Gen.pollCancelLoopLeavesEarly`). A loop that can leave early flips that constant and breaks
`gen_loop_shape` / `cancel_removes_key_from_every_queue`; the witness for such a loop is `Compio.Cex.C01`
(`early_break_leaves_key_registered`).
-/
import Compio.Lemmas.MultiFd

namespace Compio.Props.C01Multi

open Compio Compio.MultiFd Compio.PollQueues

/-- what the extractor read from `poll::Driver::{cancel, cancel_one, remove_one}` and `FdQueue::remove`: one
`cancel_one(key.clone(), fd)` per descriptor, no way out of the loop before the last descriptor, `remove_one` and
`retain(!= key)` on both queues underneath (proved by `rfl`: a changed shape breaks the build) -/
theorem gen_loop_shape :
    Gen.pollCancelCallsCancelOnePerFd = true ∧ Gen.pollCancelLoopLeavesEarly = false ∧
    Gen.pollCancelOneCallsRemoveOne = true ∧ Gen.pollRemoveOneRemovesFromQueue = true ∧
    Gen.fdQueueRemoveFiltersBothQueues = true := ⟨rfl, rfl, rfl, rfl, rfl⟩

/-- registry level, every registry, every key, every descriptor list: the extracted loop takes the key out of both
interest queues of each descriptor it is given … -/
theorem cancel_loop_removes_key_on_each_descriptor (reg : Reg) (key : Nat) (fds : List Nat) (fd : Nat) (h : fd ∈ fds) :
    key ∉ (cancelFds Gen.pollCancelLoopLeavesEarly reg key fds fd).rq ∧
    key ∉ (cancelFds Gen.pollCancelLoopLeavesEarly reg key fds fd).wq := by
  have := cancelFds_removes_all key fd fds reg h
  unfold On at this
  exact ⟨fun h1 => this (Or.inl h1), fun h2 => this (Or.inr h2)⟩

/-- … leaves every other descriptor alone … -/
theorem cancel_loop_leaves_other_descriptors (reg : Reg) (key : Nat) (fds : List Nat) (fd : Nat) (h : fd ∉ fds) :
    cancelFds Gen.pollCancelLoopLeavesEarly reg key fds fd = reg fd :=
  cancelFds_other _ key fd fds reg h

/-- … and every other key where it is -/
theorem cancel_loop_keeps_other_keys (reg : Reg) (key k : Nat) (fds : List Nat) (fd : Nat) (hk : k ≠ key)
    (h : On reg k fd) : On (cancelFds Gen.pollCancelLoopLeavesEarly reg key fds) k fd :=
  cancelFds_keeps_others _ key k fd hk fds reg h

/-- `push` registers the key on every descriptor of the operation -/
theorem push_registers_on_every_descriptor (reg : Reg) (key : Nat) (fds : List (Nat × Dir)) (fd : Nat)
    (h : fd ∈ fds.map (·.1)) : On (pushFds reg key fds) key fd :=
  pushFds_on key fds reg fd h

/-- for every run: a key sits only in queues of descriptors its own operation waits on -/
theorem registered_only_on_own_descriptors {d : Drv} {es : List Event} {s : State}
    (hr : run Gen.pollCancelLoopLeavesEarly (init d) es = some s) (id fd : Nat) (h : On s.reg id fd) :
    ∃ o : MOp, s.ops[id]? = some o ∧ fd ∈ o.fdList :=
  run_own es (init d) s (own_init d) hr id fd h

/-- **After `Proactor::cancel` reached the polling driver the key is in NO interest queue of ANY descriptor** — for every
reachable state (every history of pushes, cancels, drops, pops, polls of any number of operations on shared or
distinct descriptors), every operation with any number of descriptors. -/
theorem cancel_removes_key_from_every_queue {d : Drv} {es : List Event} {s s' : State} {id : Nat} {o : MOp}
    (hr : run Gen.pollCancelLoopLeavesEarly (init d) es = some s) (hd : s.drv = .poll)
    (ho : s.ops[id]? = some o) (hc : o.cancelled = false) (hn : ¬ (o.rc = 1 ∧ o.result.isSome))
    (hs : step Gen.pollCancelLoopLeavesEarly s (.cancel id) = some s') :
    ∀ fd, id ∉ (s'.reg fd).rq ∧ id ∉ (s'.reg fd).wq := by
  have hown := run_own es (init d) s (own_init d) hr
  have key : ∀ fd, ¬ On s'.reg id fd := by
    intro fd
    simp only [step, ho] at hs
    split at hs
    · simp only [hc, Bool.false_eq_true, if_false, hn] at hs
      simp only [Option.some.injEq] at hs
      subst hs
      simp only [driverCancel, hd]
      intro h
      split at h
      · -- an operation without descriptors is registered nowhere
        obtain ⟨o', ho', hfd⟩ := hown id fd h
        rw [ho] at ho'
        cases ho'
        rename_i he
        simp [MOp.fdList, List.isEmpty_iff.mp he] at hfd
      · by_cases hm : fd ∈ o.fdList
        · exact cancelFds_removes_all id fd o.fdList s.reg hm h
        · have h' : On s.reg id fd := on_cancelFds_sub h
          obtain ⟨o', ho', hfd⟩ := hown id fd h'
          rw [ho] at ho'
          cases ho'
          exact hm hfd
    · cases hs
  intro fd
  have := key fd
  unfold On at this
  exact ⟨fun h1 => this (Or.inl h1), fun h2 => this (Or.inr h2)⟩

/-- the other operations keep every registration they had -/
theorem cancel_keeps_other_operations {s s' : State} {id k fd : Nat} (hk : k ≠ id)
    (hs : step Gen.pollCancelLoopLeavesEarly s (.cancel id) = some s') (h : On s.reg k fd) : On s'.reg k fd := by
  simp only [step] at hs
  split at hs
  · rename_i o ho
    split at hs
    · split at hs
      · simp only [Option.some.injEq] at hs; subst hs; exact h
      · split at hs
        · simp only [Option.some.injEq] at hs; subst hs; exact h
        · simp only [Option.some.injEq] at hs; subst hs
          simp only [driverCancel]
          cases s.drv with
          | iour => exact h
          | poll =>
            simp only
            split
            · exact h
            · exact cancelFds_keeps_others _ id k fd hk _ _ h
    · cases hs
  · cases hs

/-! ### non-vacuity: the statements on concrete runs (two- and three-descriptor operations, shared descriptors) -/

/-- a splice parked on descriptors 0 and 1, cancelled, polled: registered nowhere, released exactly once -/
example :
    (run Gen.pollCancelLoopLeavesEarly (init .poll) [.push [(0, .rd), (1, .wr)], .cancel 0, .poll]).map
      (fun s => (s.reg 0, s.reg 1, s.ops.map fun o => (o.rc, o.freed, o.returned, o.uaf, o.result)))
    = some (⟨[], []⟩, ⟨[], []⟩, [(0, 1, 0, false, some 125)]) := by rfl

/-- between the cancel and the poll the entry of the completed channel is the only holder -/
example :
    (run Gen.pollCancelLoopLeavesEarly (init .poll) [.push [(0, .rd), (1, .wr)], .cancel 0]).map
      (fun s => (s.reg 0, s.reg 1, s.ops.map fun o => (o.rc, o.chan, o.user, o.freed)))
    = some (⟨[], []⟩, ⟨[], []⟩, [(1, 1, 0, 0)]) := by rfl

/-- two operations on the same two descriptors, three descriptors for a third: cancelling the first leaves the others -/
example :
    (run Gen.pollCancelLoopLeavesEarly (init .poll)
        [.push [(0, .rd), (1, .wr)], .push [(0, .rd), (1, .wr)], .push [(0, .rd), (1, .wr), (2, .rd)], .cancel 0, .poll]).map
      (fun s => (s.reg 0, s.reg 1, s.reg 2, s.ops.map fun o => (o.rc, o.freed)))
    = some (⟨[1, 2], []⟩, ⟨[], [1, 2]⟩, ⟨[2], []⟩, [(0, 1), (3, 0), (4, 0)]) := by rfl

/-- the hypotheses of `cancel_removes_key_from_every_queue` are satisfiable on a non-trivial state -/
example : ∃ (s s' : State) (o : MOp),
    run Gen.pollCancelLoopLeavesEarly (init .poll) [.push [(0, .rd), (1, .wr)], .push [(0, .rd), (1, .wr)]] = some s ∧
    s.drv = .poll ∧ s.ops[1]? = some o ∧ o.cancelled = false ∧ ¬ (o.rc = 1 ∧ o.result.isSome) ∧
    step Gen.pollCancelLoopLeavesEarly s (.cancel 1) = some s' ∧ s'.reg 1 = ⟨[], [0]⟩ :=
  ⟨_, _, _, rfl, rfl, rfl, rfl, by decide, rfl, rfl⟩

/-- driver drop releases a parked multi-descriptor operation once the caller lets go -/
example :
    (run Gen.pollCancelLoopLeavesEarly (init .poll) [.push [(0, .rd), (1, .wr)], .pdrop, .drop 0]).map
      (fun s => s.ops.map fun o => (o.rc, o.freed, o.uaf))
    = some [(0, 1, false)] := by rfl

end Compio.Props.C01Multi
