/-
C07 — managed buffer pool: exclusive ownership and conservation. Property theorems only.

Everything is stated about `Compio.Pool.run` / `step` — the functions the line-protocol driver
(`Drivers/C07.lean`) executes against the real compio code — for ALL event sequences (`List Ev`) from ANY
initial pool (`World.init kind numBufs bufLen`, both the io_uring buffer ring and the fallback pool,
every pool size the builder accepts). The only guard is `Ev.safe`: the program does not call the raw
`BufferPool::take(id)` / `reset(id)` with ids of its own choosing (observation C07a, see `Cex/C07.lean`);
managed reads, multishot streams, cancellations, early stream drops, handle drops in any order,
`pop`, `release` with live handles and arbitrary (also ill-formed) event orders are all included.
-/
import Compio.Lemmas.Pool

namespace Compio.Props.C07
open Compio Compio.Pool

/-- how many parties own buffer `id`: the pool's free list / the kernel's ring, an unprocessed
    completion (guard), an operation, a user-held handle, or the deallocator (after release) -/
def owners (w : World) (id : Nat) : Nat :=
  w.pool.freeIds.count id + w.selIds.count id + w.opIds.count id + w.handles.count id + w.pool.freed.count id

/-- a program: any events from any initial configuration, without raw `take` / `reset` -/
structure Reachable (w : World) : Prop where
  intro ::
  ex : ∃ kind nb len w0 evs, World.init kind nb len = some w0 ∧ (∀ e ∈ evs, Ev.safe e = true) ∧ w = run w0 evs

theorem reachable_inv {w : World} (h : Reachable w) : Inv w := by
  obtain ⟨kind, nb, len, w0, evs, h0, hs, rfl⟩ := h.ex
  exact (World.init_inv h0).1.run evs hs

/-! ## 1. exactly one owner -/

/-- every buffer id has exactly one owner at any time (and ids outside the pool have none) -/
theorem exactly_one_owner {w : World} (h : Reachable w) (id : Nat) :
    owners w id = if id < w.pool.n then 1 else 0 := by
  have := (reachable_inv h).1.cnt id
  simp only [World.cs, World.ch] at this
  unfold owners
  omega

/-- two live handles never alias, and a held buffer is owned by nobody else: not free, not provided to
    the kernel, not selected by a pending completion, not inside an operation, not freed -/
theorem handles_never_alias {w : World} (h : Reachable w) :
    w.handles.Nodup ∧ ∀ id ∈ w.handles, id < w.pool.n ∧ id ∉ w.pool.freeIds ∧ id ∉ w.selIds ∧
      id ∉ w.opIds ∧ id ∉ w.pool.freed := by
  constructor
  · rw [List.nodup_iff_count]
    intro a
    have := exactly_one_owner h a
    unfold owners at this
    split at this <;> omega
  · intro id hid
    have hc : 0 < w.handles.count id := List.count_pos_iff.mpr hid
    have := exactly_one_owner h id
    unfold owners at this
    by_cases hlt : id < w.pool.n
    · rw [if_pos hlt] at this
      refine ⟨hlt, ?_, ?_, ?_, ?_⟩ <;> (rw [← List.count_eq_zero]; omega)
    · rw [if_neg hlt] at this; omega

/-- `take` empties the slot: while the pool is alive the slot of a held (or op-held) buffer is empty -/
theorem held_slot_empty {w : World} (h : Reachable w) (hr : w.pool.released = false) (id : Nat)
    (hid : id ∈ w.handles ∨ id ∈ w.opIds) : w.pool.slots[id]? = some none := by
  have hinv := (reachable_inv h).1
  have hc := hinv.cnt id
  have hpos : 0 < w.ch id := by
    simp only [World.ch]
    rcases hid with h1 | h1
    · have := List.count_pos_iff.mpr h1; omega
    · have := List.count_pos_iff.mpr h1; omega
  have hlt := hinv.lt_of_ch hpos
  rw [if_pos hlt] at hc
  rw [hinv.slot hr id hlt, if_neg (by omega)]

/-- the kernel (ring) / the free queue (fallback) only owns ids whose slot is present and that no
    handle and no operation holds; and it owns each of them once -/
theorem pool_owned_present_and_unheld {w : World} (h : Reachable w) (hr : w.pool.released = false) (id : Nat)
    (hid : id ∈ w.pool.freeIds) :
    w.pool.slots[id]? = some (some id) ∧ id ∉ w.handles ∧ id ∉ w.opIds ∧ id ∉ w.selIds ∧
      w.pool.freeIds.count id = 1 := by
  have hinv := (reachable_inv h).1
  have hc := hinv.cnt id
  have hpos : 0 < w.pool.freeIds.count id := List.count_pos_iff.mpr hid
  have hlt := hinv.lt_of_free hid
  rw [if_pos hlt] at hc
  simp only [World.cs, World.ch] at hc
  refine ⟨?_, ?_, ?_, ?_, by omega⟩
  · rw [hinv.slot hr id hlt, if_pos (by simp only [World.cs]; omega)]
  all_goals (rw [← List.count_eq_zero]; omega)

/-- a buffer selected by a completion that nobody has taken yet keeps its slot (so `set_result` /
    the stream adapter can adopt it) and is not provided to the kernel any more -/
theorem selected_present {w : World} (h : Reachable w) (hr : w.pool.released = false) (id : Nat)
    (hid : id ∈ w.selIds) : w.pool.slots[id]? = some (some id) ∧ id ∉ w.pool.freeIds ∧ id ∉ w.handles := by
  have hinv := (reachable_inv h).1
  have hc := hinv.cnt id
  have hpos : 0 < w.cs id := List.count_pos_iff.mpr hid
  have hlt := hinv.lt_of_cs hpos
  rw [if_pos hlt] at hc
  simp only [World.ch] at hc
  refine ⟨?_, ?_, ?_⟩
  · rw [hinv.slot hr id hlt, if_pos (by omega)]
  all_goals (rw [← List.count_eq_zero]; omega)

/-! ## 2. no panic, no overflow -/

/-- `set_result`'s `expect("Buffer should not be in use")` never fires, and the `u16` addition
    `tail + offset` of `add_buffer` never overflows -/
theorem never_panics {w : World} (h : Reachable w) : w.dead = false ∧ w.pool.fault = false :=
  ⟨(reachable_inv h).2.1, (reachable_inv h).1.shape.nofault⟩

/-- the ring never holds more provided buffers than it has entries (`tail - head ≤ len`), the number
    of buffers outside the pool accounts exactly for the difference -/
theorem ring_never_overflows {w : World} (h : Reachable w) (hr : w.pool.released = false)
    (hk : w.pool.kind = .ring) :
    w.pool.head ≤ w.pool.tail ∧
    w.pool.tail - w.pool.head + w.selIds.length + (w.opIds.length + w.handles.length) = w.pool.n := by
  have hinv := (reachable_inv h).1
  exact ⟨hinv.shape.ht, hinv.window_le hk hr⟩

/-! ## 3. conservation -/

/-- after all handles, operations and streams are dropped every buffer is back in the pool exactly
    once: the free ids are a permutation of `0..n` -/
theorem conservation {w : World} (h : Reachable w) (hr : w.pool.released = false)
    (hh : w.handles = []) (ho : w.opIds = []) (hs : w.selIds = []) :
    w.pool.freeIds.Perm (List.range w.pool.n) ∧ w.pool.slots = (List.range w.pool.n).map some := by
  have hinv := (reachable_inv h).1
  constructor
  · rw [List.perm_iff_count]
    intro a
    have := hinv.cnt a
    simp only [World.cs, World.ch, hh, ho, hs, List.count_nil, hinv.shape.nofreed hr] at this
    rw [count_range]; omega
  · apply List.ext_getElem?
    intro j
    by_cases hj : j < w.pool.n
    · have := hinv.cnt j
      simp only [World.cs, World.ch, hh, ho, hs, List.count_nil, hinv.shape.nofreed hr, if_pos hj] at this
      rw [hinv.slot hr j hj, if_pos (by simp only [World.cs, hs, List.count_nil]; omega)]
      simp [hj]
    · have hl := hinv.shape.slen hr
      rw [List.getElem?_eq_none (by omega), List.getElem?_eq_none (by simp; omega)]

/-- fallback pool: every id is in the free queue exactly once -/
theorem conservation_fallback {w : World} (h : Reachable w) (hr : w.pool.released = false)
    (hk : w.pool.kind = .fb) (hh : w.handles = []) (ho : w.opIds = []) (hs : w.selIds = []) :
    w.pool.queue.Perm (List.range w.pool.n) := by
  have := (conservation h hr hh ho hs).1
  rwa [freeIds_fb hr hk] at this

/-- io_uring: every id is provided to the kernel exactly once, the ring is full again
    (`tail - head = len`) and the tail has advanced by exactly the number of resets -/
theorem conservation_ring {w : World} (h : Reachable w) (hr : w.pool.released = false)
    (hk : w.pool.kind = .ring) (hh : w.handles = []) (ho : w.opIds = []) (hs : w.selIds = []) :
    w.pool.window.Perm (List.range w.pool.n) ∧ w.pool.tail - w.pool.head = w.pool.n ∧
    w.pool.tail = w.pool.n + w.pool.resets := by
  have hinv := (reachable_inv h).1
  have h1 := (conservation h hr hh ho hs).1
  rw [freeIds_ring hr hk] at h1
  have h2 := hinv.window_le hk hr
  simp only [hh, ho, hs, List.length_nil, Nat.add_zero] at h2
  exact ⟨h1, h2, hinv.shape.tailres hk⟩

/-- at any time (not only at quiescence) the ring tail is `len` + the number of resets so far -/
theorem ring_tail_counts_resets {w : World} (h : Reachable w) (hk : w.pool.kind = .ring) :
    w.pool.tail = w.pool.n + w.pool.resets := (reachable_inv h).1.shape.tailres hk

/-- the pool released while handles are alive: the pool frees what it owns, every handle frees its own
    buffer when dropped; once all handles are gone every buffer has been deallocated exactly once -/
theorem conservation_after_release {w : World} (h : Reachable w) (hr : w.pool.released = true)
    (hh : w.handles = []) : w.pool.freed.Perm (List.range w.pool.n) := by
  have hinv := reachable_inv h
  have hsrc := hinv.2.2 hr
  rw [List.perm_iff_count]
  intro a
  have := hinv.1.cnt a
  simp only [World.cs, World.ch, World.selIds, World.opIds, hsrc, hh, List.flatMap_nil, List.count_nil,
    freeIds_released hr] at this
  rw [count_range]; omega

/-- before the release nothing is ever deallocated -/
theorem nothing_freed_while_alive {w : World} (h : Reachable w) (hr : w.pool.released = false) :
    w.pool.freed = [] := (reachable_inv h).1.shape.nofreed hr

/-! ## 4. exhaustion is an error, never a loop

Every function of the model is structurally recursive (`ringMulti` on the number of provided buffers),
so each event terminates; what remains is that the outcome of "no buffer" is the error. -/

/-- fallback pool with an empty free queue: creating a managed read fails at once with `ResourceBusy`
    and changes nothing -/
theorem exhaustion_fallback_read (w : World) (i len pos : Nat) (s : Src) (hd : w.dead = false)
    (hv : validSrc w i = some s) (hf : s.fut = none) (hst : s.strm = none) (hlen : len ≤ 4096)
    (hk : w.pool.kind = .fb) (hq : w.pool.queue = []) :
    step w (.read i len pos) = (w, .err true "busy") := by
  have hc : (s.fut.isSome || s.strm.isSome || decide (4096 < len)) = false := by
    simp [hf, hst]; omega
  simp [step, hd, evRead, hv, hc, hk, Pool.ctrlPop, hq]

/-- io_uring with nothing provided (`head = tail`): a managed read on a source with data completes
    with `ResourceBusy`, the data stays in the source, and awaiting it reports the error -/
theorem exhaustion_ring_read (w : World) (i len : Nat) (s : Src) (hd : w.dead = false)
    (hv : validSrc w i = some s) (hf : s.fut = none) (hst : s.strm = none) (hlen : len ≤ 4096)
    (hkind : s.kind = .pipe) (hdata : 0 < s.avail)
    (hk : w.pool.kind = .ring) (he : w.pool.head = w.pool.tail) :
    ∃ w1, step w (.read i len 0) = (w1, .started) ∧ w1.pool = w.pool ∧
      (∀ s1, w1.srcs[i]? = some s1 → s1.avail = s.avail) ∧
      ∃ w2, step w1 (.await i) = (w2, .err false "busy") ∧ w2.pool = w.pool := by
  obtain ⟨hr, hget⟩ := validSrc_some hv
  have hi : i < w.srcs.length := by
    rcases Nat.lt_or_ge i w.srcs.length with h | h
    · exact h
    · rw [List.getElem?_eq_none h] at hget; cases hget
  have hc : (s.fut.isSome || s.strm.isSome || decide (4096 < len)) = false := by
    simp [hf, hst]; omega
  have hsel : w.pool.kselect = (none, w.pool) := by simp [Pool.kselect, he]
  let f1 : Fut := { cap := len, pos := 0, pollFirst := s.wantsPollFirst, done := some (.busy, false), buf := none }
  refine ⟨w.setSrc i { s with fut := some f1 }, ?_, rfl, ?_, ?_⟩
  · simp [step, hd, evRead, hv, hc, hk, kick, hi, hkind, ringSingle, Src.peek, hdata, adoptFut, hsel, World.setSrc, f1]
  · intro s1 h1
    simp [World.setSrc, hi] at h1
    rw [← h1]
  · let s1 : Src := { s with fut := some f1 }
    have hstep : step (w.setSrc i s1) (.await i) = finishFut (w.setSrc i s1) i s1 f1 .busy false false := by
      simp [step, hd, evAwait, validSrc, hr, World.setSrc, hi, s1, f1]
    refine ⟨(finishFut (w.setSrc i s1) i s1 f1 .busy false false).1, ?_, ?_⟩
    · rw [hstep]; rfl
    · rfl

/-! ## 5. ring index arithmetic -/

/-- the rounding of `num_of_bufs`: a power of two between the request and `2^15` -/
theorem ring_len_power_of_two (nb : Nat) (h1 : 1 ≤ nb) (h2 : nb ≤ 32768) :
    ∃ j, j ≤ 15 ∧ nextPow2 nb = 2 ^ j ∧ nb ≤ nextPow2 nb ∧ nextPow2 nb ∣ 65536 := by
  obtain ⟨j, hj, hp, hle⟩ := nextPow2_pow nb h2
  have _ := h1
  exact ⟨j, hj, hp, by rw [hp]; exact hle, pow_dvd_65536 hj hp⟩

/-- with `len` dividing `2^16` the index computed from the wrapped `u16` tail is the index of the
    unbounded tail: wrap-around does not make the index jump -/
theorem ring_index_wraparound (t off len : Nat) (hd : len ∣ 65536) :
    ringIdx (t % 65536) off len = (t + off) % len := by
  unfold ringIdx
  rw [Nat.add_mod, Nat.mod_mod_of_dvd _ hd, ← Nat.add_mod]

/-- for all tails `t` and all `k < len` outstanding provides starting at `h = t - k`, the entry written
    by the next provide (`off = 0`) is none of the entries still provided to the kernel -/
theorem ring_index_never_hits_provided (t k len : Nat) (hd : len ∣ 65536) (hk : k < len) (hkt : k ≤ t) :
    ∀ j, j < k → ringIdx (t % 65536) 0 len ≠ (t - k + j) % 65536 % len := by
  intro j hj
  rw [ring_index_wraparound t 0 len hd, Nat.mod_mod_of_dvd _ hd, Nat.add_zero]
  exact fun e => mod_ne_of_lt (t - k + j) t len (by omega) (by omega) e.symm

/-- on every reachable state: when a `BufferRef` or a guard is reset, the ring entry it writes is not
    one the kernel has yet to consume, whatever the (wrapped) value of the tail -/
theorem reset_never_overwrites_provided {w : World} (h : Reachable w) (hr : w.pool.released = false)
    (hk : w.pool.kind = .ring) (hout : 0 < w.selIds.length + (w.opIds.length + w.handles.length)) :
    ∀ j, j < w.pool.tail - w.pool.head →
      ringIdx w.pool.tail16 0 w.pool.n ≠ (w.pool.head + j) % 65536 % w.pool.n := by
  have hinv := (reachable_inv h).1
  have hw := hinv.window_le hk hr
  have hht := hinv.shape.ht
  intro j hj
  have := ring_index_never_hits_provided w.pool.tail (w.pool.tail - w.pool.head) w.pool.n hinv.shape.dvd
    (by omega) (by omega) j hj
  rwa [show w.pool.tail - (w.pool.tail - w.pool.head) = w.pool.head by omega] at this

/-- the provided window after a reset is the old window plus the reset id at the end (FIFO), for any
    tail including across the `u16` wrap -/
theorem reset_appends_to_window {w : World} (h : Reachable w) (hr : w.pool.released = false)
    (id : Nat) (hid : id ∈ w.handles) :
    (w.pool.dropRef id).freeIds = w.pool.freeIds ++ [id] := by
  have hinv := (reachable_inv h).1
  have hpos : 0 < w.ch id := by
    have := List.count_pos_iff.mpr hid
    simp only [World.ch]; omega
  exact (hinv.dropHeld hr hpos (ch' := fun a => w.ch a - ind id a)
    (lh' := w.opIds.length + w.handles.length - 1)
    (by
      intro a
      by_cases ha : a = id
      · subst ha; rw [ind_self]; omega
      · rw [ind_ne ha]; omega)
    (by have := List.length_pos_of_mem hid; omega)).2.2.2.1

/-! ## non-vacuity -/

/-- a concrete program on the ring (3 buffers requested, rounded to 4): a single-shot read, a
    multishot stream with a guard left pending, an early stream drop -/
def demo : List Ev :=
  [.src .pipe 0, .write 0 20, .read 0 0 0, .await 0, .open 0 0, .next 0, .next 0, .dstream 0, .drop 0]

example : (World.init .ring 3 8).isSome = true := by decide
example : ∀ e ∈ demo, Ev.safe e = true := by decide

/-- the demo program ends with buffer 1 in user hands and 0, 2, 3 provided again in that order -/
example : ((World.init .ring 3 8).map fun w => ((run w demo).handles, (run w demo).pool.window, (run w demo).pool.tail)) =
    some ([1], [3, 2, 0], 6) := by decide

example : ((World.init .fb 2 8).map fun w =>
    (step (run w [.src .pipe 0, .pop, .pop]) (.read 0 0 0)).2) = some (.err true "busy") := by decide

/-- completions that arrive after the future was dropped (`wcancel`: the kernel already filled a buffer,
    the driver reaps the completion when the user's key is gone) are ordinary events of `run`; three of
    them on a ring of two: every buffer is provided again, `tail` = 2 + 3 resets -/
example : ((World.init .ring 2 8).map fun w =>
    let w' := run w [.src .sock 0, .read 0 0 0, .wcancel 0 3, .read 0 0 0, .wcancel 0 9, .read 0 0 0, .wcancel 0 1]
    (w'.pool.window, w'.pool.tail, w'.pool.head, w'.handles, w'.opIds)) = some ([1, 0], 5, 3, [], []) := by decide

example : Ev.safe (.wcancel 0 1) = true ∧ Ev.safe (.wdstream 0 1) = true := by decide

example : ringIdx (65535 % 65536) 0 4 = 3 ∧ ringIdx (65536 % 65536) 0 4 = 0 := by decide

end Compio.Props.C07
