/-
C07 — managed buffer pool: exclusive ownership and conservation. Property theorems only.
-/
import Compio.Lemmas.Pool

namespace Compio.Props.C07
open Compio Compio.Pool

/-- `num_of_bufs.next_power_of_two()` is a power of two between `n` and `2^15` for every pool size the
    builder accepts without overflow -/
theorem nextPow2_spec (n : Nat) (h1 : 1 ≤ n) (h2 : n ≤ 32768) :
    ∃ j, j ≤ 15 ∧ nextPow2 n = 2 ^ j ∧ n ≤ nextPow2 n := by
  obtain ⟨j, hj, he, hle, _, _⟩ := npow2Go_spec 15 0 n (by simpa using h2)
  exact ⟨j, by omega, by simpa [nextPow2] using he, by simpa [nextPow2, he] using hle⟩

end Compio.Props.C07
