/-
C06 — descriptors are closed exactly once, never in use, never leaked.
Property theorems only (helper lemmas: Compio/Lemmas/SharedFd.lean; defect witnesses: Compio/Cex/C06.lean).
All statements quantify over every event list (= every interleaving of handle clones / drops, operation
starts / completions, `take()`/`close()` polls and future drops), for both builds (`sync = false/true`).
-/
import Compio.Lemmas.SharedFd
import Compio.Gen.SharedFdProto

namespace Compio.Props.C06
open Compio.SharedFd

/-! ## 1. Safety, both builds, every interleaving (split drops and interleaved polls included) -/

/-- The inner descriptor leaves the `Shared` (is closed in place, or handed to the one closer /
`try_unwrap` caller who then owns it) at most once. -/
theorem closed_at_most_once (b : Bool) (evs : List Ev) (s : St) (h : run (init b) evs = some s) :
    s.released ≤ 1 ∧ s.delivered ≤ s.released := by
  have hi := inv_run (inv_init b) h
  refine ⟨?_, hi.del⟩
  rcases hi.rel with h1 | h1 <;> omega

/-- It leaves only in a step taken at strong count 1, and after that step no actor owns a reference:
no other handle, no operation holding a clone, no other closer. -/
theorem release_only_when_unique (b : Bool) (evs : List Ev) (s s' : St) (e : Ev)
    (h : run (init b) evs = some s) (hs : step s e = some s') (hr : s'.released = s.released + 1) :
    s.count = 1 ∧ refs s.actors = 1 ∧ refs s'.actors = 0 ∧
      ∀ (i : Nat) (r : Role), s'.actors[i]? = some r → r.holds = false := by
  have hi := inv_run (inv_init b) h
  have hi' := inv_step hi hs
  have h1 : s.count = 1 := by
    rcases step_released hs with h2 | h2
    · omega
    · exact h2.2
  have h0 : refs s'.actors = 0 := by
    have := hi'.cnt
    rcases hi'.rel with h3 | h3
    · rcases hi.rel with h4 | h4 <;> omega
    · omega
  exact ⟨h1, by rw [← hi.cnt]; exact h1, h0, fun i r hir => refs_zero_not_holds _ h0 i r hir⟩

/-- While an operation (or any other actor) owns a clone, the descriptor is open: never closed in use. -/
theorem open_while_held (b : Bool) (evs : List Ev) (s : St) (h : run (init b) evs = some s)
    (i : Nat) (r : Role) (hir : s.actors[i]? = some r) (hh : r.holds = true) :
    s.released = 0 ∧ 1 ≤ s.count := by
  have hi := inv_run (inv_init b) h
  have := refs_pos _ i r hir hh
  have := hi.cnt
  rcases hi.rel with h1 | h1
  · exact h1
  · omega

/-- Not leaked: once nobody owns a reference any more, the descriptor has been released exactly once.
(A reference forgotten by dropping an unpolled `File::close` future is still owned — role `leaked` —
so that state never becomes quiescent: see `Cex.C06.close_unpolled_leak_counterexample`.) -/
theorem released_at_quiescence (b : Bool) (evs : List Ev) (s : St) (h : run (init b) evs = some s)
    (hq : s.quiescent) : s.released = 1 := by
  have hi := inv_run (inv_init b) h
  have := hi.cnt
  unfold St.quiescent at hq
  rcases hi.rel with h1 | h1 <;> omega

/-! ## 2. Liveness of `close().await` -/

/-- An explicit close is not early and not late: a poll of the waiting closer returns `Ready(Some fd)`
exactly when the strong count is 1 (every other handle and operation has let go). Both builds. -/
theorem poll_ready_iff_unique (b : Bool) (evs : List Ev) (s s' : St) (c : Nat)
    (_h : run (init b) evs = some s) (hc : s.parked c) (hp : step s (.poll c) = some s') :
    s'.actors[c]? = some (.closer .doneSome) ↔ s.count = 1 := by
  unfold St.parked at hc
  simp only [step, stepPoll, hc] at hp
  cases hp
  unfold pollBody
  by_cases h1 : s.count = 1
  · simp [clearWoken, h1]
    exact getElem?_set_self' _ _ _ _ hc
  · simp [clearWoken, h1]
    rw [getElem?_set_self' _ _ _ _ hc]
    simp

/-- Bounded progress, single-threaded build (whole drops, whole polls), every interleaving: when the
closer is parked and the last other holder (a handle, or an operation that completes) performs its
drop, the closer's task is woken by that very step, and its next poll returns `Ready(Some fd)`. -/
theorem last_drop_wakes_closer (b : Bool) (evs : List Ev) (s : St)
    (hev : ∀ e ∈ evs, e.unsync = true) (h : run (init b) evs = some s) (c x : Nat)
    (hc : s.parked c) (h2 : s.count = 2)
    (hx : s.actors[x]? = some (.handle .live) ∨ s.actors[x]? = some (.op .live)) :
    ∃ s1 s2, step s (.drop x) = some s1 ∧ c ∈ s1.woken ∧ s1.count = 1 ∧ s1.parked c ∧
      step s1 (.poll c) = some s2 ∧ s2.actors[c]? = some (.closer .doneSome) ∧
      s2.released = 1 ∧ s2.delivered = 1 := by
  obtain ⟨hi, hu⟩ := uinv_run (inv_init b) (uinv_init b) hev h
  have hw2 := hu.w2 c hc
  have hwaits := hu.w3 c hw2.1
  have hxc : x ≠ c := by
    intro hxc
    subst hxc
    unfold St.parked at hc
    rcases hx with hx | hx <;> simp [hx] at hc
  have hrel : s.released = 0 := by rcases hi.rel with h3 | h3 <;> omega
  have hdel : s.delivered = 0 := by have := hi.del; omega
  have hstep : step s (.drop x) = some (decRef (setRole (dropTest s) x .gone)) := by
    rcases hx with hx | hx <;> simp [step, stepDrop, hx]
  refine ⟨decRef (setRole (dropTest s) x .gone),
    pollBody (clearWoken (decRef (setRole (dropTest s) x .gone)) c) c, hstep, ?_, ?_, ?_, ?_⟩
  · -- woken
    simp
    unfold dropTest wake
    simp [h2, hwaits]
    rcases hw2.2 with h3 | h3
    · simp [h3]
    · split <;> simp [h3]
  · simp [decRef_count, h2]
  · unfold St.parked at hc ⊢
    simp
    rw [getElem?_set_ne' _ _ _ _ hxc]
    exact hc
  · have hpk : (decRef (setRole (dropTest s) x .gone)).actors[c]? = some (.closer .parked) := by
      simp
      rw [getElem?_set_ne' _ _ _ _ hxc]
      exact hc
    have hcnt : (decRef (setRole (dropTest s) x .gone)).count = 1 := by simp [decRef_count, h2]
    have hrel' : (decRef (setRole (dropTest s) x .gone)).released = 0 := by
      unfold decRef
      simp [h2, hrel]
    have hdel' : (decRef (setRole (dropTest s) x .gone)).delivered = 0 := by
      unfold decRef
      simp [h2, hdel]
    refine ⟨by simp only [step, stepPoll, hpk], ?_, ?_, ?_⟩
    · unfold pollBody
      simp only [clearWoken, hcnt, if_true]
      exact getElem?_set_self' _ _ _ _ hpk
    · unfold pollBody
      simp only [clearWoken, hcnt, if_true]
      simp [deliver, hrel']
    · unfold pollBody
      simp only [clearWoken, hcnt, if_true]
      simp [deliver, hdel']

/-- Single-threaded build, every interleaving: no reachable state has the closer parked as the sole
owner without a pending wake-up — unless a reference was released by one of the two paths that skip
`Drop for SharedFd` (`rawDecs`, see `rawDecs_only_by_raw_paths`; defect F8b). -/
theorem no_parked_forever_unsync (b : Bool) (evs : List Ev) (s : St)
    (hev : ∀ e ∈ evs, e.unsync = true) (h : run (init b) evs = some s) (c : Nat)
    (hc : s.parked c) (h1 : s.count = 1) (hraw : s.rawDecs = 0) : c ∈ s.woken := by
  obtain ⟨_, hu⟩ := uinv_run (inv_init b) (uinv_init b) hev h
  rcases hu.j c hc with h2 | h2 | h2
  · omega
  · exact h2
  · omega

/-- The same without the ghost: if `c` is the only `take()`/`close()` future that was ever created
(at most one explicit close per descriptor), it is never left parked as the sole owner without a wake-up. -/
theorem no_parked_forever_single_closer (b : Bool) (evs : List Ev) (s : St)
    (hev : ∀ e ∈ evs, e.unsync = true) (h : run (init b) evs = some s) (c : Nat)
    (hc : s.parked c) (h1 : s.count = 1)
    (honly : ∀ (i : Nat) (pc : CPc), s.actors[i]? = some (.closer pc) → i = c) : c ∈ s.woken := by
  have hk := kinv_run (kinv_init b) h
  have h0 : cntP Role.isRaw s.actors = 0 := by
    apply cntP_zero
    intro i r hir
    cases r with
    | closer pc =>
      have := honly i pc hir
      subst this
      unfold St.parked at hc
      rw [hc] at hir
      cases hir
      rfl
    | handle st => rfl
    | op st => rfl
    | gone => rfl
  exact no_parked_forever_unsync b evs s hev h c hc h1 (by rw [hk, h0])

/-- ... and such a woken closer completes at its next poll. -/
theorem sole_owner_poll_completes (b : Bool) (evs : List Ev) (s : St) (h : run (init b) evs = some s)
    (c : Nat) (hc : s.parked c) (h1 : s.count = 1) :
    ∃ s', step s (.poll c) = some s' ∧ s'.actors[c]? = some (.closer .doneSome) ∧ s'.released = 1 := by
  have hi := inv_run (inv_init b) h
  have hrel : s.released = 0 := by rcases hi.rel with h3 | h3 <;> omega
  unfold St.parked at hc
  refine ⟨pollBody (clearWoken s c) c, by simp only [step, stepPoll, hc], ?_, ?_⟩
  · unfold pollBody
    simp only [clearWoken, h1, if_true]
    exact getElem?_set_self' _ _ _ _ hc
  · unfold pollBody
    simp [clearWoken, h1, deliver, hrel]

/-- The ghost counter `rawDecs` moves only on the two paths of fd.rs that drop the raw `Shared`:
a first poll that finds `waits` already set (`else { None }`), and dropping a `take()` future that
still holds its reference. -/
theorem rawDecs_only_by_raw_paths (s s' : St) (e : Ev) (h : step s e = some s') :
    s'.rawDecs = s.rawDecs ∨
    (s'.rawDecs = s.rawDecs + 1 ∧
      ((∃ c, e = .poll c ∧ s.waits = true) ∨ (∃ c, e = .pNone c) ∨ (∃ c, e = .dropFut c))) := by
  cases e <;>
    simp only [step, stepClone, stepOpStart, stepDrop, stepDropCheck, stepDropDec, stepTryUnwrap, stepTake,
      stepClose, stepPoll, stepPSwap, stepMicro, stepDropFut, stepSetWaker] at h <;>
    (repeat' split at h) <;>
    (try cases h) <;>
    (try subst_vars) <;>
    (try simp only [firstPoll, pollBody, loseNone, swapWaits, tryUnwrap1, tryUnwrap2, register, beginPoll,
      clearWoken]) <;>
    (first
      | (left; simp; done)
      | (left; rfl)
      | (left; split <;> simp; done)
      | (right; simp; done)
      | (by_cases hw : s.waits = true <;> by_cases h1 : s.count = 1 <;> simp [hw, h1]; done)
      | trace_state)

/-! ## 2a. Waker identity: the task that is woken is the task that is waiting

The pending `take()`/`close()` future may change hands between polls (`setWaker c w`: handed to a
spawned task, polled through a `select`/`timeout` wrapper): every poll supplies its own waker. -/

/-- Both builds, every interleaving (split drops, interleaved polls): whenever the closer is parked and
the slot holds its waker, that waker is the one supplied by the poll that parked it — its latest poll.
(`register` on every poll that finds the descriptor shared; a stale waker from an earlier poll never
survives a later park.) -/
theorem slot_holds_latest_waker (b : Bool) (evs : List Ev) (s : St) (h : run (init b) evs = some s)
    (c : Nat) (hc : s.parked c) (hs : s.slot = some c) : s.slotW = wOf s.parkedW c :=
  (sinv_run (sinv_init b) h).s1 c hc hs

/-- the ghost `parkedW` is what its name says: a poll that parks records the waker that poll was given -/
theorem poll_parks_with_its_waker (s s' : St) (c : Nat) (h : step s (.poll c) = some s')
    (hp : s'.parked c) : wOf s'.parkedW c = wOf s.nextW c := by
  have key : ∀ t : St, t.nextW = s.nextW → (pollBody t c).parked c → wOf (pollBody t c).parkedW c = wOf s.nextW c := by
    intro t ht hpk
    unfold pollBody at hpk ⊢
    split
    · next h1 =>
      rw [if_pos h1] at hpk
      unfold St.parked at hpk
      simp at hpk
      by_cases hlt : c < t.actors.length
      · simp [hlt] at hpk
      · have : (t.actors.set c (Role.closer .doneSome))[c]? = none := by simp; omega
        simp [this] at hpk
    · simp [wOf_cons_self, ht]
  simp only [step, stepPoll] at h
  split at h
  · cases h
    unfold firstPoll at hp ⊢
    split
    · next hw =>
      rw [if_pos hw] at hp
      unfold St.parked loseNone at hp
      simp at hp
      by_cases hlt : c < s.actors.length
      · simp [hlt] at hp
      · have : (s.actors.set c (Role.closer .doneNone))[c]? = none := by simp; omega
        simp [this] at hp
    · next hw => rw [if_neg hw] at hp; exact key _ rfl hp
  · cases h
    unfold firstPoll at hp ⊢
    split
    · next hw =>
      rw [if_pos hw] at hp
      unfold St.parked loseNone at hp
      simp at hp
      by_cases hlt : c < s.actors.length
      · simp [hlt] at hp
      · have : (s.actors.set c (Role.closer .doneNone))[c]? = none := by simp; omega
        simp [this] at hp
    · next hw => rw [if_neg hw] at hp; exact key _ rfl hp
  · cases h; exact key _ rfl hp
  · cases h

/-- Single-threaded build: a pending wake-up of a parked closer was delivered to the waker of its latest poll. -/
theorem pending_wake_is_for_latest_waker (b : Bool) (evs : List Ev) (s : St)
    (hev : ∀ e ∈ evs, e.unsync = true) (h : run (init b) evs = some s) (c : Nat)
    (hc : s.parked c) (hw : c ∈ s.woken) : (c, wOf s.parkedW c) ∈ s.wokenW :=
  (allinv_run (inv_init b) (uinv_init b) (sinv_init b) (vinv_init b) hev h).2.2.2.v2 c hc hw

/-- Single-threaded build, bounded progress with identity: when the last other holder drops, the waker
that has a wake-up pending afterwards is the one the closer's LATEST poll supplied — the task currently
awaiting `close()` is the one woken, also when the future changed hands between polls. -/
theorem last_drop_wakes_latest_waker (b : Bool) (evs : List Ev) (s : St)
    (hev : ∀ e ∈ evs, e.unsync = true) (h : run (init b) evs = some s) (c x : Nat)
    (hc : s.parked c) (h2 : s.count = 2)
    (hx : s.actors[x]? = some (.handle .live) ∨ s.actors[x]? = some (.op .live)) :
    ∃ s1, step s (.drop x) = some s1 ∧ s1.parked c ∧ (c, wOf s1.parkedW c) ∈ s1.wokenW := by
  obtain ⟨hi, hu, hs, hv⟩ := allinv_run (inv_init b) (uinv_init b) (sinv_init b) (vinv_init b) hev h
  have hw2 := hu.w2 c hc
  have hwaits := hu.w3 c hw2.1
  have hxc : x ≠ c := by
    intro hxc
    subst hxc
    unfold St.parked at hc
    rcases hx with hx | hx <;> simp [hx] at hc
  have hstep : step s (.drop x) = some (decRef (setRole (dropTest s) x .gone)) := by
    rcases hx with hx | hx <;> simp [step, stepDrop, hx]
  refine ⟨_, hstep, ?_, ?_⟩
  · unfold St.parked at hc ⊢
    simp
    rw [getElem?_set_ne' _ _ _ _ hxc]
    exact hc
  · simp only [decRef_wokenW, setRole_wokenW, decRef_parkedW, setRole_parkedW, dropTest_parkedW]
    unfold dropTest wake
    simp only [h2, hwaits, and_self, if_true]
    cases hsl : s.slot with
    | none =>
      simp only
      rcases hw2.2 with h3 | h3
      · rw [hsl] at h3; cases h3
      · exact hv.v2 c hc h3
    | some c0 =>
      simp only [List.mem_cons]
      have : c0 = c := by
        have := hu.w1 c0 hsl
        rw [hw2.1] at this
        simpa using this.symm
      subst this
      left
      rw [hs.s1 c0 hc hsl]

/-- non-vacuity: the future changes hands twice; the last drop wakes waker 2, the latest one -/
example : ∃ s, run (init false)
    [.clone 0, .take 0, .setWaker 0 1, .poll 0, .setWaker 0 2, .poll 0, .drop 1] = some s ∧
    s.parked 0 ∧ s.count = 1 ∧ s.wakeLog = [(0, 2)] ∧ wOf s.parkedW 0 = 2 := by
  refine ⟨_, rfl, ?_⟩
  unfold St.parked
  decide

/-! ## 2b. The one-step events are schedules of the split ones

so every interleaving of the single-threaded build is also an interleaving of the `sync` build: the
safety theorems of section 1 cover both, and the defect witnesses of `Cex.C06` for the `sync` build
differ from the proved-live executions only by where the other thread's two halves of `Drop` fall. -/

/-- the one-step `drop` is the schedule `dropCheck; dropDec` of the split drop -/
theorem drop_eq_split (s : St) (x : Nat) (hs : s.sync = true) :
    step s (.drop x) = run s [.dropCheck x, .dropDec x] := by
  simp only [run, step, stepDrop, stepDropCheck, hs, if_true]
  cases hx : s.actors[x]? with
  | none => simp
  | some r =>
    have hlt : x < s.actors.length := by
      by_cases h : x < s.actors.length
      · exact h
      · have : s.actors[x]? = none := by simp; omega
        simp [this] at hx
    cases r with
    | gone => simp
    | closer pc => simp
    | handle st =>
      cases st with
      | checked => simp
      | live =>
        have h1 : (s.actors.set x (Role.handle .checked))[x]? = some (.handle .checked) := by
          simp [hlt]
        simp [stepDropDec, hs, h1, setRole_setRole]
    | op st =>
      cases st with
      | checked => simp
      | live =>
        have h1 : (s.actors.set x (Role.op .checked))[x]? = some (.op .checked) := by
          simp [hlt]
        simp [stepDropDec, hs, h1, setRole_setRole]

/-- a whole re-poll of a parked closer is the schedule of its micro steps -/
theorem poll_parked_eq_micro (s : St) (c : Nat) (hs : s.sync = true) (hc : s.parked c) :
    step s (.poll c) =
      run s (if s.count = 1 then [.pBegin c, .pTry1 c] else [.pBegin c, .pTry1 c, .pReg c, .pTry2 c]) := by
  unfold St.parked at hc
  have h1 : (s.actors.set c (Role.closer .try1))[c]? = some (.closer .try1) := get_set_self _ _ _ _ hc
  have h2 : (s.actors.set c (Role.closer .reg))[c]? = some (.closer .reg) := get_set_self _ _ _ _ hc
  have h3 : (s.actors.set c (Role.closer .try2))[c]? = some (.closer .try2) := get_set_self _ _ _ _ hc
  by_cases hcnt : s.count = 1
  · simp [run, step, stepPoll, stepMicro, hs, hc, hcnt, beginPoll, clearWoken, pollBody, tryUnwrap1, h1,
      setRole, List.set_set, deliver]
  · simp [run, step, stepPoll, stepMicro, hs, hc, hcnt, beginPoll, clearWoken, pollBody, tryUnwrap1, tryUnwrap2,
      register, h1, h2, h3, setRole, List.set_set]

/-- a whole first poll is the schedule of its micro steps -/
theorem poll_first_eq_micro (s : St) (c : Nat) (hs : s.sync = true)
    (hc : s.actors[c]? = some (.closer .created) ∨ s.actors[c]? = some (.closer .wrapped)) :
    step s (.poll c) =
      run s (if s.waits = true then [.pSwap c, .pNone c]
        else if s.count = 1 then [.pSwap c, .pTry1 c] else [.pSwap c, .pTry1 c, .pReg c, .pTry2 c]) := by
  have hx : ∃ r0, s.actors[c]? = some r0 := by rcases hc with h | h <;> exact ⟨_, h⟩
  obtain ⟨r0, hr0⟩ := hx
  have h0 : (s.actors.set c (Role.closer .losing))[c]? = some (.closer .losing) := get_set_self _ _ _ _ hr0
  have h1 : (s.actors.set c (Role.closer .try1))[c]? = some (.closer .try1) := get_set_self _ _ _ _ hr0
  have h2 : (s.actors.set c (Role.closer .reg))[c]? = some (.closer .reg) := get_set_self _ _ _ _ hr0
  have h3 : (s.actors.set c (Role.closer .try2))[c]? = some (.closer .try2) := get_set_self _ _ _ _ hr0
  by_cases hw : s.waits = true
  · rcases hc with hc | hc <;>
      simp [run, step, stepPoll, stepPSwap, stepMicro, hs, hc, hw, firstPoll, swapWaits, loseNone, h0, setRole,
        List.set_set]
  · by_cases hcnt : s.count = 1
    · rcases hc with hc | hc <;>
        simp [run, step, stepPoll, stepPSwap, stepMicro, hs, hc, hw, hcnt, firstPoll, swapWaits, pollBody,
          tryUnwrap1, h1, setRole, List.set_set, deliver]
    · rcases hc with hc | hc <;>
        simp [run, step, stepPoll, stepPSwap, stepMicro, hs, hc, hw, hcnt, firstPoll, swapWaits, pollBody,
          tryUnwrap1, tryUnwrap2, register, h1, h2, h3, setRole, List.set_set]

/-! ## 3. Descriptors produced by operations (accept / open / socket / pipe / multishot accept) -/

section Produced
open Compio.Produced

/-- Every descriptor the kernel created for the operation is, at every moment and for every
interleaving of polls / completions / multishot deliveries / drops of the future, in exactly one place:
taken by the caller, closed, or still owned by the op struct. No descriptor is in two places, none is
closed twice, none taken twice. Guard `hk`: the io_uring driver does not take its blocking fallback for
this operation (the kernel supports the opcode) — see `Cex.C06.iour_blocking_fallback_counterexample`. -/
theorem produced_exactly_one_owner (evs : List Produced.Ev) (s : Produced.St)
    (hk : ∀ e ∈ evs, e ≠ .completeFallback) (h : Produced.run Produced.init evs = some s) :
    (s.taken ++ s.closed ++ s.held).Nodup ∧
      ∀ n, n < s.next ↔ (n ∈ s.taken ∨ n ∈ s.closed ∨ n ∈ s.held) := by
  have hp := (pinv_run pinv_init hk h).perm
  unfold Produced.St.P Produced.St.all at hp
  refine ⟨hp.nodup_iff.mpr List.nodup_range, fun n => ?_⟩
  rw [← List.mem_range, ← hp.mem_iff]
  simp [or_assoc]

/-- Once the operation is finished for everybody (the driver has let go of it and the future has
returned `Ready` or has been dropped — cancelled before, around or after the completion), every
produced descriptor has been taken XOR closed: delivered or closed, never leaked, never both. -/
theorem produced_taken_xor_closed (evs : List Produced.Ev) (s : Produced.St)
    (hk : ∀ e ∈ evs, e ≠ .completeFallback) (h : Produced.run Produced.init evs = some s)
    (hf : s.finished) (n : Nat) (hn : n < s.next) :
    (n ∈ s.taken ∧ n ∉ s.closed) ∨ (n ∈ s.closed ∧ n ∉ s.taken) := by
  have hi := pinv_run pinv_init hk h
  have hheld : s.held = [] := by
    rcases hf.2 with h1 | h1
    · exact (hi.d h1).1
    · exact hi.e h1 hf.1
  obtain ⟨hnd, hmem⟩ := produced_exactly_one_owner evs s hk h
  rw [hheld, List.append_nil] at hnd
  have hdis := (List.nodup_append.mp hnd).2.2
  have := (hmem n).mp hn
  rw [hheld] at this
  rcases this with h1 | h1 | h1
  · exact Or.inl ⟨h1, fun h2 => hdis n h1 n h2 rfl⟩
  · exact Or.inr ⟨h1, fun h2 => hdis n h2 n h1 rfl⟩
  · simp at h1

/-- Multishot accept ending with a TERMINAL SUCCESSFUL completion (`complete true` after any number of
`shot`s: the polling driver and kernels < 5.19 for every accept, io_uring when the completion queue
overflows): `set_result` has adopted the last descriptor into the finished op, which owns it until the
stream takes the op back (`poll` = `try_take().into_inner()`). At that hand-over everything the op held
moves to the caller and nothing stays behind in the op — exactly one of {op, stream} owns each
descriptor before and after, so dropping the finished op later closes nothing the caller holds. -/
theorem terminal_success_handover (evs : List Produced.Ev) (s s' : Produced.St)
    (hk : ∀ e ∈ evs, e ≠ .completeFallback) (h : Produced.run Produced.init evs = some s)
    (hf : s.fut = .submitted) (hr : s.result = some true) (hp : Produced.step s .poll = some s') :
    s'.held = [] ∧ s'.taken = s.taken ++ s.held ∧ s'.closed = s.closed ∧
      (s'.taken ++ s'.closed ++ s'.held).Nodup := by
  have hs' : Produced.run Produced.init (evs ++ [.poll]) = some s' := by
    have : ∀ (s0 : Produced.St) (l : List Produced.Ev), Produced.run s0 l = some s →
        Produced.run s0 (l ++ [.poll]) = some s' := by
      intro s0 l
      induction l generalizing s0 with
      | nil => intro h0; simp [Produced.run] at h0; subst h0; simp [Produced.run, hp]
      | cons e es ih =>
        intro h0
        simp only [Produced.run, List.cons_append] at h0 ⊢
        split at h0
        · next s1 h1 => exact ih s1 h0
        · cases h0
    exact this _ _ h
  have hnd := (produced_exactly_one_owner (evs ++ [.poll]) s'
    (by intro e he; simp at he; rcases he with he | he; exact hk e he; subst he; simp) hs').1
  simp only [Produced.step, hf, hr] at hp
  cases hp
  exact ⟨rfl, rfl, rfl, hnd⟩

/-- polling-driver `incoming()`: three accepts, each a terminal success, stream re-armed in between,
dropped while the fourth accept is in flight -/
example : ∃ s, Produced.run Produced.init
    [.poll, .complete true, .poll, .rearm, .pollImm true, .rearm, .poll, .complete true, .poll, .rearm, .poll,
     .dropFut, .complete false] = some s ∧
    s.finished ∧ s.taken = [0, 1, 2] ∧ s.closed = [] := by
  refine ⟨_, rfl, ?_⟩
  unfold Produced.St.finished
  decide

/-- io_uring, completion queue overflow: two multishot deliveries, then the terminal success -/
example : ∃ s, Produced.run Produced.init
    [.poll, .shot, .shot, .complete true, .popShot, .popShot, .poll, .rearm, .poll] = some s ∧
    s.taken = [0, 1, 2] ∧ s.held = [] ∧ s.closed = [] := ⟨_, rfl, by decide⟩

example : ∃ s, Produced.run Produced.init [.poll, .dropFut, .complete true] = some s ∧
    s.finished ∧ s.closed = [0] ∧ s.taken = [] := by
  refine ⟨_, rfl, ?_⟩
  unfold Produced.St.finished
  decide

example : ∃ s, Produced.run Produced.init [.poll, .shot, .shot, .popShot, .dropFut, .shot, .complete false] = some s ∧
    s.finished ∧ s.taken = [0] ∧ s.closed = [1, 2] := by
  refine ⟨_, rfl, ?_⟩
  unfold Produced.St.finished
  decide

end Produced

/-! non-vacuity -/

example : ∃ s, run (init false) [.clone 0, .opStart 0, .take 0, .poll 0, .drop 1, .drop 2, .poll 0] = some s ∧
    s.released = 1 ∧ s.delivered = 1 ∧ s.wakes = 1 ∧ s.quiescent := by
  refine ⟨_, rfl, ?_⟩
  unfold St.quiescent
  decide

example : ∃ s, run (init true) [.clone 0, .take 0, .pSwap 0, .pTry1 0, .dropCheck 1, .pReg 0, .dropDec 1, .pTry2 0] = some s ∧
    s.released = 1 ∧ s.delivered = 1 := ⟨_, rfl, by decide⟩

/-! ## 4. An operation holding k shared descriptors (polling driver `Splice`: k = 2) -/

section MultiWait
open Compio.MultiWait

/-- Cancelling an op that waits on k ≥ 1 descriptors removes it from ALL k interest queues, emits exactly
one cancelled entry, leaves every other op's interests alone, and — once the future is gone and the entry
is reaped — no key clone is left: the op is dropped and all k descriptor references are released. -/
theorem cancel_releases_all (s0 : MultiWait.St) (key : Nat) (fds : List Nat) (hk : fds ≠ [])
    (hfresh : keyRefs s0 key = 0) :
    let s1 := cancel (dropFuture (push s0 key fds) key) key fds
    (∀ fd, (fd, key) ∉ s1.reg) ∧ s1.completed.count key = 1 ∧
      s1.reg = s0.reg ∧ keyRefs (reap s1 key) key = 0 := by
  have h0 : (s0.reg.filter (·.2 == key)) = [] ∧ s0.completed.count key = 0 ∧ s0.futures.count key = 0 := by
    unfold keyRefs at hfresh
    have : (s0.reg.filter (·.2 == key)).length = 0 := by omega
    exact ⟨List.length_eq_zero_iff.mp this, by omega, by omega⟩
  obtain ⟨hr, hc, hf⟩ := h0
  have hnone : ∀ e ∈ s0.reg, mine key fds e = false := by
    intro e he
    have := (List.filter_eq_nil_iff.mp hr) e he
    simp at this
    simp [mine, this]
  have hkeep : s0.reg.filter (fun e => !mine key fds e) = s0.reg := by
    rw [List.filter_eq_self]
    intro e he
    simp [hnone e he]
  have hany : (s0.reg ++ fds.map (·, key)).any (mine key fds) = true := by
    cases fds with
    | nil => exact absurd rfl hk
    | cons a t =>
      simp only [List.any_append, Bool.or_eq_true]
      right
      simp [mine]
  have hreg : (cancel (dropFuture (push s0 key fds) key) key fds).reg = s0.reg := by
    simp [cancel, dropFuture, push, List.filter_append, hkeep, filter_map_key]
  have hcnotin : key ∉ s0.completed := List.count_eq_zero.mp hc
  have hfnotin : key ∉ s0.futures := List.count_eq_zero.mp hf
  refine ⟨?_, ?_, hreg, ?_⟩
  · intro fd hmem
    rw [hreg] at hmem
    have := (List.filter_eq_nil_iff.mp hr) (fd, key) hmem
    simp at this
  · simp [cancel, dropFuture, push, hany, hc]
  · unfold keyRefs
    simp only [reap]
    rw [hreg, hr]
    simp [cancel, dropFuture, push, hany, hc, hf]


example : keyRefs (reap (cancel (dropFuture (push MultiWait.init 7 [3, 4]) 7) 7 [3, 4]) 7) 7 = 0 := by decide

end MultiWait

/-! ## 5. Tie to the source: constructs regenerated from fd.rs / file.rs / socket/mod.rs (`Gen/SharedFdProto.lean`)

The extractor target `SharedFdProto` reads `impl Drop for SharedFd`, `SharedFd::take` (swap, the statements of the
`poll_fn` closure in source order), `new_unchecked`, `File::close`, `Socket::close`. The theorems below say that the
functions the driver executes (`dropTest`, `swapWaits`, `stepPoll`/`pollBody`, `stepClose`, `init`) ARE those
constructs, for every state — a source change to the constant, the condition, the swap polarity or the order /
presence of `register` between the two `try_unwrap`s breaks one of them even if no generated case samples it. -/

section Generated
open Compio.Gen.SharedFdProto

/-- the model function of one statement of the `poll_fn` closure, with the program counter it runs at -/
def fnOfStep : PollStep → Option (CPc × (St → Nat → St))
  | .takeSlot => none
  | .tryUnwrapReturn => some (.try1, tryUnwrap1)
  | .register => some (.reg, register)
  | .tryUnwrapOrPark => some (.try2, tryUnwrap2)

/-- run the statements of the closure in the order given; `return Poll::Ready(..)` ends the poll; a statement
reached at a program counter it is not written for is stuck (`none`) -/
def interpPoll (c : Nat) : St → List PollStep → Option St
  | s, [] => some s
  | s, st :: rest =>
    match fnOfStep st with
    | none => interpPoll c s rest
    | some (pc, f) =>
      match s.actors[c]? with
      | some (.closer .doneSome) => some s
      | some (.closer pc') => if pc' = pc then interpPoll c (f s c) rest else none
      | _ => none

/-- `new_unchecked` initialises `waits` as the model's `init` does -/
theorem gen_init_waits (b : Bool) : (init b).waits = initWaits := rfl

/-- the wake test of `Drop for SharedFd` in the model is the generated condition, for every state -/
theorem gen_dropTest (s : St) : dropTest s = if dropWakes s.count s.waits = true then wake s else s := by
  unfold dropTest dropWakes
  by_cases h1 : s.count = 2 <;> by_cases h2 : s.waits = true <;> simp [h1, h2]

/-- hence for every history: a whole `drop` of a live handle / op wakes exactly when the generated condition holds in
the state it is taken in, and then decrements -/
theorem gen_drop_step (b : Bool) (evs : List Ev) (s s' : St) (x : Nat) (_h : run (init b) evs = some s)
    (hd : step s (.drop x) = some s') :
    s' = decRef (setRole (if dropWakes s.count s.waits = true then wake s else s) x .gone) := by
  simp only [step, stepDrop] at hd
  rw [← gen_dropTest]
  split at hd <;> simp_all

/-- `waits.swap(v)` and the branch taken on its result, from the generated constants -/
theorem gen_swapWaits (s : St) (c : Nat) :
    swapWaits s c =
      if s.waits = takeWinsWhenSwapReturned
      then setRole { s with waits := takeSwapStores, winner := some c } c (.closer .try1)
      else setRole { s with waits := takeSwapStores } c (.closer .losing) := by
  unfold swapWaits takeWinsWhenSwapReturned takeSwapStores
  cases s with
  | mk sync actors count waits slot woken wakes released delivered winner rawDecs slotW nextW parkedW wokenW wakeLog =>
    cases waits <;> simp [setRole]

/-- a re-poll of a parked closer (the event the driver executes, any build) is the generated statement list run
from the top of the closure -/
theorem gen_poll_parked (s : St) (c : Nat) (hc : s.parked c) :
    step s (.poll c) = interpPoll c (beginPoll s c) takePoll := by
  unfold St.parked at hc
  have h1 : (s.actors.set c (Role.closer .try1))[c]? = some (.closer .try1) := get_set_self _ _ _ _ hc
  have h2 : (s.actors.set c (Role.closer .reg))[c]? = some (.closer .reg) := get_set_self _ _ _ _ hc
  have h3 : (s.actors.set c (Role.closer .try2))[c]? = some (.closer .try2) := get_set_self _ _ _ _ hc
  have h4 : (s.actors.set c (Role.closer .doneSome))[c]? = some (.closer .doneSome) := get_set_self _ _ _ _ hc
  have h5 : (s.actors.set c (Role.closer .parked))[c]? = some (.closer .parked) := get_set_self _ _ _ _ hc
  by_cases hcnt : s.count = 1
  · simp [step, stepPoll, hc, takePoll, interpPoll, fnOfStep, beginPoll, clearWoken, pollBody, tryUnwrap1, hcnt, h1, h4,
      setRole, List.set_set, deliver]
  · simp [step, stepPoll, hc, takePoll, interpPoll, fnOfStep, beginPoll, clearWoken, pollBody, tryUnwrap1, tryUnwrap2,
      register, hcnt, h1, h2, h3, h5, setRole, List.set_set]

/-- a first poll (of a `take()` or a `close()` future) is the generated swap, then `None` for the loser or the
generated statement list for the winner -/
theorem gen_poll_first (s : St) (c : Nat)
    (hc : s.actors[c]? = some (.closer .created) ∨ s.actors[c]? = some (.closer .wrapped)) :
    step s (.poll c) =
      if s.waits = takeWinsWhenSwapReturned then interpPoll c (swapWaits s c) takePoll
      else some (loseNone (swapWaits s c) c) := by
  have hx : ∃ r0, s.actors[c]? = some r0 := by rcases hc with h | h <;> exact ⟨_, h⟩
  obtain ⟨r0, hr0⟩ := hx
  have h1 : (s.actors.set c (Role.closer .try1))[c]? = some (.closer .try1) := get_set_self _ _ _ _ hr0
  have h2 : (s.actors.set c (Role.closer .reg))[c]? = some (.closer .reg) := get_set_self _ _ _ _ hr0
  have h3 : (s.actors.set c (Role.closer .try2))[c]? = some (.closer .try2) := get_set_self _ _ _ _ hr0
  have h4 : (s.actors.set c (Role.closer .doneSome))[c]? = some (.closer .doneSome) := get_set_self _ _ _ _ hr0
  have h5 : (s.actors.set c (Role.closer .parked))[c]? = some (.closer .parked) := get_set_self _ _ _ _ hr0
  unfold takeWinsWhenSwapReturned
  by_cases hw : s.waits = true
  · rcases hc with hc | hc <;>
      simp [step, stepPoll, hc, hw, firstPoll, swapWaits, loseNone, setRole, List.set_set]
  · have hw' : s.waits = false := by simpa using hw
    by_cases hcnt : s.count = 1
    · rcases hc with hc | hc <;>
        simp [step, stepPoll, hc, hw', hcnt, firstPoll, swapWaits, pollBody, takePoll, interpPoll, fnOfStep,
          tryUnwrap1, h1, h4, setRole, List.set_set, deliver]
    · rcases hc with hc | hc <;>
        simp [step, stepPoll, hc, hw', hcnt, firstPoll, swapWaits, pollBody, takePoll, interpPoll, fnOfStep,
          tryUnwrap1, tryUnwrap2, register, h1, h2, h3, h5, setRole, List.set_set]

/-- program counter a `close(self)` future starts at, by the way the handle is captured -/
def pcOfCapture : Capture → CPc
  | .manuallyDrop => .wrapped

/-- `File::close` / `Socket::close` as generated: the handle becomes a closer whose future, dropped before its first
poll, forgets the reference (count, released unchanged; nobody is woken) — the shape behind finding F8c -/
theorem gen_close_capture (s s' s'' : St) (h : Nat) (h1 : step s (.close h) = some s')
    (h2 : step s' (.dropFut h) = some s'') :
    s'.actors[h]? = some (.closer (pcOfCapture fileClose)) ∧
    s'.actors[h]? = some (.closer (pcOfCapture socketClose)) ∧
    s''.actors[h]? = some (.closer .leaked) ∧ s''.count = s.count ∧ s''.released = s.released ∧
    s''.wakes = s.wakes := by
  simp only [step, stepClose] at h1
  cases hx : s.actors[h]? with
  | none => simp [hx] at h1
  | some r =>
    have e1 : (s.actors.set h (Role.closer .wrapped))[h]? = some (.closer .wrapped) := get_set_self _ _ _ _ hx
    have e2 : (s.actors.set h (Role.closer .leaked))[h]? = some (.closer .leaked) := get_set_self _ _ _ _ hx
    rw [hx] at h1
    split at h1 <;> try (simp at h1)
    subst h1
    simp only [step, stepDropFut, setRole, e1] at h2
    simp at h2
    subst h2
    simp [fileClose, socketClose, pcOfCapture, setRole, e1, e2, List.set_set]

/-! non-vacuity: the generated list really runs (parks at count 2, completes at count 1) -/
example : ∃ s, run (init false) [.clone 0, .take 0, .poll 0, .drop 1] = some s ∧ s.parked 0 ∧
    step s (.poll 0) = interpPoll 0 (beginPoll s 0) takePoll ∧
    (∃ s', interpPoll 0 (beginPoll s 0) takePoll = some s' ∧ s'.delivered = 1) := by
  refine ⟨_, rfl, rfl, rfl, _, rfl, rfl⟩

example : ∃ s s', run (init true) [.clone 0, .close 0] = some s ∧ step s (.poll 0) = some s' ∧
    interpPoll 0 (swapWaits s 0) takePoll = some s' ∧ s'.parked 0 ∧ s'.slot = some 0 := by
  refine ⟨_, _, rfl, rfl, rfl, rfl, rfl⟩

example : dropWakes 2 true = true ∧ dropWakes 3 true = false ∧ dropWakes 2 false = false := by decide

end Generated

/-- `compio-process` `child_wait` (linux.rs): `fd.clone()` goes into a `PollOnce`, the op is awaited to completion, then
`fd.take().await.expect("cannot retrieve the child back")`. In every state in which the handle is the only owner and no
closer has waited before, `take` followed by its FIRST poll hands the descriptor out (never `None`, never `Pending`). -/
theorem sole_handle_take_completes_first_poll (s : St) (h : Nat) (hh : s.actors[h]? = some (.handle .live))
    (hc : s.count = 1) (hw : s.waits = false) :
    ∃ s', run s [.take h, .poll h] = some s' ∧ s'.actors[h]? = some (.closer .doneSome) ∧
      s'.delivered = s.delivered + 1 ∧ s'.released = s.released + 1 ∧ s'.count = 0 ∧ s'.rawDecs = s.rawDecs := by
  have e1 : (s.actors.set h (Role.closer .created))[h]? = some (.closer .created) := get_set_self _ _ _ _ hh
  have e2 : (s.actors.set h (Role.closer .doneSome))[h]? = some (.closer .doneSome) := get_set_self _ _ _ _ hh
  refine ⟨deliver (setRole { (setRole s h (.closer .created)) with waits := true, winner := some h } h
    (.closer .doneSome)), ?_, ?_⟩
  · simp [run, step, stepTake, hh, setRole, stepPoll, e1, firstPoll, hw, pollBody, hc]
  · simp [deliver, setRole, e2, List.set_set]

/-- the whole `child_wait` program on a fresh descriptor -/
example : ∃ s, run (init false) [.opStart 0, .drop 1, .take 0, .poll 0] = some s ∧
    s.actors[0]? = some (.closer .doneSome) ∧ s.delivered = 1 ∧ s.released = 1 := ⟨_, rfl, rfl, rfl, rfl⟩

end Compio.Props.C06
