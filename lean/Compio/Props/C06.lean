/-
C06 — descriptors are closed exactly once, never in use, never leaked.
Property theorems only (helper lemmas: Compio/Lemmas/SharedFd.lean; defect witnesses: Compio/Cex/C06.lean).
All statements quantify over every event list (= every interleaving of handle clones / drops, operation
starts / completions, `take()`/`close()` polls and future drops), for both builds (`sync = false/true`).
-/
import Compio.Lemmas.SharedFd

namespace Compio.Props.C06
open Compio.SharedFd

/-! ## 1. Safety, both builds, every interleaving (split drops and interleaved polls included) -/

/-- The inner descriptor leaves the `Shared` (is closed in place, or handed to the one closer /
`try_unwrap` caller who then owns it) at most once. -/
theorem closed_at_most_once (b : Bool) (evs : List Ev) (s : St) (h : run (init b) evs = some s) :
    s.released ≤ 1 ∧ s.delivered ≤ s.released := by
  have hi := inv_run (inv_init b) h
  refine ⟨?_, hi.del⟩
  rcases hi.rel with h1 | h1 <;> omega

/-- It leaves only in a step taken at strong count 1, and after that step no actor owns a reference:
no other handle, no operation holding a clone, no other closer. -/
theorem release_only_when_unique (b : Bool) (evs : List Ev) (s s' : St) (e : Ev)
    (h : run (init b) evs = some s) (hs : step s e = some s') (hr : s'.released = s.released + 1) :
    s.count = 1 ∧ refs s.actors = 1 ∧ refs s'.actors = 0 ∧
      ∀ (i : Nat) (r : Role), s'.actors[i]? = some r → r.holds = false := by
  have hi := inv_run (inv_init b) h
  have hi' := inv_step hi hs
  have h1 : s.count = 1 := by
    rcases step_released hs with h2 | h2
    · omega
    · exact h2.2
  have h0 : refs s'.actors = 0 := by
    have := hi'.cnt
    rcases hi'.rel with h3 | h3
    · rcases hi.rel with h4 | h4 <;> omega
    · omega
  exact ⟨h1, by rw [← hi.cnt]; exact h1, h0, fun i r hir => refs_zero_not_holds _ h0 i r hir⟩

/-- While an operation (or any other actor) owns a clone, the descriptor is open: never closed in use. -/
theorem open_while_held (b : Bool) (evs : List Ev) (s : St) (h : run (init b) evs = some s)
    (i : Nat) (r : Role) (hir : s.actors[i]? = some r) (hh : r.holds = true) :
    s.released = 0 ∧ 1 ≤ s.count := by
  have hi := inv_run (inv_init b) h
  have := refs_pos _ i r hir hh
  have := hi.cnt
  rcases hi.rel with h1 | h1
  · exact h1
  · omega

/-- Not leaked: once nobody owns a reference any more, the descriptor has been released exactly once.
(A reference forgotten by dropping an unpolled `File::close` future is still owned — role `leaked` —
so that state never becomes quiescent: see `Cex.C06.close_unpolled_leak_counterexample`.) -/
theorem released_at_quiescence (b : Bool) (evs : List Ev) (s : St) (h : run (init b) evs = some s)
    (hq : s.quiescent) : s.released = 1 := by
  have hi := inv_run (inv_init b) h
  have := hi.cnt
  unfold St.quiescent at hq
  rcases hi.rel with h1 | h1 <;> omega

/-! non-vacuity -/

example : ∃ s, run (init false) [.clone 0, .opStart 0, .take 0, .poll 0, .drop 1, .drop 2, .poll 0] = some s ∧
    s.released = 1 ∧ s.delivered = 1 ∧ s.wakes = 1 ∧ s.quiescent := by
  refine ⟨_, rfl, ?_⟩
  unfold St.quiescent
  decide

example : ∃ s, run (init true) [.clone 0, .take 0, .pSwap 0, .pTry1 0, .dropCheck 1, .pReg 0, .dropDec 1, .pTry2 0] = some s ∧
    s.released = 1 ∧ s.delivered = 1 := ⟨_, rfl, by decide⟩

end Compio.Props.C06
