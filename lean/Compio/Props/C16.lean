/-
C16 — QUIC streams and datagrams: ordered, exactly-once, never stranded  (PARTIAL: quinn-proto is the protocol).

What is proved here is compio-quic's OWN logic, over the tables regenerated from the sources
(`Compio.Gen.QuicWakers`) and the executable model `Compio.Model.QuicWakers` which the driver `c16d` runs:

 * decision tables (closed by computation, break when the source changes): every table a future registers in is
   drained by `terminate`; `terminate` stores the error first; every registering function checks the stored error
   before it registers; every `quinn_proto::Event` wakes every table whose waiters it can unblock;
 * state machine, for ALL states / ALL operation sequences: after `terminate` every table is empty, each waker is
   woken exactly as often as it was registered, a re-poll returns the stored error; hence closing completes every
   pending future with an error; a future that returned `Pending` stays registered until its task is woken
   (no waiter is lost) under the one-task-per-slot discipline; the next matching event wakes it;
 * chunk loops, for ALL chunk sizes and ALL flow-control answer schedules: the bytes handed to / taken from the
   stream are the caller's bytes in order, exactly once; end-of-stream is reported exactly after `finish`, and
   stays.

NOT proved (assumption A-E2, tied by the loopback harness only): that quinn-proto delivers stream bytes in order
exactly once under loss/flow control and emits the events of `unblocks`.
The one-task-per-slot discipline is violated by `Connection::accepted_0rtt` (F160); `Connection::closed` can cancel
the worker (F161) or panic (F162): see `Compio.Cex.C16`; the theorems below carry the guards explicitly
(`allAdmissible`, `worker = .running`).
-/
import Compio.Lemmas.QuicWakers
import Compio.Lemmas.QuicLoops
import Compio.Lemmas.QuicEndpoint

namespace Compio.Props.C16
open Compio Compio.QuicWakers Compio.Gen.QuicWakers

/-! ## 1. decision tables over the regenerated definitions -/

/-- every table in which some future stores its waker is drained (woken) by `ConnectionState::terminate` -/
theorem every_registration_table_is_drained_by_terminate :
    ∀ r : Reg, registersIn r ∈ terminateDrains := by
  intro r; cases r <;> decide

/-- … in fact `terminate` drains every waker field of `ConnectionState` -/
theorem terminate_drains_every_table : ∀ t : Tbl, t ∈ terminateDrains := by
  intro t; cases t <;> decide

/-- `terminate` stores the error before it wakes anybody, so a woken task that polls again sees it -/
theorem terminate_stores_the_error_first :
    terminateSetsErrorFirst = true ∧ terminateBody.head? = some .setError := by decide

/-- every function that can register a waker looks at the stored connection error first -/
theorem every_registration_checks_the_stored_error : ∀ r : Reg, regChecksError r = true :=
  all_sites_check_error

/-- close = terminate(LocallyClosed), also when it comes from `Endpoint::close` through the worker -/
theorem close_is_terminate : closeIsTerminateLocallyClosed = true ∧ tryStateReturnsStoredError = true := by decide

/-- every proto event wakes every table whose waiters it can unblock (`unblocks` is the hand-written reading of
    quinn-proto's event documentation; the event → action map is regenerated) -/
theorem every_event_wakes_the_tables_it_can_unblock : ∀ (ev : Ev) (r : Reg), unblocks ev r = true →
    (Gen.QuicWakers.onEvent ev).any (actionWakes r) = true :=
  event_table_complete

/-- `Stopped` wakes both the `stopped()` waiter and the blocked writer of that stream;
    `Finished` wakes the `stopped()` waiter -/
theorem stopped_wakes_stopped_and_writable :
    Action.wake .stopped .key ∈ Gen.QuicWakers.onEvent .stopped ∧
    Action.wake .writable .key ∈ Gen.QuicWakers.onEvent .stopped ∧
    Action.wake .stopped .key ∈ Gen.QuicWakers.onEvent .finished := by decide

/-- the public futures named in the property statement and the table their waker goes to -/
theorem public_futures_register_where_expected :
    [("Connection::open_uni_wait", Reg.connectionPollOpenStream),
     ("Connection::open_bi_wait", Reg.connectionPollOpenStream),
     ("Connection::accept_uni", Reg.connectionPollAcceptStream),
     ("Connection::accept_bi", Reg.connectionPollAcceptStream),
     ("Connection::recv_datagram", Reg.connectionPollRecvDatagram),
     ("Connection::send_datagram_wait", Reg.connectionTrySendDatagram),
     ("Connection::accepted_0rtt", Reg.connectionAccepted0rtt),
     ("RecvStream::read", Reg.recvStreamExecutePollRead),
     ("RecvStream::read_chunk", Reg.recvStreamExecutePollRead),
     ("RecvStream::read_chunks", Reg.recvStreamExecutePollRead),
     ("RecvStream::read_to_end", Reg.recvStreamExecutePollRead),
     ("RecvStream::received_reset", Reg.recvStreamReceivedReset),
     ("SendStream::write", Reg.sendStreamExecutePollWrite),
     ("SendStream::write_chunks", Reg.sendStreamExecutePollWrite),
     ("SendStream::write_all_chunks", Reg.sendStreamExecutePollWrite),
     ("SendStream::stopped", Reg.sendStreamStopped),
     ("Connecting::poll", Reg.connectingPoll),
     ("Connecting::handshake_data", Reg.connectingHandshakeData)].all (fun p => apiOf.contains p) = true ∧
    registersIn .connectionPollOpenStream = .streamAvailable ∧
    registersIn .connectionPollAcceptStream = .streamOpened ∧
    registersIn .connectionPollRecvDatagram = .datagramReceived ∧
    registersIn .connectionTrySendDatagram = .datagramsUnblocked ∧
    registersIn .recvStreamExecutePollRead = .readable ∧
    registersIn .recvStreamReceivedReset = .readable ∧
    registersIn .sendStreamExecutePollWrite = .writable ∧
    registersIn .sendStreamStopped = .stopped ∧
    registersIn .connectingPoll = .onConnected ∧
    registersIn .connectionAccepted0rtt = .onConnected ∧
    registersIn .connectingHandshakeData = .onHandshakeData := by decide

/-- the `Drop` implementations only remove the dropped stream's OWN entries -/
theorem drop_cleans_only_stream_tables : ∀ p ∈ dropCleans, kind p.2 = .map := by decide

/-- A STREAM HALF'S `Drop` ONLY REMOVES ENTRIES OF TABLES THAT HALF REGISTERS IN: for every `(type, table)` the
    `Drop` implementations clean, some method of that type registers in the table — and no method of any other type
    does. (`stopped` and `writable` belong to `SendStream`, `readable` to `RecvStream`; the two halves of a
    bidirectional stream share one `StreamId`, so a `RecvStream::drop` touching `stopped` would discard the waker of
    a task parked in `send.stopped()`.) -/
theorem drop_only_cleans_tables_of_the_dropped_half :
    dropCleans.all (fun p => Reg.all.any (fun r => Reg.owner r == p.1 && registersIn r == p.2)) = true ∧
    dropCleans.all (fun p => Reg.all.all (fun r => registersIn r != p.2 || Reg.owner r == p.1)) = true := by
  decide

/-- … hence, in every state, dropping one half keeps every waker registered through the other half (or through the
    connection) registered -/
theorem dropping_a_half_keeps_the_other_halfs_waiters (s : St) (send : Bool) (id : Nat) (r : Reg) (e : Entry)
    (he : e ∈ s.tabs (registersIn r)) (ho : Reg.owner r ≠ (if send then "SendStream" else "RecvStream")) :
    e ∈ (s.dropStream (if send then "SendStream" else "RecvStream") id).tabs (registersIn r) :=
  dropStream_keeps_other_half s _ id r e he ho

/-- non-vacuity: a task parked in `stopped()` on bi stream 4, the `RecvStream` half of stream 4 dropped by another
    task (admissible!), then close: the parked task is woken -/
example :
    let ops := [Op.poll .sendStreamStopped 4 1, .poll .recvStreamExecutePollRead 4 2, .cancel .recvStreamExecutePollRead 4 2,
                .dropStream false 4]
    allAdmissible World.init ops = true ∧ ((World.init.run ops).step .close).1.st.woken = [1] := by decide

/-! ## 2. `terminate`: for every state -/

/-- after `terminate(e)`: every table is empty, the error is stored, every waker was woken exactly as many times
    as it was registered (`tabCount`) — no more, no less —, and any poll of any future returns `Err(e)` without
    registering again -/
theorem after_terminate (s : St) (e : Err) :
    (∀ t, (s.terminate e).tabs t = []) ∧
    (s.terminate e).error = some e ∧
    (∀ w, (s.terminate e).woken.count w = s.woken.count w + tabCount s w) ∧
    (∀ r k w, (s.terminate e).pollBlocked r k w = (s.terminate e, .err e)) :=
  ⟨terminate_tabs s e, terminate_error s e, terminate_count s e,
   fun r k w => pollBlocked_of_error (terminate_error s e) r k w⟩

/-- a waker registered in some table is woken by `terminate` -/
theorem terminate_wakes_every_registered_waker (s : St) (e : Err) (t : Tbl) (x : Entry) (hx : x ∈ s.tabs t) :
    x.2 ∈ newlyWoken s (s.terminate e) := terminate_wakes hx

example : (((St.init.register .recvStreamExecutePollRead 4 7).register .connectionPollRecvDatagram 0 8).terminate
    .locallyClosed).woken = [8, 7] := by decide

/-! ## 3. the world of futures: for every admissible operation sequence -/

/-- NO WAITER IS LOST: in every world reached by operations that respect the one-task-per-slot discipline, every
    future that returned `Pending` and whose task has not been woken since is still registered in its table —
    so it is woken by the next matching event (`next_matching_event_wakes_the_waiter`) or by `terminate`
    (`close_completes_every_pending_future`). -/
theorem no_waiter_is_ever_lost (ops : List Op) (h : allAdmissible World.init ops = true) :
    ∀ x ∈ (World.init.run ops).owed, x.entry ∈ (World.init.run ops).st.tabs x.tbl :=
  inv_run ops World.init inv_init h

/-- an obligation disappears only because the future was dropped or because its task was woken: never silently -/
theorem obligations_end_by_wake_or_cancel (W : World) (op : Op) (x : Waiter) (hx : x ∈ W.owed)
    (hgone : x ∉ (W.step op).1.owed) :
    op = .cancel x.r x.key x.w ∨ x.w ∈ newlyWoken W.st (W.step op).1.st :=
  owed_shrinks W op x hx hgone

/-- the next event that can unblock a registered waiter wakes its task (worker alive) -/
theorem next_matching_event_wakes_the_waiter (W : World) (hi : Inv W) (hrun : W.worker = .running)
    (x : Waiter) (hx : x ∈ W.owed) (ev : Ev) (key : Nat) (zr : Bool) (e : Err)
    (hu : unblocks ev x.r = true) (hk : regKey x.r ≠ .none → x.entry.1 = key) :
    x.w ∈ newlyWoken W.st (W.step (.event ev key zr e)).1.st ∧ x ∉ (W.step (.event ev key zr e)).1.owed :=
  event_wakes_waiter W hi hrun x hx ev key zr e hu hk

/-- CLOSING COMPLETES EVERY PENDING FUTURE WITH AN ERROR: after `Connection::close` in any world satisfying the
    invariant, nobody is owed a wake-up any more, every task that was owed one has been woken, every table is
    empty, and whatever future is polled (again) returns `Err(LocallyClosed)`. -/
theorem close_completes_every_pending_future (W : World) (hi : Inv W) :
    let W' := (W.step .close).1
    W'.owed = [] ∧ (∀ x ∈ W.owed, x.w ∈ newlyWoken W.st W'.st) ∧ (∀ t, W'.st.tabs t = []) ∧
      ∀ r k w, (W'.step (.poll r k w)).2 = .err .locallyClosed :=
  close_completes W hi

/-- … from the initial world through any admissible history -/
theorem close_completes_every_pending_future_reachable (ops : List Op)
    (h : allAdmissible World.init ops = true) :
    let W := World.init.run ops
    let W' := (W.step .close).1
    W'.owed = [] ∧ (∀ x ∈ W.owed, x.w ∈ newlyWoken W.st W'.st) ∧
      ∀ r k w, (W'.step (.poll r k w)).2 = .err .locallyClosed := by
  have := close_completes (World.init.run ops) (inv_run ops World.init inv_init h)
  exact ⟨this.1, this.2.1, this.2.2.2⟩

/-- the same when the close comes from the peer / a timeout (`ConnectionLost { reason }`) or from
    `Endpoint::close`, provided the worker is alive (guard violated by F161) -/
theorem connection_lost_completes_every_pending_future (W : World) (hi : Inv W) (hrun : W.worker = .running)
    (e : Err) (key : Nat) (zr : Bool) :
    let W' := (W.step (.event .connectionLost key zr e)).1
    W'.owed = [] ∧ (∀ x ∈ W.owed, x.w ∈ newlyWoken W.st W'.st) ∧
      ∀ r k w, (W'.step (.poll r k w)).2 = .err e :=
  lost_completes W hi hrun e key zr

theorem endpoint_close_completes_every_pending_future (W : World) (hi : Inv W) (hrun : W.worker = .running) :
    let W' := (W.step .endpointClose).1
    W'.owed = [] ∧ (∀ x ∈ W.owed, x.w ∈ newlyWoken W.st W'.st) ∧
      ∀ r k w, (W'.step (.poll r k w)).2 = .err .locallyClosed :=
  endpoint_close_completes W hi hrun

/-- non-vacuity: three tasks blocked in a read, a datagram receive and an open; an unrelated event; then close -/
example :
    let ops := [Op.poll .recvStreamExecutePollRead 4 1, .poll .connectionPollRecvDatagram 0 2,
                .poll .connectionPollOpenStream 1 3, .event .writable 4 false .reset]
    allAdmissible World.init ops = true ∧ (World.init.run ops).owed.length = 3 ∧
      ((World.init.run ops).step .close).1.st.woken = [2, 3, 1] := by decide

/-! ## 4. chunk loops: in order, exactly once, for all chunk sizes and all flow-control schedules -/

/-- `write_all` (`CompatSendStream::write_all`, and the `AsyncWriteExt::write_all` loop over `SendStream::write`):
    whatever quinn-proto answers, the bytes handed over so far are exactly the next `c' - count` bytes of the buffer,
    and when the future completes with `Ok` they are the whole rest of the buffer -/
theorem write_all_in_order (buf : Bytes) (count : Nat) (sched : List WAns) (hc : count ≤ buf.length) :
    let (r, acc, c') := writeAll buf count sched
    acc = (buf.drop count).take (c' - count) ∧ count ≤ c' ∧ c' ≤ buf.length ∧
      (r = .ready () → acc = buf.drop count) :=
  writeAll_spec buf sched count hc

/-- a schedule with enough non-zero limits lets `write_all` finish: every accepted answer makes progress -/
theorem write_all_completes (buf : Bytes) (n : Nat) (hn : 0 < n) :
    (writeAll buf 0 (List.replicate (buf.length + 1) (.limit n))).1 = .ready () :=
  writeAll_completes buf n hn

/-- `write_all_chunks`: the accepted bytes plus what is left in the chunk array are the caller's chunks, and `Ok`
    means everything was accepted — for every chunking and every answer schedule -/
theorem write_all_chunks_in_order (bufs : List Bytes) (sched : List WAns) :
    let (r, acc, rest) := writeAllChunks bufs 0 sched
    acc ++ rest.flatten = bufs.flatten ∧ (r = .ready () → acc = bufs.flatten) :=
  writeAllChunks_spec0 bufs sched

/-- the reader: for every interleaving of deliveries, `finish` and polls with arbitrary buffer sizes, what the
    polls returned (in order) followed by what is still buffered is exactly what was delivered: nothing lost,
    nothing duplicated, nothing reordered; a poll never returns 0 bytes before end-of-stream -/
theorem reads_are_in_order_exactly_once (steps : List RStep) :
    let r := Reader.init.run steps
    r.got ++ r.src.segs.flatten = deliveredBefore steps ∧ r.errs = 0 :=
  reader_conserves steps

/-- end-of-stream is reported only after `finish`, only when every delivered byte has been returned — and then
    for ever (`all_data_read`) -/
theorem eos_exactly_after_finish (steps : List RStep) (h : 0 < (Reader.init.run steps).eos) :
    RStep.finish ∈ steps ∧ (Reader.init.run steps).got = deliveredBefore steps ∧
      ∀ cap, 0 < cap → ((Reader.init.run steps).step (.read cap)).eos = (Reader.init.run steps).eos + 1 ∧
        ((Reader.init.run steps).step (.read cap)).got = (Reader.init.run steps).got :=
  reader_eos steps h

/-- … and it IS reported by the first poll after everything delivered was returned and `finish` arrived -/
theorem eos_is_reported (steps : List RStep) (cap : Nat) (hcap : 0 < cap)
    (hfin : (Reader.init.run steps).src.fin = true) (hempty : (Reader.init.run steps).src.segs = []) :
    ((Reader.init.run steps).step (.read cap)).eos = (Reader.init.run steps).eos + 1 :=
  reader_reports_eos steps cap hcap hfin hempty

/-- `read_to_end` reads the rest of the stream UNORDERED and reassembles it from `(offset, bytes)` chunks placed
    relative to the LOWEST offset seen: for every chunking `parts` of the remainder of the stream from the current
    read position `off` (bytes `0..off` were returned by earlier `read` / `read_chunk` / `read_chunks` calls) and
    every arrival order `chunks` of those pieces, the result is exactly the contiguous remainder — not longer, not
    shifted, nothing but the peer's bytes. -/
theorem read_to_end_assembles_the_remainder_in_any_arrival_order (parts : List Bytes) (off : Nat)
    (chunks : List (Nat × Bytes)) (hperm : chunks.Perm (withOffsets off parts))
    (hoff : off + parts.flatten.length < 2 ^ 64 - 1) :
    assemble chunks = parts.flatten :=
  assemble_any_order parts off chunks hperm hoff

example : assemble [(7, [4, 5]), (9, [6]), (5, [2, 3])] = [2, 3, 4, 5, 6] := by decide

example :
    let r := Reader.init.run [.deliver [1, 2, 3], .read 2, .deliver [4], .read 8, .read 8, .finish, .read 8, .read 1]
    r.got = [1, 2, 3, 4] ∧ r.eos = 2 ∧ r.pendings = 1 := by decide

example : (writeAllChunks [[1, 2], [], [3, 4, 5]] 0 [.limit 1, .blocked, .limit 3, .limit 9]) =
    (.ready (), [1, 2, 3, 4, 5], [[], [], []]) := by
  simp [writeAllChunks, popChunks]

/-! ## 5. the endpoint level (`wait_incoming`, `Endpoint::close`), over `Compio.Gen.QuicEndpoint` -/

section Endpoint
open Compio.QuicEndpoint Compio.Gen.QuicEndpoint

/-- every table a `wait_incoming()` future registers in is drained by `Endpoint::close` ITSELF — not by the worker
    loop, which only iterates when a datagram or an endpoint event arrives (an endpoint without live connection
    gets neither) -/
theorem every_endpoint_registration_table_is_drained_by_close :
    ∀ r : EReg, eRegistersIn r ∈ closeDrains := by
  intro r; cases r <;> decide

theorem endpoint_close_drains_every_table : ∀ t : ETbl, t ∈ closeDrains := all_etables_drained_by_close

/-- the registration site answers `None` without registering once the endpoint is closed, and a new connection
    attempt is only queued while it is open -/
theorem endpoint_registration_checks_closed :
    (∀ r : EReg, eRegChecksClosed r = true) ∧ newConnectionQueuedOnlyWhenOpen = true ∧
      ("Endpoint::wait_incoming", EReg.endpointStatePollIncoming) ∈ eApiOf := by
  refine ⟨fun r => by cases r <;> rfl, by decide, by decide⟩

/-- `Endpoint::close` on an open endpoint, in ANY state (no connection, drained connections, live connections —
    the model has no access to them): every parked `wait_incoming()` task is woken, every table is empty, and a
    (re-)poll yields `None` -/
theorem endpoint_close_releases_every_waiter (e : Ep) (h : e.closed = false) :
    (∀ t, e.close.tabs t = []) ∧ (∀ w t, w ∈ e.tabs t → w ∈ e.close.woken) ∧
      ∀ w, e.close.pollIncoming .endpointStatePollIncoming w = (e.close, .none) :=
  ⟨(close_open e h).1, (close_open e h).2.2.2.1, fun w => poll_after_close _ (close_sets_closed e) w⟩

/-- for every history: once the endpoint is closed nobody is parked in `incoming_wakers`, whether or not the worker
    loop ever runs again -/
theorem closed_endpoint_has_no_parked_waiter (ops : List EOp) (h : (Ep.init.run ops).closed = true) :
    ∀ t, (Ep.init.run ops).tabs t = [] :=
  (einv_run ops Ep.init einv_init h).1

/-- `EndpointState::new_connection` — the one place where `connect` AND `Incoming::accept` register a connection —
    hands a connection created after `Endpoint::close` was requested the `ConnectionEvent::Close` the others got:
    it is born closed -/
theorem connection_created_on_closed_endpoint_is_born_closed :
    newConnectionBornClosedWhenClosed = true := by decide

/-- for every history (in particular `wait_incoming → close → accept`): on a closed endpoint EVERY registered
    connection has been told to close — those alive at `close()` by `close()`, later ones at birth -/
theorem closed_endpoint_has_told_every_connection (ops : List EOp) (h : (Ep.init.run ops).closed = true) :
    (Ep.init.run ops).untold = 0 :=
  (einv_run ops Ep.init einv_init h).2

example : (Ep.init.run [.datagram true, .poll 1, .close, .newConn]).told = 1 ∧
    (Ep.init.run [.newConn, .newConn, .close, .newConn]).told = 3 := by decide

example : (Ep.init.run [.poll 1, .poll 2, .datagram true, .poll 3, .close]).woken = [1, 2] ∧
    (Ep.init.run [.poll 1, .poll 2, .datagram true]).tabs .incomingWakers = [2] := by decide

end Endpoint

end Compio.Props.C16
