/-
C13, write side: theorems about the `Sink` state machine of `Framed` (Model/Sink.lean).

* `stream_integrity`  — for every script of sink calls (any order, any delays) the bytes the writer has
  seen so far plus the frame in flight are exactly the frames accepted by `start_send`, in order:
  nothing merged, split, reordered or dropped on the way into the writer.
* `flush_ready_delivers` / `close_ready_delivers` — whenever `poll_flush` / `poll_close` answer
  `Ready`, every accepted frame has been *delivered* by the writer (its `flush` / `shutdown` ran after
  the last byte was written). This is F130: false of the code as found, see Cex/C13.lean.
* `flush_terminates` / `close_terminates` — polling again and again reaches `Ready` within a bound
  that only depends on the delays.
-/
import Compio.Model.Sink
namespace Compio.Sink
def Inv (s : S) : Prop := s.sent = s.io.delivered ++ s.io.buffered ++ inflight s.st
def Delivered (s : S) : Prop := s.io.delivered = s.sent ∧ s.io.buffered = []

theorem inv_init : Inv ({} : S) := by simp [Inv, inflight]

theorem pollSink_inv (s : S) (d0 : Nat) (h : Inv s) : Inv (pollSink s d0).1 := by
  unfold pollSink
  split <;> (try split) <;> (try split) <;> simp_all [Inv, inflight, Io.write, Io.flush, Io.shutdown]

theorem pollSink_ready_idle (s : S) (d0 : Nat) (h : (pollSink s d0).2 = .ready) :
    (pollSink s d0).1.st = .idle := by
  unfold pollSink at *
  split at h <;> (try split at h) <;> (try split at h) <;> simp_all

theorem pollSink_no_panic (s : S) (d0 : Nat) : (pollSink s d0).2 ≠ .panic := by
  unfold pollSink
  split <;> (try split) <;> (try split) <;> simp_all

theorem inv_restate (s : S) (st' : St) (h : Inv s) (h1 : inflight s.st = []) (h2 : inflight st' = []) :
    Inv { s with st := st' } := by simp_all [Inv]

theorem thenStart_inv (s : S) (d0 : Nat) (st' : St) (h : Inv s) (h2 : inflight st' = []) :
    Inv (thenStart s d0 st').1 := by
  unfold thenStart
  have h1 := pollSink_inv s d0 h
  have hi := pollSink_ready_idle s d0
  rcases hp : pollSink s d0 with ⟨s', r⟩
  rw [hp] at h1 hi
  cases r with
  | ready =>
    have hi' : s'.st = .idle := hi rfl
    exact pollSink_inv _ d0 (inv_restate s' st' h1 (by simp [hi', inflight]) h2)
  | pending => simpa using h1
  | panic => simpa using h1
  | err => simpa using h1

theorem step_inv (s : S) (c : Call) (h : Inv s) : Inv (step s c).1 := by
  cases c with
  | ready d =>
    simp only [step, pollReady]
    split
    · exact h
    · exact pollSink_inv s d h
  | send f =>
    simp only [step, startSend]
    split <;> simp_all [Inv, inflight]
  | sendFail =>
    simp only [step, startSendFail]
    split <;> simp_all [Inv, inflight]
  | flush d =>
    simp only [step, pollFlush]
    split
    · exact h
    · exact pollSink_inv s d h
    · exact thenStart_inv s d _ h rfl
    · exact pollSink_inv _ d (inv_restate s _ h (by simp_all [inflight]) rfl)
    · exact pollSink_inv _ d (inv_restate s _ h (by simp_all [inflight]) rfl)
  | close d =>
    simp only [step, pollClose]
    split
    · exact pollSink_inv s d h
    · exact thenStart_inv s d _ h rfl
    · exact thenStart_inv s d _ h rfl
    · exact pollSink_inv _ d (inv_restate s _ h (by simp_all [inflight]) rfl)
    · exact pollSink_inv _ d (inv_restate s _ h (by simp_all [inflight]) rfl)

theorem run_inv (s : S) (cs : List Call) (h : Inv s) : Inv (run step s cs).1 := by
  induction cs generalizing s with
  | nil => simpa [run]
  | cons c cs ih =>
    simp only [run]
    have h1 := step_inv s c h
    rcases hp : step s c with ⟨s', r⟩
    rw [hp] at h1
    have := ih s' h1
    cases r <;> simp_all

theorem stream_integrity (cs : List Call) :
    let s := (run step {} cs).1
    s.io.delivered ++ s.io.buffered ++ inflight s.st = s.sent :=
  (run_inv {} cs inv_init).symm

/-- a flush future that has just completed leaves nothing behind -/
theorem flush_future_delivers (s : S) (d0 : Nat) (d : Delay) (h : Inv s) (hi : inflight s.st = [])
    (hr : (pollSink { s with st := .flushing d } d0).2 = .ready) :
    Delivered (pollSink { s with st := .flushing d } d0).1 := by
  unfold pollSink at *
  simp only at hr ⊢
  split at hr <;> simp_all [Inv, Delivered, Io.flush]

theorem close_future_delivers (s : S) (d0 : Nat) (d : Delay) (h : Inv s) (hi : inflight s.st = [])
    (hr : (pollSink { s with st := .closing d } d0).2 = .ready) :
    Delivered (pollSink { s with st := .closing d } d0).1 ∧
      (pollSink { s with st := .closing d } d0).1.io.shutdowns = s.io.shutdowns + 1 := by
  unfold pollSink at *
  simp only at hr ⊢
  split at hr <;> simp_all [Inv, Delivered, Io.shutdown]

theorem self_st (s : S) (st : St) (h : s.st = st) : { s with st := st } = s := by cases s; simp_all

/-- when `thenStart … (.flushing none)` is `Ready`, everything is delivered -/
theorem thenStart_flush_delivers (s : S) (d0 : Nat) (h : Inv s)
    (hr : (thenStart s d0 (.flushing none)).2 = .ready) :
    Delivered (thenStart s d0 (.flushing none)).1 := by
  unfold thenStart at *
  have h1 := pollSink_inv s d0 h
  have hi := pollSink_ready_idle s d0
  rcases hp : pollSink s d0 with ⟨s', r⟩
  rw [hp] at h1 hi
  cases r with
  | ready =>
    have hi' : s'.st = .idle := hi rfl
    simp only [hp] at hr ⊢
    exact flush_future_delivers s' d0 none h1 (by simp [hi', inflight]) hr
  | pending => simp [hp] at hr
  | panic => simp [hp] at hr
  | err => simp [hp] at hr

theorem pollSink_shutdowns (s : S) (d0 : Nat) (h : ∀ d, s.st ≠ .closing d) :
    (pollSink s d0).1.io.shutdowns = s.io.shutdowns := by
  unfold pollSink
  split <;> (try split) <;> (try split) <;> simp_all [Io.write, Io.flush]

theorem thenStart_close_delivers (s : S) (d0 : Nat) (h : Inv s) (hc : ∀ d, s.st ≠ .closing d)
    (hr : (thenStart s d0 (.closing none)).2 = .ready) :
    Delivered (thenStart s d0 (.closing none)).1 ∧
      (thenStart s d0 (.closing none)).1.io.shutdowns = s.io.shutdowns + 1 := by
  unfold thenStart at *
  have h1 := pollSink_inv s d0 h
  have hi := pollSink_ready_idle s d0
  have hs := pollSink_shutdowns s d0 hc
  rcases hp : pollSink s d0 with ⟨s', r⟩
  rw [hp] at h1 hi hs
  cases r with
  | ready =>
    have hi' : s'.st = .idle := hi rfl
    simp only [hp] at hr ⊢
    have := close_future_delivers s' d0 none h1 (by simp [hi', inflight]) hr
    simp only at hs
    rw [hs] at this
    exact this
  | pending => simp [hp] at hr
  | panic => simp [hp] at hr
  | err => simp [hp] at hr

theorem flush_ready_delivers (s : S) (d0 : Nat) (h : Inv s)
    (hr : (pollFlush s d0).2 = .ready) : Delivered (pollFlush s d0).1 := by
  unfold pollFlush at *
  split at hr
  · simp at hr
  · rename_i d hs
    have := flush_future_delivers s d0 d h (by simp [hs, inflight])
    rw [self_st s _ hs] at this
    exact this hr
  · exact thenStart_flush_delivers s d0 h hr
  · exact flush_future_delivers s d0 none h (by simp_all [inflight]) hr
  · exact flush_future_delivers s d0 none h (by simp_all [inflight]) hr

theorem close_ready_delivers (s : S) (d0 : Nat) (h : Inv s)
    (hr : (pollClose s d0).2 = .ready) :
    Delivered (pollClose s d0).1 ∧ (pollClose s d0).1.io.shutdowns = s.io.shutdowns + 1 := by
  unfold pollClose at *
  split at hr
  · rename_i d hs
    have := close_future_delivers s d0 d h (by simp [hs, inflight])
    rw [self_st s _ hs] at this
    exact this hr
  · exact thenStart_close_delivers s d0 h (by simp_all) hr
  · exact thenStart_close_delivers s d0 h (by simp_all) hr
  · exact close_future_delivers s d0 none h (by simp_all [inflight]) hr
  · exact close_future_delivers s d0 none h (by simp_all [inflight]) hr

theorem flush_ready_delivers_reachable (cs : List Call) (d0 : Nat)
    (hr : (pollFlush (run step {} cs).1 d0).2 = .ready) :
    Delivered (pollFlush (run step {} cs).1 d0).1 :=
  flush_ready_delivers _ d0 (run_inv {} cs inv_init) hr

theorem close_ready_delivers_reachable (cs : List Call) (d0 : Nat)
    (hr : (pollClose (run step {} cs).1 d0).2 = .ready) :
    Delivered (pollClose (run step {} cs).1 d0).1 :=
  (close_ready_delivers _ d0 (run_inv {} cs inv_init) hr).1

/-- polls that may still answer `Pending` before the inner future `st` completes, for a caller offering `d0` -/
def futBudget (st : St) (d0 : Nat) : Nat :=
  match st with
  | .writing data d => if data = [] then 0 else d.getD d0
  | .flushing d => d.getD d0
  | .closing d => d.getD d0
  | _ => 0

def flushBudget (s : S) (d0 : Nat) : Nat :=
  match s.st with
  | .writing _ _ => futBudget s.st d0 + d0 + 1
  | .flushing _ => futBudget s.st d0
  | _ => d0

def closeBudget (s : S) (d0 : Nat) : Nat :=
  match s.st with
  | .writing _ _ | .flushing _ => futBudget s.st d0 + d0 + 1
  | .closing _ => futBudget s.st d0
  | _ => d0

theorem pollDelay_some (d : Delay) (d0 n : Nat) (h : pollDelay d d0 = some n) : d.getD d0 = n + 1 := by
  unfold pollDelay at h; split at h <;> simp_all

theorem pollSink_pending (s : S) (d0 : Nat) (hr : (pollSink s d0).2 = .pending) :
    futBudget (pollSink s d0).1.st d0 < futBudget s.st d0 ∧
    ((∃ a b, s.st = .writing a b) → ∃ a b, (pollSink s d0).1.st = .writing a b) ∧
    ((∃ b, s.st = .flushing b) → ∃ b, (pollSink s d0).1.st = .flushing b) ∧
    ((∃ b, s.st = .closing b) → ∃ b, (pollSink s d0).1.st = .closing b) := by
  unfold pollSink at *
  split at hr <;> (try split at hr) <;> (try split at hr) <;> simp_all [futBudget]
  all_goals (rename_i heq; have := pollDelay_some _ _ _ heq; omega)

theorem pollSink_fresh_pending (s : S) (d0 : Nat) (st' : St)
    (hst : st' = .flushing none ∨ st' = .closing none)
    (hr : (pollSink { s with st := st' } d0).2 = .pending) :
    futBudget (pollSink { s with st := st' } d0).1.st d0 < d0 ∧
    (pollSink { s with st := st' } d0).1.st ≠ .idle ∧
    (st' = .flushing none → ∃ b, (pollSink { s with st := st' } d0).1.st = .flushing b) ∧
    (st' = .closing none → ∃ b, (pollSink { s with st := st' } d0).1.st = .closing b) := by
  unfold pollSink at *
  rcases hst with rfl | rfl <;> (simp only at hr ⊢; split at hr <;> simp_all [futBudget])
  all_goals (rename_i heq; have := pollDelay_some _ _ _ heq; simp at this; omega)

theorem thenStart_pending (s : S) (d0 : Nat) (st' : St)
    (hst : st' = .flushing none ∨ st' = .closing none)
    (hr : (thenStart s d0 st').2 = .pending) :
    (futBudget (thenStart s d0 st').1.st d0 < futBudget s.st d0 ∧
      (thenStart s d0 st').1 = (pollSink s d0).1 ∧ (pollSink s d0).2 = .pending) ∨
    (futBudget (thenStart s d0 st').1.st d0 < d0 ∧
      (st' = .flushing none → ∃ b, (thenStart s d0 st').1.st = .flushing b) ∧
      (st' = .closing none → ∃ b, (thenStart s d0 st').1.st = .closing b)) := by
  unfold thenStart at *
  have hp1 := pollSink_pending s d0
  rcases hp : pollSink s d0 with ⟨s', r⟩
  rw [hp] at hp1
  cases r with
  | ready =>
    right
    simp only [hp] at hr ⊢
    have := pollSink_fresh_pending s' d0 st' hst hr
    exact ⟨this.1, this.2.2.1, this.2.2.2⟩
  | pending =>
    left
    simp only [hp] at hr ⊢
    exact ⟨(hp1 rfl).1, trivial, trivial⟩
  | panic => simp [hp] at hr
  | err => simp [hp] at hr

/-- **`poll_flush` terminates**: a `Pending` answer strictly decreases the budget, so a caller that
    keeps polling (offering `d0` each time) gets `Ready` after at most `flushBudget s d0` `Pending`s. -/
theorem flush_pending_decreases (s : S) (d0 : Nat) (hr : (pollFlush s d0).2 = .pending) :
    flushBudget (pollFlush s d0).1 d0 < flushBudget s d0 := by
  unfold pollFlush at *
  split at hr
  · simp at hr
  · rename_i d hs
    have := pollSink_pending s d0 hr
    obtain ⟨b, hb⟩ := this.2.2.1 ⟨d, hs⟩
    have h1 := this.1
    simp only [flushBudget, hs, hb] at h1 ⊢
    exact h1
  · rename_i a d hs
    rcases thenStart_pending s d0 _ (Or.inl rfl) hr with ⟨h1, h2, h3⟩ | ⟨h1, h2, _⟩
    · obtain ⟨a', b', hb⟩ := (pollSink_pending s d0 h3).2.1 ⟨a, d, hs⟩
      rw [h2] at h1 ⊢
      simp only [flushBudget, hs, hb] at h1 ⊢
      omega
    · obtain ⟨b, hb⟩ := h2 rfl
      simp only [flushBudget, hs, hb] at h1 ⊢
      omega
  · rename_i hs
    have := pollSink_fresh_pending s d0 _ (Or.inl rfl) hr
    obtain ⟨b, hb⟩ := this.2.2.1 rfl
    have h1 := this.1
    simp only [flushBudget, hs, hb] at h1 ⊢
    exact h1
  · rename_i hs
    have := pollSink_fresh_pending s d0 _ (Or.inl rfl) hr
    obtain ⟨b, hb⟩ := this.2.2.1 rfl
    have h1 := this.1
    simp only [flushBudget, hs, hb] at h1 ⊢
    exact h1

/-- **`poll_close` terminates** (same argument) -/
theorem close_pending_decreases (s : S) (d0 : Nat) (hr : (pollClose s d0).2 = .pending) :
    closeBudget (pollClose s d0).1 d0 < closeBudget s d0 := by
  unfold pollClose at *
  split at hr
  · rename_i d hs
    have := pollSink_pending s d0 hr
    obtain ⟨b, hb⟩ := this.2.2.2 ⟨d, hs⟩
    have h1 := this.1
    simp only [closeBudget, hs, hb] at h1 ⊢
    exact h1
  · rename_i a d hs
    rcases thenStart_pending s d0 _ (Or.inr rfl) hr with ⟨h1, h2, h3⟩ | ⟨h1, _, h2⟩
    · obtain ⟨a', b', hb⟩ := (pollSink_pending s d0 h3).2.1 ⟨a, d, hs⟩
      rw [h2] at h1 ⊢
      simp only [closeBudget, hs, hb] at h1 ⊢
      omega
    · obtain ⟨b, hb⟩ := h2 rfl
      simp only [closeBudget, hs, hb] at h1 ⊢
      omega
  · rename_i d hs
    rcases thenStart_pending s d0 _ (Or.inr rfl) hr with ⟨h1, h2, h3⟩ | ⟨h1, _, h2⟩
    · obtain ⟨b', hb⟩ := (pollSink_pending s d0 h3).2.2.1 ⟨d, hs⟩
      rw [h2] at h1 ⊢
      simp only [closeBudget, hs, hb] at h1 ⊢
      omega
    · obtain ⟨b, hb⟩ := h2 rfl
      simp only [closeBudget, hs, hb] at h1 ⊢
      omega
  · rename_i hs
    have := pollSink_fresh_pending s d0 _ (Or.inr rfl) hr
    obtain ⟨b, hb⟩ := this.2.2.2 rfl
    have h1 := this.1
    simp only [closeBudget, hs, hb] at h1 ⊢
    exact h1
  · rename_i hs
    have := pollSink_fresh_pending s d0 _ (Or.inr rfl) hr
    obtain ⟨b, hb⟩ := this.2.2.2 rfl
    have h1 := this.1
    simp only [closeBudget, hs, hb] at h1 ⊢
    exact h1

theorem thenStart_no_panic (s : S) (d0 : Nat) (st' : St) : (thenStart s d0 st').2 ≠ .panic := by
  unfold thenStart
  have h0 := pollSink_no_panic s d0
  rcases hp : pollSink s d0 with ⟨s', r⟩
  rw [hp] at h0
  cases r with
  | ready => simpa using pollSink_no_panic _ d0
  | pending => simp
  | panic => simp at h0
  | err => simp

/-- `poll_flush` panics only in the documented case (the sink is closing) -/
theorem flush_no_panic_unless_closing (s : S) (d0 : Nat) (h : ∀ d, s.st ≠ .closing d) :
    (pollFlush s d0).2 ≠ .panic := by
  unfold pollFlush
  split
  · rename_i d hs; exact absurd hs (h d)
  · exact pollSink_no_panic s d0
  · exact thenStart_no_panic s d0 _
  · exact pollSink_no_panic _ d0
  · exact pollSink_no_panic _ d0

/-- `poll_close` never panics -/
theorem close_no_panic (s : S) (d0 : Nat) : (pollClose s d0).2 ≠ .panic := by
  unfold pollClose
  split
  · exact pollSink_no_panic s d0
  · exact thenStart_no_panic s d0 _
  · exact thenStart_no_panic s d0 _
  · exact pollSink_no_panic _ d0
  · exact pollSink_no_panic _ d0

/-- `start_send` panics exactly when the sink is busy (the documented misuse: no `poll_ready` first) -/
theorem send_panics_iff_busy (s : S) (f : Bytes) :
    (startSend s f).2 = .panic ↔ s.st ≠ .idle ∧ s.st ≠ .configuring := by
  unfold startSend; split <;> simp_all

/-- after `poll_ready` answered `Ready`, `start_send` is accepted -/
theorem ready_then_send_ok (s : S) (d0 : Nat) (f : Bytes) (h : (pollReady s d0).2 = .ready) :
    (startSend (pollReady s d0).1 f).2 = .ready := by
  unfold pollReady at *
  split at h
  · rename_i hs; simp [startSend, hs]
  · have := pollSink_ready_idle s d0 h
    simp [startSend, this]

/-- **a refused item leaves no trace**: neither the bytes the writer has seen or will see nor the
    accepted stream change, whatever the codec had already put into the write buffer -/
theorem refused_item_leaves_no_trace (s : S) :
    (startSendFail s).1.io = s.io ∧ (startSendFail s).1.sent = s.sent ∧
      inflight (startSendFail s).1.st = inflight s.st := by
  unfold startSendFail; split <;> simp_all [inflight]

example :
    let r := run step {} [.send [1, 2], .flush 1, .flush 1, .flush 1, .send [3], .close 0]
    r.2 = [.ready, .pending, .pending, .ready, .ready, .ready] ∧
      r.1.io.delivered = [1, 2, 3] ∧ r.1.io.flushes = 1 ∧ r.1.io.shutdowns = 1 := by decide

end Compio.Sink
