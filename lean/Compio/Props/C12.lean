/-
C12 — blocking-style (`SyncStream`) and poll-style (`AsyncStream`) adapters are lossless FIFO pipes.
Property theorems only (helper lemmas live in Compio/Lemmas/SyncStream.lean, Lemmas/PollAdapter.lean).
Every statement quantifies over all configurations (base capacity, size limit), all scripts of the
inner stream (data / short / Pending / error / end of stream) and all operation lists.
-/
import Compio.Lemmas.SyncStream
import Compio.Lemmas.PollAdapter

namespace Compio.Props.C12
open Compio Compio.SyncStream

/-! ## 1. `SyncStream` -/

/-- **Read side, nothing lost / duplicated / reordered.** After any sequence of operations, what
the caller received (concatenation of everything `read` / `read_buf_uninit` / `consume` handed
out) followed by what is still buffered is exactly what the inner stream delivered, and that in
turn is a prefix of the inner stream's content (the rest is still in its script). -/
theorem sync_read_fifo (base max : Nat) (rs : List RItem) (ws : List WItem) (ops : List Op) :
    takenOf ops (run (State.new base max rs ws) ops).2 ++ (run (State.new base max rs ws) ops).1.r.buf.avail = (run (State.new base max rs ws) ops).1.r.delivered ∧
    (run (State.new base max rs ws) ops).1.r.delivered ++ (if (run (State.new base max rs ws) ops).1.r.innerEof then [] else content (run (State.new base max rs ws) ops).1.r.script) = content rs := by
  have hi := (Inv.new base max rs ws).run ops
  have hf := run_frame ops (State.new base max rs ws)
  refine ⟨?_, hi.1.cons⟩
  rw [hi.1.fifo, hf.1]
  simp [State.new, RSide.new]

/-- the bytes returned so far are a prefix of the inner stream -/
theorem sync_read_prefix (base max : Nat) (rs : List RItem) (ws : List WItem) (ops : List Op) :
    takenOf ops (run (State.new base max rs ws) ops).2 <+: content rs := by
  have h := sync_read_fifo base max rs ws ops
  rw [← h.2, ← h.1]
  simp only [List.append_assoc]
  exact List.prefix_append _ _

/-- **At end of file everything has been returned.** With a positive base capacity: once the
adapter's EOF flag is set and its buffer drained (the only situation in which `read` returns
`Ok(0)` / `fill_buf` an empty slice, see `sync_eof_report`), the bytes returned are the whole
inner stream. (For `base_capacity = 0` this fails: `Cex.C12.sync_base0_spurious_eof_counterexample`.) -/
theorem sync_read_eof_complete (base max : Nat) (rs : List RItem) (ws : List WItem) (ops : List Op)
    (hb : 0 < base) :
    (run (State.new base max rs ws) ops).1.r.eof = true → (run (State.new base max rs ws) ops).1.r.buf.avail = [] → takenOf ops (run (State.new base max rs ws) ops).2 = content rs := by
  intro he ha
  have hi := (Inv.new base max rs ws).run ops
  have hf := run_frame ops (State.new base max rs ws)
  have h := sync_read_fifo base max rs ws ops
  have hbase : (run (State.new base max rs ws) ops).1.r.base = base := by rw [hf.2.2.1]; rfl
  have hie := hi.1.eof_inner (by rw [hbase]; exact hb) he
  rw [← h.2, ← h.1, ha, hie]
  simp

/-- the adapter's EOF flag is only ever set by a genuine end-of-stream report of the inner reader
(guard: positive base capacity) -/
theorem sync_eof_genuine (base max : Nat) (rs : List RItem) (ws : List WItem) (ops : List Op) (hb : 0 < base) :
    (run (State.new base max rs ws) ops).1.r.eof = true → (run (State.new base max rs ws) ops).1.r.innerEof = true := by
  intro he
  have hi := (Inv.new base max rs ws).run ops
  have hf := run_frame ops (State.new base max rs ws)
  exact hi.1.eof_inner (by rw [hf.2.2.1]; exact hb) he

/-- when does the adapter report EOF to its caller: `read` into a non-empty buffer returning
`Ok(0)`, or `fill_buf` returning an empty slice, happens only with the EOF flag set and nothing buffered -/
theorem sync_eof_report (s : State) (n : Nat) (s' : State) :
    (step s (.read n) = (s', .bytes []) → 0 < n → s.r.buf.avail = [] ∧ s.r.eof = true) ∧
    (step s .fillbuf = (s', .bytes []) → s.r.buf.avail = [] ∧ s.r.eof = true) := by
  constructor
  · intro h hn
    unfold SyncStream.step at h
    simp only at h
    split at h
    · simp at h
    · unfold RSide.read RSide.fillBuf at h
      simp only [RSide.clearObs] at h
      by_cases hl : s.r.buf.lent = true
      · simp [hl, Out.ofBytes] at h
      · have hl' : s.r.buf.lent = false := by simpa using hl
        by_cases hw : (s.r.buf.avail.isEmpty && !s.r.eof) = true
        · simp [hl', hw, Out.ofBytes] at h
        · simp only [hl', hw, if_false, Bool.false_eq_true] at h
          have hav : s.r.buf.avail = [] := by
            by_cases h1 : s.r.buf.cap < s.r.buf.pos + min s.r.buf.avail.length n
            · rw [RSide.consume_panic (by simpa using hl') (by simpa using h1)] at h
              simp [Out.ofBytes] at h
            · by_cases h2 : s.r.buf.data.length < s.r.buf.pos + min s.r.buf.avail.length n
              · rw [RSide.consume_lost (by simpa using hl') (by simpa using h1) (by simpa using h2)] at h
                simp [Out.ofBytes] at h
              · rw [RSide.consume_ok (by simpa using hl') (by simpa using h1) (by simpa using h2)] at h
                simp only [Out.ofBytes, Prod.mk.injEq, Out.bytes.injEq, List.take_eq_nil_iff] at h
                rcases h.2 with h3 | h3
                · have : s.r.buf.avail.length = 0 := by omega
                  exact List.length_eq_zero_iff.mp this
                · exact h3
          refine ⟨hav, ?_⟩
          simp only [hav, List.isEmpty_nil, Bool.true_and, Bool.not_eq_true', Bool.not_eq_false] at hw
          simpa using hw
  · intro h
    unfold SyncStream.step at h
    simp only at h
    split at h
    · simp at h
    · unfold RSide.fillBuf at h
      simp only [RSide.clearObs] at h
      by_cases hl : s.r.buf.lent = true
      · simp [hl, Out.ofBytes] at h
      · have hl' : s.r.buf.lent = false := by simpa using hl
        by_cases hw : (s.r.buf.avail.isEmpty && !s.r.eof) = true
        · simp [hl', hw, Out.ofBytes] at h
        · simp only [hl', hw, if_false, Bool.false_eq_true, Out.ofBytes, Prod.mk.injEq, Out.bytes.injEq] at h
          refine ⟨h.2, ?_⟩
          simp only [h.2, List.isEmpty_nil, Bool.true_and, Bool.not_eq_true', Bool.not_eq_false] at hw
          simpa using hw

/-- **Write side, nothing lost / duplicated / reordered.** The bytes `write` accepted are, in order,
the bytes that reached the inner stream followed by the bytes still buffered. -/
theorem sync_write_fifo (base max : Nat) (rs : List RItem) (ws : List WItem) (ops : List Op) :
    acceptedOf ops (run (State.new base max rs ws) ops).2 = (run (State.new base max rs ws) ops).1.w.sent ++ (run (State.new base max rs ws) ops).1.w.buf.avail := by
  have hi := (Inv.new base max rs ws).run ops
  have hf := run_frame ops (State.new base max rs ws)
  rw [← hi.2.fifo, hf.2.1]
  simp [State.new, WSide.new]

/-- **A successful `flush_write_buf` sends exactly the unsent bytes** — in every reachable state,
in particular after any number of failed or partial flushes: afterwards everything accepted has
reached the inner stream, what this flush added is exactly what was still buffered, nothing else. -/
theorem sync_flush_sends_unsent (base max : Nat) (rs : List RItem) (ws : List WItem) (ops : List Op)
    (k n : Nat) (s' : State) :
    step (run (State.new base max rs ws) ops).1 (.wflush k) = (s', .num n) →
    s'.w.sent = (run (State.new base max rs ws) ops).1.w.sent ++ (run (State.new base max rs ws) ops).1.w.buf.avail ∧ s'.w.sent = s'.w.accepted ∧ s'.w.buf.avail = [] := by
  intro h
  generalize hs0 : (run (State.new base max rs ws) ops).1 = s at h ⊢
  have hi : Inv (content rs) s := by rw [← hs0]; exact (Inv.new base max rs ws).run ops
  have hw := hi.2.clearObs
  have hacc := (step_frame s (.wflush k)).2.1
  rw [h] at hacc
  simp only [Out.acceptedOf, List.append_nil] at hacc
  unfold SyncStream.step at h
  simp only at h
  split at h
  · simp at h
  · have hfl := hw.flush k
    rcases hq : s.w.clearObs.flush k with ⟨w', res⟩
    rw [hq] at h hfl
    simp only [Prod.mk.injEq] at h
    obtain ⟨hs, ho⟩ := h
    cases res with
    | none => simp [Out.ofDrive] at ho
    | some r =>
      cases r with
      | ok m =>
        have hfd := hfl.2 m rfl
        subst hs
        simp only at hacc ⊢
        unfold Flushed at hfd
        simp only at hfd
        refine ⟨?_, hfd.1, by simp [Buf.avail, hfd.2.1]⟩
        rw [hfd.1, hacc, hi.2.fifo]
      | err e => simp [Out.ofDrive, Out.ofNum] at ho
      | panic => simp [Out.ofDrive, Out.ofNum] at ho

/-- **Write-side limit honoured:** the bytes waiting in the write buffer never exceed
`max_buffer_size`; and as long as no flush has failed half-way (`pos = 0`) neither does the length of
the buffer itself. (After a failed flush the `Vec` may be longer: `Cex.C12.sync_write_vec_exceeds_limit_counterexample`.) -/
theorem sync_write_limit (base max : Nat) (rs : List RItem) (ws : List WItem) (ops : List Op) :
    (run (State.new base max rs ws) ops).1.w.buf.avail.length ≤ max ∧ ((run (State.new base max rs ws) ops).1.w.buf.pos = 0 → (run (State.new base max rs ws) ops).1.w.buf.data.length ≤ max) := by
  have hi := (Inv.new base max rs ws).run ops
  have hf := run_frame ops (State.new base max rs ws)
  have hm : (run (State.new base max rs ws) ops).1.w.max = max := by rw [hf.2.2.2.2.2]; rfl
  have := hi.2.pend_le
  rw [hm] at this
  constructor
  · simp only [Buf.avail, List.length_drop]; omega
  · intro hp; omega

/-- **Read-side bound the code really has:** the read buffer never holds more than
`base_capacity + max_buffer_size - 1` bytes (it is *not* bounded by `max_buffer_size`:
`Cex.C12.sync_read_limit_exceeded_counterexample`). -/
theorem sync_read_limit_bound (base max : Nat) (rs : List RItem) (ws : List WItem) (ops : List Op) :
    (run (State.new base max rs ws) ops).1.r.buf.data.length ≤ (run (State.new base max rs ws) ops).1.r.buf.cap ∧ (run (State.new base max rs ws) ops).1.r.buf.cap ≤ base + (max - 1) := by
  have hi := (Inv.new base max rs ws).run ops
  have hf := run_frame ops (State.new base max rs ws)
  refine ⟨hi.1.len_le, ?_⟩
  have := hi.1.cap_le
  rw [hf.2.2.1, hf.2.2.2.1] at this
  exact this

/-- **No panic for a disciplined caller.** If the caller keeps the `BufRead::consume` contract
(`amt ≤` the length `fill_buf` shows) and never drops a `fill_read_buf` / `flush_write_buf` future
while it is Pending (`Disciplined`), no operation of a `SyncStream` ever panics — for every inner
script, including errors, short transfers, `WriteZero` and premature end of stream. -/
theorem sync_no_panic (base max : Nat) (rs : List RItem) (ws : List WItem) (ops : List Op)
    (hd : Disciplined (State.new base max rs ws) ops) :
    Out.panic ∉ (run (State.new base max rs ws) ops).2 :=
  run_nopanic ops (Inv.new base max rs ws) ⟨rfl, rfl⟩ hd

/-- **`into_parts` + re-wrap loses and duplicates nothing on the read side.** Take the stream apart
after any operations `ops1` (buffer in place, inner stream not at its end), hand the returned bytes to
the caller, wrap the same inner stream again (any limits) and continue with any `ops2`: what the
caller received in the first life, the bytes `into_parts` returned, what it received in the second
life, what the second buffer holds and what the inner stream still has are, in this order, exactly
the inner stream. (Bytes accepted by `write` and not yet flushed are discarded by `into_parts`, as
documented for `into_inner`; `has_pending_write` tells.) -/
theorem sync_rewrap_lossless (base max base' max' : Nat) (rs : List RItem) (ws : List WItem) (ops1 ops2 : List Op)
    (hl : (run (State.new base max rs ws) ops1).1.r.buf.lent = false)
    (he : (run (State.new base max rs ws) ops1).1.r.innerEof = false) :
    takenOf ops1 (run (State.new base max rs ws) ops1).2 ++ (run (State.new base max rs ws) ops1).1.r.intoParts ++
      (takenOf ops2 (run (State.new base' max' (run (State.new base max rs ws) ops1).1.r.script
          (run (State.new base max rs ws) ops1).1.w.script) ops2).2 ++
       (run (State.new base' max' (run (State.new base max rs ws) ops1).1.r.script
          (run (State.new base max rs ws) ops1).1.w.script) ops2).1.r.buf.avail) ++
      (if (run (State.new base' max' (run (State.new base max rs ws) ops1).1.r.script
          (run (State.new base max rs ws) ops1).1.w.script) ops2).1.r.innerEof then []
       else content (run (State.new base' max' (run (State.new base max rs ws) ops1).1.r.script
          (run (State.new base max rs ws) ops1).1.w.script) ops2).1.r.script) = content rs := by
  have h1 := sync_read_fifo base max rs ws ops1
  have h2 := sync_read_fifo base' max' (run (State.new base max rs ws) ops1).1.r.script
    (run (State.new base max rs ws) ops1).1.w.script ops2
  simp only [RSide.intoParts, hl, Bool.false_eq_true, if_false]
  rw [h1.1, h2.1, List.append_assoc, h2.2]
  have := h1.2
  simp only [he, Bool.false_eq_true, if_false] at this
  exact this

/-- **`max_buffer_size = 0` (SyncStream):** nothing is lost or exceeded, the limit is *reported*:
`write` of a non-empty buffer always answers WouldBlock and leaves the stream unchanged, and
`fill_read_buf` always answers `OutOfMemory` — in every reachable state. -/
theorem sync_max0_reported (base : Nat) (rs : List RItem) (ws : List WItem) (ops : List Op) (src : Bytes)
    (hsrc : src ≠ []) :
    (run (State.new base 0 rs ws) ops).1.w.write src = ((run (State.new base 0 rs ws) ops).1.w, .err .wb) ∧
    ((run (State.new base 0 rs ws) ops).1.r.eof = false → (run (State.new base 0 rs ws) ops).1.r.buf.lent = false →
      (run (State.new base 0 rs ws) ops).1.r.fillStart.2 = some (.err .oom)) := by
  have hi := (Inv.new base 0 rs ws).run ops
  have hf := run_frame ops (State.new base 0 rs ws)
  exact ⟨WSide.write_max0 hi.2 (by rw [hf.2.2.2.2.2]; rfl) hsrc,
    fun he hl => RSide.fillStart_max0 (by rw [hf.2.2.2.1]; rfl) he hl⟩

/-- **Sticky state after a lost buffer** (a future dropped while Pending, or a panic of
`consume(amt > available)`): every later call answers the same way and changes nothing — reads
`WouldBlock`, `consume` panics, `into_parts` returns nothing, `fill_read_buf` panics (or answers
`Ok(0)` once EOF is latched); writes `WouldBlock`, `flush_write_buf` panics, `has_pending_write` panics. -/
theorem sync_lost_buffer_sticky (r : RSide) (w : WSide) (n k : Nat) (src : Bytes) :
    (r.buf.lent = true →
      r.read n = (r, .err .wb) ∧ r.fillBuf = .err .wb ∧ r.consume n = (r, .panic) ∧ r.intoParts = [] ∧
      (r.eof = false → r.fill (k + 1) = (r, some .panic)) ∧ (r.eof = true → r.fill (k + 1) = (r, some (.ok 0)))) ∧
    (w.buf.lent = true →
      w.write src = (w, .err .wb) ∧ w.flush (k + 1) = (w, some .panic) ∧ w.hasPending = none) :=
  ⟨fun hl => RSide.lost_sticky r hl n k, fun hl => WSide.lost_sticky w hl src k⟩

/-! ### non-vacuity: the hypotheses are satisfiable on non-trivial runs -/

/-- a read that would block, a short fill, a partial read, a fill across compaction, EOF -/
example :
    (run (State.new 4 64 [.d [1, 2, 3], .p, .d [4, 5, 6, 7, 8, 9], .z] [])
      [.read 2, .fill 9, .read 2, .fill 1, .fill 9, .read 9, .fill 9, .fill 9, .read 9, .read 9]).2 =
    [.err .wb, .num 3, .bytes [1, 2], .cancel, .panic, .err .wb, .panic, .panic, .err .wb, .err .wb] := by
  decide

example :
    (run (State.new 4 64 [.d [1, 2, 3], .p, .d [4, 5, 6, 7, 8, 9], .z] [])
      [.fill 9, .read 2, .fill 9, .read 9, .fill 9, .read 9, .fill 9, .read 9, .read 9]).2 =
    [.num 3, .bytes [1, 2], .num 3, .bytes [3, 4, 5, 6], .num 3, .bytes [7, 8, 9], .num 0, .bytes [], .bytes []] := by
  decide

/-- a disciplined run through would-block, Pending, short transfers, an inner error and EOF -/
example :
    Disciplined (State.new 3 64 [.p, .d [1, 2, 3, 4, 5], .e, .z] [.p, .w 1, .e, .w 0])
      [.read 4, .fill 9, .fillbuf, .consume 2, .read 4, .fill 9, .fill 9, .fill 9, .read 4, .read 4,
       .write [7, 8, 9], .wflush 9, .wflush 9, .wflush 9, .st] := by
  decide

/-- a flush that fails after a partial write, and the retry that sends exactly the rest -/
example :
    (run (State.new 16 64 [] [.w 2, .e, .p, .w 1])
      [.write [1, 2, 3, 4, 5], .wflush 9, .write [6], .wflush 9]).2 =
    [.num 5, .err .other, .num 1, .num 4] ∧
    (run (State.new 16 64 [] [.w 2, .e, .p, .w 1])
      [.write [1, 2, 3, 4, 5], .wflush 9, .write [6], .wflush 9]).1.w.sent = [1, 2, 3, 4, 5, 6] := by
  decide


/-! ## 2. `AsyncStream` (poll-style adapter) -/

section Async
open Compio.PollAdapter

/-- **Read side, nothing lost / duplicated / reordered**, for every interleaving of `poll_read`,
`poll_read_uninit`, `poll_fill_buf`, `consume` by any tasks with Pending / short / error / EOF
answers of the inner stream. -/
theorem async_read_fifo (base max : Nat) (rs : List RItem) (ws : List WItem) (ops : List PollAdapter.Op) :
    PollAdapter.takenOf ops (PollAdapter.run (PollAdapter.State.new base max rs ws) ops).2 ++
        (PollAdapter.run (PollAdapter.State.new base max rs ws) ops).1.ar.r.buf.avail =
      (PollAdapter.run (PollAdapter.State.new base max rs ws) ops).1.ar.r.delivered ∧
    (PollAdapter.run (PollAdapter.State.new base max rs ws) ops).1.ar.r.delivered ++
        (if (PollAdapter.run (PollAdapter.State.new base max rs ws) ops).1.ar.r.innerEof then []
         else content (PollAdapter.run (PollAdapter.State.new base max rs ws) ops).1.ar.r.script) = content rs := by
  have hi := (AInv.new base max rs ws).run ops
  have hf := PollAdapter.run_frame ops (PollAdapter.State.new base max rs ws)
  refine ⟨?_, hi.1.inv.cons⟩
  rw [hi.1.inv.fifo, hf.1]
  simp [PollAdapter.State.new, ARead.new, RSide.new]

theorem async_read_prefix (base max : Nat) (rs : List RItem) (ws : List WItem) (ops : List PollAdapter.Op) :
    PollAdapter.takenOf ops (PollAdapter.run (PollAdapter.State.new base max rs ws) ops).2 <+: content rs := by
  have h := async_read_fifo base max rs ws ops
  rw [← h.2, ← h.1]
  simp only [List.append_assoc]
  exact List.prefix_append _ _

/-- at EOF (flag set, buffer drained) everything has been returned; guard: positive base capacity -/
theorem async_read_eof_complete (base max : Nat) (rs : List RItem) (ws : List WItem) (ops : List PollAdapter.Op)
    (hb : 0 < base) :
    (PollAdapter.run (PollAdapter.State.new base max rs ws) ops).1.ar.r.eof = true →
    (PollAdapter.run (PollAdapter.State.new base max rs ws) ops).1.ar.r.buf.avail = [] →
    PollAdapter.takenOf ops (PollAdapter.run (PollAdapter.State.new base max rs ws) ops).2 = content rs := by
  intro he ha
  have hi := (AInv.new base max rs ws).run ops
  have hf := PollAdapter.run_frame ops (PollAdapter.State.new base max rs ws)
  have h := async_read_fifo base max rs ws ops
  have hbase : (PollAdapter.run (PollAdapter.State.new base max rs ws) ops).1.ar.r.base = base := by
    rw [hf.2.2.1]; rfl
  have hie := hi.1.inv.eof_inner (by rw [hbase]; exact hb) he
  rw [← h.2, ← h.1, ha, hie]
  simp

/-- **Write side, nothing lost / duplicated / reordered** -/
theorem async_write_fifo (base max : Nat) (rs : List RItem) (ws : List WItem) (ops : List PollAdapter.Op) :
    PollAdapter.acceptedOf ops (PollAdapter.run (PollAdapter.State.new base max rs ws) ops).2 =
      (PollAdapter.run (PollAdapter.State.new base max rs ws) ops).1.aw.w.sent ++
      (PollAdapter.run (PollAdapter.State.new base max rs ws) ops).1.aw.w.buf.avail := by
  have hi := (AInv.new base max rs ws).run ops
  have hf := PollAdapter.run_frame ops (PollAdapter.State.new base max rs ws)
  rw [← hi.2.fifo, hf.2.1]
  simp [PollAdapter.State.new, AWrite.new, WSide.new]

/-- limits: pending write bytes `≤ max`; read buffer `≤ base + max - 1` -/
theorem async_limits (base max : Nat) (rs : List RItem) (ws : List WItem) (ops : List PollAdapter.Op) :
    (PollAdapter.run (PollAdapter.State.new base max rs ws) ops).1.aw.w.buf.avail.length ≤ max ∧
    (PollAdapter.run (PollAdapter.State.new base max rs ws) ops).1.ar.r.buf.data.length ≤ base + (max - 1) := by
  have hi := (AInv.new base max rs ws).run ops
  have hf := PollAdapter.run_frame ops (PollAdapter.State.new base max rs ws)
  have hm : (PollAdapter.run (PollAdapter.State.new base max rs ws) ops).1.aw.w.max = max := by
    rw [hf.2.2.2.2.2]; rfl
  have h1 := hi.2.pend_le
  rw [hm] at h1
  have h2 := hi.1.inv.cap_le
  rw [hf.2.2.1, hf.2.2.2.1] at h2
  have h3 := hi.1.inv.len_le
  constructor
  · simp only [Buf.avail, List.length_drop]; omega
  · exact Nat.le_trans h3 h2

/-- **`poll_flush` / `poll_close` returning `Ready(Ok(()))` mean everything accepted has reached the
inner stream** — provided the caller never calls `poll_write` while the in-flight flush future is
suspended in the inner stream's `flush()` (`GuardedRun`; without the guard this is false: finding
F15, `Cex.C12.async_stale_flush_counterexample`). In particular `poll_close` flushes before it
shuts the inner stream down. -/
theorem async_flush_complete (base max : Nat) (rs : List RItem) (ws : List WItem) (ops : List PollAdapter.Op)
    (hg : GuardedRun (PollAdapter.State.new base max rs ws) ops) (t : Nat) :
    ((PollAdapter.step (PollAdapter.run (PollAdapter.State.new base max rs ws) ops).1 (.pfl t)).2 = .unit →
      Flushed (PollAdapter.step (PollAdapter.run (PollAdapter.State.new base max rs ws) ops).1 (.pfl t)).1.aw.w) ∧
    ((PollAdapter.step (PollAdapter.run (PollAdapter.State.new base max rs ws) ops).1 (.pcl t)).2 = .unit →
      Flushed (PollAdapter.step (PollAdapter.run (PollAdapter.State.new base max rs ws) ops).1 (.pcl t)).1.aw.w) := by
  have hi := (AInv.new base max rs ws).run ops
  have hc : Clean (PollAdapter.run (PollAdapter.State.new base max rs ws) ops).1.aw :=
    Clean.run ops (AInv.new base max rs ws) (by intro t ht; cases ht) hg
  generalize (PollAdapter.run (PollAdapter.State.new base max rs ws) ops).1 = s at hi hc
  have hw0 : WInv ({ s.aw with w := s.aw.w.clearObs } : AWrite).w := hi.2.clearObs
  have hc0 := hc.clearObs
  constructor
  · intro ho
    simp only [PollAdapter.step] at ho ⊢
    rw [(AWrite.call_w _ _ _ _).2] at ho
    rw [(AWrite.call_w _ _ _ _).1]
    exact (AWrite.pollFlush_clean t hc0 hw0).2 ho
  · intro ho
    simp only [PollAdapter.step] at ho ⊢
    rw [(AWrite.call_w _ _ _ _).2] at ho
    rw [(AWrite.call_w _ _ _ _).1]
    exact (AWrite.pollClose_clean t hc0 hw0).2 ho

/-- **Write half: no panic and both `debug_assert!`s hold** for every caller that respects the guard
of `async_flush_complete` — for every inner script (Pending / short / error answers of write, flush
and shutdown) and any interleaving of `poll_write` / `poll_flush` / `poll_close` by any tasks, no
write-half entry point panics (`expect(MISSING_BUF)`, the asserts of `Buffer::advance`, the
`max - len` underflow of `write`, `debug_assert!(write_future.is_none())`,
`debug_assert!(shutdown_future.is_none())`). Without the guard the last one fires:
`Cex.C12.async_stale_close_debug_assert_counterexample`. -/
theorem async_write_no_panic (base max : Nat) (rs : List RItem) (ws : List WItem) (ops : List PollAdapter.Op)
    (hg : GuardedRun (PollAdapter.State.new base max rs ws) ops) :
    NoWritePanic ops (PollAdapter.run (PollAdapter.State.new base max rs ws) ops).2 :=
  (WSafe.run ops (WSafe.new base max ws) hg).1

/-- **Termination of the read entry points, with a measure.** As long as no read-half call has
panicked, `poll_read` / `poll_read_uninit` / `poll_fill_buf` never spin: at most two rounds of
`sync call → WouldBlock → poll the fill future` (after a round whose future completed `Ok`, the
buffer is in place and holds data or EOF is latched, so the next synchronous call succeeds) — the
model's fuel `4 + |script|` is never exhausted. Every inner script, base capacity, limit (also 0). -/
theorem async_read_terminates (base max : Nat) (rs : List RItem) (ws : List WItem) (ops : List PollAdapter.Op)
    (hp : AllOuts (fun op o => isReadOp op = true → o ≠ .panic) ops
      (PollAdapter.run (PollAdapter.State.new base max rs ws) ops).2) :
    AllOuts (fun op o => isReadOp op = true → o ≠ .hang) ops
      (PollAdapter.run (PollAdapter.State.new base max rs ws) ops).2 :=
  ReadOK.run (C := content rs) ops ⟨ARInv.new base max rs, rfl⟩ (WInv.new base max ws) hp

/-- **Termination of the write entry points, with a measure**, guard `0 < max_buffer_size` only:
whatever the callers do (including the F15 interleavings and after panics of the `debug_assert!`s),
`poll_write` ends within three rounds (a possibly stale flush future completes; a fresh flush
empties the buffer; `write` into an empty buffer with a positive limit accepts), `poll_flush` and
`poll_close` have no loop. -/
theorem async_write_terminates (base max : Nat) (rs : List RItem) (ws : List WItem) (ops : List PollAdapter.Op)
    (hm : 0 < max) :
    AllOuts (fun op o => isReadOp op = false → o ≠ .hang) ops
      (PollAdapter.run (PollAdapter.State.new base max rs ws) ops).2 :=
  write_run_term ops (WBase.new base max ws) hm

/-- **`max_buffer_size = 0` (AsyncStream), finding F121:** with an inner writer that is always ready,
`poll_write` of a non-empty buffer never returns — for every fuel the model's loop is still going
(`write` answers "buffer full", the flush succeeds with nothing to do, …): the limit is turned into
a busy hang instead of being reported. -/
theorem async_max0_poll_write_spins (base t : Nat) (src : Bytes) (hsrc : src ≠ []) (fuel : Nat) :
    (({ AWrite.new base 0 [] with slots := Slots.empty.set .a (some t) } : AWrite).writeLoop src fuel).2 = .hang :=
  writeLoopA_max0_spins hsrc fuel (WInv.new base 0 []) rfl rfl rfl rfl

/-- **Sticky state of the read half after its buffer was lost by a panic** (no future in flight):
before EOF every further poll panics (`expect(MISSING_BUF)`), once EOF is latched every further poll
spins (`fill_read_buf` answers `Ok(0)` before it notices the missing buffer). -/
theorem async_lost_read_buffer_sticky (C : Bytes) (a : ARead) (e : Entry) (n fuel : Nat)
    (hl : a.r.buf.lent = true) (hfut : a.fut = false) :
    (a.r.eof = false → (a.pollLoop e (fun r => r.read n) (fuel + 1)).2 = .panic ∧
                        (a.pollLoop e (fun r => (r, r.fillBuf)) (fuel + 1)).2 = .panic) ∧
    (a.r.eof = true → (a.pollLoop e (fun r => r.read n) fuel).2 = .hang ∧
                       (a.pollLoop e (fun r => (r, r.fillBuf)) fuel).2 = .hang) :=
  ⟨fun he => ⟨pollLoop_lost_panics (SyncCall.read C n) e hl hfut he fuel,
              pollLoop_lost_panics (SyncCall.fillBuf C) e hl hfut he fuel⟩,
   fun he => ⟨pollLoop_lost_eof_spins (SyncCall.read C n) e hl hfut he fuel,
              pollLoop_lost_eof_spins (SyncCall.fillBuf C) e hl hfut he fuel⟩⟩

/-- **Waker law.** In every reachable state and for every next call:
(1) if the call returns Pending, the inner stream is parked with a waker snapshot containing the caller;
(2) if the in-flight future of the half completed during the call (the inner stream woke the
    snapshot it held), then every task whose latest call of some entry point of that half had
    returned Pending — through whichever of the three entry points — is among the tasks woken. -/
theorem async_waker_law (base max : Nat) (rs : List RItem) (ws : List WItem) (ops : List PollAdapter.Op)
    (op : PollAdapter.Op) :
    (∀ e t, op.entry = some (e, t) →
      (PollAdapter.step (PollAdapter.run (PollAdapter.State.new base max rs ws) ops).1 op).2 = .pending →
      ∃ snap, parkedAfterOp (PollAdapter.step (PollAdapter.run (PollAdapter.State.new base max rs ws) ops).1 op).1 op
                = some snap ∧ t ∈ snap) ∧
    ((eventAfter (PollAdapter.step (PollAdapter.run (PollAdapter.State.new base max rs ws) ops).1 op).1 op).1 = true →
      ∀ e t, (owedBefore (PollAdapter.run (PollAdapter.State.new base max rs ws) ops).1 op).get e = some t →
        t ∈ (eventAfter (PollAdapter.step (PollAdapter.run (PollAdapter.State.new base max rs ws) ops).1 op).1 op).2) := by
  have hw := (WakeOK.new base max rs ws).run ops
  exact ⟨fun e t he hp => step_pending_registered hw op e t he hp, (hw.step op).2⟩

/-- the obligations really are what the outputs say: after a run, entry point `e` of the read half
is owed to task `t` exactly when … the last call of `e` returned Pending (one step) -/
theorem async_owed_is_pending (s : PollAdapter.State) (op : PollAdapter.Op) (e : Entry) (t : Nat)
    (he : op.entry = some (e, t)) (hp : (PollAdapter.step s op).2 = .pending) :
    (owedAfterOp (PollAdapter.step s op).1 op).get e = some t :=
  step_pending_owed s op e t he hp

/-- **Fuel independence of the model's retry loops** (`loop { … WouldBlock ⇒ poll the future … }` of the
entry points): a result reached within the fuel is the result for any larger fuel; `hang` (fuel
exhausted — the real code would spin) is never produced on the sampled cases of the harness. -/
theorem async_loops_fuel_independent (e : Entry) (f : RSide → RSide × Res Bytes) (src : Bytes) (n : Nat) :
    (∀ a : ARead, (a.pollLoop e f n).2 ≠ .hang → a.pollLoop e f (n + 1) = a.pollLoop e f n) ∧
    (∀ a : AWrite, (a.writeLoop src n).2 ≠ .hang → a.writeLoop src (n + 1) = a.writeLoop src n) :=
  ⟨ARead.pollLoop_stable e f n, AWrite.writeLoop_stable src n⟩

/-! ### non-vacuity -/

/-- two tasks Pending on two entry points of the read half, both woken when the inner read completes -/
example :
    (PollAdapter.run (PollAdapter.State.new 4 64 [.p, .p, .d [1, 2, 3]] [])
      [.pr 0 2, .pfb 1, .pr 0 2, .pfb 1]).2 = [.pending, .pending, .bytes [1, 2], .bytes [3]] ∧
    (PollAdapter.run (PollAdapter.State.new 4 64 [.p, .p, .d [1, 2, 3]] [])
      [.pr 0 2, .pfb 1, .pr 0 2]).1.ar.r.woken = [0, 1] := by
  decide

/-- a guarded run with a Pending inner write and a Pending inner flush: the flush completes everything -/
example :
    GuardedRun (PollAdapter.State.new 4 64 [] [.p, .w 2, .w 9, .p])
      [.pw 0 [1, 2, 3], .pfl 0, .pfl 0, .pfl 0] ∧
    (PollAdapter.run (PollAdapter.State.new 4 64 [] [.p, .w 2, .w 9, .p])
      [.pw 0 [1, 2, 3], .pfl 0, .pfl 0, .pfl 0]).2 = [.num 3, .pending, .pending, .unit] ∧
    (PollAdapter.run (PollAdapter.State.new 4 64 [] [.p, .w 2, .w 9, .p])
      [.pw 0 [1, 2, 3], .pfl 0, .pfl 0, .pfl 0]).1.aw.w.sent = [1, 2, 3] := by
  decide

end Async

end Compio.Props.C12
