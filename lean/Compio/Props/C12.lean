import Compio.Model.SyncStream
import Compio.Model.PollAdapter
namespace Compio.Props.C12
end Compio.Props.C12
