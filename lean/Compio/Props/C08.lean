/-
C08 — file and pipe I/O matches the OS, identically on every driver.  PARTIAL: what the kernel does for
pread/pwrite/... is observed (differential harness), not proved. Proved here:

  (a) table laws over the table REGENERATED from the sources on every run (`Compio.Gen.OpTable`):
      every read-direction buffer is handed to the OS as its *writable* range, every write-direction
      buffer as its *initialised* range, the two drivers agree op by op, the high-level calls apply the
      length-recording mapping that fits the op;
  (b) buffer laws for all buffer shapes: "the OS stores n bytes into the offered ranges, then the result
      mapping is applied" gives exactly the reference readv result (bytes, positions, lengths, untouched
      spare content), for every row of the table;
  (c) the open-flag mapping equals std's rules on all 32 settings.
-/
import Compio.Lemmas.BufShape
import Compio.Model.DirUtil

namespace Compio.Props.C08

open Compio Compio.BufShape Compio.FileRef
open Compio.Gen.OpTable
open Compio.Gen.OpenFlags (OFlag openFlags)

/-! ## (a) table laws -/

set_option maxRecDepth 200000

/-- the range kind that fits a direction -/
def expectedKind : Dir → Kind
  | .read => .writable
  | .write => .init

def kindsOk (p : Option BufParam) (ks : List Kind) : Bool :=
  match p with
  | none => ks == []
  | some p => ks == [expectedKind p.dir]

def rowOk (r : Row) : Bool := kindsOk r.main r.mainKinds && kindsOk r.ctrl r.ctrlKinds

/-- every row: a buffer parameter is handed to the OS with exactly the range kind of its direction
(reads: writable range `0..capacity`; writes: initialised range `0..len`), ops without a buffer hand nothing -/
theorem table_law : ∀ r ∈ rows, rowOk r = true := by decide

def sameShape (a b : Row) : Bool :=
  a.main == b.main && a.ctrl == b.ctrl && a.mainKinds == b.mainKinds && a.ctrlKinds == b.ctrlKinds

/-- rows of the same op agree across drivers -/
theorem drivers_agree : ∀ a ∈ rows, ∀ b ∈ rows, a.op = b.op → sameShape a b = true := by decide

/-- every op code is implemented by both drivers, once each -/
theorem both_drivers : ∀ a ∈ rows, (rows.filter fun b => b.op = a.op ∧ b.driver ≠ a.driver).length = 1 := by
  decide

theorem one_row_per_op_and_driver :
    ∀ a ∈ rows, (rows.filter fun b => b.op = a.op ∧ b.driver = a.driver).length = 1 := by decide

/-! ### lengths handed to the OS -/

def lensOk (r : Row) : Bool :=
  r.byteLens.all (fun k => k == .saturating || k == .full) && r.countLens.all (fun k => k != .cast)

/-- every byte length an op hands to the OS is derived by saturation to `u32::MAX` or passed as `usize`; no
row narrows a length with a plain cast (iovec counts: saturated, `usize`, or stored into `msg_iovlen`) -/
theorem length_law : ∀ r ∈ rows, lensOk r = true := by decide

/-- **every length handed to the OS is `min(len, u32::MAX)` or `len` itself, never a wrapped value** — for
every row of the regenerated table, every derivation in it and every buffer length; in particular the OS is
asked for 0 bytes only for an empty buffer (no false end-of-file on buffers of 4 GiB and more), and never for
more than the buffer holds -/
theorem length_never_wrapped :
    ∀ r ∈ rows, ∀ k ∈ r.byteLens, ∀ n : Nat,
      (lenHanded k n = min n u32Max ∨ lenHanded k n = n) ∧ lenHanded k n ≤ n ∧ (lenHanded k n = 0 → n = 0) := by
  intro r hr k hk n
  have h := length_law r hr
  simp only [lensOk, Bool.and_eq_true, List.all_eq_true] at h
  have hk' := h.1 k hk
  have : k = .saturating ∨ k = .full := by
    cases k <;> simp_all
  rcases this with rfl | rfl
  · refine ⟨Or.inl rfl, ?_, ?_⟩
    · simp only [lenHanded]; omega
    · simp only [lenHanded, u32Max]; omega
  · exact ⟨Or.inr rfl, Nat.le_refl _, fun h => h⟩

/-- the lookups of the model driver for the huge-capacity reads: io_uring saturates, polling passes the slice -/
theorem lenOf_read_ops :
    lenOf .Read .iour = some .saturating ∧ lenOf .ReadAt .iour = some .saturating ∧
    lenOf .Read .poll = some .full ∧ lenOf .ReadAt .poll = some .full := by decide

/-- a read into a fresh buffer of any capacity ≥ the available bytes delivers all of them, on every read row
(this is what fails for a wrapped length: capacity 2^32 would deliver nothing) -/
theorem huge_read_delivers_all :
    ∀ r ∈ rows, ∀ k ∈ r.byteLens, ∀ (cap : Nat) (avail : Bytes),
      avail.length ≤ cap → avail.length ≤ u32Max → hugeRead k cap avail = avail := by
  intro r hr k hk cap avail h1 h2
  obtain ⟨h, _, _⟩ := length_never_wrapped r hr k hk cap
  unfold hugeRead
  apply List.take_of_length_le
  rcases h with h | h <;> rw [h] <;> omega

example : lenHanded .cast (2 ^ 32) = 0 ∧ lenHanded .saturating (2 ^ 32) = 2 ^ 32 - 1 := by decide

def expectedMapping (p : BufParam) : Mapping :=
  match p.dir, p.vectored with
  | .read, false => .advanced
  | .read, true => .vecAdvanced
  | .write, _ => .none

/-- the high-level calls (`File::read_at`, `AsyncFd::read_vectored`, ...) record the returned length with
`map_advanced` for single reads, `map_vec_advanced` for vectored reads, and leave writes alone -/
theorem mapping_law :
    ∀ m ∈ mappings, ∀ r ∈ rows, r.op = m.2.2.1 → r.main.map expectedMapping = some m.2.2.2 := by decide

/-- consequence used below: a read row hands exactly the writable range -/
theorem read_row_kind {r : Row} (hr : r ∈ rows) {v : Bool} (hm : r.main = some ⟨.read, v⟩) :
    r.mainKinds = [.writable] := by
  have h := table_law r hr
  simp [rowOk, kindsOk, hm, expectedKind] at h
  exact h.1

theorem write_row_kind {r : Row} (hr : r ∈ rows) {v : Bool} (hm : r.main = some ⟨.write, v⟩) :
    r.mainKinds = [.init] := by
  have h := table_law r hr
  simp [rowOk, kindsOk, hm, expectedKind] at h
  exact h.1

/-- the lookups the model driver performs (`kindOf`) resolve, on both drivers, to the kind of the direction:
the eight file / pipe ops of compio-fs and `AsyncFd` -/
theorem kindOf_file_ops (d : Driver) :
    kindOf .ReadAt d = some .writable ∧ kindOf .ReadVectoredAt d = some .writable ∧
    kindOf .Read d = some .writable ∧ kindOf .ReadVectored d = some .writable ∧
    kindOf .WriteAt d = some .init ∧ kindOf .WriteVectoredAt d = some .init ∧
    kindOf .Write d = some .init ∧ kindOf .WriteVectored d = some .init := by
  cases d <;> decide

example : (rows.filter fun r => r.main.isSome).length = 36 := by decide
example : ∃ r ∈ rows, r.op = .ReadVectoredAt ∧ r.driver = .iour ∧ r.mainKinds = [.writable] := by decide

/-! ## (b) buffer laws: OS fill of the offered ranges + result mapping = reference read -/

/-- the reference result of reading `data` into the window of `b` (what `pread` into `as_uninit()` followed
by `advance_to(data.length)` must give) -/
structure ReadSpec (b b' : Buf) (data : Bytes) : Prop where
  /-- bytes: the window holds the data, then its old content -/
  window : b'.window = data ++ b.window.drop data.length
  /-- positions / untouched spare content: nothing outside the window changes, nothing moves -/
  before : b'.root.mem.take b.start = b.root.mem.take b.start
  after : b'.root.mem.drop (b.start + b.bufCap) = b.root.mem.drop (b.start + b.bufCap)
  cap : b'.root.cap = b.root.cap
  start : b'.start = b.start
  stop : b'.stop = b.stop
  /-- new length: never shrinks, covers the data, stays within the capacity (`wf`) -/
  len : b'.root.len = max b.root.len (b.start + data.length)
  wf : b'.wf
  /-- the visible content (`as_init`) is the data followed by what was visible beyond it -/
  visible : b'.visible = data ++ b.visible.drop data.length

/-- for all buffer shapes and all `data` no longer than the offered range: the OS stores it at the start of
the writable range, then `map_advanced` (`advance_to(n)`) is applied -/
theorem fill_then_advance_spec (b : Buf) (data : Bytes) (hb : b.wf) (hd : data.length ≤ b.bufCap) :
    ReadSpec b ((b.osFill .writable data).advanceTo data.length) data := by
  have hwf1 := osFill_wf b data hb
  have hcap1 := osFill_bufCap b data hb
  obtain ⟨hs1, hst1, hl1⟩ := osFill_shape .writable b data
  have hn : data.length ≤ (b.osFill .writable data).bufCap := by rw [hcap1]; exact hd
  have hwin : ((b.osFill .writable data).advanceTo data.length).window = data ++ b.window.drop data.length := by
    rw [advanceTo_window, osFill_window b data hb, List.take_of_length_le hd, Nat.min_eq_left hd]
  have hwf2 := advanceTo_wf hwf1 hn
  refine ⟨hwin, ?_, ?_, ?_, ?_, ?_, ?_, hwf2, ?_⟩
  · rw [advanceTo_mem]; exact osFill_before b data hb
  · rw [advanceTo_mem]; exact osFill_after b data hb
  · rw [advanceTo_cap]; exact osFill_cap b data hb
  · rw [(advanceTo_shape _ _).1]; exact hs1
  · rw [(advanceTo_shape _ _).2]; exact hst1
  · rw [advanceTo_len hwf1 hn, hl1, hs1]
  · rw [visible_eq_window_take hwf2, hwin, advanceTo_bufLen hwf1 hn, osFill_bufLen,
      visible_eq_window_take hb, List.take_append, List.take_of_length_le (by omega), List.drop_take]
    congr 2
    omega

theorem readOp_writable_spec (b : Buf) (f : Bytes) (pos : Nat) (hb : b.wf) :
    (readOp .writable b f pos).1 = (pread f pos b.bufCap).length ∧
    ReadSpec b (readOp .writable b f pos).2 (pread f pos b.bufCap) := by
  have e : readOp .writable b f pos = ((pread f pos b.bufCap).length,
      (b.osFill .writable (pread f pos b.bufCap)).advanceTo (pread f pos b.bufCap).length) := by
    simp [readOp, offered_writable]
  rw [e]
  exact ⟨rfl, fill_then_advance_spec b _ hb (pread_length_le f pos b.bufCap)⟩

/-- **single reads** (`ReadAt`, `Read`, `Recv`, `RecvFrom` on both drivers): for every row of the regenerated
table whose buffer is a single read buffer, for every range kind the row hands to the OS, for every
well-formed buffer shape, file content and position: result and buffer are the reference `pread` result. -/
theorem read_single_law :
    ∀ r ∈ rows, r.main = some ⟨.read, false⟩ → ∀ k ∈ r.mainKinds,
    ∀ (b : Buf) (f : Bytes) (pos : Nat), b.wf →
      (readOp k b f pos).1 = (pread f pos b.bufCap).length ∧
      ReadSpec b (readOp k b f pos).2 (pread f pos b.bufCap) := by
  intro r hr hm k hk b f pos hb
  rw [read_row_kind hr hm] at hk
  simp at hk
  subst hk
  exact readOp_writable_spec b f pos hb

/-- member-wise part of the vectored reference result -/
def MemberSpec (b b' : Buf) : Prop :=
  b'.start = b.start ∧ b'.stop = b.stop ∧ b'.root.cap = b.root.cap ∧
  b'.root.mem.take b.start = b.root.mem.take b.start ∧
  b'.root.mem.drop (b.start + b.bufCap) = b.root.mem.drop (b.start + b.bufCap)

/-- for all vectored layouts and all `data` no longer than the offered ranges: readv-style fill, then
`map_vec_advanced` (`advance_vec_to(n)` = `default_set_len`) -/
theorem fillVec_then_advance_spec (bs : List Buf) (data : Bytes) (hw : ∀ b ∈ bs, b.wf)
    (hd : data.length ≤ totalCap bs) :
    let res := advanceVecTo (osFillVec .writable bs data) data.length
    windowVec res = data ++ (windowVec bs).drop data.length ∧
    AllPairs MemberSpec bs res ∧
    (∀ b' ∈ res, b'.wf) ∧
    ((∀ b ∈ bs, b.bufLen = 0) → visibleVec res = data ∧ totalLen res = data.length) := by
  intro res
  have hwf1 := osFillVec_wf bs hw data
  refine ⟨?_, ?_, advanceVecTo_wf _ hwf1 _, ?_⟩
  · show windowVec (advanceVecTo _ _) = _
    rw [advanceVecTo_windowVec, osFillVec_window bs hw data hd]
  · refine AllPairs.trans ?_ (osFillVec_members bs hw data) (advanceVecTo_members _ data.length)
    intro a b c h1 h2
    obtain ⟨s1, st1, _, c1, _, bf1, af1⟩ := h1
    obtain ⟨s2, st2, m2⟩ := h2
    refine ⟨by rw [s2, s1], by rw [st2, st1], ?_, ?_, ?_⟩
    · unfold Root.cap at *; rw [m2]; exact c1
    · rw [m2]; exact bf1
    · rw [m2]; exact af1
  · intro hf
    have hf1 := osFillVec_fresh .writable bs hf data
    have htl : totalLen (osFillVec .writable bs data) = 0 := by
      rw [osFillVec_totalLen]
      clear hwf1 hf1 hd res
      induction bs with
      | nil => simp [totalLen]
      | cons b bs ih =>
        rw [totalLen_cons, hf b (by simp)]
        simp
        exact ih (fun x hx => hw x (by simp [hx])) (fun x hx => hf x (by simp [hx]))
    have hcap := osFillVec_totalCap bs hw data
    show visibleVec (advanceVecTo _ _) = _ ∧ totalLen (advanceVecTo _ _) = _
    unfold advanceVecTo
    rw [htl]
    split
    · rw [defaultSetLen_visible _ hwf1 hf1 _ (by omega), defaultSetLen_totalLen _ hwf1 hf1 _ (by omega),
        osFillVec_window bs hw data hd]
      exact ⟨List.take_left' rfl, rfl⟩
    · next h0 =>
      have hnil : data = [] := List.eq_nil_of_length_eq_zero (by omega)
      rw [visibleVec_fresh _ hwf1 hf1, htl, hnil]
      exact ⟨rfl, rfl⟩

theorem readVecOp_writable_spec (bs : List Buf) (f : Bytes) (pos : Nat) (hw : ∀ b ∈ bs, b.wf) :
    let data := pread f pos (totalCap bs)
    let res := readVecOp .writable bs f pos
    res.1 = data.length ∧
    windowVec res.2 = data ++ (windowVec bs).drop data.length ∧
    AllPairs MemberSpec bs res.2 ∧
    (∀ b' ∈ res.2, b'.wf) ∧
    ((∀ b ∈ bs, b.bufLen = 0) → visibleVec res.2 = data ∧ totalLen res.2 = data.length) := by
  intro data res
  have e : res = (data.length, advanceVecTo (osFillVec .writable bs data) data.length) := by
    simp [res, data, readVecOp, offeredLen_writable]
  rw [e]
  exact ⟨rfl, fillVec_then_advance_spec bs data hw (pread_length_le f pos (totalCap bs))⟩

/-- **vectored reads** (`ReadVectoredAt`, `ReadVectored`, `RecvVectored`, `RecvFromVectored`, `RecvMsg`):
for every row of the regenerated table with a vectored read buffer, every range kind it hands to the OS,
every vectored layout of well-formed members: the result is the number of bytes `pread` delivers for the
total capacity; the concatenated windows hold the data followed by their old content (bytes, positions);
no member moves, resizes or changes outside its window; all members stay well formed (lengths within
capacity); and for fresh members (nothing recorded yet, e.g. `Vec::with_capacity` or `buf.slice(len..)`)
the visible content afterwards is exactly the data read. -/
theorem read_vectored_law :
    ∀ r ∈ rows, r.main = some ⟨.read, true⟩ → ∀ k ∈ r.mainKinds,
    ∀ (bs : List Buf) (f : Bytes) (pos : Nat), (∀ b ∈ bs, b.wf) →
      let data := pread f pos (totalCap bs)
      let res := readVecOp k bs f pos
      res.1 = data.length ∧
      windowVec res.2 = data ++ (windowVec bs).drop data.length ∧
      AllPairs MemberSpec bs res.2 ∧
      (∀ b' ∈ res.2, b'.wf) ∧
      ((∀ b ∈ bs, b.bufLen = 0) → visibleVec res.2 = data ∧ totalLen res.2 = data.length) := by
  intro r hr hm k hk bs f pos hw
  rw [read_row_kind hr hm] at hk
  simp at hk
  subst hk
  exact readVecOp_writable_spec bs f pos hw

/-- **writes**: every write row hands exactly the visible (initialised) bytes to the OS — never spare
capacity, never bytes outside the slice window — single and vectored -/
theorem write_law :
    ∀ r ∈ rows, ∀ v, r.main = some ⟨.write, v⟩ → ∀ k ∈ r.mainKinds,
      (∀ b : Buf, b.offeredBytes k = b.visible) ∧ (∀ bs : List Buf, offeredBytesVec k bs = visibleVec bs) := by
  intro r hr v hm k hk
  rw [write_row_kind hr hm] at hk
  simp at hk
  subst hk
  exact ⟨fun _ => rfl, fun _ => rfl⟩

/-- a vectored write (`WriteVectoredAt` hands `visibleVec`) leaves the file as the members' writes back to
back would -/
theorem writev_eq_consecutive_writes (f : Bytes) (pos : Nat) (b : Buf) (bs : List Buf) :
    pwrite f pos (visibleVec (b :: bs))
      = pwrite (pwrite f pos b.visible) (pos + b.visible.length) (visibleVec bs) := by
  rw [visibleVec_cons]; exact pwrite_append f pos _ _

/-- a vectored read delivers what consecutive single reads deliver (`preadv` = `pread`s back to back) -/
theorem pread_split (f : Bytes) (pos n m : Nat) :
    pread f pos (n + m) = pread f pos n ++ pread f (pos + n) m := by
  unfold pread
  rw [← List.drop_drop, List.take_add]

/-- what is written is what is read back through any read row (file model) -/
theorem write_then_read (f : Bytes) (pos : Nat) (b : Buf) :
    pread (pwrite f pos b.visible) pos b.visible.length = b.visible := pread_pwrite f pos b.visible

/-! ### non-vacuity -/

def exBuf : Buf := ⟨⟨[9, 9, 9, 9, 9, 9], 2⟩, 1, some 5⟩

example : exBuf.wf := by decide
example : (readOp .writable exBuf [1, 2, 3] 1).1 = 2 := by decide
example : (readOp .writable exBuf [1, 2, 3] 1).2 = ⟨⟨[9, 2, 3, 9, 9, 9], 3⟩, 1, some 5⟩ := by decide
example : (readVecOp .writable [Buf.ofRoot ⟨[7, 7], 0⟩, Buf.ofRoot ⟨[8, 8, 8], 0⟩] [1, 2, 3, 4] 1).2
    = [Buf.ofRoot ⟨[2, 3], 2⟩, Buf.ofRoot ⟨[4, 8, 8], 1⟩] := by decide

/-! ## (c) open flags = std's rules -/

/-- std's flag set (library/std/src/sys/fs/unix.rs), with `append` -/
inductive SFlag where
  | RDONLY | WRONLY | RDWR | APPEND | CREAT | TRUNC | EXCL | CLOEXEC
  deriving DecidableEq, Repr

/-- std `OpenOptions::get_access_mode` -/
def stdAccess (read write append : Bool) : Option (List SFlag) :=
  match read, write, append with
  | true, false, false => some [.RDONLY]
  | false, true, false => some [.WRONLY]
  | true, true, false => some [.RDWR]
  | false, _, true => some [.WRONLY, .APPEND]
  | true, _, true => some [.RDWR, .APPEND]
  | false, false, false => none

/-- std `OpenOptions::get_creation_mode` -/
def stdCreation (write append truncate create createNew : Bool) : Option (List SFlag) :=
  let guard : Bool :=
    match write, append with
    | true, false => true
    | false, false => !(truncate || create || createNew)
    | _, true => !(truncate && !createNew)
  if !guard then none else
  some (match create, truncate, createNew with
    | false, false, false => []
    | true, false, false => [.CREAT]
    | false, true, false => [.TRUNC]
    | true, true, false => [.CREAT, .TRUNC]
    | _, _, true => [.CREAT, .EXCL])

/-- std `File::open_c`: `O_CLOEXEC | access | creation` (no custom flags) -/
def stdOpen (read write append truncate create createNew : Bool) : Option (List SFlag) :=
  match stdAccess read write append with
  | none => none
  | some a =>
    match stdCreation write append truncate create createNew with
    | none => none
    | some c => some (.CLOEXEC :: a ++ c)

def toS : OFlag → SFlag
  | .RDONLY => .RDONLY
  | .WRONLY => .WRONLY
  | .RDWR => .RDWR
  | .CREATE => .CREAT
  | .TRUNC => .TRUNC
  | .EXCL => .EXCL
  | .CLOEXEC => .CLOEXEC

/-- the flags compio passes to `openat` (table regenerated from `open_options/unix.rs`) are std's, and the
same settings are rejected with `EINVAL`, for all 32 settings of (read, write, truncate, create, create_new) -/
theorem open_flags_eq_std (r w t c n : Bool) :
    (openFlags r w t c n).map (·.map toS) = stdOpen r w false t c n := by
  cases r <;> cases w <;> cases t <;> cases c <;> cases n <;> rfl

/-- an open succeeds in building flags iff some access is requested and creation/truncation come with write -/
theorem open_flags_valid_iff (r w t c n : Bool) :
    (openFlags r w t c n).isSome = ((r || w) && (w || !(t || c || n))) := by
  cases r <;> cases w <;> cases t <;> cases c <;> cases n <;> rfl

/-! ### custom flags and creation mode -/

open Compio.Gen.OpenFlags (customMasks defaultMode)

/-- std `File::open_c`: `custom_flags & !O_ACCMODE` (the two low bits are cleared) -/
def stdCustom (f : Nat) : Nat := f / 4 * 4

/-- what `custom_flags(f)` keeps (the masks are regenerated from `open_options/unix.rs`) is what std keeps -/
theorem custom_flags_eq_std (f : Nat) : keepCustom customMasks f = stdCustom f := by
  simp [customMasks, keepCustom, clearMask, stdCustom]

theorem flagWord_mod4 (fl : List OFlag) (a b : Nat) (h : a % 4 = b % 4) :
    flagWord fl a % 4 = flagWord fl b % 4 := by
  unfold flagWord
  induction fl generalizing a b with
  | nil => simpa using h
  | cons x xs ih =>
    simp only [List.foldl_cons]
    apply ih
    have e : (4 : Nat) = 2 ^ 2 := rfl
    rw [e, Nat.or_mod_two_pow, Nat.or_mod_two_pow, ← e, h]

/-- **custom flags never change the access mode**: for every flag list and every custom value the access
mode (two low bits) of the word passed to `openat` is the one selected with `read()`/`write()` -/
theorem custom_flags_keep_access_mode (fl : List OFlag) (f : Nat) :
    flagWord fl (keepCustom customMasks f) % 4 = flagWord fl 0 % 4 := by
  apply flagWord_mod4
  rw [custom_flags_eq_std]
  simp [stdCustom]

/-- ... which is std's: `O_RDONLY`/`O_WRONLY`/`O_RDWR` by (read, write), on all 32 settings, whatever the custom flags -/
theorem access_mode_eq_std (r w t c n : Bool) (f : Nat) (fl : List OFlag) (h : openFlags r w t c n = some fl) :
    flagWord fl (keepCustom customMasks f) % 4 = (if r && w then 2 else if w then 1 else 0) := by
  rw [custom_flags_keep_access_mode]
  cases r <;> cases w <;> cases t <;> cases c <;> cases n <;> simp [openFlags, Gen.OpenFlags.accessMode,
    Gen.OpenFlags.creationMode] at h <;> subst h <;> rfl

/-- `OpenOptions::new()` creates with std's default mode -/
theorem default_mode_eq_std : defaultMode = 0o666 := rfl

example : keepCustom customMasks (0o400000 + 1) = 0o400000 := by decide
example : flagWord [.CLOEXEC, .RDONLY] (keepCustom customMasks (0o400000 + 1)) % 4 = 0 := by decide

example : openFlags true true false true false = some [.CLOEXEC, .RDWR, .CREATE] := rfl
example : openFlags true false true false false = none := rfl

/-! ## splice: the model is driver independent exactly when the polling driver waits for pollable ends only -/

/-- with `Splice::pre_submit` waiting only for the ends epoll can poll (the proposed repair, recognised by the
extractor as `pollableEnds`) the polling driver answers every splice as io_uring does; with `bothEnds` (the
code today, finding F080) this holds for pipe-to-pipe transfers only -/
theorem splice_driver_independent (wait : Gen.OpTable.SpliceWait) (s : St) (src dst : End) (len : Nat) (oi oo : Option Nat)
    (h : wait = .pollableEnds ∨ (∃ a b, src = .pipe a ∧ dst = .pipe b)) :
    St.splice .poll wait s src dst len oi oo = St.splice .iour wait s src dst len oi oo := by
  rcases h with rfl | ⟨a, b, rfl, rfl⟩
  · simp [St.splice]
  · simp [St.splice, St.spliceCore]

/-! ## (d) directory utilities: the decision logic of `DirBuilder::create_dir_all` -/

section DirUtil

open Compio.DirUtil
open Compio.Gen.DirBuilder (firstAttempt secondAttempt)

/-! the regenerated arms, evaluated -/

theorem first_ok (b : Bool) : evalArms firstAttempt (.ok ()) b = .retOk := by
  cases b <;> rfl

theorem first_enoent (b : Bool) : evalArms firstAttempt (.error ENOENT) b = .fall := by
  cases b <;> rfl

theorem first_err (e : Nat) (he : e ≠ ENOENT) (b : Bool) :
    evalArms firstAttempt (.error e) b = if b then .retOk else .retErr := by
  have : (e == 2) = false := by simpa [ENOENT] using he
  cases b <;> simp [firstAttempt, evalArms, armMatches, this]

theorem second_ok (b : Bool) : evalArms secondAttempt (.ok ()) b = .retOk := by
  cases b <;> rfl

theorem second_err (e : Nat) (b : Bool) :
    evalArms secondAttempt (.error e) b = if b then .retOk else .retErr := by
  cases b <;> simp [secondAttempt, evalArms, armMatches]

/-- the specification of a `create_dir_all` result: `Ok` with the path a directory, or an error with the path
not a directory -/
def Good {σ : Type} (ops : FsOps σ) (r : σ × Except Nat Unit) (p : Path) : Prop :=
  match r.2 with
  | .ok _ => ops.isDir r.1 p = true
  | .error _ => ops.isDir r.1 p = false

theorem good_ok {σ : Type} (ops : FsOps σ) (s : σ) (p : Path) (h : ops.isDir s p = true) :
    Good ops (s, .ok ()) p := h

theorem good_err {σ : Type} (ops : FsOps σ) (s : σ) (p : Path) (e : Nat) (h : ops.isDir s p = false) :
    Good ops (s, .error e) p := h

/-- **`create_dir_all` answers `Ok` iff the path is a directory afterwards** — for every lawful file system,
every state and every path, with the arms REGENERATED from compio-fs/src/utils/mod.rs: `Ok(())` ⇒ the path is a
directory in the resulting state; an error ⇒ it is not. So "exists but is a regular file / a dangling symlink"
is never reported as success, and an existing directory (also behind a symlink) never as failure. -/
theorem create_dir_all_spec {σ : Type} (ops : FsOps σ) (hl : Lawful ops) :
    ∀ (fuel : Nat) (s : σ) (p : Path), p.length < fuel →
      Good ops (cda ops firstAttempt secondAttempt fuel s p) p := by
  intro fuel
  induction fuel with
  | zero => intro s p h; omega
  | succ n ih =>
    intro s p hlen
    simp only [cda]
    cases hm : ops.mkdir s p with
    | mk s1 r1 =>
      cases r1 with
      | ok u =>
        cases u
        have hok := hl.mkdir_ok s p (by rw [hm])
        rw [hm] at hok
        simp only [first_ok]
        exact good_ok ops s1 p hok
      | error e =>
        have hs1 : s1 = s := by
          have := hl.mkdir_err s p e (by rw [hm]); rw [hm] at this; exact this
        subst hs1
        by_cases he : e = ENOENT
        · subst he
          simp only [first_enoent]
          cases p with
          | nil =>
            have h1 := hl.mkdir_enoent s1 [] (by rw [hm])
            rw [hl.root] at h1; cases h1
          | cons c cs =>
            have hl2 : (c :: cs).dropLast.length < n := by
              simp only [List.length_dropLast, List.length_cons] at *; omega
            have ih2 := ih s1 (c :: cs).dropLast hl2
            simp only []
            cases hr : (cda ops firstAttempt secondAttempt n s1 (c :: cs).dropLast).2 with
            | error e2 =>
              simp only []
              apply good_err
              unfold Good at ih2
              rw [hr] at ih2
              cases hd : ops.isDir (cda ops firstAttempt secondAttempt n s1 (c :: cs).dropLast).1 (c :: cs) with
              | false => rfl
              | true =>
                have := hl.parent _ _ hd
                rw [ih2] at this; cases this
            | ok u2 =>
              cases u2
              simp only []
              cases hm3 : ops.mkdir (cda ops firstAttempt secondAttempt n s1 (c :: cs).dropLast).1 (c :: cs) with
              | mk s3 r3 =>
                cases r3 with
                | ok u3 =>
                  cases u3
                  have hok := hl.mkdir_ok _ (c :: cs) (by rw [hm3])
                  rw [hm3] at hok
                  simp only [second_ok]
                  exact good_ok ops s3 _ hok
                | error e3 =>
                  simp only [second_err]
                  cases hb : ops.isDir s3 (c :: cs) with
                  | true => simp only [if_true]; exact good_ok ops s3 _ hb
                  | false => simp only [Bool.false_eq_true, if_false, errOf]; exact good_err ops s3 _ e3 hb
        · simp only [first_err e he]
          cases hb : ops.isDir s1 p with
          | true => simp only [if_true]; exact good_ok ops s1 p hb
          | false => simp only [Bool.false_eq_true, if_false, errOf]; exact good_err ops s1 p e hb

/-- the two directions spelled out -/
theorem create_dir_all_ok_iff_dir {σ : Type} (ops : FsOps σ) (hl : Lawful ops) (s : σ) (p : Path) :
    let r := cda ops firstAttempt secondAttempt (p.length + 1) s p
    (r.2 = .ok () ↔ ops.isDir r.1 p = true) := by
  intro r
  have h := create_dir_all_spec ops hl (p.length + 1) s p (by omega)
  unfold Good at h
  show r.2 = .ok () ↔ ops.isDir r.1 p = true
  change (match r.2 with | .ok _ => ops.isDir r.1 p = true | .error _ => ops.isDir r.1 p = false) at h
  cases hr : r.2 with
  | ok u => cases u; rw [hr] at h; simp [h]
  | error e => rw [hr] at h; simp [h]

/-- the concrete tree the model driver runs (`Ns`, with symbolic links) uses the very same function -/
theorem ns_create_dir_all_spec (h : Lawful Ns.ops) (ns : Ns) (p : Path) :
    Good Ns.ops (ns.createDirAll p) p :=
  create_dir_all_spec Ns.ops h (p.length + 1) ns p (by omega)

/-! ### the laws are satisfiable: a plain tree of directories (no files, no links) -/

/-- a parent-closed set of directories containing the root -/
structure PlainTree where
  has : Path → Bool
  root : has [] = true
  closed : ∀ p, has p = true → has p.dropLast = true

def PlainTree.mkdir (t : PlainTree) (p : Path) : PlainTree × Except Nat Unit :=
  if hp : t.has p = true then (t, .error EEXIST)
  else if hq : t.has p.dropLast = true then
    (⟨fun q => q == p || t.has q, by simp [t.root], by
        intro q hq'
        simp only [Bool.or_eq_true, beq_iff_eq] at hq' ⊢
        rcases hq' with rfl | h
        · exact Or.inr hq
        · exact Or.inr (t.closed q h)⟩, .ok ())
  else (t, .error ENOENT)

def plainOps : FsOps PlainTree := ⟨PlainTree.mkdir, fun t p => t.has p⟩

theorem plain_lawful : Lawful plainOps where
  root := fun s => s.root
  mkdir_ok := by
    intro s p h
    simp only [plainOps, PlainTree.mkdir] at h ⊢
    by_cases hp : s.has p = true
    · simp [hp] at h
    · by_cases hq : s.has p.dropLast = true
      · simp [hp, hq]
      · simp [hp, hq] at h
  mkdir_err := by
    intro s p e h
    simp only [plainOps, PlainTree.mkdir] at h ⊢
    split
    · rfl
    · split
      · rename_i h1 h2; simp [h1, h2] at h
      · rfl
  mkdir_enoent := by
    intro s p h
    simp only [plainOps, PlainTree.mkdir] at h ⊢
    split at h
    · simp [EEXIST, ENOENT] at h
    · rename_i hp
      simpa using hp
  parent := fun s p h => s.closed p h

/-- unconditional instance: on a plain tree `create_dir_all` is `Ok` iff the path is a directory afterwards -/
theorem plain_create_dir_all_spec (t : PlainTree) (p : Path) :
    Good plainOps (cda plainOps firstAttempt secondAttempt (p.length + 1) t p) p :=
  create_dir_all_spec plainOps plain_lawful (p.length + 1) t p (by omega)

/-! ### non-vacuity on the tree with links: file, directory, links to both, dangling link -/

def exNs : Ns :=
  { ents := [(["f"], .file 0), (["d"], .dir), (["lf"], .link 1 ["f"]), (["ld"], .link 2 ["d"]),
             (["dang"], .link 3 ["nowhere"])], nextIno := 4 }

example : (exNs.createDirAll ["f"]).2 = .error EEXIST := by rfl
example : (exNs.createDirAll ["dang"]).2 = .error EEXIST := by rfl
example : (exNs.createDirAll ["lf"]).2 = .error EEXIST := by rfl
example : (exNs.createDirAll ["ld"]).2 = .ok () := by rfl
example : (exNs.createDirAll ["f", "x"]).2 = .error ENOTDIR := by rfl
example : (exNs.createDirAll ["ld", "x", "y"]).2 = .ok () := by rfl
example : Ns.isDir (exNs.createDirAll ["ld", "x", "y"]).1 ["d", "x", "y"] = true := by rfl

end DirUtil

end Compio.Props.C08
