/-
C10 — all buffer views obey one contract.
Property theorems only (helper lemmas live in Compio/Lemmas/View.lean and ViewVec.lean). The statements
quantify over every root kind, every length/capacity/content, every nesting of `Slice` / `Uninit` layers
(`Buf` is an inductive stack of arbitrary depth), every in-range parameter and every operation sequence.

Guard used where finding F6 makes the unguarded statement false: `Buf.Fresh` — every `Uninit` layer of the
stack still sits at the end of the initialised part of what it wraps, i.e. nothing has been recorded through
it yet ("first fill"). Stacks without `Uninit` layers are always fresh (`slice_stacks_are_fresh`).
-/
import Compio.Lemmas.View
import Compio.Lemmas.ViewVec
import Compio.Lemmas.ViewOps
import Compio.Lemmas.ViewAppend
import Compio.Gen.PoolBufRef

namespace Compio.Props.C10
open Compio Compio.View

/-! ## 1. Reported ranges lie inside the allocation, initialised inside writable -/

/-- the initialised range a view reports lies inside the initialised part of the root — for every view
stack whatsoever (also a re-used `Uninit`) -/
theorem init_inside_initialised_root (v : Buf) (o l : Nat) (h : v.asInit = .ok (o, l)) :
    o + l ≤ v.getRoot.len :=
  (Buf.asInit_inside h).2

/-- the writable range a view reports lies inside the root allocation — for every view stack whatsoever -/
theorem writable_inside_allocation (v : Buf) (o c : Nat) (h : v.asUninit = .ok (o, c)) :
    o + c ≤ v.getRoot.cap :=
  (Buf.asUninit_inside h).2

/-- initialised bytes are a prefix of the writable region (same start, not longer) for every fresh stack -/
theorem init_is_prefix_of_writable (v : Buf) (hw : v.getRoot.WF) (hf : v.Fresh) (oi li ou lu : Nat)
    (hi : v.asInit = .ok (oi, li)) (hu : v.asUninit = .ok (ou, lu)) : oi = ou ∧ li ≤ lu := by
  obtain ⟨h1, h2, _⟩ := Buf.fresh_aligned hf hw.le hi hu
  exact ⟨h1, h2⟩

/-- consequently: initialised ⊆ writable ⊆ allocation -/
theorem init_sub_writable_sub_allocation (v : Buf) (hw : v.getRoot.WF) (hf : v.Fresh) (oi li ou lu : Nat)
    (hi : v.asInit = .ok (oi, li)) (hu : v.asUninit = .ok (ou, lu)) :
    ou ≤ oi ∧ oi + li ≤ ou + lu ∧ ou + lu ≤ v.getRoot.cap := by
  obtain ⟨h1, h2, _⟩ := Buf.fresh_aligned hf hw.le hi hu
  have := (Buf.asUninit_inside hu).2
  simp only at h1 h2 this
  omega

/-- every nesting of slices (no `Uninit` layer) is fresh, whatever has been done through it -/
theorem slice_stacks_are_fresh (v : Buf) (h : v.NoUninit) : v.Fresh := h.fresh

/-- `uninit()` of a fresh view is fresh (this is the "first fill" situation) -/
theorem uninit_of_fresh_is_fresh (v u : Buf) (hf : v.Fresh) (h : v.mkUninit = .ok u) : u.Fresh := by
  obtain ⟨o, li, hi, rfl⟩ := Buf.mkUninit_ok h
  exact ⟨hf, o, hi⟩

/-- `slice(range)` of a fresh view is fresh -/
theorem slice_of_fresh_is_fresh (v s : Buf) (b : Nat) (e : Option Nat) (hf : v.Fresh)
    (h : v.mkSlice b e = .ok s) : s.Fresh := by
  obtain ⟨rfl, _⟩ := Buf.mkSlice_ok h
  exact hf

/-! ## 2. `len ≤ cap` is preserved by every operation of every program -/

/-- one step (view constructor, fill, `set_len` / `advance_to` / `advance` under the documented contract,
`clear`, `into_inner`) keeps the root well formed -/
theorem step_preserves_len_le_cap (v v' : Buf) (op : Op) (hw : v.getRoot.WF) (h : v.step op = .ok v') :
    v'.getRoot.len ≤ v'.getRoot.cap :=
  (Buf.step_wf hw h).le

/-- ... and so does every program -/
theorem program_preserves_len_le_cap (v v' : Buf) (ops : List Op) (hw : v.getRoot.WF)
    (h : v.run ops = .ok v') : v'.getRoot.len ≤ v'.getRoot.cap :=
  (Buf.run_wf hw h).le

/-- the documented contract of `set_len` is sufficient through any view stack: it never becomes a root
`set_len` beyond the capacity (no panic, no UB), whatever the nesting -/
theorem set_len_contract_suffices (v : Buf) (o c n : Nat) (hw : v.getRoot.WF)
    (hu : v.asUninit = .ok (o, c)) (hn : n ≤ c) : ∃ v', v.setLen n = .ok v' :=
  Buf.setLen_ok_of_contract hw hu hn

/-! ## 3. The fill law -/

/-- **Fill law** (exact form): on a fresh view, writing `data` at the start of the writable region
`(o, c)` (`|data| ≤ c`) and recording it with `advance_to(|data|)` succeeds, leaves the view stack unchanged and
turns the root into: same kind, `len = max len (o + |data|)`, memory = old memory with `data` at `o`. -/
theorem fill_law (v : Buf) (hw : v.getRoot.WF) (hf : v.Fresh) (oi li o c : Nat)
    (hi : v.asInit = .ok (oi, li)) (hu : v.asUninit = .ok (o, c)) (data : Bytes) (hk : data.length ≤ c) :
    v.fill data = .ok (v.setRoot { v.getRoot with
      len := max v.getRoot.len (o + data.length), mem := splice v.getRoot.mem o data }) :=
  Buf.fill_law hw hf hi hu data hk

/-- ... so exactly those bytes are visible, at the positions where they were written, as initialised
bytes of the root; every other byte of the root allocation is untouched; the root's initialised length never
shrinks; and the view itself afterwards reports them as the first `|data|` initialised bytes -/
theorem fill_makes_bytes_visible (v v' : Buf) (hw : v.getRoot.WF) (hf : v.Fresh) (oi li o c : Nat)
    (hi : v.asInit = .ok (oi, li)) (hu : v.asUninit = .ok (o, c)) (data : Bytes) (hk : data.length ≤ c)
    (h : v.fill data = .ok v') :
    -- the written bytes, at their positions, inside the initialised part of the root
    (v'.getRoot.mem.drop o).take data.length = data ∧ o + data.length ≤ v'.getRoot.len ∧
    -- everything else untouched, nothing lost
    (∀ j, j < o ∨ o + data.length ≤ j → v'.getRoot.mem[j]? = v.getRoot.mem[j]?) ∧
    v.getRoot.len ≤ v'.getRoot.len ∧ v'.getRoot.cap = v.getRoot.cap ∧
    -- the view reports them: its initialised range starts at `o` and covers the written bytes
    v'.asInit = .ok (o, max li data.length) := by
  rw [fill_law v hw hf oi li o c hi hu data hk] at h
  cases h
  have hin := (Buf.asUninit_inside hu).2
  simp only [Root.cap] at hin
  have hfit : o + data.length ≤ v.getRoot.mem.length := by omega
  obtain ⟨ha1, ha2, ha3⟩ := Buf.fresh_aligned hf hw.le hi hu
  simp only at ha1 ha2 ha3
  subst ha1
  have hroot := (Buf.asInit_inside hi).2
  simp only at hroot
  refine ⟨?_, ?_, ?_, ?_, ?_, ?_⟩
  · simpa using splice_read _ _ _ hfit
  · simp only [Buf.getRoot_setRoot]; omega
  · intro j hj
    simpa using splice_other _ _ _ hfit j hj
  · simp only [Buf.getRoot_setRoot]; omega
  · simp only [Buf.getRoot_setRoot, Root.cap]; exact splice_length _ _ _ hfit
  · by_cases hgt : data.length ≤ li
    · have hl : max v.getRoot.len (oi + data.length) = v.getRoot.len := by omega
      rw [Buf.asInit_setRoot_mem v _ (by simp only; exact hl), hi]
      have : max li data.length = li := by omega
      rw [this]
    · have hl : max v.getRoot.len (oi + data.length) = oi + data.length := by
        have := ha3 (by omega); omega
      have : max li data.length = data.length := by omega
      rw [this]
      exact Buf.asInit_after_grow hf hw.le hi hu (by omega) hk _ (by simp only; exact hl)

/-- **Any sequence of fills through one slice stack** (any nesting depth, no `Uninit` layer): every fill
of the sequence obeys the fill law — the final root is the fold of `fillRoot` over the sequence, the view
stack is unchanged. (For `Uninit` this fails at the second fill: `Cex/C10`.) -/
theorem fill_sequence_on_slice_stack (ds : List Bytes) (v : Buf) (hn : v.NoUninit) (hw : v.getRoot.WF)
    (oi li o c : Nat) (hi : v.asInit = .ok (oi, li)) (hu : v.asUninit = .ok (o, c))
    (hk : ∀ d ∈ ds, d.length ≤ c) :
    v.run (ds.map Op.fill) = .ok (v.setRoot (ds.foldl (fillRoot o) v.getRoot)) := by
  induction ds generalizing v oi li with
  | nil => simp [Buf.run]
  | cons d rest ih =>
    have hd : d.length ≤ c := hk d (by simp)
    have hstep := fill_law v hw hn.fresh oi li o c hi hu d hd
    simp only [List.map_cons, Buf.run, Buf.step, hstep, List.foldl_cons]
    have hvis := fill_makes_bytes_visible v _ hw hn.fresh oi li o c hi hu d hd hstep
    obtain ⟨_, _, _, _, hcap, hinit⟩ := hvis
    have hw' := Buf.fill_wf hw hstep
    have hu' : (v.setRoot (fillRoot o v.getRoot d)).asUninit = .ok (o, c) := by
      rw [Buf.NoUninit.asUninit_setRoot hn _ (by simpa [fillRoot] using hcap)]
      exact hu
    have := ih (v.setRoot (fillRoot o v.getRoot d)) (Buf.NoUninit_setRoot _ hn) hw' _ _
      (by simpa [fillRoot] using hinit) hu' (fun x hx => hk x (by simp [hx]))
    simpa [fillRoot] using this

/-- **First fill of an `Uninit`** over a root: `k ≤ cap - len` bytes written through `root.uninit()` and
recorded with `advance_to(k)` are appended to the root: `len' = len + k`, the bytes sit at `len .. len + k`,
nothing else changes. -/
theorem uninit_first_fill (r : Root) (hw : r.WF) (data : Bytes) (hk : data.length ≤ r.cap - r.len) :
    ∃ u, (Buf.root r).mkUninit = .ok u ∧
      u.fill data = .ok (u.setRoot { r with len := r.len + data.length, mem := splice r.mem r.len data }) := by
  refine ⟨.uninit (.root r) r.len, rfl, ?_⟩
  have hf : (Buf.uninit (.root r) r.len).Fresh := ⟨trivial, 0, rfl⟩
  have hle := hw.le
  have hi : (Buf.uninit (.root r) r.len).asInit = .ok (r.len, 0) := by
    simp [Buf.asInit, subRange]
  have hu : (Buf.uninit (.root r) r.len).asUninit = .ok (r.len, r.cap - r.len) := by
    simp [Buf.asUninit, Buf.asInit, subRange, hle]
  have := fill_law _ (by simpa [Buf.getRoot] using hw) hf _ _ _ _ hi hu data hk
  simp only [Buf.getRoot] at this
  rw [this]
  have hm : max r.len (r.len + data.length) = r.len + data.length := by omega
  rw [hm]

/-! ## 4. `flatten` -/

/-- `Slice<Slice<T>>::flatten` reports exactly the ranges of the nested slice it replaces (including the
cases where those panic) and forwards `set_len` to the same place -/
theorem flatten_reports_same_view (v : Buf) (n : Nat) :
    v.flatten.asInit = v.asInit ∧ v.flatten.asUninit = v.asUninit ∧
    (v.flatten.setLen n).toOption.map Buf.getRoot = (v.setLen n).toOption.map Buf.getRoot := by
  refine ⟨Buf.flatten_asInit v, Buf.flatten_asUninit v, ?_⟩
  rw [Buf.setLen_eq, Buf.setLen_eq, Buf.flatten_off, Buf.getRoot_flatten]
  cases v.getRoot.setLen (v.off + n) <;> simp [Except.toOption]

/-! ## 4b. `Writer` / `extend_from_slice` and `Reader` -/

/-- **Append law** of `extend_from_slice` / `Writer::write` on a fresh view: when `reserve` agrees and the
data fits (`li + |data| ≤ c`), the bytes are stored right behind the view's initialised bytes and recorded:
root `= fillRoot (o + li) root data`. (On a re-used `Uninit` the copy is aimed at `begin + 2·len` — possibly
outside the allocation: `Cex/C10`.) -/
theorem extend_law (v : Buf) (hw : v.getRoot.WF) (hf : v.Fresh) (oi li o c : Nat)
    (hi : v.asInit = .ok (oi, li)) (hu : v.asUninit = .ok (o, c)) (data : Bytes)
    (hres : v.reserve data.length = .ok (some true)) (hk : li + data.length ≤ c) :
    ∃ v', v.extend data = .done v' ∧ v' = v.setRoot (fillRoot (o + li) v.getRoot data) := by
  obtain ⟨ha1, ha2, ha3⟩ := Buf.fresh_aligned hf hw.le hi hu
  obtain ⟨hi1, hi2⟩ := Buf.asInit_inside hi
  obtain ⟨hu1, hu2⟩ := Buf.asUninit_inside hu
  simp only at ha1 ha2 ha3 hi1 hi2 hu1 hu2
  subst ha1
  have hfit : oi + li + data.length ≤ v.getRoot.cap := by omega
  unfold Buf.extend
  simp only [hi, hres, hu, hfit, or_true, if_true]
  unfold Buf.advanceTo
  rw [Buf.asInit_write, hi]
  simp only
  by_cases hpos : data.length = 0
  · have hnil : data = [] := List.length_eq_zero_iff.mp hpos
    subst hnil
    simp only [List.length_nil, Nat.add_zero, Nat.lt_irrefl, gt_iff_lt, if_false]
    refine ⟨_, rfl, ?_⟩
    simp only [Buf.write, fillRoot, List.length_nil, Nat.add_zero]
    have : max v.getRoot.len (oi + li) = v.getRoot.len := by omega
    rw [this]
  · have hgt : li + data.length > li := by omega
    simp only [hgt, if_true]
    have hlen : oi + li = v.getRoot.len := ha3 (by omega)
    rw [Buf.setLen_eq]
    simp only [Buf.getRoot_write, Buf.off_write, ← hi1]
    simp only [Root.cap] at hfit
    have hsp : (splice v.getRoot.mem (oi + li) data).length = v.getRoot.mem.length :=
      splice_length _ _ _ (by omega)
    have hwf2 : ({ v.getRoot with mem := splice v.getRoot.mem (oi + li) data } : Root).WF := by
      constructor
      · simp only [Root.cap, hsp]; exact hw.le
      · intro hkind; simp only [Root.cap, hsp]; exact hw.full hkind
    rw [Root.setLen_of_ge _ _ hwf2 (by simp only; omega) (by simp only [Root.cap, hsp]; omega)]
    refine ⟨_, rfl, ?_⟩
    simp only [Buf.write, Buf.setRoot_setRoot, fillRoot]
    have : max v.getRoot.len (oi + li + data.length) = oi + (li + data.length) := by omega
    rw [this]

/-- `Reader::read(n)` delivers the next `min(n, remaining)` initialised bytes of the view, in order, and
moves on by exactly that many; the buffer itself is untouched -/
theorem reader_delivers_in_order (v v' : Buf) (n : Nat) (d : Bytes) (h : readerRead v n = .ok (d, v')) :
    ∃ o l, v.asInit = .ok (o, l) ∧ d = (v.getRoot.mem.drop o).take (min n l) ∧
      v'.asInit = .ok (o + min n l, l - min n l) ∧ v'.getRoot = v.getRoot := by
  unfold readerRead at h
  split at h
  · rename_i i b
    cases hs : (Buf.slice i b none).asInit with
    | error f => simp [hs] at h
    | ok p =>
      obtain ⟨o, l⟩ := p
      simp only [hs] at h
      cases hi : i.asInit with
      | error f => simp [hi] at h
      | ok q =>
        obtain ⟨oi, li⟩ := q
        simp only [hi] at h
        split at h
        · rename_i hb
          cases h
          refine ⟨o, l, rfl, rfl, ?_, rfl⟩
          simp only [Buf.asInit, hi] at hs ⊢
          obtain ⟨hb0, heq⟩ := subRange_ok hs
          cases heq
          simp only [Option.getD_none, Nat.min_self] at hb0 hb ⊢
          rw [subRange_of_le (by simpa using hb)]
          simp only [Option.getD_none, Nat.min_self, Except.ok.injEq, Prod.mk.injEq]
          omega
        · cases h
  · cases h

/-- the append law holds for the function the driver runs (`extendWith`, with or without a capacity answer)
whenever no growth is needed … -/
theorem extend_with_law (v : Buf) (hw : v.getRoot.WF) (hf : v.Fresh) (oi li o c : Nat)
    (hi : v.asInit = .ok (oi, li)) (hu : v.asUninit = .ok (o, c)) (data : Bytes) (ans : Option Nat)
    (hres : v.reserve data.length = .ok (some true)) (hk : li + data.length ≤ c) :
    v.extendWith data ans = .done (v.setRoot (fillRoot (o + li) v.getRoot data)) := by
  rw [Buf.extendWith_eq_extend hres]
  obtain ⟨v', h1, h2⟩ := extend_law v hw hf oi li o c hi hu data hres hk
  rw [h1, h2]

/-- … and when the root has to grow it is the growth-free `extend` of the grown buffer (to which
`extend_law` applies: same view stack, same initialised bytes, larger capacity) -/
theorem extend_with_growth (v v1 : Buf) (hw : v.getRoot.WF) (data : Bytes) (ans : Option Nat) (out : ResOut)
    (h : v.reserveWith data.length false ans = .done v1 out) :
    v.extendWith data ans = v1.extend data ∧ v1.asInit = v.asInit ∧ v1.reserve data.length = .ok (some true) := by
  refine ⟨Buf.extendWith_after_growth hw.le h, ?_, ?_⟩
  · obtain ⟨_, r', hroot, rfl⟩ := Buf.reserveWith_done h
    exact Buf.asInit_setRoot_mem v r' (Root.reserveWith_done hw.le hroot).2.1
  · obtain ⟨hr, r', hroot, rfl⟩ := Buf.reserveWith_done h
    obtain ⟨_, hl, _, _, hcap, _⟩ := Root.reserveWith_done hw.le hroot
    rw [Buf.reserve_eq_reaches]
    refine ⟨by rw [Buf.reserveReaches_setRoot]; exact hr, ?_⟩
    simp only [Buf.getRoot_setRoot]
    have := hcap (Root.reserveWith_nonexact hroot)
    omega

/-! ## 4c. The derived methods: `reserve`, `ensure_init`, `as_mut_slice`, `copy_within`, `is_filled` -/

/-- **Reserve law** (`reserve` and `reserve_exact`, any view stack, any answer of the allocator): a call that
returns `Ok` or `ExactSizeMismatch` leaves the view stack, the root's kind, its length and its initialised bytes
as they are and never shrinks the capacity; after `Ok` the root has room for `additional` more bytes. Every other
outcome (`NotSupported`, `ReserveFailed`, a request that is not issued) has no successor state at all. -/
theorem reserve_law (v v' : Buf) (hw : v.getRoot.WF) (n : Nat) (exact : Bool) (ans : Option Nat) (out : ResOut)
    (h : v.reserveWith n exact ans = .done v' out) :
    v' = v.setRoot v'.getRoot ∧ v'.getRoot.kind = v.getRoot.kind ∧ v'.getRoot.len = v.getRoot.len ∧
    v'.getRoot.mem.take v.getRoot.len = v.getRoot.mem.take v.getRoot.len ∧
    v.getRoot.cap ≤ v'.getRoot.cap ∧ (out = .ok → v.getRoot.len + n ≤ v'.getRoot.cap) ∧
    v'.getRoot.len ≤ v'.getRoot.cap ∧ v'.asInit = v.asInit := by
  obtain ⟨_, r', hroot, rfl⟩ := Buf.reserveWith_done h
  obtain ⟨hk, hl, hm, hc, ho, hle⟩ := Root.reserveWith_done hw.le hroot
  simp only [Buf.getRoot_setRoot, Buf.setRoot_setRoot]
  exact ⟨trivial, hk, hl, hm, hc, ho, hle, Buf.asInit_setRoot_mem v r' hl⟩

/-- a fixed-size `Slice` (one with an end) refuses every `reserve`, also one that would fit -/
theorem bounded_slice_refuses_reserve (i : Buf) (b e n : Nat) (exact : Bool) (ans : Option Nat) :
    (Buf.slice i b (some e)).reserveWith n exact ans = .notSupported := by
  simp [Buf.reserveWith, Buf.reserveReaches]

/-- **`ensure_init`**: returns the whole writable region `(o, c)`; afterwards that region holds the old
initialised prefix followed by zeros, every byte outside `o + li .. o + c` is untouched, and neither the root's
length nor the view's ranges change (`set_len` is not called) -/
theorem ensure_init_law (v v' : Buf) (p : Nat × Nat) (h : v.ensureInit = .ok (v', p)) :
    ∃ oi li o c, v.asInit = .ok (oi, li) ∧ v.asUninit = .ok (o, c) ∧ p = (o, c) ∧ li ≤ c ∧
      (v'.getRoot.mem.drop (o + li)).take (c - li) = List.replicate (c - li) 0 ∧
      (∀ j, j < o + li ∨ o + c ≤ j → v'.getRoot.mem[j]? = v.getRoot.mem[j]?) ∧
      v'.getRoot.len = v.getRoot.len ∧ v'.asInit = v.asInit ∧ v'.asUninit = v.asUninit := by
  unfold Buf.ensureInit at h
  cases hi : v.asInit with
  | error f => simp [hi] at h
  | ok pi =>
    obtain ⟨oi, li⟩ := pi
    simp only [hi] at h
    cases hu : v.asUninit with
    | error f => simp [hu] at h
    | ok pu =>
      obtain ⟨o, c⟩ := pu
      simp only [hu] at h
      split at h
      · rename_i hle
        cases h
        have hin := (Buf.asUninit_inside hu).2
        simp only [Root.cap] at hin
        have hfit : o + li + (List.replicate (c - li) (0 : UInt8)).length ≤ v.getRoot.mem.length := by
          simp only [List.length_replicate]; omega
        refine ⟨oi, li, o, c, rfl, rfl, rfl, hle, ?_, ?_, by simp, ?_, ?_⟩
        · have := splice_read v.getRoot.mem (o + li) (List.replicate (c - li) 0) hfit
          simpa using this
        · intro j hj
          have := splice_other v.getRoot.mem (o + li) (List.replicate (c - li) 0) hfit j
            (by simp only [List.length_replicate]; omega)
          simpa using this
        · rw [Buf.asInit_write]; exact hi
        · rw [Buf.asUninit_write _ _ _ (by simp only [List.length_replicate, Root.cap]; omega)]; exact hu
      · cases h

/-- **`as_mut_slice`** of a fresh view is exactly its `as_init` range (same bytes, mutable) -/
theorem as_mut_slice_is_as_init (v : Buf) (hw : v.getRoot.WF) (hf : v.Fresh) (oi li o c : Nat)
    (hi : v.asInit = .ok (oi, li)) (hu : v.asUninit = .ok (o, c)) : v.asMutSlice = .ok (oi, li) := by
  obtain ⟨h1, _, _⟩ := Buf.fresh_aligned hf hw.le hi hu
  have h2 := (Buf.asInit_inside hi).2
  simp only at h1 h2
  subst h1
  have := hw.le
  simp only [Buf.asMutSlice, hi, hu]
  rw [if_pos (by omega)]

/-- **`copy_within(s..e, dest)`**: panics exactly outside `s ≤ e ≤ c ∧ dest + (e - s) ≤ c`; otherwise the bytes
at `dest` are the old bytes of `s..e` (positions relative to the view's writable region), every other byte of the
root is untouched, and no length changes -/
theorem copy_within_law (v : Buf) (s e dest o c : Nat) (hu : v.asUninit = .ok (o, c)) :
    (¬ (s ≤ e ∧ e ≤ c ∧ dest + (e - s) ≤ c) → v.copyWithin s e dest = .error .panic) ∧
    (s ≤ e ∧ e ≤ c ∧ dest + (e - s) ≤ c → ∃ v', v.copyWithin s e dest = .ok v' ∧
      (v'.getRoot.mem.drop (o + dest)).take (e - s) = (v.getRoot.mem.drop (o + s)).take (e - s) ∧
      (∀ j, j < o + dest ∨ o + dest + (e - s) ≤ j → v'.getRoot.mem[j]? = v.getRoot.mem[j]?) ∧
      v'.getRoot.len = v.getRoot.len ∧ v'.getRoot.cap = v.getRoot.cap) := by
  have hin := (Buf.asUninit_inside hu).2
  simp only [Root.cap] at hin
  constructor
  · intro hn
    simp only [Buf.copyWithin, hu, hn, if_false]
  · intro hr
    simp only [Buf.copyWithin, hu, hr, and_self, if_true]
    have hlen : ((v.getRoot.mem.drop (o + s)).take (e - s)).length = e - s := by
      simp only [List.length_take, List.length_drop]; omega
    have hfit : o + dest + ((v.getRoot.mem.drop (o + s)).take (e - s)).length ≤ v.getRoot.mem.length := by
      rw [hlen]; omega
    refine ⟨_, rfl, ?_, ?_, by simp, ?_⟩
    · have := splice_read v.getRoot.mem (o + dest) _ hfit
      rw [hlen] at this
      simpa using this
    · intro j hj
      have := splice_other v.getRoot.mem (o + dest) _ hfit j (by rw [hlen]; exact hj)
      simpa using this
    · simp only [Buf.getRoot_write, Root.cap]
      exact splice_length _ _ _ hfit

/-- **`is_filled`** says `buf_len() == buf_capacity()`; after a fill of the whole writable region of a fresh
view it is true -/
theorem is_filled_iff (v : Buf) (oi li o c : Nat) (hi : v.asInit = .ok (oi, li)) (hu : v.asUninit = .ok (o, c)) :
    v.isFilled = .ok (li == c) := by
  simp [Buf.isFilled, hi, hu]

/-! ## 5. Vectored buffers -/

/-- a single-buffer fill of a fresh view *is* `fillRoot` on its root (restating `fill_law` with the function
the vectored theorems use) -/
theorem fill_is_fillRoot (v : Buf) (hw : v.getRoot.WF) (hf : v.Fresh) (oi li o c : Nat)
    (hi : v.asInit = .ok (oi, li)) (hu : v.asUninit = .ok (o, c)) (data : Bytes) (hk : data.length ≤ c) :
    v.fill data = .ok (v.setRoot (fillRoot o v.getRoot data)) :=
  fill_law v hw hf oi li o c hi hu data hk

/-- **Vectored fill law, `default_set_len` containers** (`Vec<T>`, `[T; N]`, `ArrayVec<T, N>`,
`SmallVec<[T; N]>`): for packed members (full members, then at most one partially filled one, then empty ones;
each a fresh view whose initialised part ends where its root's does) and `|d| ≤` total capacity, writing `d`
across `iter_uninit_slice()` and recording it with `advance_vec_to(|d|)` succeeds and is exactly the
member-wise single-buffer fill: member `i` receives the chunk of `d` that falls into its capacity, at the
start of its writable region (`fillMember` = `setRoot (fillRoot o root chunk)`), nothing else changes.
`default_set_len` thus distributes the total over the members by capacity. Without packedness the statement
is false in the code (finding V3, `Cex/C10`). -/
theorem vectored_fill_law_list (ms : List Buf) (d : Bytes) (hp : Packed ms) (hc : d.length ≤ capSum ms) :
    (VBuf.base .list ms).fill d = .ok (.base .list (fillMembers ms d)) :=
  VBuf.fill_list_packed ms d hp hc

/-- the same for the tuple containers `(T, (T, … (T,)))` and `(T, (T, … ()))` -/
theorem vectored_fill_law_tuple (k : VKind) (hk : k ≠ .list) (ms : List Buf) (d : Bytes) (hp : Packed ms)
    (hc : d.length ≤ capSum ms) :
    (VBuf.base k ms).fill d = .ok (.base k (fillMembers ms d)) :=
  VBuf.fill_tuple_packed k hk ms d hp hc

/-- members after the end of the data are not touched at all by a vectored fill -/
theorem vectored_fill_leaves_rest (ms : List Buf) (hg : GoodAll ms) : fillMembers ms [] = ms :=
  fillMembers_nil hg

/-- `VectoredSlice::set_len(n)` is the wrapped buffer's `set_len(begin + n)`, whatever the nesting -/
theorem vectored_slice_set_len (i : VBuf) (b x o n : Nat) :
    (VBuf.vslice i b x o).setLen n =
      match i.setLen (b + n) with
      | .ok i' => .ok (.vslice i' b x o)
      | .error f => .error f := rfl

/-- `slice_mut(begin)` starts exactly at capacity position `begin`: it skips `j` whole members whose
capacities, plus the offset into member `j`, add up to `begin`, and the offset lies strictly inside that member
(or all members are skipped). Together with `vectored_slice_set_len` (`set_len(begin + n)`) this places a fill
through the slice at capacity positions `begin ..` of the wrapped buffer. -/
theorem slice_mut_starts_at_begin (k : VKind) (ms : List Buf) (hg : GoodAll ms) (begin : Nat) :
    ∃ j off, (VBuf.base k ms).mkSliceMut begin = .ok (.vslice (.base k ms) begin j off) ∧
      j ≤ ms.length ∧ capSum (ms.take j) + off = begin ∧ (∀ m, ms[j]? = some m → off < memberCap m) := by
  obtain ⟨j, off, h1, h2, h3, h4⟩ := skipCount_asUninit ms 0 begin 0 hg
  refine ⟨j, off, ?_, h2, h3, h4⟩
  simp only [VBuf.mkSliceMut, VBuf.iterUninit, h1, Nat.zero_add]

/-- **Fill law through a `VectoredSlice`** (`slice_mut(begin)` of a packed `default_set_len` container, the
`read_exact` loop): let the container be full members `pre`, a member `m` (`(o, li, c)`), then `rest`, with `m` full
and `rest` packed, or `rest` all empty; let `begin = capSum pre + off` with `off ≤ li`, `off < c` (so `begin ≤`
total_len). Then `slice_mut(begin)` is the slice `(idx = |pre|, offset = off)`, and writing `d` (`|d| ≤` the slice's
capacity) through it + `advance_vec_to(|d|)` succeeds and is: `pre` untouched, the first chunk stored and recorded
`off` bytes into `m` (`fillMemberAt` = `setRoot (fillRoot (o + off) root chunk)`), the following chunks as ordinary
member-wise fills of `rest` — i.e. exactly the bytes written become visible at their positions, nothing else changes. -/
theorem vectored_slice_fill_law (pre : List Buf) (m : Buf) (rest : List Buf) (o li c off : Nat) (d : Bytes)
    (hpre : AllFull pre) (hm : GoodM m o li c) (hoff : off ≤ li) (hoffc : off < c)
    (hshape : (li = c ∧ Packed rest) ∨ AllEmpty rest) (hd : d.length ≤ (c - off) + capSum rest) :
    ∃ s, (VBuf.base .list (pre ++ m :: rest)).mkSliceMut (capSum pre + off) = .ok s ∧
      s.fill d = .ok (.vslice (.base .list (pre ++ fillMemberAt m off d :: fillMembers rest (d.drop (c - off))))
        (capSum pre + off) pre.length off) := by
  refine ⟨.vslice (.base .list (pre ++ m :: rest)) (capSum pre + off) pre.length off, ?_,
    VBuf.fill_slice_packed pre m rest o li c off d hpre hm hoff hshape hd⟩
  simp only [VBuf.mkSliceMut, VBuf.iterUninit,
    skipCount_full_prefix pre m rest o li c off 0 0 hpre hm hoffc, Nat.zero_add]

/-- a fill through a freshly created `owned_iter()` (first position, nothing recorded yet) of a
`default_set_len` container is the single-buffer fill of member 0 and touches no other member — whatever the
shape of the other members. (Later positions are only right when every earlier member's capacity has been
recorded in full through the iterator: finding V1.) -/
theorem viter_first_fill (m : Buf) (rest : List Buf) (o li c : Nat) (hg : GoodM m o li c) (d : Bytes)
    (hd : d.length ≤ c) (n : Nat) :
    (VIter.mk (.base .list (m :: rest)) 0 0 n 0).fill d =
      .ok (VIter.mk (.base .list (fillMember m d :: rest)) 0 0 n (if d.length > li then d.length else 0)) :=
  VIter.fill_first m rest o li c hg d hd n

/-! ## 6. Non-vacuity: the hypotheses are met by non-trivial data -/

/-- a three-deep nesting `vec(len 6, cap 10).slice(1..9).slice(2..).slice(1..4)` is fresh, well formed,
reports `i = 4+2`, `u = 4+3`, and a 3-byte fill through it lands at 4..7 of the root -/
example :
    let r : Root := ⟨.vec, 6, [0, 1, 2, 3, 4, 5, 6, 7, 8, 9]⟩
    let v : Buf := .slice (.slice (.slice (.root r) 1 (some 9)) 2 none) 1 (some 4)
    v.NoUninit ∧ r.WF ∧ v.asInit = .ok (4, 2) ∧ v.asUninit = .ok (4, 3) ∧
    (v.fill [0xA, 0xB, 0xC]).toOption.map (fun v' => (v'.getRoot.len, v'.getRoot.mem)) =
      some (7, [0, 1, 2, 3, 0xA, 0xB, 0xC, 7, 8, 9]) := by
  refine ⟨trivial, ⟨by decide, by decide⟩, rfl, rfl, by decide⟩

/-- `uninit()` of a half-full ArrayVec-like root is fresh and accepts a first fill -/
example :
    let r : Root := ⟨.arrayvec, 2, [1, 2, 3, 4, 5]⟩
    ∃ u, (Buf.root r).mkUninit = .ok u ∧ u.Fresh ∧ u.asUninit = .ok (2, 3) ∧
      (u.fill [9, 9]).toOption.map (fun v' => (v'.getRoot.len, v'.getRoot.mem)) = some (4, [1, 2, 9, 9, 5]) :=
  ⟨_, rfl, ⟨trivial, 0, rfl⟩, rfl, by decide⟩

/-- a packed three-member container (full, partial, empty) and a fill that spans all three -/
example :
    let m0 : Buf := .root ⟨.vec, 3, [1, 2, 3]⟩
    let m1 : Buf := .root ⟨.vec, 1, [4, 5, 6, 7]⟩
    let m2 : Buf := .root ⟨.arrayvec, 0, [8, 9]⟩
    Packed [m0, m1, m2] ∧ capSum [m0, m1, m2] = 9 ∧
    ((VBuf.base .list [m0, m1, m2]).fill [0xA, 0xB, 0xC, 0xD, 0xE, 0xF, 0x10, 0x11]).toOption.map
        (fun v => v.members.map fun m => (m.getRoot.len, m.getRoot.mem))
      = some [(3, [0xA, 0xB, 0xC]), (4, [0xD, 0xE, 0xF, 0x10]), (1, [0x11, 9])] := by
  refine ⟨Or.inl ⟨0, 3, ⟨⟨by decide, by decide⟩, trivial, rfl, rfl, rfl⟩,
    Or.inr ⟨0, 1, 4, ⟨⟨by decide, by decide⟩, trivial, rfl, rfl, rfl⟩,
      ⟨⟨0, 2, ⟨⟨by decide, by decide⟩, trivial, rfl, rfl, rfl⟩⟩, trivial⟩⟩⟩, rfl, by decide⟩

/-- the `read_exact` step: `[full 3/3, partial 1/4, empty 0/2].slice_mut(4)` (one byte into the second member),
5 more bytes: they land at member 1 offset 1..4 and member 2 offset 0..2, and exactly they are recorded -/
example :
    let m0 : Buf := .root ⟨.vec, 3, [1, 2, 3]⟩
    let m1 : Buf := .root ⟨.vec, 1, [4, 5, 6, 7]⟩
    let m2 : Buf := .root ⟨.arrayvec, 0, [8, 9]⟩
    (match (VBuf.base .list [m0, m1, m2]).mkSliceMut 4 with
      | .ok s => (s.fill [0xA, 0xB, 0xC, 0xD, 0xE]).toOption.map
          (fun v => v.members.map fun m => (m.getRoot.len, m.getRoot.mem))
      | .error _ => none)
      = some [(3, [1, 2, 3]), (4, [4, 0xA, 0xB, 0xC]), (2, [0xD, 0xE])] := by decide

/-! ## 9. Session 3: repeated appending fills through ONE `Uninit` view; pool buffers (`BufferRef`) -/

/-- **Repeated fills of one `Uninit` view append** (the sequence form of "recording n written bytes makes exactly
those bytes visible where they were written"): for every growable root kind, every `begin ≤ len`, and EVERY list of
chunks that fits the spare capacity, storing each chunk at the front of `as_uninit()` and recording it with
`advance(k)` leaves the view in place and the root = fold of `appendRoot` (each chunk right behind the previous). -/
theorem uninit_append_fills (ds : List Bytes) :
    ∀ (r : Root) (b : Nat), r.kind ≠ .arr ∧ r.kind ≠ .boxed → b ≤ r.len →
      r.len + ds.flatten.length ≤ r.cap →
      (Buf.uninit (.root r) b).fillAdvAll ds = .ok (.uninit (.root (ds.foldl appendRoot r)) b) := by
  induction ds with
  | nil => intro r b _ _ _; rfl
  | cons d rest ih =>
    intro r b hk hb hl
    simp only [List.flatten_cons, List.length_append] at hl
    have hstep := uninit_append_step r b d hk hb (by omega)
    simp only [Buf.fillAdvAll, hstep, List.foldl_cons]
    apply ih (appendRoot r d) b hk
    · simp only [appendRoot]; omega
    · rw [appendRoot_cap r d (by omega)]
      simp only [appendRoot]; omega

/-- … and the fold is what the property says: the root ends as `len + Σ|chunk|` with the concatenation of the
chunks, in order, stored at `len ..`; every byte outside that range is untouched (`splice_other`). -/
theorem append_fold_is_one_store (ds : List Bytes) :
    ∀ (r : Root), r.len + ds.flatten.length ≤ r.cap →
      ds.foldl appendRoot r = { r with len := r.len + ds.flatten.length, mem := splice r.mem r.len ds.flatten } := by
  induction ds with
  | nil => intro r _; simp [splice_nil]
  | cons d rest ih =>
    intro r hl
    simp only [List.flatten_cons, List.length_append] at hl
    have hc := appendRoot_cap r d (by omega)
    rw [List.foldl_cons, ih (appendRoot r d) (by rw [hc]; simp only [appendRoot]; omega)]
    simp only [appendRoot, List.flatten_cons, List.length_append]
    rw [splice_splice _ _ _ _ (by simp only [Root.cap] at *; omega)]
    simp [Nat.add_assoc]

/-- non-vacuity: the seeded demo — `hello` in a 10-byte `Vec`, `uninit()`, fill `ABC`, fill `xy` ⇒ `helloABCxy` -/
example :
    ((Buf.uninit (.root ⟨.vec, 5, [104, 101, 108, 108, 111, 0, 0, 0, 0, 0]⟩) 5).fillAdvAll
        [[65, 66, 67], [120, 121]]).toOption.map (fun v => (v.getRoot.len, v.getRoot.mem))
      = some (10, [104, 101, 108, 108, 111, 65, 66, 67, 120, 121]) := by decide

open Compio.Pool in
/-- **Pool buffers keep `len ≤ cap ≤ full_cap` under every program** of `set_len` / `advance_to` / `advance` /
`clear` / `set_capacity` / `with_capacity` / fills (refused and panicking calls included: they leave the buffer
as it was), hence `as_init()` is a prefix of `as_uninit()` and both lie inside the allocation. -/
theorem pool_program_keeps_len_le_cap (ops : List Pool.Op) :
    ∀ (p : PBuf), p.WF →
      (p.run ops).WF ∧ (p.run ops).asInit.1 = (p.run ops).asUninit.1 ∧
      (p.run ops).asInit.2 ≤ (p.run ops).asUninit.2 ∧
      (p.run ops).asUninit.1 + (p.run ops).asUninit.2 ≤ (p.run ops).mem.length := by
  have key : ∀ (ops : List Pool.Op) (p : PBuf), p.WF → (p.run ops).WF := by
    intro ops
    induction ops with
    | nil => intro p h; exact h
    | cons op rest ih =>
      intro p h
      simp only [PBuf.run]
      cases hs : p.step op with
      | ok p' => exact ih p' (PBuf.step_wf h hs)
      | error f => exact ih p h
  intro p h
  have hw := key ops p h
  exact ⟨hw, rfl, hw.le, by simpa [PBuf.asUninit] using hw.cap⟩

open Compio.Pool in
/-- `set_capacity(c)` / `with_capacity(c)`, `c ≠ 0`: whatever was recorded before (even a broken state), the buffer
comes out with `len ≤ cap ≤ full_cap`, the capacity is `min(c as u32, full_cap)`, no byte changes and the length
never grows -/
theorem pool_set_capacity_clamps (p : PBuf) (c : Nat) (hc : c ≠ 0) :
    (p.setCap c).len ≤ (p.setCap c).cap ∧ (p.setCap c).cap ≤ p.mem.length ∧
    (p.setCap c).cap = min (c % 4294967296) p.mem.length ∧ (p.setCap c).mem = p.mem ∧
    (p.setCap c).len ≤ p.len := by
  simp only [PBuf.setCap, hc, if_false, PBuf.full, u32Max]
  exact ⟨Nat.min_le_right _ _, Nat.min_le_right _ _, trivial, trivial, Nat.min_le_left _ _⟩

open Compio.Pool in
/-- **fill law for pool buffers**: `k ≤ cap` bytes stored at the base and recorded with `advance_to(k)`: the bytes
are visible at `0..k`, `len = max len k`, capacity and every other byte untouched -/
theorem pool_fill_law (p : PBuf) (hw : p.WF) (d : Bytes) (hk : d.length ≤ p.cap) (h32 : p.mem.length ≤ 4294967295) :
    p.fill d = .ok { p with len := max p.len d.length, mem := splice p.mem 0 d } := by
  have h1 := hw.le
  have h2 := hw.cap
  unfold PBuf.fill PBuf.advanceTo PBuf.setLen u32Max
  simp only [hk, if_true]
  by_cases hg : d.length > p.len
  · have : d.length ≤ 4294967295 := by omega
    simp only [hg, if_true, this]
    congr 2
    omega
  · simp only [hg, if_false]
    congr 2
    omega

open Compio.Pool in
/-- non-vacuity / the seeded sequence: record 3 bytes, then lower the capacity to 1 ⇒ `len = cap = 1` -/
example :
    ((⟨0, 4, [1, 2, 3, 4]⟩ : PBuf).run [.fill [7, 8, 9], .setCap 1, .setLen 9, .setCap 4294967296]) = ⟨0, 0, [7, 8, 9, 4]⟩ ∧
    ((⟨0, 4, [1, 2, 3, 4]⟩ : PBuf).run [.fill [7, 8, 9], .setCap 1]) = ⟨1, 1, [7, 8, 9, 4]⟩ := by decide

/-! ### the same over the bodies regenerated from the source (extractor target `PoolBufRef`) -/

open Compio.Pool Compio.Gen.PoolBufRef in
/-- the body of `BufferRef::set_capacity` **as regenerated from compio-driver/src/buffer_pool.rs** is the hand model's
`setCap`, for every buffer state and every argument -/
theorem gen_pool_set_capacity_is_model (p : PBuf) (c : Nat) : execStmts setCapacityBody p c = .ok (p.setCap c) := by
  unfold setCapacityBody PBuf.setCap
  by_cases hc : c = 0 <;> simp [execStmts, hc, PBuf.full]

open Compio.Pool Compio.Gen.PoolBufRef in
/-- the body of `<BufferRef as SetLen>::set_len` as regenerated from the source is the hand model's `setLen` -/
theorem gen_pool_set_len_is_model (p : PBuf) (n : Nat) : execStmts setLenBody p n = p.setLen n := by
  unfold setLenBody PBuf.setLen
  by_cases hn : n ≤ u32Max
  · have : n % (u32Max + 1) = n := Nat.mod_eq_of_lt (by omega)
    simp [execStmts, hn, this]
  · simp [execStmts, hn]

open Compio.Pool Compio.Gen.PoolBufRef in
/-- the property-relevant fact directly over the regenerated bodies: from ANY state (also `len > cap`), a
`set_capacity(c)`, `c ≠ 0`, and every successful `set_len(n)` end with `len ≤ cap`; both keep `cap ≤ full_cap` -/
theorem gen_pool_bodies_keep_len_le_cap (p : PBuf) (a : Nat) :
    (a ≠ 0 → ∀ p', execStmts setCapacityBody p a = .ok p' → p'.len ≤ p'.cap ∧ p'.cap ≤ p.mem.length) ∧
    (∀ p', execStmts setLenBody p a = .ok p' → p'.len ≤ p'.cap ∧ p'.cap = p.cap) := by
  constructor
  · intro ha p' h
    rw [gen_pool_set_capacity_is_model] at h
    injection h with h
    subst h
    have := pool_set_capacity_clamps p a ha
    exact ⟨this.1, this.2.1⟩
  · intro p' h
    rw [gen_pool_set_len_is_model] at h
    unfold PBuf.setLen at h
    split at h
    · injection h with h
      subst h
      exact ⟨Nat.min_le_right _ _, rfl⟩
    · cases h

end Compio.Props.C10
