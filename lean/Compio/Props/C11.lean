import Compio.Model.IoLoops
namespace Compio.Props.C11
open Compio Compio.Io
theorem placeholder : overlay [] 0 ([] : Bytes) = [] := by rfl
end Compio.Props.C11
