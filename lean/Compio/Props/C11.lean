/-
C11 — I/O helpers are invariant under chunking and transient errors.

Property theorems only (helper lemmas live in Compio/Lemmas). Every statement is unbounded:
all payloads, all scripts (chunk sizes, positions of `Interrupted`/errors/EOF), all reader
compositions (`Take`, `BufReader`, in-memory readers, nested in any order), all capacities, all
pre-existing destination contents. They are about the very functions the model driver
(lean/Drivers/C11.lean) executes.

Vocabulary (Lemmas/IoLoops.lean):
  `r.rest`    the bytes a reader composition still has to deliver, in order (buffered bytes first,
              `Take` limits applied)
  `r.WF`      every `BufReader` buffer inside satisfies `begin ≤ len ≤ cap` (true initially, kept)
  `r.Live`    the reader never answers `Ok(0)` to a call offering room while bytes are left:
              honest script (only positive transfers and `Interrupted`, enough entries), in-memory
              sources, `Take`, and `BufReader` **with capacity > 0**  (the F12 guard)
  `w.sink`    what a writer holds: bytes at the inner writer followed by bytes in the `BufWriter`
  `w.Good`    FIFO writer, or `BufWriter` over a FIFO writer that never answers `Interrupted`
              (the F17 guard)
  `overlay d p x`  `d` with `x` laid over it from position `p` (runs past the end if needed)
-/
import Compio.Lemmas.IoLoops
import Compio.Lemmas.MemIo

namespace Compio.Props.C11
open Compio Compio.Io

/-! ## 1. read_exact -/

/-- **read_exact, every reader composition, every script.** The destination is its old content with
a prefix `t` of the reader's remaining stream laid over its start (nothing lost, duplicated,
reordered or misplaced; content beyond `t` preserved, see `overlay_preserves_outside`); the reader
has been consumed by exactly those `t` bytes; the result is `Ok` iff the buffer was filled,
otherwise `UnexpectedEof` or the script's own error. Never a panic, never out of fuel. -/
theorem read_exact_correct (fuel : Nat) (r : Rd) (b : VBuf) (hw : r.WF) (hf : b.cap + r.entries < fuel) :
    ∃ (t : Nat) (res : Res Unit) (r' : Rd),
      readExact fuel r b = (res, r', ⟨overlay b.data 0 (r.rest.take t), b.cap⟩) ∧
      t ≤ r.rest.length ∧ t ≤ b.cap ∧ r'.rest = r.rest.drop t ∧ r'.WF ∧
      ((res = .ok () ∧ t = b.cap) ∨
        (res = .err .unexpectedEof ∧ t < b.cap ∧ (r.Live → t = r.rest.length)) ∨
        (∃ k, res = .err (.other k) ∧ k ∈ r.errs ∧ t < b.cap ∧ ¬ r.Live)) := by
  obtain ⟨t, res, r', h1, h2, h3, h4, h5, h6⟩ :=
    readExactLoop_spec fuel r b 0 hw (Nat.zero_le _) (Nat.zero_le _) (by omega)
  refine ⟨t, res, r', h1, h2, by omega, h4, h5, ?_⟩
  rcases h6 with ⟨a, b'⟩ | ⟨a, b', c⟩ | ⟨k, a, b', c, d⟩
  · exact Or.inl ⟨a, by omega⟩
  · exact Or.inr (Or.inl ⟨a, by omega, c⟩)
  · exact Or.inr (Or.inr ⟨k, a, b', by omega, d⟩)

/-- what "laid over" means byte by byte: positions before `p` and from `p + |x|` on keep the old
content, positions `p + i` hold `x[i]` -/
theorem overlay_preserves_outside (d : Bytes) (p : Nat) (x : Bytes) (h : p ≤ d.length) :
    (∀ i, i < p → (overlay d p x)[i]? = d[i]?) ∧
    (∀ i, p + x.length ≤ i → (overlay d p x)[i]? = d[i]?) ∧
    (∀ i, i < x.length → (overlay d p x)[p + i]? = x[i]?) :=
  ⟨fun i hi => overlay_getElem?_lt d p x i h hi, fun i hi => overlay_getElem?_ge d p x i h hi,
    fun i hi => overlay_getElem?_mid d p x i h hi⟩

/-- **read_exact from a live reader is decided by the amount of data alone**: `Ok` exactly when the
reader has at least `cap` bytes left, and then the destination starts with precisely the first `cap`
bytes; otherwise `UnexpectedEof` after everything that was left has been delivered. -/
theorem read_exact_live (fuel : Nat) (r : Rd) (b : VBuf) (hw : r.WF) (hl : r.Live)
    (hf : b.cap + r.entries < fuel) :
    (b.cap ≤ r.rest.length →
      ∃ r', readExact fuel r b = (.ok (), r', ⟨overlay b.data 0 (r.rest.take b.cap), b.cap⟩) ∧
        r'.rest = r.rest.drop b.cap) ∧
    (r.rest.length < b.cap →
      ∃ r', readExact fuel r b = (.err .unexpectedEof, r', ⟨overlay b.data 0 r.rest, b.cap⟩) ∧
        r'.rest = []) := by
  obtain ⟨t, res, r', h1, h2, h3, h4, h5, h6⟩ := read_exact_correct fuel r b hw hf
  constructor
  · intro hc
    rcases h6 with ⟨a, b'⟩ | ⟨a, b', c⟩ | ⟨k, a, b', c, d⟩
    · subst a; subst b'
      exact ⟨r', h1, h4⟩
    · have := c hl; omega
    · exact absurd hl d
  · intro hc
    rcases h6 with ⟨a, b'⟩ | ⟨a, b', c⟩ | ⟨k, a, b', c, d⟩
    · omega
    · have ht := c hl
      subst a
      rw [ht, List.take_length] at h1
      exact ⟨r', h1, by rw [h4, ht]; simp⟩
    · exact absurd hl d

/-- **chunking independence**: two scripts over the same stream that both let `read_exact` succeed
produce the same destination and leave the same remaining stream — whatever the chunk sizes and
wherever the interruptions were. -/
theorem read_exact_chunking_independent (f1 f2 : Nat) (s : Bytes) (sc1 sc2 : List Outcome) (b : VBuf)
    (h1 : b.cap + sc1.length < f1) (h2 : b.cap + sc2.length < f2)
    (ok1 : (readExact f1 (.script s sc1) b).1 = .ok ()) (ok2 : (readExact f2 (.script s sc2) b).1 = .ok ()) :
    (readExact f1 (.script s sc1) b).2.2 = (readExact f2 (.script s sc2) b).2.2 ∧
    (readExact f1 (.script s sc1) b).2.1.rest = (readExact f2 (.script s sc2) b).2.1.rest := by
  obtain ⟨t1, res1, r1, e1, _, _, g1, _, c1⟩ := read_exact_correct f1 (.script s sc1) b trivial h1
  obtain ⟨t2, res2, r2, e2, _, _, g2, _, c2⟩ := read_exact_correct f2 (.script s sc2) b trivial h2
  rw [e1] at ok1 ⊢
  rw [e2] at ok2 ⊢
  simp only [] at ok1 ok2
  have ht1 : t1 = b.cap := by
    rcases c1 with ⟨_, a⟩ | ⟨a, _⟩ | ⟨k, a, _⟩
    · exact a
    · rw [ok1] at a; cases a
    · rw [ok1] at a; cases a
  have ht2 : t2 = b.cap := by
    rcases c2 with ⟨_, a⟩ | ⟨a, _⟩ | ⟨k, a, _⟩
    · exact a
    · rw [ok2] at a; cases a
    · rw [ok2] at a; cases a
  simp only [Rd.rest] at g1 g2 ⊢
  rw [ht1] at g1
  rw [ht2] at g2
  exact ⟨by rw [ht1, ht2], by rw [g1, g2]⟩

/-- **`Interrupted` entries are transparent for read_exact**: removing them from the script changes
neither the result, nor the destination, nor the remaining stream (only the interruptions still
waiting in the script are gone). -/
theorem read_exact_interrupted_transparent (f1 f2 : Nat) (s : Bytes) (sc : List Outcome) (b : VBuf)
    (h1 : b.cap + sc.length < f1) (h2 : b.cap + (stripIntr sc).length < f2) :
    readExact f2 (.script s (stripIntr sc)) b =
      ((readExact f1 (.script s sc) b).1, (readExact f1 (.script s sc) b).2.1.strip,
        (readExact f1 (.script s sc) b).2.2) :=
  readExactLoop_strip sc f1 f2 s b b.cap 0 (by omega) (by omega)

/-! ## 2. read_to_end -/

/-- **read_to_end, every reader composition, every script.** A prefix `t` of the reader's remaining
stream is appended after the existing content (which is preserved); the reader is consumed by
exactly `t` bytes; the result is `Ok(t)` or the script's own error. Never a panic. -/
theorem read_to_end_correct (fuel : Nat) (r : Rd) (b : VBuf) (hw : r.WF) (hb : b.data.length ≤ b.cap)
    (hf : r.rest.length + r.entries < fuel) :
    ∃ (t : Nat) (res : Res Nat) (r' : Rd) (cap' : Nat),
      readToEnd fuel r b = (res, r', ⟨b.data ++ r.rest.take t, cap'⟩) ∧
      t ≤ r.rest.length ∧ b.data.length + t ≤ cap' ∧ r'.rest = r.rest.drop t ∧ r'.WF ∧
      ((res = .ok t ∧ (r.Live → t = r.rest.length)) ∨
        (∃ k, res = .err (.other k) ∧ k ∈ r.errs ∧ ¬ r.Live)) := by
  obtain ⟨t, res, r', cap', h1, h2, h3, h4, h5, h6⟩ :=
    readToEndLoop_spec fuel r b b.data.length 0 hw (by omega) hb hf
  refine ⟨t, res, r', cap', h1, h2, h3, h4, h5, ?_⟩
  rcases h6 with ⟨a, b'⟩ | h
  · exact Or.inl ⟨by rw [a]; congr 1; omega, b'⟩
  · exact Or.inr h

/-- **read_to_end from a live reader delivers everything** — in particular through any stack of
`Take`s and `BufReader`s of non-zero capacity: no silent truncation. -/
theorem read_to_end_complete (fuel : Nat) (r : Rd) (b : VBuf) (hw : r.WF) (hl : r.Live)
    (hb : b.data.length ≤ b.cap) (hf : r.rest.length + r.entries < fuel) :
    ∃ (r' : Rd) (cap' : Nat),
      readToEnd fuel r b = (.ok r.rest.length, r', ⟨b.data ++ r.rest, cap'⟩) ∧ r'.rest = [] := by
  obtain ⟨t, res, r', cap', h1, h2, h3, h4, h5, h6⟩ := read_to_end_correct fuel r b hw hb hf
  rcases h6 with ⟨a, c⟩ | ⟨k, _, _, d⟩
  · have ht := c hl
    subst a
    rw [ht, List.take_length] at h1
    exact ⟨r', cap', h1, by rw [h4, ht]; simp⟩
  · exact absurd hl d

/-- a `BufReader` of capacity `cap > 0` around a live reader is live: the completeness theorems
apply to it. For `cap = 0` this is false: `Cex.C11.f12_bufreader_cap0_counterexample`. -/
theorem bufreader_live (inner : Rd) (cap : Nat) (hc : 0 < cap) (hl : inner.Live) (hw : inner.WF) :
    (Rd.buf inner (Buffer.withCapacity cap)).Live ∧ (Rd.buf inner (Buffer.withCapacity cap)).WF ∧
    (Rd.buf inner (Buffer.withCapacity cap)).rest = inner.rest :=
  ⟨⟨hc, hl⟩, ⟨hw, Buffer.withCapacity_wf cap⟩, by simp [Rd.rest, Buffer.pending, Buffer.withCapacity]⟩

/-- `Take` hands out at most `limit` bytes: exactly the first `limit` bytes of what is below -/
theorem take_rest (inner : Rd) (limit : Nat) :
    (Rd.take inner limit).rest = inner.rest.take limit ∧ (Rd.take inner limit).rest.length ≤ limit ∧
    (inner.Live → (Rd.take inner limit).Live) ∧ (inner.WF → (Rd.take inner limit).WF) :=
  ⟨rfl, by simp [Rd.rest, List.length_take]; omega, fun h => h, fun h => h⟩

/-- **`Interrupted` entries are transparent for read_to_end** -/
theorem read_to_end_interrupted_transparent (f1 f2 : Nat) (s : Bytes) (sc : List Outcome) (b : VBuf)
    (h1 : s.length + sc.length < f1) (h2 : s.length + (stripIntr sc).length < f2) :
    readToEnd f2 (.script s (stripIntr sc)) b =
      ((readToEnd f1 (.script s sc) b).1, (readToEnd f1 (.script s sc) b).2.1.strip,
        (readToEnd f1 (.script s sc) b).2.2) :=
  readToEndLoop_strip sc f1 f2 s b b.data.length 0 h1 h2

/-! ## 3. one call: `read`, `append`, `Take`, `BufReader::read` -/

/-- **one `read` on any reader composition** (this is `Take::read`, `BufReader::read`, `Cursor::read`,
`&[u8]::read` and their nestings): the bytes returned are the next bytes of the remaining stream,
at most what was offered; an error consumes nothing; there is no panic (the `assert!` in `Take` and
the assertions of `Buffer::advance` never fire). -/
theorem read_one_call (r : Rd) (off : Nat) (hw : r.WF) :
    (∃ bs r', r.read off = (.ok bs, r') ∧ bs = r.rest.take bs.length ∧ bs.length ≤ off ∧
        r'.rest = r.rest.drop bs.length ∧ r'.WF) ∨
    (∃ r', r.read off = (.err .interrupted, r') ∧ r'.rest = r.rest ∧ r'.WF) ∨
    (∃ k r', r.read off = (.err (.other k), r') ∧ r'.rest = r.rest ∧ r'.WF ∧ k ∈ r.errs) := by
  rcases Rd.read_cases r off hw with ⟨bs, r', h⟩ | ⟨r', h⟩ | ⟨k, r', h⟩
  · obtain ⟨a, b, c, d, _⟩ := Rd.read_ok hw h
    exact Or.inl ⟨bs, r', h, a, b, c, d⟩
  · obtain ⟨a, b, _⟩ := Rd.read_intr hw h
    exact Or.inr (Or.inl ⟨r', h, a, b⟩)
  · obtain ⟨a, b, _, d⟩ := Rd.read_other hw h
    exact Or.inr (Or.inr ⟨k, r', h, a, b, d⟩)

/-- **append**: the bytes of one read land after the existing content -/
theorem append_correct (r : Rd) (b : VBuf) (hw : r.WF) :
    (∃ bs r', append r b = (.ok bs.length, r', ⟨b.data ++ bs, b.cap⟩) ∧ bs = r.rest.take bs.length ∧
        bs.length ≤ b.cap - b.data.length ∧ r'.rest = r.rest.drop bs.length) ∨
    (∃ e r', append r b = (.err e, r', b) ∧ r'.rest = r.rest) := by
  unfold append
  rcases Rd.read_cases r (b.cap - b.data.length) hw with ⟨bs, r', h⟩ | ⟨r', h⟩ | ⟨k, r', h⟩
  · obtain ⟨a, b', c, _⟩ := Rd.read_ok hw h
    rw [h]
    refine Or.inl ⟨bs, r', ?_, a, b', c⟩
    simp [VBuf.place, overlay_at_end]
  · obtain ⟨a, _⟩ := Rd.read_intr hw h
    rw [h]
    exact Or.inr ⟨_, r', rfl, a⟩
  · obtain ⟨a, _⟩ := Rd.read_other hw h
    rw [h]
    exact Or.inr ⟨_, r', rfl, a⟩

/-! ## 4. write_all, BufWriter, flush -/

/-- **write_all on a good writer, every script.** The writer ends up holding what it held before
followed by a prefix `t` of the data (nothing lost, duplicated or reordered); `Ok` exactly when
`t` is everything; otherwise `WriteZero` or the inner writer's own error. Never a panic.
For a `BufWriter` over a writer that answers `Interrupted` the statement is false
(`Cex.C11.f17_bufwriter_duplicates_counterexample`). -/
theorem write_all_correct (fuel : Nat) (w : Wr) (data : Bytes) (hg : w.Good)
    (hf : data.length + w.entries < fuel) :
    ∃ (t : Nat) (res : Res Unit) (w' : Wr),
      writeAll fuel w data = (res, w') ∧ t ≤ data.length ∧ w'.sink = w.sink ++ data.take t ∧ w'.Good ∧
      ((res = .ok () ∧ t = data.length) ∨ res = .err .writeZero ∨ (∃ k, res = .err (.other k))) := by
  obtain ⟨t, res, w', h1, h2, h3, h4, h5⟩ := writeAllLoop_spec fuel w data 0 hg (Nat.zero_le _) (by omega)
  refine ⟨t, res, w', h1, by omega, by simpa using h3, h4, ?_⟩
  rcases h5 with ⟨a, b, _⟩ | a | a
  · exact Or.inl ⟨a, by omega⟩
  · exact Or.inr (Or.inl a)
  · exact Or.inr (Or.inr a)

/-- **`Interrupted` entries are transparent for write_all** on a scripted writer -/
theorem write_all_interrupted_transparent (f1 f2 : Nat) (sc : List Outcome) (got : Bytes) (fl sh : Nat)
    (data : Bytes) (h1 : data.length + sc.length < f1) (h2 : data.length + (stripIntr sc).length < f2) :
    writeAll f2 (.base (.script got (stripIntr sc) fl sh)) data =
      ((writeAll f1 (.base (.script got sc fl sh)) data).1,
        (writeAll f1 (.base (.script got sc fl sh)) data).2.strip) :=
  writeAllLoop_strip sc f1 f2 got fl sh data 0 (by omega) (by omega)

/-- **one `write` on a good writer** (`BufWriter::write` included): `Ok(n)` takes exactly the first
`n` bytes; `Interrupted` takes nothing; after any other error the writer holds a prefix of the data
(possibly non-empty for a `BufWriter`: bytes already buffered when its flush failed). -/
theorem write_one_call (w : Wr) (data : Bytes) (hg : w.Good) : WrPost w data (w.write data) :=
  Wr.write_post w data hg

/-- **`flush_to` keeps the unsent tail**: for *every* inner script, a flush moves a prefix `t` of the
pending bytes to the inner writer, in order, and the buffer keeps exactly the rest; `Ok` iff nothing
is left; the errors are `WriteZero` and the inner writer's own. -/
theorem flush_to_keeps_tail (w : BaseWr) (b : Buffer) (hf : w.Fifo) (hw : b.WF) :
    ∃ t, (flushTo w b).2.1.sink = w.sink ++ b.pending.take t ∧
      (flushTo w b).2.2.pending = b.pending.drop t ∧ (flushTo w b).2.2.WF ∧ (flushTo w b).2.1.Fifo ∧
      (((flushTo w b).1 = .ok t ∧ t = b.pending.length) ∨
        ((flushTo w b).1 = .err .writeZero ∧ t < b.pending.length) ∨
        ((flushTo w b).1 = .err .interrupted ∧ t < b.pending.length) ∨
        (∃ k, (flushTo w b).1 = .err (.other k) ∧ k ∈ w.errs ∧ t < b.pending.length)) := by
  obtain ⟨t, e1, e2, e3, _, e5, _, _, e8⟩ := flushTo_spec w b hf hw
  refine ⟨t, e1, e2, e3, e5, ?_⟩
  rcases e8 with ⟨a, b'⟩ | ⟨a, b'⟩ | ⟨a, b', _⟩ | ⟨k, a, b', c⟩
  · exact Or.inl ⟨by simpa using a, b'⟩
  · exact Or.inr (Or.inl ⟨a, b'⟩)
  · exact Or.inr (Or.inr (Or.inl ⟨a, b'⟩))
  · exact Or.inr (Or.inr (Or.inr ⟨k, a, b', c⟩))

/-- **a retry sends exactly the rest**: whatever happened in a first (failed or not) flush, a
following successful flush leaves the inner writer with everything, once, in order. -/
theorem flush_retry_sends_the_rest (w : BaseWr) (b : Buffer) (hf : w.Fifo) (hw : b.WF)
    (hok : ∃ n, (flushTo (flushTo w b).2.1 (flushTo w b).2.2).1 = .ok n) :
    (flushTo (flushTo w b).2.1 (flushTo w b).2.2).2.1.sink = w.sink ++ b.pending ∧
    (flushTo (flushTo w b).2.1 (flushTo w b).2.2).2.2.pending = [] := by
  obtain ⟨t, e1, e2, e3, e5, _⟩ := flush_to_keeps_tail w b hf hw
  obtain ⟨t', f1, f2, _, _, f6⟩ := flush_to_keeps_tail _ _ e5 e3
  obtain ⟨n, hn⟩ := hok
  have ht' : t' = (flushTo w b).2.2.pending.length := by
    rcases f6 with ⟨_, a⟩ | ⟨a, _⟩ | ⟨a, _⟩ | ⟨k, a, _⟩
    · exact a
    · rw [hn] at a; cases a
    · rw [hn] at a; cases a
    · rw [hn] at a; cases a
  constructor
  · rw [f1, e1, ht', List.take_length, e2, List.append_assoc, List.take_append_drop]
  · rw [f2, ht', List.drop_length]

/-- **flush / shutdown on a good writer**: nothing lost or reordered; after `Ok` nothing is buffered -/
theorem flush_correct (w : Wr) (hg : w.Good) : CtlPost w w.flush ∧ CtlPost w w.shutdown :=
  ⟨Wr.flush_post w hg, Wr.shutdown_post w hg⟩

/-! ## 5. copy -/

/-- **copy_with_size from any reader composition into a good writer.** The writer receives a prefix
`tw` of what the reader had, in order; the reader handed out `tr ≥ tw` bytes (the difference is the
chunk in flight when an error stopped the copy); `Ok(n)` means `n = tr = tw` and nothing is left in
a `BufWriter`; from a live reader with a non-empty copy buffer (`0 < size`, the F18 guard) `Ok`
means everything was copied. Never a panic. -/
theorem copy_correct (fuel : Nat) (r : Rd) (w : Wr) (size : Nat) (hw : r.WF) (hg : w.Good)
    (hf : r.rest.length + r.entries + w.entries < fuel) :
    ∃ (tr tw : Nat) (res : Res Nat) (r' : Rd) (w' : Wr),
      copy fuel r w size = (res, r', w') ∧ tw ≤ tr ∧ tr ≤ r.rest.length ∧
      r'.rest = r.rest.drop tr ∧ w'.sink = w.sink ++ r.rest.take tw ∧ r'.WF ∧ w'.Good ∧
      ((res = .ok tr ∧ tw = tr ∧ w'.Flushed ∧ (r.Live → 0 < size → tr = r.rest.length)) ∨
        res = .err .writeZero ∨ (∃ k, res = .err (.other k))) := by
  obtain ⟨tr, tw, res, r', w', h1, h2, h3, h4, h5, h6, h7, h8⟩ := copyLoop_spec fuel r w size 0 hw hg hf
  refine ⟨tr, tw, res, r', w', h1, h2, h3, h4, h5, h6, h7, ?_⟩
  rcases h8 with ⟨a, b⟩ | a | a
  · exact Or.inl ⟨by rw [a]; congr 1; omega, b⟩
  · exact Or.inr (Or.inl a)
  · exact Or.inr (Or.inr a)

/-! ## 6. `Buffer` -/

/-- `advance` consumes from the front (or panics when asked for more than there is: `none`),
`reset` empties, `compact_to` moves the unread bytes to the front and keeps exactly them -/
theorem buffer_ops (b : Buffer) (hw : b.WF) :
    (∀ n, n ≤ b.pending.length → ∃ b', b.advance n = some b' ∧ b'.pending = b.pending.drop n ∧ b'.WF) ∧
    (∀ n, b.pending.length < n → b.advance n = none) ∧
    (b.reset.pending = [] ∧ b.reset.WF ∧ b.reset.cap = b.cap) ∧
    (∀ c m, (b.compactTo c m).pending = b.pending ∧ (b.compactTo c m).begin = 0 ∧ (b.compactTo c m).WF) := by
  refine ⟨?_, ?_, ⟨by simp, Buffer.reset_wf b, rfl⟩, ?_⟩
  · intro n hn
    have h := Buffer.advance_some b n hw hn
    exact ⟨_, h, (Buffer.advance_pending b _ n h).1, Buffer.advance_wf b _ n hw h⟩
  · intro n hn
    unfold Buffer.advance
    rw [Buffer.pending_length] at hn
    rw [if_neg]
    omega
  · intro c m
    exact ⟨(Buffer.compactTo_pending b c m hw).1, (Buffer.compactTo_pending b c m hw).2,
      Buffer.compactTo_wf b c m hw⟩

/-- `need_flush` is `len > cap * 2 / 3`; a `BufWriter` of capacity 0 never flushes and never takes a
byte (`write` answers `Ok(0)`, `write_all` `WriteZero`: an honest error, not a finding) -/
theorem bufwriter_cap0_takes_nothing (w : BaseWr) (data : Bytes) :
    bufWrite w (Buffer.withCapacity 0) data = (.ok 0, w, Buffer.withCapacity 0) := by
  simp [bufWrite, flushIfNeeded, Buffer.needFlush, Buffer.withCapacity, Buffer.push]

/-! ## 7. in-memory implementations: reference equalities and "no panic" -/

/-- `[u8]` / `[u8; N]` / `Vec<u8>` `read_at`: for **every** position (beyond the end, beyond `usize`):
the bytes from `pos` on, clamped to the room; never a panic (the model function is total and has no
panic outcome; `read_vectored_at` is `memReadVectored` of the same clamped tail, F3 repaired). -/
theorem read_at_ref (src : Bytes) (pos off : Nat) :
    readAt src pos off = (src.drop pos).take off ∧
    (src.length ≤ pos → readAt src pos off = []) ∧
    (∀ vs, readVectoredAt src pos vs = memReadVectored (src.drop pos) vs) :=
  ⟨readAt_eq src pos off, fun h => by rw [readAt_eq, List.drop_of_length_le h]; simp,
    fun vs => by unfold readVectoredAt; rw [drop_min_length]⟩

/-- `Vec<u8>::write_at`: under the exact guard `pos + |data| ≤ isize::MAX` the call succeeds, returns
`|data|` and the vector is the zero-extended old content with the data laid over it at `pos`; beyond
the guard the reservation panics ("capacity overflow") — never anything else. -/
theorem vec_write_at_ref (v : Bytes) (pos : Nat) (bs : Bytes) :
    (pos + bs.length ≤ isizeMax → vecWriteAt v pos bs = .ok (bs.length, writeRef v pos bs)) ∧
    (vecWriteAt v pos bs = .panic ∨ vecWriteAt v pos bs = .ok (bs.length, writeRef v pos bs)) :=
  ⟨vecWriteAt_ref v pos bs, vecWriteAt_total v pos bs⟩

/-- `Vec<u8>::write_vectored_at` (F4 repaired) equals one `write_at` of the concatenation -/
theorem vec_write_vectored_at_ref (v : Bytes) (pos : Nat) (bufs : List Bytes) (hv : v.length ≤ isizeMax)
    (hg : pos + bufs.flatten.length ≤ isizeMax) :
    vecWriteVectoredAt v pos bufs = .ok (bufs.flatten.length, writeRef v pos bufs.flatten) :=
  vecWriteVectoredAt_ref v pos bufs hv hg

/-- `Vec<u8>::write` / `write_vectored` (F4 repaired): append, for every vector length and data length
(under the allocation guard); a vector longer than the data is no longer a problem -/
theorem vec_write_ref (v : Bytes) (bufs : List Bytes) (hg : v.length + bufs.flatten.length ≤ isizeMax) :
    vecWriteVectored v bufs = .ok (bufs.flatten.length, v ++ bufs.flatten) ∧
    (∀ bs, vecWrite v bs = (bs.length, v ++ bs)) :=
  ⟨vecWriteVectored_ref v bufs hg, fun _ => rfl⟩

/-- `[u8]::write_at` / `[u8; N]::write_at`: for **every** position the slice keeps its length, the
data that fits is laid over it at the clamped position, nothing else changes; never a panic -/
theorem slice_write_at_ref (a : Bytes) (pos : Nat) (bs : Bytes) :
    (sliceWriteAt a pos bs).1 = min bs.length (a.length - min pos a.length) ∧
    (sliceWriteAt a pos bs).2 = overlay a (min pos a.length) (bs.take (sliceWriteAt a pos bs).1) ∧
    (sliceWriteAt a pos bs).2.length = a.length :=
  sliceWriteAt_ref a pos bs

/-- `Cursor<Vec<u8>>` / `Cursor<[u8; N]>` as readers: `read` is `read_at` at the position, which then
advances by what was read (an instance of `read_one_call`: `rest = data.drop pos`) -/
theorem cursor_read (d : Bytes) (pos off : Nat) :
    (Rd.cursor d pos).read off = (.ok ((d.drop pos).take off), .cursor d (pos + ((d.drop pos).take off).length)) := by
  simp [Rd.read, readAt_eq]


/-! ## 9. vectored helpers and positional helpers -/

/-- **write_vectored_all on a scripted good writer** is `write_all` of the concatenation: the
default `write_vectored` (first non-empty view of `buf.slice(needle)`) and `BufWriter::write_vectored`
take the bytes in order across member boundaries, empty members included. -/
theorem write_vectored_all_correct (fuel : Nat) (w : Wr) (bufs : List Bytes) (hg : w.Good) (hs : w.Scripted)
    (hf : bufs.flatten.length + w.entries < fuel) :
    ∃ (t : Nat) (res : Res Unit) (w' : Wr),
      writeVectoredAll fuel w bufs = (res, w') ∧ t ≤ bufs.flatten.length ∧
      w'.sink = w.sink ++ bufs.flatten.take t ∧ w'.Good ∧
      ((res = .ok () ∧ t = bufs.flatten.length) ∨ res = .err .writeZero ∨ (∃ k, res = .err (.other k))) := by
  obtain ⟨t, res, w', h1, h2, h3, h4, h5⟩ :=
    writeVectoredAllLoop_spec fuel w bufs 0 hg hs (Nat.zero_le _) (by omega)
  refine ⟨t, res, w', ?_, by omega, by simpa using h3, h4, ?_⟩
  · unfold writeVectoredAll
    rw [sumNat_map_length]
    exact h1
  · rcases h5 with ⟨a, b⟩ | a | a
    · exact Or.inl ⟨a, by omega⟩
    · exact Or.inr (Or.inl a)
    · exact Or.inr (Or.inr a)

/-- **in-memory vectored read into fresh buffers**: the source is cut by capacities, in order; every
member records exactly its chunk; the concatenation of the members is the prefix that fits.
(For buffers whose initialised part is not a prefix of the capacities the statement is false:
`Cex.C11.f19_vectored_read_lost_counterexample`.) -/
theorem mem_read_vectored_fresh (src : Bytes) (caps : List Nat) :
    memReadVectored src (VS.plain (fresh caps)) =
      (.ok (min src.length (sumNat caps)), VS.plain (filled caps src)) ∧
    ((filled caps src).map MBuf.data).flatten = src.take (sumNat caps) :=
  ⟨memReadVectored_fresh src caps, filled_flatten caps src⟩


/-- **read_vectored_exact into fresh buffers through the default `read_vectored` loop** (scripted
stream or a `Take` of one; `VectoredBufIter`, `slice_mut`, `VectoredSlice::set_len` modelled
literally): the buffers end up holding a prefix `t` of the stream cut by capacities, in order, across
member boundaries and zero-capacity members; the reader is consumed by exactly `t`; `Ok` iff the
total capacity was filled, else `UnexpectedEof` / the script's error. Never a panic. -/
theorem read_vectored_exact_correct (fuel : Nat) (r : Rd) (caps : List Nat) (hw : r.WF) (hu : r.UsesDefault)
    (hf : sumNat caps + r.entries < fuel) :
    ∃ (t : Nat) (res : Res Unit) (r' : Rd),
      readVectoredExact fuel r (fresh caps) = (res, r', filled caps (r.rest.take t)) ∧
      ((filled caps (r.rest.take t)).map MBuf.data).flatten = r.rest.take t ∧
      t ≤ r.rest.length ∧ t ≤ sumNat caps ∧ r'.rest = r.rest.drop t ∧ r'.WF ∧
      ((res = .ok () ∧ t = sumNat caps) ∨
        (res = .err .unexpectedEof ∧ t < sumNat caps ∧ (r.Live → t = r.rest.length)) ∨
        (∃ k, res = .err (.other k) ∧ k ∈ r.errs ∧ t < sumNat caps ∧ ¬ r.Live)) := by
  obtain ⟨t, res, r', h1, h2, h3, h4, h5, h6⟩ :=
    readVectoredExactLoop_spec fuel r caps [] hw hu (Nat.zero_le _) (by simpa using hf)
  simp only [List.length_nil, Nat.zero_add, List.nil_append] at h1 h3 h6
  refine ⟨t, res, r', ?_, ?_, h2, h3, h4, h5, h6⟩
  · unfold readVectoredExact
    rw [viewCaps_fresh, ← filled_nil]
    exact h1
  · rw [filled_flatten, List.take_take, Nat.min_eq_right h3]

/-- **read_exact_at / read_to_end_at on `[u8]` / `Vec<u8>`**, every position (also beyond the end):
the loops are the cursor loops, so the destination gets exactly the bytes from `pos` on. -/
theorem read_exact_at_correct (src : Bytes) (b : VBuf) (pos : Nat) :
    (b.cap ≤ (src.drop pos).length →
      readExactAt src b pos = (.ok (), ⟨overlay b.data 0 ((src.drop pos).take b.cap), b.cap⟩)) ∧
    ((src.drop pos).length < b.cap →
      readExactAt src b pos = (.err .unexpectedEof, ⟨overlay b.data 0 (src.drop pos), b.cap⟩)) := by
  unfold readExactAt
  rw [readExactAtLoop_eq_cursor]
  have h := read_exact_live (b.cap + 1) (.cursor src (pos + 0)) b trivial trivial (by simp [Rd.entries])
  simp only [Rd.rest, Nat.add_zero] at h
  unfold readExact at h
  constructor
  · intro hc
    obtain ⟨r', e, _⟩ := h.1 hc
    simp only [Nat.add_zero]
    rw [e]
  · intro hc
    obtain ⟨r', e, _⟩ := h.2 hc
    simp only [Nat.add_zero]
    rw [e]

theorem read_to_end_at_correct (src : Bytes) (b : VBuf) (pos : Nat) (hb : b.data.length ≤ b.cap) :
    ∃ cap', readToEndAt src b pos = (.ok (src.drop pos).length, ⟨b.data ++ src.drop pos, cap'⟩) := by
  unfold readToEndAt
  rw [readToEndAtLoop_eq_cursor]
  obtain ⟨r', cap', e, _⟩ := read_to_end_complete (src.length + 2) (.cursor src (pos + 0)) b trivial trivial hb
    (by simp [Rd.rest, Rd.entries, List.length_drop]; omega)
  simp only [Rd.rest, Nat.add_zero] at e
  unfold readToEnd at e
  simp only [Nat.add_zero]
  rw [e]
  exact ⟨cap', rfl⟩

/-- `write_all_at` on a `Vec<u8>`: one `write_at` takes everything (under the allocation guard) -/
theorem write_all_at_vec (v : Bytes) (pos : Nat) (data : Bytes) (hne : data ≠ [])
    (hg : pos + data.length ≤ isizeMax) :
    writeAllAt (.vec v) pos data = (.ok (), .vec (writeRef v pos data)) := by
  have hl : 0 < data.length := List.length_pos_iff.mpr hne
  unfold writeAllAt
  cases hd : data.length with
  | zero => omega
  | succ n =>
    simp only [writeAllAtLoop, hd, Nat.zero_lt_succ, if_true, Nat.add_zero, List.drop_zero, AtDst.writeAt,
      vecWriteAt_ref v pos data hg]
    simp only [hd, Nat.succ_ne_zero, if_false, Nat.zero_add]
    cases n with
    | zero => simp [writeAllAtLoop, hd]
    | succ m => simp [writeAllAtLoop, hd]

/-! ## 10. read_to_string / read_to_string_at -/

/-- **read_to_string, every reader composition, every script**: `t` bytes of the stream arrive
(exactly as for `read_to_end`); the answer is decided by the UTF-8 validity of *old content ++ those
bytes* alone — `Ok(t)` with the text, or `InvalidData` with a fresh empty `String`; after an I/O error
the text read so far is handed back if it is UTF-8 and the `String` is cleared otherwise. -/
theorem read_to_string_correct (fuel : Nat) (r : Rd) (b : VBuf) (hw : r.WF) (hb : b.data.length ≤ b.cap)
    (hf : r.rest.length + r.entries < fuel) :
    ∃ (t : Nat) (r' : Rd) (cap' : Nat), t ≤ r.rest.length ∧ r'.rest = r.rest.drop t ∧
      ((validUtf8 (b.data ++ r.rest.take t) = true ∧ (r.Live → t = r.rest.length) ∧
          readToString fuel r b = (.ok t, r', ⟨b.data ++ r.rest.take t, cap'⟩)) ∨
        (validUtf8 (b.data ++ r.rest.take t) = false ∧ (r.Live → t = r.rest.length) ∧
          readToString fuel r b = (.invalidData, r', ⟨[], 0⟩)) ∨
        (∃ k, k ∈ r.errs ∧ ¬ r.Live ∧
          readToString fuel r b =
            (.err (.other k), r',
              ⟨if validUtf8 (b.data ++ r.rest.take t) then b.data ++ r.rest.take t else [], cap'⟩))) := by
  obtain ⟨t, res, r', cap', h1, h2, _, h4, _, h6⟩ := read_to_end_correct fuel r b hw hb hf
  refine ⟨t, r', cap', h2, h4, ?_⟩
  unfold readToString
  rw [h1]
  rcases h6 with ⟨a, c⟩ | ⟨k, a, c, d⟩
  · subst a
    by_cases hv : validUtf8 (b.data ++ r.rest.take t) = true
    · exact Or.inl ⟨hv, c, by simp [afterReadToString, hv]⟩
    · have hv' : validUtf8 (b.data ++ r.rest.take t) = false := by simpa using hv
      exact Or.inr (Or.inl ⟨hv', c, by simp [afterReadToString, hv']⟩)
  · subst a
    refine Or.inr (Or.inr ⟨k, c, d, ?_⟩)
    by_cases hv : validUtf8 (b.data ++ r.rest.take t) = true
    · simp [afterReadToString, hv]
    · have hv' : validUtf8 (b.data ++ r.rest.take t) = false := by simpa using hv
      simp [afterReadToString, hv']

/-- **from a live reader the answer depends only on the text as a whole** -/
theorem read_to_string_complete (fuel : Nat) (r : Rd) (b : VBuf) (hw : r.WF) (hl : r.Live)
    (hb : b.data.length ≤ b.cap) (hf : r.rest.length + r.entries < fuel) :
    (readToString fuel r b).1 =
      (if validUtf8 (b.data ++ r.rest) then .ok r.rest.length else .invalidData) ∧
    (readToString fuel r b).2.2.data = (if validUtf8 (b.data ++ r.rest) then b.data ++ r.rest else []) ∧
    (readToString fuel r b).2.1.rest = [] := by
  obtain ⟨r', cap', h1, h2⟩ := read_to_end_complete fuel r b hw hl hb hf
  unfold readToString
  rw [h1]
  by_cases hv : validUtf8 (b.data ++ r.rest) = true
  · simp [afterReadToString, hv, h2]
  · have hv' : validUtf8 (b.data ++ r.rest) = false := by simpa using hv
    simp [afterReadToString, hv', h2]

/-- **read_to_string does not depend on the chunking**: two honest scripts over the same stream —
whatever their chunk sizes, wherever a multi-byte character is cut, wherever the interruptions are —
give the same result and the same text. -/
theorem read_to_string_chunking_independent (f1 f2 : Nat) (s : Bytes) (sc1 sc2 : List Outcome) (b : VBuf)
    (hb : b.data.length ≤ b.cap) (l1 : (Rd.script s sc1).Live) (l2 : (Rd.script s sc2).Live)
    (h1 : s.length + sc1.length < f1) (h2 : s.length + sc2.length < f2) :
    (readToString f1 (.script s sc1) b).1 = (readToString f2 (.script s sc2) b).1 ∧
    (readToString f1 (.script s sc1) b).2.2.data = (readToString f2 (.script s sc2) b).2.2.data := by
  obtain ⟨a1, a2, _⟩ := read_to_string_complete f1 (.script s sc1) b trivial l1 hb h1
  obtain ⟨b1, b2, _⟩ := read_to_string_complete f2 (.script s sc2) b trivial l2 hb h2
  simp only [Rd.rest] at a1 a2 b1 b2
  exact ⟨a1.trans b1.symm, a2.trans b2.symm⟩

/-- **`Interrupted` entries are transparent for read_to_string** -/
theorem read_to_string_interrupted_transparent (f1 f2 : Nat) (s : Bytes) (sc : List Outcome) (b : VBuf)
    (h1 : s.length + sc.length < f1) (h2 : s.length + (stripIntr sc).length < f2) :
    readToString f2 (.script s (stripIntr sc)) b =
      ((readToString f1 (.script s sc) b).1, (readToString f1 (.script s sc) b).2.1.strip,
        (readToString f1 (.script s sc) b).2.2) := by
  unfold readToString
  rw [read_to_end_interrupted_transparent f1 f2 s sc b h1 h2]

/-- **read_to_string_at on `[u8]` / `Vec<u8>`**, every position: decided by the text from `pos` on -/
theorem read_to_string_at_correct (src : Bytes) (b : VBuf) (pos : Nat) (hb : b.data.length ≤ b.cap) :
    (readToStringAt src b pos).1 =
      (if validUtf8 (b.data ++ src.drop pos) then .ok (src.drop pos).length else .invalidData) ∧
    (readToStringAt src b pos).2.data =
      (if validUtf8 (b.data ++ src.drop pos) then b.data ++ src.drop pos else []) := by
  obtain ⟨cap', h⟩ := read_to_end_at_correct src b pos hb
  unfold readToStringAt
  rw [h]
  by_cases hv : validUtf8 (b.data ++ src.drop pos) = true
  · simp [afterReadToString, hv]
  · have hv' : validUtf8 (b.data ++ src.drop pos) = false := by simpa using hv
    simp [afterReadToString, hv']

/-- the validator on the code-point boundaries and the classic malformed forms -/
example :
    validUtf8 [0x61, 0xC3, 0xA9, 0xE2, 0x82, 0xAC, 0xF0, 0x9F, 0x98, 0x80, 0xF4, 0x8F, 0xBF, 0xBF, 0xED, 0x9F, 0xBF] = true ∧
    validUtf8 [0xC0, 0x80] = false ∧ validUtf8 [0xE0, 0x9F, 0xBF] = false ∧ validUtf8 [0xED, 0xA0, 0x80] = false ∧
    validUtf8 [0xF4, 0x90, 0x80, 0x80] = false ∧ validUtf8 [0xF0, 0x8F, 0xBF, 0xBF] = false ∧
    validUtf8 [0xE2, 0x82] = false ∧ validUtf8 [0x80] = false ∧ validUtf8 [0xC3, 0x41] = false := by decide

/-- "€" cut after its first and after its second byte, with an interruption in between -/
example :
    readToString 20 (.script [0xE2, 0x82, 0xAC] [.ok 1, .intr, .ok 1, .ok 1, .ok 1]) ⟨[0x78], 1⟩ =
      (.ok 3, .script [] [], ⟨[0x78, 0xE2, 0x82, 0xAC], 33⟩) := by decide

/-! ## 8. non-vacuity: the hypotheses are met by non-trivial data -/

/-- a live, well-formed, three-layer composition: `Take(7)` over `BufReader(3)` over an honest script -/
example :
    let r := Rd.take (.buf (.script [1, 2, 3, 4, 5, 6, 7, 8, 9] (List.replicate 12 (.ok 2))) (Buffer.withCapacity 3)) 7
    r.WF ∧ r.Live ∧ r.rest = [1, 2, 3, 4, 5, 6, 7] := by
  refine ⟨⟨trivial, Buffer.withCapacity_wf 3⟩, ⟨by decide, ?_, by decide⟩, by decide⟩
  intro o ho
  simp [List.replicate] at ho
  exact Or.inr ⟨2, by omega, ho⟩

/-- ... and `read_to_end` through it delivers exactly the seven bytes, after existing content -/
example :
    (readToEnd 60 (Rd.take (.buf (.script [1, 2, 3, 4, 5, 6, 7, 8, 9] (List.replicate 12 (.ok 2)))
      (Buffer.withCapacity 3)) 7) ⟨[0xF0], 1⟩).1 = .ok 7 ∧
    (readToEnd 60 (Rd.take (.buf (.script [1, 2, 3, 4, 5, 6, 7, 8, 9] (List.replicate 12 (.ok 2)))
      (Buffer.withCapacity 3)) 7) ⟨[0xF0], 1⟩).2.2.data = [0xF0, 1, 2, 3, 4, 5, 6, 7] := by decide

/-- a script with an interruption, a short read and an error: `read_exact` stops at the error with
the two bytes delivered so far in place and the old tail preserved -/
example :
    readExact 20 (.script [1, 2, 3, 4] [.intr, .ok 2, .err 3, .ok 2]) ⟨[9, 9, 9, 9], 4⟩ =
      (.err (.other 3), .script [3, 4] [.ok 2], ⟨[1, 2, 9, 9], 4⟩) := by decide

/-- a good `BufWriter` (inner writer without `Interrupted`) taking data in short writes -/
example :
    (Wr.buf (.script [] [.ok 1, .ok 2, .eof, .ok 9] 0 0) (Buffer.withCapacity 4)).Good := by
  refine ⟨trivial, Buffer.withCapacity_wf 4, ?_⟩
  simp [BaseWr.NoIntr]

end Compio.Props.C11
