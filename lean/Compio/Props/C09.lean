/-
C09 — timers never fire early and always fire.

Property theorems about the model of compio-runtime's timer wheel, `Sleep`, `Timeout` and `Interval`
(Model/Timer.lean; helper lemmas in Lemmas/Timer.lean). All statements are unbounded: every wheel,
every deadline set (past, now, equal, near, far), every sequence `ops : List Op` of
insert / update_waker / cancel / wake / poll_timer calls with the clock advancing by arbitrary
amounts between any two calls (`Op.advance`; the only assumption on time is that it never goes back).
-/
import Compio.Lemmas.Timer

namespace Compio.Props.C09
open Compio Compio.Timer

/-! ## 1. The map invariant: sorted, unique keys, fresh generations -/

/-- The keys stay strictly sorted by (deadline, generation) under every operation sequence — even
across a panicking insert. -/
theorem wheel_sorted_preserved (s : World) (ops : List Op) (h : Sorted s.wheel.entries) :
    Sorted (run s ops).wheel.entries := by
  induction ops generalizing s with
  | nil => exact h
  | cons op rest ih => exact ih _ (step_sorted s op h)

/-- The full invariant (sorted, every key's generation below the counter, counter ≤ `u64::MAX`) is
preserved by every operation sequence in which no `insert` panics. -/
theorem wheel_wf_preserved (s : World) (ops : List Op) (h : WF s.wheel)
    (hnp : Out.ins .panic ∉ outs s ops) : WF (run s ops).wheel := by
  induction ops generalizing s with
  | nil => exact h
  | cons op rest ih =>
    simp only [outs, List.mem_cons, not_or] at hnp
    exact ih _ (step_wf s op h (fun e => hnp.1 e.symm)) hnp.2

theorem new_wheel_wf : WF Wheel.new := WF.new

/-- no two entries of the map have the same key -/
theorem wheel_keys_unique (w : Wheel) (h : Sorted w.entries) : (keys w.entries).Nodup := h.nodup

/-- Keys are never reused: along any run the issued keys have strictly increasing generations,
all at or above the counter the run started with. Hence a stale key (a `Drop` after completion, a
late `update_waker`) can never hit somebody else's timer. -/
theorem issued_keys_fresh (s : World) (ops : List Op) :
    (issued (outs s ops)).Pairwise (fun a b => a.gen < b.gen) ∧
      ∀ k ∈ issued (outs s ops), s.wheel.gen ≤ k.gen := by
  induction ops generalizing s with
  | nil => simp [outs, issued]
  | cons op rest ih =>
    have ⟨ih1, ih2⟩ := ih (step s op).1
    cases op with
    | insert d =>
      by_cases hd : d ≤ s.now
      · have : step s (.insert d) = (s, .ins .none) := by simp [step, insert_due _ _ _ hd]
        simp only [outs, this, issued]
        exact ⟨by simpa [this] using ih1, by simpa [this] using ih2⟩
      · by_cases hg : s.wheel.gen < u64Max
        · have hst : step s (.insert d) =
              (⟨s.now, ⟨s.wheel.gen + 1, insertEntry ⟨d, s.wheel.gen⟩ none s.wheel.entries⟩⟩,
                .ins (.some ⟨d, s.wheel.gen⟩)) := by
            simp [step, insert_ok _ _ _ (by omega : s.now < d) hg]
          rw [hst] at ih1 ih2
          simp only [outs, hst, issued, List.pairwise_cons, List.mem_cons]
          refine ⟨⟨?_, ih1⟩, ?_⟩
          · intro k hk
            have := ih2 k hk
            simp only [] at this ⊢
            omega
          · rintro k (rfl | hk)
            · exact Nat.le_refl _
            · have := ih2 k hk
              simp only [] at this
              omega
        · have hst : step s (.insert d) =
              (⟨s.now, { s.wheel with entries := insertEntry ⟨d, s.wheel.gen⟩ none s.wheel.entries }⟩,
                .ins .panic) := by
            simp [step, insert_panic _ _ _ (by omega : s.now < d) (by omega : u64Max ≤ s.wheel.gen)]
          rw [hst] at ih1 ih2
          simp only [outs, hst, issued]
          exact ⟨ih1, ih2⟩
    | updateWaker k wk =>
      have hg : (step s (.updateWaker k wk)).1.wheel.gen = s.wheel.gen := by simp [step, updateWaker_gen]
      rw [hg] at ih2
      simpa [outs, issued, step] using And.intro ih1 ih2
    | cancel k =>
      simpa [outs, issued, step, cancel_gen] using And.intro ih1 ih2
    | wake =>
      have hg : (step s .wake).1.wheel.gen = s.wheel.gen := by simp [step, wake_gen]
      rw [hg] at ih2
      simpa [outs, issued, step] using And.intro ih1 ih2
    | pollTimer k wk =>
      have hg : (step s (.pollTimer k wk)).1.wheel.gen = s.wheel.gen := by simp [step, pollTimer_gen]
      rw [hg] at ih2
      simpa [outs, issued, step] using And.intro ih1 ih2
    | advance dt =>
      simpa [outs, issued, step] using And.intro ih1 ih2

/-! ## 2. Never early -/

/-- `wake now` expires only entries whose deadline has been reached. -/
theorem wake_never_early (w : Wheel) (now : Nat) (e : Entry) (h : e ∈ (wake w now).2) :
    e.1.deadline ≤ now := by
  have := ((mem_wake_expired w now e).mp h).2
  rw [lt_splitKey_iff] at this
  omega

/-- only expired entries have their waker invoked -/
theorem woken_never_early (w : Wheel) (now : Nat) (wk : Nat) (h : wk ∈ woken (wake w now).2) :
    ∃ k, (k, some wk) ∈ w.entries ∧ k.deadline ≤ now := by
  unfold woken at h
  obtain ⟨e, he, hw⟩ := List.mem_filterMap.mp h
  obtain ⟨k, v⟩ := e
  simp only [] at hw
  subst hw
  exact ⟨k, ((mem_wake_expired w now _).mp he).1, wake_never_early w now _ he⟩

/-- **Never early**, for whole runs: a registered key that is gone after an arbitrary operation
sequence which did not cancel it has reached its deadline — whatever other timers were created,
dropped or expired around it. -/
theorem never_early (s : World) (ops : List Op) (k : Key)
    (hin : k ∈ keys s.wheel.entries) (hnc : Op.cancel k ∉ ops)
    (hout : k ∉ keys (run s ops).wheel.entries) : k.deadline ≤ (run s ops).now := by
  rcases inv_run s ops k (Or.inl hin) hnc with h | h
  · exact absurd h hout
  · exact h

/-- the same for the future: a `Sleep` created for deadline `d` is found ready by a later poll only
when the clock has reached `d`. (`Sleep::poll` is ready iff `sleepDone`.) -/
theorem sleep_never_early (w w' : Wheel) (now d : Nat) (slp : Sleep) (ops : List Op)
    (hnew : Sleep.new w now d = (w', some slp))
    (hnc : ∀ k, slp.key = some k → Op.cancel k ∉ ops)
    (hready : sleepDone (run ⟨now, w'⟩ ops).wheel slp = true) :
    d ≤ (run ⟨now, w'⟩ ops).now := by
  unfold Sleep.new at hnew
  by_cases hd : d ≤ now
  · exact Nat.le_trans hd (run_now_le ⟨now, w'⟩ ops)
  · have hlt : now < d := by omega
    by_cases hg : w.gen < u64Max
    · rw [insert_ok w now d hlt hg] at hnew
      simp only [Prod.mk.injEq, Option.some.injEq] at hnew
      obtain ⟨hw, hs⟩ := hnew
      subst hs
      have hin : (⟨d, w.gen⟩ : Key) ∈ keys w'.entries := by
        rw [← hw]
        exact (mem_keys_insertEntry _ _ _ _).mpr (Or.inl rfl)
      simp only [sleepDone, isCompleted_iff] at hready
      exact never_early ⟨now, w'⟩ ops ⟨d, w.gen⟩ hin (hnc _ rfl) hready
    · rw [insert_panic w now d hlt (by omega)] at hnew
      simp at hnew

/-! ## 3. Always fires -/

/-- After `wake now` no key whose deadline has been reached remains (invariant: no insert has
panicked; without it see `Cex.C09.generation_overflow_counterexample`). -/
theorem wake_fires_all_due (w : Wheel) (now : Nat) (h : WF w) (k : Key)
    (hk : k ∈ keys (wake w now).1.entries) : now < k.deadline := by
  have ⟨hin, hn⟩ := (mem_keys_wake w now k).mp hk
  rw [lt_splitKey_iff] at hn
  have := h.fresh k hin
  have := h.bound
  omega

/-- the expired entries are exactly the entries whose deadline has been reached -/
theorem wake_expired_exact (w : Wheel) (now : Nat) (h : WF w) (e : Entry) :
    e ∈ (wake w now).2 ↔ e ∈ w.entries ∧ e.1.deadline ≤ now := by
  rw [mem_wake_expired, lt_splitKey_iff]
  constructor
  · rintro ⟨h1, h2⟩
    exact ⟨h1, by omega⟩
  · rintro ⟨h1, h2⟩
    have := h.fresh e.1 (mem_keys_of_mem h1)
    have := h.bound
    exact ⟨h1, by omega⟩

/-- and the pending ones exactly the others: nothing is lost or duplicated, the order is kept -/
theorem wake_splits (w : Wheel) (now : Nat) (h : Sorted w.entries) :
    (wake w now).2 ++ (wake w now).1.entries = w.entries := wake_partition w now h

/-- every due entry that has a waker gets it invoked -/
theorem wake_wakes (w : Wheel) (now : Nat) (h : WF w) (k : Key) (wk : Nat)
    (hin : (k, some wk) ∈ w.entries) (hdue : k.deadline ≤ now) : wk ∈ woken (wake w now).2 := by
  unfold woken
  exact List.mem_filterMap.mpr ⟨(k, some wk), (wake_expired_exact w now h _).mpr ⟨hin, hdue⟩, rfl⟩

/-- **Always fires**, for whole runs: take any issued key `k`; after any operations `pre` (none of
whose inserts panicked), a `wake` at a moment when `k`'s deadline has been reached, and any further
operations `post`, `k` is no longer in the wheel — whatever was inserted, cancelled or expired
before, at the same time or afterwards. -/
theorem always_fires (s : World) (pre post : List Op) (k : Key)
    (hwf : WF s.wheel) (hnp : Out.ins .panic ∉ outs s pre)
    (hissued : k.gen < s.wheel.gen)
    (hdue : k.deadline ≤ (run s pre).now) :
    k ∉ keys (run s (pre ++ Op.wake :: post)).wheel.entries := by
  rw [run_append]
  have hwf1 := wheel_wf_preserved s pre hwf hnp
  have hg1 : k.gen < (run s pre).wheel.gen := Nat.lt_of_lt_of_le hissued (run_gen_le s pre)
  have hgone : k ∉ keys (step (run s pre) .wake).1.wheel.entries := by
    intro hk
    have := wake_fires_all_due (run s pre).wheel (run s pre).now hwf1 k (by simpa [step] using hk)
    omega
  exact absent_run _ post k hgone (Nat.lt_of_lt_of_le hg1 (step_gen_le _ _))

/-- … so every later poll of the corresponding `Sleep` is ready -/
theorem sleep_always_fires (s : World) (pre post : List Op) (slp : Sleep) (wk : Nat)
    (hwf : WF s.wheel) (hnp : Out.ins .panic ∉ outs s pre)
    (hissued : ∀ k, slp.key = some k → k.gen < s.wheel.gen ∧ k.deadline ≤ (run s pre).now) :
    (Sleep.poll (run s (pre ++ Op.wake :: post)).wheel slp wk).2 = true := by
  rw [Sleep.poll_ready]
  unfold sleepDone
  cases hk : slp.key with
  | none => rfl
  | some k =>
    simp only [isCompleted_iff]
    exact always_fires s pre post k hwf hnp (hissued k hk).1 (hissued k hk).2

/-! ### `poll_with`: no starvation, whatever the driver reports

The statement list of `Runtime::poll_with` is regenerated from the source (extractor target
`PollWith`); `pollWith` interprets it with the outcome of the driver poll as a free parameter. -/

/-- `poll_with` panics exactly on an unexpected driver error … -/
theorem poll_with_panics_iff (w : Wheel) (now : Nat) (o : PollOutcome) :
    pollWith w now o = none ↔ o = .otherError := by
  constructor
  · intro h
    apply Classical.byContradiction
    intro ho
    rw [pollWith_eq_wake w now o ho] at h
    simp at h
  · rintro rfl
    exact pollWith_panics w now

/-- … and **after every other return of `poll_with` every timer whose deadline has been reached is
out of the wheel**, its waker invoked — whether the driver poll timed out, was interrupted, or
returned `Ok(())` because completions or wake-ups kept coming. A runtime that never idles in the
driver cannot starve its timers. -/
theorem poll_with_sweeps (w w' : Wheel) (now : Nat) (o : PollOutcome) (ex : List Entry) (hwf : WF w)
    (h : pollWith w now o = some (w', ex)) :
    (∀ k ∈ keys w'.entries, now < k.deadline) ∧
      (∀ e, e ∈ ex ↔ e ∈ w.entries ∧ e.1.deadline ≤ now) ∧
      (∀ k wk, (k, some wk) ∈ w.entries → k.deadline ≤ now → wk ∈ woken ex) ∧ WF w' := by
  have ho : o ≠ .otherError := fun e => by rw [e, pollWith_panics] at h; simp at h
  rw [pollWith_eq_wake w now o ho] at h
  simp only [Option.some.injEq] at h
  have h1 : w' = (wake w now).1 := by rw [h]
  have h2 : ex = (wake w now).2 := by rw [h]
  subst h1 h2
  exact ⟨fun k hk => wake_fires_all_due w now hwf k hk, fun e => wake_expired_exact w now hwf e,
    fun k wk hin hdue => wake_wakes w now hwf k wk hin hdue, hwf.wake now⟩

/-- for whole runs: any activity `pre`, then a `poll_with` returning in ANY way at a moment when the
issued key `k` is due, then any activity `post` — `k` is gone for good -/
theorem poll_with_always_fires (s : World) (pre post : List Op) (k : Key) (o : PollOutcome)
    (w' : Wheel) (ex : List Entry)
    (hwf : WF s.wheel) (hnp : Out.ins .panic ∉ outs s pre) (hissued : k.gen < s.wheel.gen)
    (hdue : k.deadline ≤ (run s pre).now)
    (h : pollWith (run s pre).wheel (run s pre).now o = some (w', ex)) :
    k ∉ keys (run ⟨(run s pre).now, w'⟩ post).wheel.entries := by
  have ho : o ≠ .otherError := fun e => by rw [e, pollWith_panics] at h; simp at h
  rw [pollWith_eq_wake _ _ o ho] at h
  simp only [Option.some.injEq] at h
  have hw : w' = (wake (run s pre).wheel (run s pre).now).1 := by rw [h]
  have := always_fires s pre post k hwf hnp hissued hdue
  rw [run_append] at this
  simpa [run, step, hw] using this

/-! ## 4. `min_timeout`: an idle runtime sleeps no longer than the nearest deadline -/

theorem min_timeout_none_iff (w : Wheel) (now : Nat) : minTimeout w now = none ↔ w.entries = [] := by
  unfold minTimeout
  cases w.entries with
  | nil => simp
  | cons e rest => obtain ⟨k, v⟩ := e; simp

/-- the poll timeout is at most the distance to every pending deadline -/
theorem min_timeout_le (w : Wheel) (now t : Nat) (hs : Sorted w.entries)
    (h : minTimeout w now = some t) : ∀ k ∈ keys w.entries, t ≤ k.deadline - now := by
  unfold minTimeout at h
  cases he : w.entries with
  | nil => rw [he] at h; simp at h
  | cons e rest =>
    obtain ⟨k0, v0⟩ := e
    rw [he] at h hs
    simp only [Option.some.injEq] at h
    subst h
    have ⟨hhead, _⟩ := sorted_cons.mp hs
    intro k hk
    rw [keys_cons, List.mem_cons] at hk
    rcases hk with rfl | hk
    · exact Nat.le_refl _
    · have := Key.lt_deadline_le (hhead k hk)
      simp only [] at this
      omega

/-- … and it is the distance to one of them (the runtime does not wake up needlessly early either) -/
theorem min_timeout_attained (w : Wheel) (now t : Nat) (h : minTimeout w now = some t) :
    ∃ k ∈ keys w.entries, t = k.deadline - now := by
  unfold minTimeout at h
  cases he : w.entries with
  | nil => rw [he] at h; simp at h
  | cons e rest =>
    obtain ⟨k0, v0⟩ := e
    rw [he] at h
    simp only [Option.some.injEq] at h
    exact ⟨k0, by simp [keys], h.symm⟩

/-- the timeout is zero exactly when some timer is due -/
theorem min_timeout_zero_iff (w : Wheel) (now : Nat) (hs : Sorted w.entries) :
    minTimeout w now = some 0 ↔ ∃ k ∈ keys w.entries, k.deadline ≤ now := by
  constructor
  · intro h
    obtain ⟨k, hk, ht⟩ := min_timeout_attained w now 0 h
    exact ⟨k, hk, by omega⟩
  · rintro ⟨k, hk, hdue⟩
    cases hm : minTimeout w now with
    | none =>
      rw [min_timeout_none_iff] at hm
      rw [hm] at hk
      simp [keys] at hk
    | some t =>
      have := min_timeout_le w now t hs hm k hk
      congr
      omega

/-- The loop of `block_on` / `poll`: having slept (at least) the announced timeout, the following
`wake` does expire a timer — the nearest deadline is not overslept and the loop does not spin. -/
theorem idle_loop_progress (w : Wheel) (now now' t : Nat) (hwf : WF w)
    (h : minTimeout w now = some t) (hslept : now + t ≤ now') : (wake w now').2 ≠ [] := by
  obtain ⟨k, hk, ht⟩ := min_timeout_attained w now t h
  obtain ⟨v, hv⟩ := mem_keys.mp hk
  have : (k, v) ∈ (wake w now').2 := (wake_expired_exact w now' hwf _).mpr ⟨hv, by simp only []; omega⟩
  intro hnil
  rw [hnil] at this
  simp at this

/-! ## 5. `cancel` (the `Drop` of a timer future) removes exactly its key -/

theorem cancel_exact (w : Wheel) (k : Key) (e : Entry) :
    e ∈ (cancel w k).entries ↔ e ∈ w.entries ∧ e.1 ≠ k := mem_cancel w k e

theorem cancel_completes (w : Wheel) (k : Key) : isCompleted (cancel w k) k = true := by
  rw [isCompleted_iff, mem_keys_cancel]
  exact fun h => h.2 rfl

/-- cancelling a key that is not registered (drop after completion, double drop) changes nothing -/
theorem cancel_stale_noop (w : Wheel) (k : Key) (h : k ∉ keys w.entries) : cancel w k = w := by
  unfold cancel
  have : w.entries.filter (fun e => decide (e.1 ≠ k)) = w.entries := by
    rw [List.filter_eq_self]
    intro e he
    simp only [decide_eq_true_eq]
    intro hek
    exact h (hek ▸ mem_keys_of_mem he)
  rw [this]

/-- the other timers keep their order and the invariant -/
theorem cancel_wf (w : Wheel) (k : Key) (h : WF w) : WF (cancel w k) := h.cancel k

/-- **A dropped timer leaves nothing behind**: after `Drop` the key is gone, and it never comes back
whatever happens afterwards; the wheel is otherwise as before. -/
theorem sleep_drop_leaves_nothing (now : Nat) (w : Wheel) (slp : Sleep) (k : Key) (ops : List Op)
    (hk : slp.key = some k) (hissued : k.gen < w.gen) :
    k ∉ keys (run ⟨now, Sleep.drop w slp⟩ ops).wheel.entries ∧
      ∀ e, e ∈ (Sleep.drop w slp).entries ↔ e ∈ w.entries ∧ e.1 ≠ k := by
  unfold Sleep.drop
  rw [hk]
  refine ⟨?_, fun e => mem_cancel w k e⟩
  apply absent_run
  · simp only [mem_keys_cancel]; exact fun h => h.2 rfl
  · exact hissued

/-- `update_waker k wk` touches the slot of `k` only: afterwards it holds `wk` (the old clone when
`will_wake` said it is the same waker), every other slot is as before, and on a key that is not
registered (completed, cancelled) it does nothing. -/
theorem update_waker_exact (w : Wheel) (k : Key) (wk : Nat) :
    (∀ k', k' ≠ k → lookup k' (updateWaker w k wk).entries = lookup k' w.entries) ∧
      (k ∈ keys w.entries → lookup k (updateWaker w k wk).entries = some (some wk)) ∧
      (k ∉ keys w.entries → updateWaker w k wk = w) := by
  refine ⟨?_, ?_, ?_⟩
  · intro k' hne
    unfold updateWaker
    split
    · rfl
    · split
      · rfl
      · exact lookup_setValue_ne _ _ _ _ hne
    · exact lookup_setValue_ne _ _ _ _ hne
  · intro hin
    unfold updateWaker
    split
    · rename_i h
      exact absurd hin ((lookup_none_iff k w.entries).mp h)
    · split
      · rename_i old h heq
        rw [h, heq]
      · exact lookup_setValue_self _ _ _ hin
    · exact lookup_setValue_self _ _ _ hin
  · intro hout
    unfold updateWaker
    rw [(lookup_none_iff k w.entries).mpr hout]

/-! ## 6. `insert` -/

/-- a deadline that has been reached is not registered: the future is ready at once -/
theorem insert_due_not_registered (w : Wheel) (now d : Nat) (h : d ≤ now) :
    insert w now d = (w, .none) := insert_due w now d h

/-- a future deadline gets a fresh key; all other entries are untouched -/
theorem insert_future_registers (w : Wheel) (now d : Nat) (hwf : WF w) (h : now < d)
    (hg : w.gen < u64Max) :
    (insert w now d).2 = .some ⟨d, w.gen⟩ ∧
      (⟨d, w.gen⟩ : Key) ∉ keys w.entries ∧
      (∀ e : Entry, e ∈ (insert w now d).1.entries ↔ e = (⟨d, w.gen⟩, none) ∨ e ∈ w.entries) ∧
      isCompleted (insert w now d).1 ⟨d, w.gen⟩ = false := by
  have hfresh : (⟨d, w.gen⟩ : Key) ∉ keys w.entries := fun hk => by
    have := hwf.fresh _ hk
    simp at this
  rw [insert_ok w now d h hg]
  refine ⟨rfl, hfresh, ?_, ?_⟩
  · intro e
    simp only []
    by_cases he : e.1 = ⟨d, w.gen⟩
    · constructor
      · intro hm
        -- the only entry under the new key is the inserted one
        have hs := sorted_insertEntry ⟨d, w.gen⟩ none w.entries hwf.sorted
        by_cases hold : e ∈ w.entries
        · exact absurd (he ▸ mem_keys_of_mem hold) hfresh
        · left
          obtain ⟨ke, ve⟩ := e
          simp only [] at he
          subst he
          have h1 := mem_insertEntry_self ⟨d, w.gen⟩ none w.entries
          rw [sorted_unique_value hs hm h1]
      · rintro (rfl | hold)
        · exact mem_insertEntry_self _ _ _
        · exact absurd (he ▸ mem_keys_of_mem hold) hfresh
    · rw [mem_insertEntry_of_ne _ _ _ _ he]
      constructor
      · exact Or.inr
      · rintro (rfl | hold)
        · exact absurd rfl he
        · exact hold
  · rw [isCompleted_false_iff]
    exact (mem_keys_insertEntry _ _ _ _).mpr (Or.inl rfl)

/-- `sleep(duration)` / `timeout(duration, _)` / `interval(period)`: the deadline is `now + duration`;
the only panic is the documented overflow of `Instant + Duration` -/
theorem duration_deadline (now dur : Nat) :
    (deadlineAfter now dur = none ↔ instMax < now + dur) ∧
      (∀ d, deadlineAfter now dur = some d → d = now + dur) := by
  unfold deadlineAfter
  split <;> simp_all <;> omega

/-- the explicit guard: `insert` panics exactly when a future deadline meets an exhausted counter -/
theorem insert_panics_iff (w : Wheel) (now d : Nat) (hb : w.gen ≤ u64Max) :
    (insert w now d).2 = .panic ↔ now < d ∧ w.gen = u64Max := by
  by_cases hd : d ≤ now
  · rw [insert_due w now d hd]; simp; omega
  · by_cases hg : w.gen < u64Max
    · rw [insert_ok w now d (by omega) hg]; simp; omega
    · rw [insert_panic w now d (by omega) (by omega)]; simp; omega

/-! ## 7. `Timeout` -/

/-- one poll: the inner future is polled first and wins ties -/
theorem timeout_poll (w : Wheel) (s : Sleep) (inner : Bool) (wk : Nat) :
    (Timeout.poll w s inner wk).2 =
      if inner then .ok else if sleepDone w s then .elapsed else .pending :=
  Timeout.poll_result w s inner wk

theorem timeout_inner_wins_tie (w : Wheel) (s : Sleep) (wk : Nat) :
    Timeout.poll w s true wk = (w, .ok) := by simp [Timeout.poll]

/-- **`Ok(inner)` exactly when** the inner future was ready at some poll `i` and at every earlier
poll neither the inner future was ready nor the sleep expired — i.e. at a poll not later than the
first poll at which the sleep was found expired. (`rounds` = what the rest of the program did to the
wheel between the polls, arbitrary.) -/
theorem timeout_ok_iff (s : World) (slp : Sleep) (wk : Nat) (rounds : List (List Op × Bool)) :
    (Timeout.drive s slp wk rounds).2 = .ok ↔
      ∃ i ops, rounds[i]? = some (ops, true) ∧ PendingBefore s slp wk rounds i :=
  Timeout.drive_ok_iff s slp wk rounds

/-- **`Err(Elapsed)` exactly when** some poll found the inner future pending and the sleep expired,
all earlier polls having been pending. -/
theorem timeout_elapsed_iff (s : World) (slp : Sleep) (wk : Nat) (rounds : List (List Op × Bool)) :
    (Timeout.drive s slp wk rounds).2 = .elapsed ↔
      ∃ i ops, rounds[i]? = some (ops, false) ∧
        sleepDone (worldAt s slp wk rounds i).wheel slp = true ∧ PendingBefore s slp wk rounds i :=
  Timeout.drive_elapsed_iff s slp wk rounds

/-- `Elapsed` is never early: it is only reported once the clock has reached the limit. -/
theorem timeout_elapsed_never_early (w w' : Wheel) (now d : Nat) (slp : Sleep) (wk : Nat)
    (rounds : List (List Op × Bool))
    (hnew : Sleep.new w now d = (w', some slp))
    (hnc : ∀ k, slp.key = some k → ∀ r ∈ rounds, Op.cancel k ∉ r.1)
    (hres : (Timeout.drive ⟨now, w'⟩ slp wk rounds).2 = .elapsed) :
    d ≤ (Timeout.drive ⟨now, w'⟩ slp wk rounds).1.now := by
  have hdone := Timeout.drive_elapsed_done _ _ _ _ hres
  unfold Sleep.new at hnew
  by_cases hd : d ≤ now
  · exact Nat.le_trans hd (Timeout.drive_now_le ⟨now, w'⟩ slp wk rounds)
  · have hlt : now < d := by omega
    by_cases hg : w.gen < u64Max
    · rw [insert_ok w now d hlt hg] at hnew
      simp only [Prod.mk.injEq, Option.some.injEq] at hnew
      obtain ⟨hw, hs⟩ := hnew
      subst hs
      have hin : Inv ⟨d, w.gen⟩ ⟨now, w'⟩ := by
        left
        rw [← hw]
        exact (mem_keys_insertEntry _ _ _ _).mpr (Or.inl rfl)
      have hinv := Timeout.drive_inv ⟨d, w.gen⟩ ⟨now, w'⟩ ⟨some ⟨d, w.gen⟩⟩ wk rounds hin (hnc _ rfl)
      simp only [sleepDone, isCompleted_iff] at hdone
      rcases hinv with h | h
      · exact absurd h hdone
      · exact h
    · rw [insert_panic w now d hlt (by omega)] at hnew
      simp at hnew

/-- **The inner future wins whenever it is not later**: let the inner future be a sleep with key
`ka` and the limit a sleep with key `kb`, `ka.deadline ≤ kb.deadline` (equal deadlines included).
After any operation sequence (nobody else cancelling the limit's key, no insert panicking), whenever
the limit's sleep is found expired the inner sleep is expired too — and since `Timeout::poll` polls
the inner future first, the result is never `Elapsed`. -/
theorem timeout_inner_not_later (s : World) (ops : List Op) (ka kb : Key) (wk : Nat)
    (hwf : WF s.wheel) (hnp : Out.ins .panic ∉ outs s ops)
    (hd : ka.deadline ≤ kb.deadline) (hga : ka.gen < s.wheel.gen)
    (hreg : kb ∈ keys s.wheel.entries) (hc : Op.cancel kb ∉ ops) :
    (Timeout.poll (run s ops).wheel ⟨some kb⟩
      (sleepDone (run s ops).wheel ⟨some ka⟩) wk).2 ≠ .elapsed := by
  have hb := before_run s ops ka kb hwf hnp hd hga (fun h => absurd hreg h) hc
  rw [Timeout.poll_result]
  cases hin : sleepDone (run s ops).wheel ⟨some ka⟩ with
  | true => simp
  | false =>
    simp only [Bool.false_eq_true, if_false]
    cases hl : sleepDone (run s ops).wheel ⟨some kb⟩ with
    | false => simp
    | true =>
      exfalso
      simp only [sleepDone, isCompleted_iff] at hl
      simp only [sleepDone, isCompleted_false_iff] at hin
      exact hb hl hin

/-! ## 8. `Interval` -/

/-- the first tick is `start` -/
theorem interval_first_tick (start period now : Nat) (iv : Interval)
    (h : intervalAt start period = some iv) : iv.tickDeadline now = .deadline start := by
  unfold intervalAt at h
  split at h
  · simp at h
  · simp only [Option.some.injEq] at h
    subst h
    rfl

theorem interval_zero_period_panics (start : Nat) : intervalAt start 0 = none := rfl

/-- **Ticks stay aligned**: every later tick (called at `now ≥ start`, which *never early* guarantees
once the first tick has completed) is `start + k * period` for the `k` making it the first such
instant strictly after `now`; missed ticks are skipped, not accumulated.
Guards, both explicit in the model: the period is at most `2^64` ns (≈ 584.5 years; beyond, see
`Cex.C09.interval_truncation_counterexample`) and `now + period` is a representable `Instant`. -/
theorem interval_next_aligned (iv : Interval) (now : Nat) (hf : iv.firstTicked = true)
    (hp : 0 < iv.period) (hp64 : iv.period ≤ 2 ^ 64) (hs : iv.start ≤ now)
    (hmax : now + iv.period ≤ instMax) :
    ∃ next, iv.tickDeadline now = .deadline next ∧
      (next - iv.start) % iv.period = 0 ∧ iv.start ≤ next ∧
      now < next ∧ next ≤ now + iv.period := by
  refine ⟨_, tick_next iv now hf hp hp64 hs hmax, ?_, ?_, ?_, ?_⟩
  · rw [Nat.add_sub_cancel_left]
    exact Nat.mul_mod_left _ _
  · exact Nat.le_add_right _ _
  · have hdm := Nat.div_add_mod (now - iv.start) iv.period
    have hlt : (now - iv.start) % iv.period < iv.period := Nat.mod_lt _ hp
    rw [Nat.add_mul, Nat.one_mul, Nat.mul_comm]
    generalize iv.period * ((now - iv.start) / iv.period) = m at *
    omega
  · have hdm := Nat.div_add_mod (now - iv.start) iv.period
    rw [Nat.add_mul, Nat.one_mul, Nat.mul_comm]
    generalize iv.period * ((now - iv.start) / iv.period) = m at *
    omega

/-- all ticks of an interval: the first is `start`, every later one `start + k * period`, `k ≥ 1` -/
theorem interval_ticks_aligned (start period : Nat) (iv : Interval)
    (h : intervalAt start period = some iv) (hp64 : period ≤ 2 ^ 64) :
    (∀ now, iv.tickDeadline now = .deadline start) ∧
      (∀ now, start ≤ now → now + period ≤ instMax →
        ∃ k, 1 ≤ k ∧ iv.ticked.tickDeadline now = .deadline (start + k * period)) := by
  refine ⟨fun now => interval_first_tick start period now iv h, ?_⟩
  intro now hs hmax
  unfold intervalAt at h
  split at h
  · simp at h
  · rename_i hp
    simp only [Option.some.injEq] at h
    subst h
    refine ⟨(now - start) / period + 1, Nat.le_add_left _ _, ?_⟩
    exact tick_next (Interval.ticked ⟨false, start, period⟩) now rfl (by simp [Interval.ticked]; omega)
      hp64 hs hmax

/-! ### `tick()` futures that are cancelled

The statement order of `Interval::tick` is regenerated from the source (extractor target
`IntervalTick`); the theorems below are about `Interval.runTicks`, which interprets it, for every
sequence of `tick()` calls each of which is either awaited to completion or dropped while pending. -/

/-- **Alignment under cancellation**: every instant delivered by any sequence of completed and
cancelled `tick()` futures is `start + k * period` and not before `start`. -/
theorem interval_coroutine_aligned (iv : Interval) (floor : Nat) (calls : List (Nat × TickEv))
    (hp : 0 < iv.period) (hp64 : iv.period ≤ 2 ^ 64)
    (hJ : iv.firstTicked = true → iv.start ≤ floor) (hv : iv.ValidCalls floor calls) :
    ∀ v ∈ (iv.runTicks calls).2, iv.start ≤ v ∧ (v - iv.start) % iv.period = 0 := by
  induction calls generalizing iv floor with
  | nil => simp [Interval.runTicks]
  | cons c rest ih =>
    obtain ⟨now, ev⟩ := c
    cases hf : iv.firstTicked with
    | false =>
      have hb := tickBegin_first iv now hf
      simp only [Interval.ValidCalls, hb] at hv
      simp only [Interval.runTicks, hb]
      cases ev with
      | cancel =>
        exact ih iv now hp hp64 (by simp [hf]) hv.2
      | complete =>
        simp only [tickEnd_first] at hv ⊢
        intro v hvm
        rw [List.mem_cons] at hvm
        rcases hvm with rfl | hvm
        · simp
        · exact ih { iv with firstTicked := true } (max now iv.start) hp hp64
            (fun _ => Nat.le_max_right _ _) hv.2 v hvm
    | true =>
      have hb := tickBegin_periodic iv now hf
      have hfl : floor ≤ now := by
        simp only [Interval.ValidCalls] at hv
        exact hv.1
      have hs : iv.start ≤ now := Nat.le_trans (hJ hf) hfl
      cases hd : iv.tickDeadline now with
      | panic =>
        rw [hd] at hb
        simp [Interval.runTicks, hb]
      | deadline d =>
        rw [hd] at hb
        simp only [] at hb
        have hal := tick_deadline_aligned iv now d hf hp hp64 hs hd
        simp only [Interval.ValidCalls, hb] at hv
        simp only [Interval.runTicks, hb]
        cases ev with
        | cancel => exact ih iv now hp hp64 (fun _ => hs) hv.2
        | complete =>
          simp only [tickEnd_periodic] at hv ⊢
          intro v hvm
          rw [List.mem_cons] at hvm
          rcases hvm with rfl | hvm
          · subst hal
            refine ⟨Nat.le_add_right _ _, ?_⟩
            rw [Nat.add_sub_cancel_left]
            exact Nat.mul_mod_left _ _
          · exact ih iv (max now d) hp hp64
              (fun _ => Nat.le_trans hs (Nat.le_max_left _ _)) hv.2 v hvm

/-- the tick at `start` is not lost: whatever was cancelled before, the first instant delivered by a
fresh interval is `start` -/
theorem interval_coroutine_first_is_start (iv : Interval) (calls : List (Nat × TickEv))
    (hf : iv.firstTicked = false) :
    (iv.runTicks calls).2 = [] ∨ (iv.runTicks calls).2.head? = some iv.start := by
  induction calls with
  | nil => simp [Interval.runTicks]
  | cons c rest ih =>
    obtain ⟨now, ev⟩ := c
    simp only [Interval.runTicks, tickBegin_first iv now hf]
    cases ev with
    | cancel => exact ih
    | complete => simp [tickEnd_first]

/-- a cancelled `tick()` leaves the interval exactly as it was (so does a cancelled periodic one) -/
theorem interval_cancel_is_noop (iv : Interval) (now : Nat) (calls : List (Nat × TickEv)) :
    iv.runTicks ((now, .cancel) :: calls) = iv.runTicks calls ∨ iv.tickBegin now = none := by
  cases hf : iv.firstTicked with
  | false => left; simp [Interval.runTicks, tickBegin_first iv now hf]
  | true =>
    have hb := tickBegin_periodic iv now hf
    cases hd : iv.tickDeadline now with
    | panic => right; rw [hb, hd]
    | deadline d => left; rw [hd] at hb; simp [Interval.runTicks, hb]

/-- the panic of `tick` is exactly the overflow of `now + period` -/
theorem interval_tick_panics_iff (iv : Interval) (now : Nat) (hf : iv.firstTicked = true)
    (hp : 0 < iv.period) : iv.tickDeadline now = .panic ↔ instMax < now + iv.period := by
  have hp0 : iv.period ≠ 0 := by omega
  simp only [Interval.tickDeadline, hf, hp0, Bool.not_true, Bool.false_eq_true, if_false]
  split <;> simp_all

/-! ## Non-vacuity: the hypotheses are satisfiable on non-trivial data -/

/-- three timers, two with the same deadline; cancel one, wake at the common deadline -/
example :
    let s0 : World := ⟨10, Wheel.new⟩
    let s := run s0 [.insert 15, .insert 12, .insert 15, .insert 7, .updateWaker ⟨15, 0⟩ 3,
      .cancel ⟨12, 1⟩, .advance 5, .wake]
    WF s.wheel ∧ s.now = 15 ∧ keys s.wheel.entries = [] ∧
      outs s0 [.insert 15, .insert 12, .insert 15, .insert 7, .updateWaker ⟨15, 0⟩ 3,
        .cancel ⟨12, 1⟩, .advance 5, .wake] =
      [.ins (.some ⟨15, 0⟩), .ins (.some ⟨12, 1⟩), .ins (.some ⟨15, 2⟩), .ins .none, .unit, .unit,
        .unit, .fired [(⟨15, 0⟩, some 3), (⟨15, 2⟩, none)]] := by
  refine ⟨?_, by decide, by decide, by decide⟩
  exact wheel_wf_preserved _ _ WF.new (by decide)

/-- `always_fires` instantiated: the key is gone although other timers were added around the wake -/
example : (⟨12, 0⟩ : Key) ∉ keys (run ⟨10, ⟨1, [(⟨12, 0⟩, none)]⟩⟩
    ([.insert 20, .advance 3] ++ Op.wake :: [.insert 30])).wheel.entries := by
  apply always_fires
  · exact ⟨by simp [Sorted, keys], by simp [keys], by simp [u64Max]⟩
  · decide
  · decide
  · decide

/-- a timeout whose inner future becomes ready at the third poll, the sleep not yet expired -/
example :
    (Timeout.drive ⟨0, ⟨1, [(⟨50, 0⟩, none)]⟩⟩ ⟨some ⟨50, 0⟩⟩ 7
      [([.advance 10, .wake], false), ([.advance 10, .wake], false), ([.advance 10, .wake], true)]).2 = .ok := by
  decide

/-- … and one that elapses: inner pending, the wake at 50 expires the key -/
example :
    (Timeout.drive ⟨0, ⟨1, [(⟨50, 0⟩, none)]⟩⟩ ⟨some ⟨50, 0⟩⟩ 7
      [([.advance 10, .wake], false), ([.advance 40, .wake], false), ([.advance 10, .wake], true)]) =
      (⟨50, ⟨1, []⟩⟩, .elapsed) := by
  decide

/-- interval with missed ticks: start 100, period 20, called at 171 → next tick 180 -/
example : (Interval.mk true 100 20).tickDeadline 171 = .deadline 180 := by decide

/-- first tick cancelled twice before `start`, then delivered; a periodic tick cancelled; all aligned -/
example :
    let iv : Interval := ⟨false, 100, 20⟩
    let calls : List (Nat × TickEv) :=
      [(10, .cancel), (50, .cancel), (60, .complete), (105, .cancel), (131, .complete), (140, .complete)]
    iv.ValidCalls 0 calls ∧ (iv.runTicks calls).2 = [100, 140, 160] := by
  refine ⟨?_, by decide⟩
  simp [Interval.ValidCalls, Interval.tickBegin, Interval.tickEnd, Interval.tickDeadline,
    Interval.applyStmts, stmtsBeforeAwait, stmtsAfterAwait, Compio.Gen.IntervalTick.firstBranch,
    Compio.Gen.IntervalTick.periodicBranch, instMax]

end Compio.Props.C09
