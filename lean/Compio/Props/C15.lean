/-
C15 — TLS and WebSocket layers preserve the stream over any transport behaviour.

The theorems are about the functions the driver `c15d` executes (`TlsSys.run`, `TlsShim.pollHandshake`,
`TlsShim.sslDoHandshake`, `WsShim.pollNext`, ...). The TLS / WebSocket engines are third-party and enter as the
abstract record / frame layers of `Model/TlsShim.lean` and `Model/WsShim.lean` (assumption A-E1); the
transport is the scheduled duplex of `Model/TlsNet.lean`: any per-call transfer limit `lim ≥ 1`, any numbers
`dr`/`dw`/`dfh`/`df` of consecutive `Pending`s before a read / write / flush is performed (a fair schedule),
buffering or not.

Contents
  1. one engine call during the handshake (`engine_call_spec`, `blocked_read_nothing_unflushed`)
  2. one poll of the `handshake` future (`handshake_poll_spec`, `pending_has_wakeup`)
  3. the two-party handshake: invariant, no deadlock, explicit bound (`handshake_completes`)
  3b. the established stream: `poll_write` / `poll_read` / `poll_close` (plaintext in order, exactly once;
      close_notify handed over before `Ready`, flushed when the flush is not delayed)
  4. WebSocket: flush before yield, flush order, no item lost
  5. non-vacuity examples
Defects (F150, F151, the latent `Done` arm) are witnessed in `Cex/C15.lean`; the guards below (`astream = false`
for the plain transport, `HasSC` for a handshake of at least three flights) are exactly what separates them.
-/
import Compio.Lemmas.TlsSys
import Compio.Lemmas.TlsApp
import Compio.Lemmas.TlsFuel
import Compio.Lemmas.WsShim

namespace Compio.Props.C15
open Compio.TlsNet Compio.TlsShim Compio.TlsSys

/-! ### 1. one call of the engine's handshake function through the shim -/

/-- **Specification of `SSL_do_handshake` over `AllowStd`/`OpensslInner`**, for every transport schedule and
every tape. From a state satisfying the shim invariant (`Good`: context pointer set, `¬written → nothing
unflushed`, cells in flight aligned with the two tapes) the call
  * never fails and never trips `assert!(!self.context.is_null())`,
  * ends in a state satisfying the invariant again,
  * returns `Ok` only with the tape and the post-handshake cells used up,
  * returns `WouldBlock` only with the wake-up arranged: the transport woke the caller's waker itself
    (`own`), or the waker is registered (`rwait`) on an *empty* pipe while *nothing of ours is unflushed* and
    it is the peer's turn,
  * and pays for every step out of the progress measure `S0`. -/
theorem engine_call_spec (sc : Sched) (p : Peer) (b' : Nat) (fuel : Nat) (o : Ossl) (v : View)
    (g : Good sc p b' o v) (hfuel : o.tape.length + o.post < fuel) :
    HsPost sc p b' o v (sslDoHandshake sc fuel o v).1 (sslDoHandshake sc fuel o v).2.1
      (sslDoHandshake sc fuel o v).2.2 :=
  doHs_spec sc p b' fuel o v g hfuel

/-- **waiting for the peer ⇒ nothing unflushed** (the reason a buffering transport cannot deadlock the
handshake): whenever the engine call blocks on an empty pipe, the endpoint's transport buffer is empty, the
pipe towards us is empty, our waker is registered there, and the next cell on the tape is the peer's. -/
theorem blocked_read_nothing_unflushed (sc : Sched) (p : Peer) (b' : Nat) (fuel : Nat) (o : Ossl) (v : View)
    (g : Good sc p b' o v) (hfuel : o.tape.length + o.post < fuel) {o' : Ossl} {v' : View}
    (h : sslDoHandshake sc fuel o v = (o', v', .wouldBlock .reg)) :
    v'.tp.wbuf.toList = [] ∧ v'.rx.q.toList = [] ∧ v'.rx.rwait = true ∧ ∃ t, o'.tape = o.me.other :: t := by
  have hs := doHs_spec sc p b' fuel o v g hfuel
  rw [h] at hs
  obtain ⟨_, _, h3, h4, h5, t, h6⟩ := hs.res
  exact ⟨h5, h3, h4, t, h6⟩

/-- the engine call never reports an error or a failed context assertion, whatever the schedule -/
theorem engine_call_no_failure (sc : Sched) (p : Peer) (b' : Nat) (fuel : Nat) (o : Ossl) (v : View)
    (g : Good sc p b' o v) (hfuel : o.tape.length + o.post < fuel) :
    (sslDoHandshake sc fuel o v).2.2 ≠ .err ∧ (sslDoHandshake sc fuel o v).2.2 ≠ .panic := by
  have hs := (doHs_spec sc p b' fuel o v g hfuel).res
  constructor <;> intro h <;> rw [h] at hs <;> exact hs

/-! ### 2. one poll of the `handshake` async fn -/

/-- **Specification of one poll of `handshake(f, stream)`** (`StartedHandshakeFuture`, `MidHandshake`,
`finish_handshake`, the post-handshake flush), in any of its states; see `PollPost`. In state `start` the
engine must not be able to finish inside the first call (`hnd`) - `handshake_completes` discharges this for
every handshake with a client flight after a server flight. -/
theorem handshake_poll_spec {sc : Sched} {p : Peer} {b' : Nat} {fut : HsFut} {o : Ossl} {v : View}
    (hr : Rest sc p b' fut o v) (hfuel : o.tape.length + o.post < sc.fuel) (hne : fut ≠ .done)
    (hnd : fut = .start → (sslDoHandshake sc sc.fuel { o with ctx := true } v).2.2 ≠ .ok ()) :
    PollPost sc p b' fut o v (pollHandshake sc fut o v).1 (pollHandshake sc fut o v).2.1
      (pollHandshake sc fut o v).2.2.1 (pollHandshake sc fut o v).2.2.2 :=
  pollHandshake_spec hr hfuel hne hnd

/-- **no busy loop, no lost wake-up**: every `Pending` the handshake future returns to its caller comes with
the caller's wake-up arranged by the transport: either the transport has woken the waker during this very
poll, or the waker is stored in the (empty) pipe the future is waiting on. The context pointer is cleared
again (`Guard`), and the future never fails. -/
theorem pending_has_wakeup {sc : Sched} {p : Peer} {b' : Nat} {fut : HsFut} {o : Ossl} {v : View}
    (hr : Rest sc p b' fut o v) (hfuel : o.tape.length + o.post < sc.fuel) (hne : fut ≠ .done)
    (hnd : fut = .start → (sslDoHandshake sc sc.fuel { o with ctx := true } v).2.2 ≠ .ok ())
    {fut' : HsFut} {o' : Ossl} {v' : View} {r : PollR Unit} (h : pollHandshake sc fut o v = (fut', o', v', r)) :
    o'.ctx = false ∧ r ≠ .err ∧ r ≠ .panic ∧
    (∀ pd, r = .pending pd → v'.own = true ∨ (v'.rx.rwait = true ∧ v'.rx.q.toList = [])) := by
  have hs := pollHandshake_spec hr hfuel hne hnd
  rw [h] at hs
  obtain ⟨hrest, _, _, _, _, _, hres⟩ := hs
  refine ⟨hrest.ctx, ?_, ?_, ?_⟩
  · intro he; rw [he] at hres; exact hres
  · intro he; rw [he] at hres; exact hres
  · intro pd hp
    rw [hp] at hres
    cases pd with
    | self => exact Or.inl hres.1
    | reg => exact Or.inr ⟨hres.2.2.2.2.1, hres.2.2.2.1⟩

/-- the post-handshake flush: when the future resolves, the endpoint's transport buffer is empty -/
theorem handshake_ready_flushed {sc : Sched} {p : Peer} {b' : Nat} {fut : HsFut} {o : Ossl} {v : View}
    (hr : Rest sc p b' fut o v) (hfuel : o.tape.length + o.post < sc.fuel) (hne : fut ≠ .done)
    (hnd : fut = .start → (sslDoHandshake sc sc.fuel { o with ctx := true } v).2.2 ≠ .ok ())
    {fut' : HsFut} {o' : Ossl} {v' : View} (h : pollHandshake sc fut o v = (fut', o', v', .ready ())) :
    fut' = .done ∧ o'.tape = [] ∧ o'.post = 0 ∧ v'.tp.wbuf.toList = [] := by
  have hs := pollHandshake_spec hr hfuel hne hnd
  rw [h] at hs
  obtain ⟨hrest, _, _, _, _, _, hres⟩ := hs
  have hd : fut' = .done := hres.1
  subst hd
  exact ⟨rfl, hrest.phase⟩

/-! ### 3. the two-party handshake -/

/-- the invariant of the two-party system holds initially and is kept by every pass of the executor, which
also lowers the progress measure `Sys.phi` -/
theorem invariant_step {y : Sys} (h : Inv y) (hr : y.runnable = true) : Inv (round y) ∧ (round y).phi < y.phi :=
  round_step h hr

/-- **no deadlock**: in every state of the invariant that is not finished, some task has its wake flag set
(two endpoints can never both wait for the peer) -/
theorem no_deadlock {y : Sys} (h : Inv y) (hnd : y.allDone = false) : y.runnable = true :=
  runnable_of_inv h hnd

/-- **The handshake completes, with an explicit bound, for every fair transport schedule** - in particular
over a buffering transport. For every per-call limit `lim ≥ 1`, all delays `dr dw dfh df`, buffering or not,
every handshake tape with a client flight after a server flight (`HasSC`) and any number of post-handshake
cells: the executor of the harness, started on the two `handshake` futures, finishes within
`hsBound sc tape post = O((dr+dw+dfh+df+1) * (|tape| + post))` passes with both futures resolved `Ok`, no
panic (context assertion), never stuck, never out of polls. -/
theorem handshake_completes (sc : Sched) (tape : List Side) (post : Nat) (hlim : 1 ≤ sc.lim)
    (hdir : sc.astream = false) (hwf : HasSC tape) (hfuel : tape.length + post + 2 < sc.fuel) :
    (run (hsBound sc tape post) (Sys.init sc false tape post [] [])).2 = .done ∧
    (run (hsBound sc tape post) (Sys.init sc false tape post [] [])).1.c.res = [.ok 0] ∧
    (run (hsBound sc tape post) (Sys.init sc false tape post [] [])).1.s.res = [.ok 0] ∧
    (run (hsBound sc tape post) (Sys.init sc false tape post [] [])).1.panicked = false := by
  obtain ⟨hinv, hphi⟩ := init_inv sc tape post hlim hdir hwf hfuel
  obtain ⟨hdone, hinv', hall⟩ := run_done (hsBound sc tape post) _ hinv hphi
  generalize (run (hsBound sc tape post) (Sys.init sc false tape post [] [])).1 = y at hinv' hall
  obtain ⟨fc, oc, fs, os, a, b, a', b', w⟩ := hinv'
  simp only [Sys.allDone, Bool.and_eq_true] at hall
  have htc := w.tc
  have hts := w.ts
  simp only [hall.1, if_true] at htc
  simp only [hall.2, if_true] at hts
  exact ⟨hdone, htc.1.res, hts.1.res, w.nopanic⟩

/-- **when `connect` / `accept` return, every handshake byte this side produced has been handed to the
transport AND flushed - for both roles.** In the final state of `handshake_completes`, for the client
(`TlsConnector::connect`) and for the server (`TlsAcceptor::accept`) alike: the handshake future is `done`, the
engine has no handshake or post-handshake cell left to write, and the endpoint's transport buffer is empty.
The tape is arbitrary (`HasSC`): in a TLS 1.3 shaped handshake the *client* writes the last message (its
Finished, written while `OpensslInner::poll_flush` is still a no-op and followed by no read), in a TLS 1.2
shaped one the *server* does - the post-handshake flush of the shared `handshake()` driver is what empties the
buffer in either case (seed C15-4a removed it for the client). -/
theorem handshake_returns_flushed_both_roles (sc : Sched) (tape : List Side) (post : Nat) (hlim : 1 ≤ sc.lim)
    (hdir : sc.astream = false) (hwf : HasSC tape) (hfuel : tape.length + post + 2 < sc.fuel) :
    let y := (run (hsBound sc tape post) (Sys.init sc false tape post [] [])).1
    (∃ oc, y.c.s = .ossl .done oc ∧ oc.me = .client ∧ oc.tape = [] ∧ oc.post = 0 ∧ y.tpC.wbuf.toList = []) ∧
    (∃ os, y.s.s = .ossl .done os ∧ os.me = .server ∧ os.tape = [] ∧ os.post = 0 ∧ y.tpS.wbuf.toList = []) := by
  intro y
  obtain ⟨hinv, hphi⟩ := init_inv sc tape post hlim hdir hwf hfuel
  obtain ⟨_, hinv', hall⟩ := run_done (hsBound sc tape post) _ hinv hphi
  obtain ⟨fc, oc, fs, os, a, b, a', b', w⟩ := hinv'
  simp only [Sys.allDone, Bool.and_eq_true] at hall
  have htc := w.tc
  have hts := w.ts
  simp only [hall.1, if_true] at htc
  simp only [hall.2, if_true] at hts
  have hpc := w.phC
  have hps := w.phS
  rw [htc.2] at hpc
  rw [hts.2] at hps
  exact ⟨⟨oc, htc.1.s, w.mec, hpc.1, hpc.2.1, hpc.2.2⟩, ⟨os, hts.1.s, w.mes, hps.1, hps.2.1, hps.2.2⟩⟩

/-- the per-poll form, with the role explicit: whichever role the endpoint plays, the poll in which
`handshake()` resolves leaves nothing of the handshake in the engine and nothing in the transport buffer -/
theorem handshake_ready_flushed_role (role : Side) {sc : Sched} {p : Peer} {b' : Nat} {fut : HsFut} {o : Ossl}
    {v : View} (_hrole : o.me = role) (hr : Rest sc p b' fut o v) (hfuel : o.tape.length + o.post < sc.fuel)
    (hne : fut ≠ .done)
    (hnd : fut = .start → (sslDoHandshake sc sc.fuel { o with ctx := true } v).2.2 ≠ .ok ())
    {fut' : HsFut} {o' : Ossl} {v' : View} (h : pollHandshake sc fut o v = (fut', o', v', .ready ())) :
    o'.me = role ∧ fut' = .done ∧ o'.tape = [] ∧ o'.post = 0 ∧ v'.tp.wbuf.toList = [] := by
  have hs := pollHandshake_spec hr hfuel hne hnd
  rw [h] at hs
  obtain ⟨f1, f2, f3, f4⟩ := handshake_ready_flushed hr hfuel hne hnd h
  exact ⟨hs.me.trans _hrole, f1, f2, f3, f4⟩

/-- more fuel for the executor changes nothing (the bound is sufficient, not tuned) -/
theorem handshake_completes_any_fuel (sc : Sched) (tape : List Side) (post : Nat) (hlim : 1 ≤ sc.lim)
    (hdir : sc.astream = false) (hwf : HasSC tape) (hfuel : tape.length + post + 2 < sc.fuel)
    (n : Nat) (hn : hsBound sc tape post ≤ n) :
    (run n (Sys.init sc false tape post [] [])).2 = .done := by
  obtain ⟨hinv, hphi⟩ := init_inv sc tape post hlim hdir hwf hfuel
  exact (run_done n _ hinv (by omega)).1

/-- the budget of the engine loop is irrelevant: any two values above the number of cells still to be
processed give the same result (and by `engine_call_no_failure` it is never the out-of-fuel error) -/
theorem engine_call_fuel_irrelevant (sc : Sched) (f1 f2 : Nat) (o : Ossl) (v : View)
    (h1 : o.tape.length + o.post < f1) (h2 : o.tape.length + o.post < f2) :
    sslDoHandshake sc f1 o v = sslDoHandshake sc f2 o v :=
  sslDoHandshake_fuel_indep sc f1 f2 o v h1 h2

/-! ### 3b. the established stream (native-tls back-end) -/

/-- **`poll_write`**: the accepted plaintext becomes one record which reaches the transport in order and
exactly once - across any number of `Pending`s (the rest of the record is kept, a retry continues it);
`Ready(n)` only when the whole record has been handed over; `Pending` has the transport's wake-up; never an
error or a failed context assertion; the context pointer is cleared again. -/
theorem tls_write_spec (sc : Sched) (o : Ossl) (v : View) (buf : List UInt8) (ha : App sc v)
    (hcl : o.close = .none) (hfuel : o.out.length < sc.fuel ∧ recordMax + 22 < sc.fuel) (hbuf : buf ≠ []) :
    let r := TlsShim.pollWrite sc o v buf
    App sc r.2.1 ∧ r.1.ctx = false ∧ r.1.close = .none ∧ r.2.1.rx = v.rx ∧
    committed r.1 r.2.1 = committed o v ++ (if o.out = [] then record (buf.take recordMax) else []) ∧
    (match r.2.2 with
      | .ready n => r.1.out = [] ∧ n = (if o.out = [] then (buf.take recordMax).length else o.outPlain)
      | .pending p => p = .self ∧ r.2.1.own = true
      | .err => False
      | .panic => False) :=
  pollWrite_spec sc o v buf ha hcl hfuel hbuf

/-- **`poll_read`**: the call consumes a prefix of the incoming cells and returns exactly their plaintext, in
order; `Ok(0)` only for a close_notify; a `Pending` has consumed no plaintext and has its wake-up arranged
(own waker woken, or registered on the empty pipe). -/
theorem tls_read_spec (sc : Sched) (o : Ossl) (v : View) (n : Nat) (hn : n ≠ 0) (hh : o.handshaken = true)
    (hrc : o.rcvdClose = false) :
    let r := TlsShim.pollRead sc o v n
    r.1.ctx = false ∧ r.2.1.tx = v.tx ∧ r.2.1.tp.wbuf = v.tp.wbuf ∧
    ∃ C, v.rxs = C ++ r.2.1.rxs ∧
      (match r.2.2 with
        | .ready bs => plainOf C = (bs, r.1.rcvdClose) ∧ bs.length ≤ n ∧ (bs = [] → r.1.rcvdClose = true)
        | .pending p => plainOf C = ([], false) ∧ (p = .self → r.2.1.own = true) ∧
            (p = .reg → r.2.1.rx.rwait = true ∧ r.2.1.rxs = [])
        | .err => True
        | .panic => False) :=
  pollRead_spec sc o v n hn hh hrc

/-- **in order, exactly once**: whatever sequence of records the writer has committed (`tls_write_spec`), the
reader's view of the cells (`tls_read_spec`, over the FIFO pipe) is the concatenation of their plaintexts, then
that of what follows - e.g. `([], true)` for the close_notify record. -/
theorem tls_plaintext_in_order (ps : List (List UInt8)) (rest : List Cell) :
    plainOf ((ps.map record).flatten ++ rest) = (ps.flatten ++ (plainOf rest).1, (plainOf rest).2) :=
  plainOf_records ps rest

theorem tls_close_notify_plain : plainOf alertRecord = ([], true) := plainOf_alertRecord

/-- **`poll_close`**: `Ready` means the close_notify record has been handed to the transport after everything
written before; it has *left the endpoint* whenever the flush issued by the engine is not delayed
(`flushDelay = 0`, or a non-buffering transport) - the guard that separates finding F150: with a delayed
flush the engine ignores the `Pending` and `poll_close` neither retries nor closes the transport
(`Cex.C15.f150_alert_stranded`). A `Pending` (partial write of the record) keeps the rest and has its wake-up. -/
theorem tls_close_spec (sc : Sched) (o : Ossl) (v : View) (ha : App sc v) (hout : o.out = [])
    (hcl : o.close = .none) (hhs : o.handshaken = true) (hfuel : 24 < sc.fuel) :
    let r := TlsShim.pollClose sc o v
    App sc r.2.1 ∧ r.1.ctx = false ∧ r.2.1.tx.closed = false ∧
    (match r.2.2 with
      | .ready () => r.1.close = .sent ∧ r.1.out = [] ∧ r.2.1.txs = v.txs ++ alertRecord ∧
          (flushDelay sc v.tp = 0 → r.2.1.tp.wbuf.toList = [] ∧ r.2.1.tx.q.toList = v.txs ++ alertRecord)
      | .pending p => p = .self ∧ r.2.1.own = true ∧ r.1.close = .queued ∧
          committed r.1 r.2.1 = v.txs ++ alertRecord
      | .err => False
      | .panic => False) :=
  pollClose_spec sc o v ha hout hcl hhs hfuel

/-! ### 4. compio-ws: flush before yield, flush order, nothing lost -/

section Ws
open Compio.WsShim

/-- **`Sink::poll_flush` of compio-ws** (protocol flush, then transport flush): `Ready` means that nothing is
pending at any level - no queued reply, empty write buffer, empty stream buffer - and that everything,
including a queued pong / close reply, has reached the peer's pipe in order. -/
theorem ws_flush_ready {sc : WSched} {w w' : Ws} {v v' : WView} (hn : NoBuf sc v)
    (h : WsShim.pollFlush sc w v = (w', v', .ready ())) :
    w'.e.additional = none ∧ w'.e.out = [] ∧ v'.tbuf = [] ∧
    v'.tx = v.tx ++ v.tbuf ++ w.e.out ++ addList w.e := by
  obtain ⟨_, h1, h2, h3, _, _, h6⟩ := pollFlush_ready hn h
  exact ⟨h1, h2, h3, h6⟩

/-- a `Pending` flush has the transport's wake-up and loses / reorders nothing -/
theorem ws_flush_pending {sc : WSched} {w w' : Ws} {v v' : WView} {p : Pend} (hn : NoBuf sc v)
    (h : WsShim.pollFlush sc w v = (w', v', .pending p)) :
    p = .self ∧ v'.wire ++ w'.e.out ++ addList w'.e = v.wire ++ w.e.out ++ addList w.e := by
  obtain ⟨_, h1, h2, _, _, h5⟩ := pollFlush_pending hn h
  refine ⟨h1, ?_⟩
  rw [h5]; simp [addList, h2]

/-- **flush before yielding an item** (`Stream::poll_next`): when `poll_next` hands an item to the caller,
  * the item is either the parked one or the head of the incoming frames, consumed exactly once,
  * the reply that reading it queued (pong for a ping, close reply for a close) has already reached the
    peer's pipe, after everything written before,
  * and nothing is left pending (`next_item`, reply queue, write buffer, stream buffer all empty). -/
theorem ws_next_ready {sc : WSched} {w w' : Ws} {v v' : WView} {item : Frame} (hn : NoBuf sc v)
    (h : pollNext sc w v = (w', v', .ready item)) :
    w'.nextItem = none ∧ w'.e.additional = none ∧ w'.e.out = [] ∧ v'.tbuf = [] ∧
    ((w.nextItem = some item ∧ v'.rx = v.rx ∧ v'.tx = v.tx ++ v.tbuf ++ w.e.out ++ addList w.e) ∨
     (w.nextItem = none ∧ v.rx = item :: v'.rx ∧
       (w.e.additional = none → v'.tx = v.tx ++ v.tbuf ++ w.e.out ++ replyOf w.e item))) := by
  unfold pollNext at h
  cases hni : w.nextItem with
  | some it =>
    simp only [hni] at h
    cases hf : WsShim.pollFlush sc w v with
    | mk w1 x =>
      obtain ⟨v1, r1⟩ := x
      rw [hf] at h
      cases r1 with
      | pending p => simp at h
      | ready u =>
        cases u
        simp only [Prod.mk.injEq, R.ready.injEq] at h
        obtain ⟨h1, h2, h3⟩ := h; subst h1; subst h2; subst h3
        obtain ⟨_, g1, g2, g3, g4, _, g6⟩ := pollFlush_ready hn hf
        exact ⟨rfl, g1, g2, g3, Or.inl ⟨rfl, g4, g6⟩⟩
  | none =>
    simp only [hni] at h
    rcases engRead_spec w.e v with ⟨_, heq⟩ | ⟨f, rest, e', hrx, heq, hout, hadd⟩
    · rw [heq] at h; simp at h
    · rw [heq] at h
      simp only at h
      cases hf : WsShim.pollFlush sc { w with e := e', nextItem := some f } { v with rx := rest } with
      | mk w1 x =>
        obtain ⟨v1, r1⟩ := x
        rw [hf] at h
        cases r1 with
        | pending p => simp at h
        | ready u =>
          cases u
          simp only [Prod.mk.injEq, R.ready.injEq] at h
          obtain ⟨h1, h2, h3⟩ := h; subst h1; subst h2; subst h3
          have hn1 : NoBuf sc { v with rx := rest } := hn
          obtain ⟨_, g1, g2, g3, g4, _, g6⟩ := pollFlush_ready hn1 hf
          refine ⟨rfl, g1, g2, g3, Or.inr ⟨rfl, by rw [hrx, g4], fun ha => ?_⟩⟩
          rw [g6]; simp only; rw [hout, hadd ha]

/-- **a `Pending` `poll_next` keeps the item**: an item that has been taken from the protocol layer stays
parked in `next_item` until the flushes are through - it is neither lost nor read twice; a `Pending` because
nothing has arrived registers the waker and parks nothing. -/
theorem ws_next_pending {sc : WSched} {w w' : Ws} {v v' : WView} {p : Pend} (hn : NoBuf sc v)
    (h : pollNext sc w v = (w', v', .pending p)) :
    (p = .reg ∧ w.nextItem = none ∧ v.rx = [] ∧ w'.nextItem = none ∧ v'.rwait = true) ∨
    (p = .self ∧ ((∃ it, w.nextItem = some it ∧ w'.nextItem = some it ∧ v'.rx = v.rx) ∨
                  (∃ it, w.nextItem = none ∧ v.rx = it :: v'.rx ∧ w'.nextItem = some it))) := by
  unfold pollNext at h
  cases hni : w.nextItem with
  | some it =>
    simp only [hni] at h
    cases hf : WsShim.pollFlush sc w v with
    | mk w1 x =>
      obtain ⟨v1, r1⟩ := x
      rw [hf] at h
      cases r1 with
      | ready u => cases u; simp at h
      | pending p1 =>
        simp only [Prod.mk.injEq, R.pending.injEq] at h
        obtain ⟨h1, h2, h3⟩ := h; subst h1; subst h2; subst h3
        obtain ⟨_, g1, _, g3, g4, _⟩ := pollFlush_pending hn hf
        exact Or.inr ⟨g1, Or.inl ⟨it, rfl, by rw [g4, hni], g3⟩⟩
  | none =>
    simp only [hni] at h
    rcases engRead_spec w.e v with ⟨hrx, heq⟩ | ⟨f, rest, e', hrx, heq, _, _⟩
    · rw [heq] at h
      simp only [Prod.mk.injEq, R.pending.injEq] at h
      obtain ⟨h1, h2, h3⟩ := h; subst h1; subst h2; subst h3
      exact Or.inl ⟨rfl, rfl, hrx, rfl, rfl⟩
    · rw [heq] at h
      simp only at h
      cases hf : WsShim.pollFlush sc { w with e := e', nextItem := some f } { v with rx := rest } with
      | mk w1 x =>
        obtain ⟨v1, r1⟩ := x
        rw [hf] at h
        cases r1 with
        | ready u => cases u; simp at h
        | pending p1 =>
          simp only [Prod.mk.injEq, R.pending.injEq] at h
          obtain ⟨h1, h2, h3⟩ := h; subst h1; subst h2; subst h3
          have hn1 : NoBuf sc { v with rx := rest } := hn
          obtain ⟨_, g1, _, g3, g4, _⟩ := pollFlush_pending hn1 hf
          exact Or.inr ⟨g1, Or.inr ⟨f, rfl, by rw [hrx, g3], by rw [g4]⟩⟩

/-- `send` from a clean state: `Ready` means the frame is in the peer's pipe, after everything before it -/
theorem ws_send_ready {sc : WSched} {w w' : Ws} {v v' : WView} {f : Frame} {q : Bool} (hn : NoBuf sc v)
    (hr : w.e.ready = true) (h : pollSend sc w v f false = (w', v', q, .ready ())) :
    v'.tx = v.tx ++ v.tbuf ++ w.e.out ++ [f] ++ addList w.e ∧ w'.e.out = [] ∧ v'.tbuf = [] := by
  unfold pollSend at h
  simp only [Bool.false_eq_true, if_false, hr, if_true] at h
  cases hf : WsShim.pollFlush sc { w with e := engWrite w.e f } v with
  | mk w1 x =>
    obtain ⟨v1, r1⟩ := x
    rw [hf] at h
    simp only [Prod.mk.injEq] at h
    obtain ⟨h1, h2, _, h4⟩ := h; subst h1; subst h2; subst h4
    obtain ⟨_, _, g2, g3, _, _, g6⟩ := pollFlush_ready hn hf
    refine ⟨?_, g2, g3⟩
    rw [g6]; simp [engWrite, addList, List.append_assoc]

end Ws

/-! ### 5. non-vacuity -/

/-- a TLS-1.3 shaped tape satisfies the well-formedness hypothesis -/
example : HasSC [.client, .client, .server, .server, .server, .client] :=
  ⟨[.client, .client], [.server, .server, .client], rfl, by simp⟩

/-- the hypotheses of `handshake_completes` are satisfiable with a buffering transport, a 1-byte transfer
limit and every call delayed -/
example : (run (hsBound ⟨1, true, false, 2, 1, 3, 1, 100⟩ [.client, .server, .client] 2)
    (Sys.init ⟨1, true, false, 2, 1, 3, 1, 100⟩ false [.client, .server, .client] 2 [] [])).2 = .done :=
  (handshake_completes ⟨1, true, false, 2, 1, 3, 1, 100⟩ [.client, .server, .client] 2 (by decide) rfl
    ⟨[.client], [.client], rfl, by simp⟩ (by decide)).1

/-- reading a ping over a buffering stream whose writes pend once: the first poll parks the ping and
returns `Pending`; when the ping is yielded by the second poll its pong is in the peer's pipe -/
example :
    let sc : WsShim.WSched := ⟨true, 1, 0⟩
    let v0 : WsShim.WView := ⟨[], 0, 0, [], [⟨.ping, [1, 2]⟩], false⟩
    let r1 := WsShim.pollNext sc WsShim.Ws.new v0
    let r2 := WsShim.pollNext sc r1.1 r1.2.1
    (match r1.2.2 with | .pending .self => true | _ => false) = true ∧ r1.1.nextItem = some ⟨.ping, [1, 2]⟩ ∧
    (match r2.2.2 with | .ready f => f == ⟨.ping, [1, 2]⟩ | _ => false) = true ∧
    r2.2.1.tx = [⟨.pong, [1, 2]⟩] := by decide

/-- client writes last (TLS 1.3 shape) and server writes last (TLS 1.2 shape), buffering transport with every
call delayed: both runs end with both transport buffers empty -/
example :
    let sc : Sched := ⟨2, true, false, 1, 1, 2, 1, 100⟩
    let y13 := (run 400 (Sys.init sc false [.client, .server, .server, .client] 1 [] [])).1
    let y12 := (run 400 (Sys.init sc false [.client, .server, .client, .client, .server] 0 [] [])).1
    y13.c.res = [.ok 0] ∧ y13.s.res = [.ok 0] ∧ y13.tpC.wbuf.toList = [] ∧ y13.tpS.wbuf.toList = [] ∧
    y12.c.res = [.ok 0] ∧ y12.s.res = [.ok 0] ∧ y12.tpC.wbuf.toList = [] ∧ y12.tpS.wbuf.toList = [] := by decide

end Compio.Props.C15
