/-
C15 — TLS and WebSocket layers preserve the stream over any transport behaviour.

The theorems are about the functions the driver `c15d` executes (`TlsSys.run`, `TlsShim.pollHandshake`,
`TlsShim.sslDoHandshake`, `WsShim.pollNext`, ...). The TLS / WebSocket engines are third-party and enter as the
abstract record / frame layers of `Model/TlsShim.lean` and `Model/WsShim.lean` (assumption A-E1); the
transport is the scheduled duplex of `Model/TlsNet.lean`: any per-call transfer limit `lim ≥ 1`, any numbers
`dr`/`dw`/`dfh`/`df` of consecutive `Pending`s before a read / write / flush is performed (a fair schedule),
buffering or not.

Contents
  1. one engine call during the handshake (`engine_call_spec`, `blocked_read_nothing_unflushed`)
  2. one poll of the `handshake` future (`handshake_poll_spec`, `pending_has_wakeup`)
  3. the two-party handshake: invariant, no deadlock, explicit bound (`handshake_completes`)
  3b. the established stream: `poll_write` / `poll_read` / `poll_close` (plaintext in order, exactly once;
      close_notify handed over before `Ready`, flushed when the flush is not delayed)
  4. WebSocket: flush before yield, flush order, no item lost
  5. non-vacuity examples
Defects (F150, F151, the latent `Done` arm) are witnessed in `Cex/C15.lean`; the guards below (`astream = false`
for the plain transport, `HasSC` for a handshake of at least three flights) are exactly what separates them.
-/
import Compio.Lemmas.TlsSys
import Compio.Lemmas.TlsApp
import Compio.Lemmas.TlsFuel
import Compio.Lemmas.WsShim
import Compio.Gen.TlsCompat
import Compio.Gen.WsCompat

namespace Compio.Props.C15
open Compio.TlsNet Compio.TlsShim Compio.TlsSys

/-! ### 1. one call of the engine's handshake function through the shim -/

/-- **Specification of `SSL_do_handshake` over `AllowStd`/`OpensslInner`**, for every transport schedule and
every tape. From a state satisfying the shim invariant (`Good`: context pointer set, `¬written → nothing
unflushed`, cells in flight aligned with the two tapes) the call
  * never fails and never trips `assert!(!self.context.is_null())`,
  * ends in a state satisfying the invariant again,
  * returns `Ok` only with the tape and the post-handshake cells used up,
  * returns `WouldBlock` only with the wake-up arranged: the transport woke the caller's waker itself
    (`own`), or the waker is registered (`rwait`) on an *empty* pipe while *nothing of ours is unflushed* and
    it is the peer's turn,
  * and pays for every step out of the progress measure `S0`. -/
theorem engine_call_spec (sc : Sched) (p : Peer) (b' : Nat) (fuel : Nat) (o : Ossl) (v : View)
    (g : Good sc p b' o v) (hfuel : o.tape.length + o.post < fuel) :
    HsPost sc p b' o v (sslDoHandshake sc fuel o v).1 (sslDoHandshake sc fuel o v).2.1
      (sslDoHandshake sc fuel o v).2.2 :=
  doHs_spec sc p b' fuel o v g hfuel

/-- **waiting for the peer ⇒ nothing unflushed** (the reason a buffering transport cannot deadlock the
handshake): whenever the engine call blocks on an empty pipe, the endpoint's transport buffer is empty, the
pipe towards us is empty, our waker is registered there, and the next cell on the tape is the peer's. -/
theorem blocked_read_nothing_unflushed (sc : Sched) (p : Peer) (b' : Nat) (fuel : Nat) (o : Ossl) (v : View)
    (g : Good sc p b' o v) (hfuel : o.tape.length + o.post < fuel) {o' : Ossl} {v' : View}
    (h : sslDoHandshake sc fuel o v = (o', v', .wouldBlock .reg)) :
    v'.tp.wbuf.toList = [] ∧ v'.rx.q.toList = [] ∧ v'.rx.rwait = true ∧ ∃ t, o'.tape = o.me.other :: t := by
  have hs := doHs_spec sc p b' fuel o v g hfuel
  rw [h] at hs
  obtain ⟨_, _, h3, h4, h5, t, h6⟩ := hs.res
  exact ⟨h5, h3, h4, t, h6⟩

/-- the engine call never reports an error or a failed context assertion, whatever the schedule -/
theorem engine_call_no_failure (sc : Sched) (p : Peer) (b' : Nat) (fuel : Nat) (o : Ossl) (v : View)
    (g : Good sc p b' o v) (hfuel : o.tape.length + o.post < fuel) :
    (sslDoHandshake sc fuel o v).2.2 ≠ .err ∧ (sslDoHandshake sc fuel o v).2.2 ≠ .panic := by
  have hs := (doHs_spec sc p b' fuel o v g hfuel).res
  constructor <;> intro h <;> rw [h] at hs <;> exact hs

/-! ### 2. one poll of the `handshake` async fn -/

/-- **Specification of one poll of `handshake(f, stream)`** (`StartedHandshakeFuture`, `MidHandshake`,
`finish_handshake`, the post-handshake flush), in any of its states; see `PollPost`. In state `start` the
engine must not be able to finish inside the first call (`hnd`) - `handshake_completes` discharges this for
every handshake with a client flight after a server flight. -/
theorem handshake_poll_spec {sc : Sched} {p : Peer} {b' : Nat} {fut : HsFut} {o : Ossl} {v : View}
    (hr : Rest sc p b' fut o v) (hfuel : o.tape.length + o.post < sc.fuel) (hne : fut ≠ .done)
    (hnd : fut = .start → (sslDoHandshake sc sc.fuel { o with ctx := true } v).2.2 ≠ .ok ()) :
    PollPost sc p b' fut o v (pollHandshake sc fut o v).1 (pollHandshake sc fut o v).2.1
      (pollHandshake sc fut o v).2.2.1 (pollHandshake sc fut o v).2.2.2 :=
  pollHandshake_spec hr hfuel hne hnd

/-- **no busy loop, no lost wake-up**: every `Pending` the handshake future returns to its caller comes with
the caller's wake-up arranged by the transport: either the transport has woken the waker during this very
poll, or the waker is stored in the (empty) pipe the future is waiting on. The context pointer is cleared
again (`Guard`), and the future never fails. -/
theorem pending_has_wakeup {sc : Sched} {p : Peer} {b' : Nat} {fut : HsFut} {o : Ossl} {v : View}
    (hr : Rest sc p b' fut o v) (hfuel : o.tape.length + o.post < sc.fuel) (hne : fut ≠ .done)
    (hnd : fut = .start → (sslDoHandshake sc sc.fuel { o with ctx := true } v).2.2 ≠ .ok ())
    {fut' : HsFut} {o' : Ossl} {v' : View} {r : PollR Unit} (h : pollHandshake sc fut o v = (fut', o', v', r)) :
    o'.ctx = false ∧ r ≠ .err ∧ r ≠ .panic ∧
    (∀ pd, r = .pending pd → v'.own = true ∨ (v'.rx.rwait = true ∧ v'.rx.q.toList = [])) := by
  have hs := pollHandshake_spec hr hfuel hne hnd
  rw [h] at hs
  obtain ⟨hrest, _, _, _, _, _, hres⟩ := hs
  refine ⟨hrest.ctx, ?_, ?_, ?_⟩
  · intro he; rw [he] at hres; exact hres
  · intro he; rw [he] at hres; exact hres
  · intro pd hp
    rw [hp] at hres
    cases pd with
    | self => exact Or.inl hres.1
    | reg => exact Or.inr ⟨hres.2.2.2.2.1, hres.2.2.2.1⟩

/-- the post-handshake flush: when the future resolves, the endpoint's transport buffer is empty -/
theorem handshake_ready_flushed {sc : Sched} {p : Peer} {b' : Nat} {fut : HsFut} {o : Ossl} {v : View}
    (hr : Rest sc p b' fut o v) (hfuel : o.tape.length + o.post < sc.fuel) (hne : fut ≠ .done)
    (hnd : fut = .start → (sslDoHandshake sc sc.fuel { o with ctx := true } v).2.2 ≠ .ok ())
    {fut' : HsFut} {o' : Ossl} {v' : View} (h : pollHandshake sc fut o v = (fut', o', v', .ready ())) :
    fut' = .done ∧ o'.tape = [] ∧ o'.post = 0 ∧ v'.tp.wbuf.toList = [] := by
  have hs := pollHandshake_spec hr hfuel hne hnd
  rw [h] at hs
  obtain ⟨hrest, _, _, _, _, _, hres⟩ := hs
  have hd : fut' = .done := hres.1
  subst hd
  exact ⟨rfl, hrest.phase⟩

/-! ### 3. the two-party handshake -/

/-- the invariant of the two-party system holds initially and is kept by every pass of the executor, which
also lowers the progress measure `Sys.phi` -/
theorem invariant_step {y : Sys} (h : Inv y) (hr : y.runnable = true) : Inv (round y) ∧ (round y).phi < y.phi :=
  round_step h hr

/-- **no deadlock**: in every state of the invariant that is not finished, some task has its wake flag set
(two endpoints can never both wait for the peer) -/
theorem no_deadlock {y : Sys} (h : Inv y) (hnd : y.allDone = false) : y.runnable = true :=
  runnable_of_inv h hnd

/-- **The handshake completes, with an explicit bound, for every fair transport schedule** - in particular
over a buffering transport. For every per-call limit `lim ≥ 1`, all delays `dr dw dfh df`, buffering or not,
every handshake tape with a client flight after a server flight (`HasSC`) and any number of post-handshake
cells: the executor of the harness, started on the two `handshake` futures, finishes within
`hsBound sc tape post = O((dr+dw+dfh+df+1) * (|tape| + post))` passes with both futures resolved `Ok`, no
panic (context assertion), never stuck, never out of polls. -/
theorem handshake_completes (sc : Sched) (tape : List Side) (post : Nat) (hlim : 1 ≤ sc.lim)
    (hdir : sc.astream = false) (hwf : HasSC tape) (hfuel : tape.length + post + 2 < sc.fuel) :
    (run (hsBound sc tape post) (Sys.init sc false tape post [] [])).2 = .done ∧
    (run (hsBound sc tape post) (Sys.init sc false tape post [] [])).1.c.res = [.ok 0] ∧
    (run (hsBound sc tape post) (Sys.init sc false tape post [] [])).1.s.res = [.ok 0] ∧
    (run (hsBound sc tape post) (Sys.init sc false tape post [] [])).1.panicked = false := by
  obtain ⟨hinv, hphi⟩ := init_inv sc tape post hlim hdir hwf hfuel
  obtain ⟨hdone, hinv', hall⟩ := run_done (hsBound sc tape post) _ hinv hphi
  generalize (run (hsBound sc tape post) (Sys.init sc false tape post [] [])).1 = y at hinv' hall
  obtain ⟨fc, oc, fs, os, a, b, a', b', w⟩ := hinv'
  simp only [Sys.allDone, Bool.and_eq_true] at hall
  have htc := w.tc
  have hts := w.ts
  simp only [hall.1, if_true] at htc
  simp only [hall.2, if_true] at hts
  exact ⟨hdone, htc.1.res, hts.1.res, w.nopanic⟩

/-- **when `connect` / `accept` return, every handshake byte this side produced has been handed to the
transport AND flushed - for both roles.** In the final state of `handshake_completes`, for the client
(`TlsConnector::connect`) and for the server (`TlsAcceptor::accept`) alike: the handshake future is `done`, the
engine has no handshake or post-handshake cell left to write, and the endpoint's transport buffer is empty.
The tape is arbitrary (`HasSC`): in a TLS 1.3 shaped handshake the *client* writes the last message (its
Finished, written while `OpensslInner::poll_flush` is still a no-op and followed by no read), in a TLS 1.2
shaped one the *server* does - the post-handshake flush of the shared `handshake()` driver is what empties the
buffer in either case (seed C15-4a removed it for the client). -/
theorem handshake_returns_flushed_both_roles (sc : Sched) (tape : List Side) (post : Nat) (hlim : 1 ≤ sc.lim)
    (hdir : sc.astream = false) (hwf : HasSC tape) (hfuel : tape.length + post + 2 < sc.fuel) :
    let y := (run (hsBound sc tape post) (Sys.init sc false tape post [] [])).1
    (∃ oc, y.c.s = .ossl .done oc ∧ oc.me = .client ∧ oc.tape = [] ∧ oc.post = 0 ∧ y.tpC.wbuf.toList = []) ∧
    (∃ os, y.s.s = .ossl .done os ∧ os.me = .server ∧ os.tape = [] ∧ os.post = 0 ∧ y.tpS.wbuf.toList = []) := by
  intro y
  obtain ⟨hinv, hphi⟩ := init_inv sc tape post hlim hdir hwf hfuel
  obtain ⟨_, hinv', hall⟩ := run_done (hsBound sc tape post) _ hinv hphi
  obtain ⟨fc, oc, fs, os, a, b, a', b', w⟩ := hinv'
  simp only [Sys.allDone, Bool.and_eq_true] at hall
  have htc := w.tc
  have hts := w.ts
  simp only [hall.1, if_true] at htc
  simp only [hall.2, if_true] at hts
  have hpc := w.phC
  have hps := w.phS
  rw [htc.2] at hpc
  rw [hts.2] at hps
  exact ⟨⟨oc, htc.1.s, w.mec, hpc.1, hpc.2.1, hpc.2.2⟩, ⟨os, hts.1.s, w.mes, hps.1, hps.2.1, hps.2.2⟩⟩

/-- the per-poll form, with the role explicit: whichever role the endpoint plays, the poll in which
`handshake()` resolves leaves nothing of the handshake in the engine and nothing in the transport buffer -/
theorem handshake_ready_flushed_role (role : Side) {sc : Sched} {p : Peer} {b' : Nat} {fut : HsFut} {o : Ossl}
    {v : View} (_hrole : o.me = role) (hr : Rest sc p b' fut o v) (hfuel : o.tape.length + o.post < sc.fuel)
    (hne : fut ≠ .done)
    (hnd : fut = .start → (sslDoHandshake sc sc.fuel { o with ctx := true } v).2.2 ≠ .ok ())
    {fut' : HsFut} {o' : Ossl} {v' : View} (h : pollHandshake sc fut o v = (fut', o', v', .ready ())) :
    o'.me = role ∧ fut' = .done ∧ o'.tape = [] ∧ o'.post = 0 ∧ v'.tp.wbuf.toList = [] := by
  have hs := pollHandshake_spec hr hfuel hne hnd
  rw [h] at hs
  obtain ⟨f1, f2, f3, f4⟩ := handshake_ready_flushed hr hfuel hne hnd h
  exact ⟨hs.me.trans _hrole, f1, f2, f3, f4⟩

/-- more fuel for the executor changes nothing (the bound is sufficient, not tuned) -/
theorem handshake_completes_any_fuel (sc : Sched) (tape : List Side) (post : Nat) (hlim : 1 ≤ sc.lim)
    (hdir : sc.astream = false) (hwf : HasSC tape) (hfuel : tape.length + post + 2 < sc.fuel)
    (n : Nat) (hn : hsBound sc tape post ≤ n) :
    (run n (Sys.init sc false tape post [] [])).2 = .done := by
  obtain ⟨hinv, hphi⟩ := init_inv sc tape post hlim hdir hwf hfuel
  exact (run_done n _ hinv (by omega)).1

/-- the budget of the engine loop is irrelevant: any two values above the number of cells still to be
processed give the same result (and by `engine_call_no_failure` it is never the out-of-fuel error) -/
theorem engine_call_fuel_irrelevant (sc : Sched) (f1 f2 : Nat) (o : Ossl) (v : View)
    (h1 : o.tape.length + o.post < f1) (h2 : o.tape.length + o.post < f2) :
    sslDoHandshake sc f1 o v = sslDoHandshake sc f2 o v :=
  sslDoHandshake_fuel_indep sc f1 f2 o v h1 h2

/-! ### 3b. the established stream (native-tls back-end) -/

/-- **`poll_write`**: the accepted plaintext becomes one record which reaches the transport in order and
exactly once - across any number of `Pending`s (the rest of the record is kept, a retry continues it);
`Ready(n)` only when the whole record has been handed over; `Pending` has the transport's wake-up; never an
error or a failed context assertion; the context pointer is cleared again. -/
theorem tls_write_spec (sc : Sched) (o : Ossl) (v : View) (buf : List UInt8) (ha : App sc v)
    (hcl : o.close = .none) (hfuel : o.out.length < sc.fuel ∧ recordMax + 22 < sc.fuel) (hbuf : buf ≠ []) :
    let r := TlsShim.pollWrite sc o v buf
    App sc r.2.1 ∧ r.1.ctx = false ∧ r.1.close = .none ∧ r.2.1.rx = v.rx ∧
    committed r.1 r.2.1 = committed o v ++ (if o.out = [] then record (buf.take recordMax) else []) ∧
    (match r.2.2 with
      | .ready n => r.1.out = [] ∧ n = (if o.out = [] then (buf.take recordMax).length else o.outPlain)
      | .pending p => p = .self ∧ r.2.1.own = true
      | .err => False
      | .panic => False) :=
  pollWrite_spec sc o v buf ha hcl hfuel hbuf

/-- **`poll_read`**: the call consumes a prefix of the incoming cells and returns exactly their plaintext, in
order; `Ok(0)` only for a close_notify; a `Pending` has consumed no plaintext and has its wake-up arranged
(own waker woken, or registered on the empty pipe). -/
theorem tls_read_spec (sc : Sched) (o : Ossl) (v : View) (n : Nat) (hn : n ≠ 0) (hh : o.handshaken = true)
    (hrc : o.rcvdClose = false) :
    let r := TlsShim.pollRead sc o v n
    r.1.ctx = false ∧ r.2.1.tx = v.tx ∧ r.2.1.tp.wbuf = v.tp.wbuf ∧
    ∃ C, v.rxs = C ++ r.2.1.rxs ∧
      (match r.2.2 with
        | .ready bs => plainOf C = (bs, r.1.rcvdClose) ∧ bs.length ≤ n ∧ (bs = [] → r.1.rcvdClose = true)
        | .pending p => plainOf C = ([], false) ∧ (p = .self → r.2.1.own = true) ∧
            (p = .reg → r.2.1.rx.rwait = true ∧ r.2.1.rxs = [])
        | .err => True
        | .panic => False) :=
  pollRead_spec sc o v n hn hh hrc

/-- **in order, exactly once**: whatever sequence of records the writer has committed (`tls_write_spec`), the
reader's view of the cells (`tls_read_spec`, over the FIFO pipe) is the concatenation of their plaintexts, then
that of what follows - e.g. `([], true)` for the close_notify record. -/
theorem tls_plaintext_in_order (ps : List (List UInt8)) (rest : List Cell) :
    plainOf ((ps.map record).flatten ++ rest) = (ps.flatten ++ (plainOf rest).1, (plainOf rest).2) :=
  plainOf_records ps rest

theorem tls_close_notify_plain : plainOf alertRecord = ([], true) := plainOf_alertRecord

/-- **`poll_close`**: `Ready` means the close_notify record has been handed to the transport after everything
written before; it has *left the endpoint* whenever the flush issued by the engine is not delayed
(`flushDelay = 0`, or a non-buffering transport) - the guard that separates finding F150: with a delayed
flush the engine ignores the `Pending` and `poll_close` neither retries nor closes the transport
(`Cex.C15.f150_alert_stranded`). A `Pending` (partial write of the record) keeps the rest and has its wake-up. -/
theorem tls_close_spec (sc : Sched) (o : Ossl) (v : View) (ha : App sc v) (hout : o.out = [])
    (hcl : o.close = .none) (hhs : o.handshaken = true) (hfuel : 24 < sc.fuel) :
    let r := TlsShim.pollClose sc o v
    App sc r.2.1 ∧ r.1.ctx = false ∧ r.2.1.tx.closed = false ∧
    (match r.2.2 with
      | .ready () => r.1.close = .sent ∧ r.1.out = [] ∧ r.2.1.txs = v.txs ++ alertRecord ∧
          (flushDelay sc v.tp = 0 → r.2.1.tp.wbuf.toList = [] ∧ r.2.1.tx.q.toList = v.txs ++ alertRecord)
      | .pending p => p = .self ∧ r.2.1.own = true ∧ r.1.close = .queued ∧
          committed r.1 r.2.1 = v.txs ++ alertRecord
      | .err => False
      | .panic => False) :=
  pollClose_spec sc o v ha hout hcl hhs hfuel

/-! ### 4. compio-ws: flush before yield, flush order, nothing lost -/

section Ws
open Compio.WsShim

/-- **`Sink::poll_flush` of compio-ws** (protocol flush, then transport flush): `Ready` means that nothing is
pending at any level - no queued reply, empty write buffer, empty stream buffer - and that everything,
including a queued pong / close reply, has reached the peer's pipe in order. -/
theorem ws_flush_ready {sc : WSched} {w w' : Ws} {v v' : WView} (hn : NoBuf sc v)
    (h : WsShim.pollFlush sc w v = (w', v', .ready ())) :
    w'.e.additional = none ∧ w'.e.out = [] ∧ v'.tbuf = [] ∧
    v'.tx = v.tx ++ v.tbuf ++ w.e.out ++ addList w.e := by
  obtain ⟨_, h1, h2, h3, _, _, h6⟩ := pollFlush_ready hn h
  exact ⟨h1, h2, h3, h6⟩

/-- a `Pending` flush has the transport's wake-up and loses / reorders nothing -/
theorem ws_flush_pending {sc : WSched} {w w' : Ws} {v v' : WView} {p : Pend} (hn : NoBuf sc v)
    (h : WsShim.pollFlush sc w v = (w', v', .pending p)) :
    p = .self ∧ v'.wire ++ w'.e.out ++ addList w'.e = v.wire ++ w.e.out ++ addList w.e := by
  obtain ⟨_, h1, h2, _, _, h5⟩ := pollFlush_pending hn h
  refine ⟨h1, ?_⟩
  rw [h5]; simp [addList, h2]

/-- **flush before yielding an item** (`Stream::poll_next`): when `poll_next` hands an item to the caller,
  * the item is either the parked one or the head of the incoming frames, consumed exactly once,
  * the reply that reading it queued (pong for a ping, close reply for a close) has already reached the
    peer's pipe, after everything written before,
  * and nothing is left pending (`next_item`, reply queue, write buffer, stream buffer all empty). -/
theorem ws_next_ready {sc : WSched} {w w' : Ws} {v v' : WView} {item : Frame} (hn : NoBuf sc v)
    (h : pollNext sc w v = (w', v', .ready item)) :
    w'.nextItem = none ∧ w'.e.additional = none ∧ w'.e.out = [] ∧ v'.tbuf = [] ∧
    ((w.nextItem = some item ∧ v'.rx = v.rx ∧ v'.tx = v.tx ++ v.tbuf ++ w.e.out ++ addList w.e) ∨
     (w.nextItem = none ∧ v.rx = item :: v'.rx ∧
       (w.e.additional = none → v'.tx = v.tx ++ v.tbuf ++ w.e.out ++ replyOf w.e item))) := by
  unfold pollNext at h
  cases hni : w.nextItem with
  | some it =>
    simp only [hni] at h
    cases hf : WsShim.pollFlush sc w v with
    | mk w1 x =>
      obtain ⟨v1, r1⟩ := x
      rw [hf] at h
      cases r1 with
      | pending p => simp at h
      | ready u =>
        cases u
        simp only [Prod.mk.injEq, R.ready.injEq] at h
        obtain ⟨h1, h2, h3⟩ := h; subst h1; subst h2; subst h3
        obtain ⟨_, g1, g2, g3, g4, _, g6⟩ := pollFlush_ready hn hf
        exact ⟨rfl, g1, g2, g3, Or.inl ⟨rfl, g4, g6⟩⟩
  | none =>
    simp only [hni] at h
    rcases engRead_spec w.e v with ⟨_, heq⟩ | ⟨f, rest, e', hrx, heq, hout, hadd⟩
    · rw [heq] at h; simp at h
    · rw [heq] at h
      simp only at h
      cases hf : WsShim.pollFlush sc { w with e := e', nextItem := some f } { v with rx := rest } with
      | mk w1 x =>
        obtain ⟨v1, r1⟩ := x
        rw [hf] at h
        cases r1 with
        | pending p => simp at h
        | ready u =>
          cases u
          simp only [Prod.mk.injEq, R.ready.injEq] at h
          obtain ⟨h1, h2, h3⟩ := h; subst h1; subst h2; subst h3
          have hn1 : NoBuf sc { v with rx := rest } := hn
          obtain ⟨_, g1, g2, g3, g4, _, g6⟩ := pollFlush_ready hn1 hf
          refine ⟨rfl, g1, g2, g3, Or.inr ⟨rfl, by rw [hrx, g4], fun ha => ?_⟩⟩
          rw [g6]; simp only; rw [hout, hadd ha]

/-- **a `Pending` `poll_next` keeps the item**: an item that has been taken from the protocol layer stays
parked in `next_item` until the flushes are through - it is neither lost nor read twice; a `Pending` because
nothing has arrived registers the waker and parks nothing. -/
theorem ws_next_pending {sc : WSched} {w w' : Ws} {v v' : WView} {p : Pend} (hn : NoBuf sc v)
    (h : pollNext sc w v = (w', v', .pending p)) :
    (p = .reg ∧ w.nextItem = none ∧ v.rx = [] ∧ w'.nextItem = none ∧ v'.rwait = true) ∨
    (p = .self ∧ ((∃ it, w.nextItem = some it ∧ w'.nextItem = some it ∧ v'.rx = v.rx) ∨
                  (∃ it, w.nextItem = none ∧ v.rx = it :: v'.rx ∧ w'.nextItem = some it))) := by
  unfold pollNext at h
  cases hni : w.nextItem with
  | some it =>
    simp only [hni] at h
    cases hf : WsShim.pollFlush sc w v with
    | mk w1 x =>
      obtain ⟨v1, r1⟩ := x
      rw [hf] at h
      cases r1 with
      | ready u => cases u; simp at h
      | pending p1 =>
        simp only [Prod.mk.injEq, R.pending.injEq] at h
        obtain ⟨h1, h2, h3⟩ := h; subst h1; subst h2; subst h3
        obtain ⟨_, g1, _, g3, g4, _⟩ := pollFlush_pending hn hf
        exact Or.inr ⟨g1, Or.inl ⟨it, rfl, by rw [g4, hni], g3⟩⟩
  | none =>
    simp only [hni] at h
    rcases engRead_spec w.e v with ⟨hrx, heq⟩ | ⟨f, rest, e', hrx, heq, _, _⟩
    · rw [heq] at h
      simp only [Prod.mk.injEq, R.pending.injEq] at h
      obtain ⟨h1, h2, h3⟩ := h; subst h1; subst h2; subst h3
      exact Or.inl ⟨rfl, rfl, hrx, rfl, rfl⟩
    · rw [heq] at h
      simp only at h
      cases hf : WsShim.pollFlush sc { w with e := e', nextItem := some f } { v with rx := rest } with
      | mk w1 x =>
        obtain ⟨v1, r1⟩ := x
        rw [hf] at h
        cases r1 with
        | ready u => cases u; simp at h
        | pending p1 =>
          simp only [Prod.mk.injEq, R.pending.injEq] at h
          obtain ⟨h1, h2, h3⟩ := h; subst h1; subst h2; subst h3
          have hn1 : NoBuf sc { v with rx := rest } := hn
          obtain ⟨_, g1, _, g3, g4, _⟩ := pollFlush_pending hn1 hf
          exact Or.inr ⟨g1, Or.inr ⟨f, rfl, by rw [hrx, g3], by rw [g4]⟩⟩

/-- `send` from a clean state: `Ready` means the frame is in the peer's pipe, after everything before it -/
theorem ws_send_ready {sc : WSched} {w w' : Ws} {v v' : WView} {f : Frame} {q : Bool} (hn : NoBuf sc v)
    (hr : w.e.ready = true) (h : pollSend sc w v f false = (w', v', q, .ready ())) :
    v'.tx = v.tx ++ v.tbuf ++ w.e.out ++ [f] ++ addList w.e ∧ w'.e.out = [] ∧ v'.tbuf = [] := by
  unfold pollSend at h
  simp only [Bool.false_eq_true, if_false, hr, if_true] at h
  cases hf : WsShim.pollFlush sc { w with e := engWrite w.e f } v with
  | mk w1 x =>
    obtain ⟨v1, r1⟩ := x
    rw [hf] at h
    simp only [Prod.mk.injEq] at h
    obtain ⟨h1, h2, _, h4⟩ := h; subst h1; subst h2; subst h4
    obtain ⟨_, _, g2, g3, _, _, g6⟩ := pollFlush_ready hn hf
    refine ⟨?_, g2, g3⟩
    rw [g6]; simp [engWrite, addList, List.append_assoc]

end Ws

/-! ### 5. non-vacuity -/

/-- a TLS-1.3 shaped tape satisfies the well-formedness hypothesis -/
example : HasSC [.client, .client, .server, .server, .server, .client] :=
  ⟨[.client, .client], [.server, .server, .client], rfl, by simp⟩

/-- the hypotheses of `handshake_completes` are satisfiable with a buffering transport, a 1-byte transfer
limit and every call delayed -/
example : (run (hsBound ⟨1, true, false, 2, 1, 3, 1, 100⟩ [.client, .server, .client] 2)
    (Sys.init ⟨1, true, false, 2, 1, 3, 1, 100⟩ false [.client, .server, .client] 2 [] [])).2 = .done :=
  (handshake_completes ⟨1, true, false, 2, 1, 3, 1, 100⟩ [.client, .server, .client] 2 (by decide) rfl
    ⟨[.client], [.client], rfl, by simp⟩ (by decide)).1

/-- reading a ping over a buffering stream whose writes pend once: the first poll parks the ping and
returns `Pending`; when the ping is yielded by the second poll its pong is in the peer's pipe -/
example :
    let sc : WsShim.WSched := ⟨true, 1, 0⟩
    let v0 : WsShim.WView := ⟨[], 0, 0, [], [⟨.ping, [1, 2]⟩], false⟩
    let r1 := WsShim.pollNext sc WsShim.Ws.new v0
    let r2 := WsShim.pollNext sc r1.1 r1.2.1
    (match r1.2.2 with | .pending .self => true | _ => false) = true ∧ r1.1.nextItem = some ⟨.ping, [1, 2]⟩ ∧
    (match r2.2.2 with | .ready f => f == ⟨.ping, [1, 2]⟩ | _ => false) = true ∧
    r2.2.1.tx = [⟨.pong, [1, 2]⟩] := by decide

/-- client writes last (TLS 1.3 shape) and server writes last (TLS 1.2 shape), buffering transport with every
call delayed: both runs end with both transport buffers empty -/
example :
    let sc : Sched := ⟨2, true, false, 1, 1, 2, 1, 100⟩
    let y13 := (run 400 (Sys.init sc false [.client, .server, .server, .client] 1 [] [])).1
    let y12 := (run 400 (Sys.init sc false [.client, .server, .client, .client, .server] 0 [] [])).1
    y13.c.res = [.ok 0] ∧ y13.s.res = [.ok 0] ∧ y13.tpC.wbuf.toList = [] ∧ y13.tpS.wbuf.toList = [] ∧
    y12.c.res = [.ok 0] ∧ y12.s.res = [.ok 0] ∧ y12.tpC.wbuf.toList = [] ∧ y12.tpS.wbuf.toList = [] := by decide


/-! ### 6. the shim as regenerated from the source (`Gen/TlsCompat.lean`, extractor target `TlsCompat`)

`Compio.Gen.TlsCompat` is produced by `/verif/extract` from `compio-tls/src/compat/common.rs` and
`compat/native.rs` on every check: the `OpensslInner` flag logic as Lean functions over an arbitrary inner
stream, the two `with_context` result maps, the dispatch tables, the statement lists of `handshake()`. The
theorems below say that the hand model of `Model/TlsShim.lean` (the functions the driver executes and every
theorem above is about) *is* that generated code, instantiated with the model transport - for all states and
all inputs. A source edit that changes one of these constructs changes the generated definitions and breaks
one of these proofs whether or not a generated case samples it. -/

namespace GenTie
open Compio.Gen

def toP {α : Type} : IoR α → TlsCompat.P Pend α
  | .pending p => .pending p
  | .ready a => .ready a
  | .err => .err

def toPv {α : Type} (r : View × IoR α) : View × TlsCompat.P Pend α := (r.1, toP r.2)

def ofStd {α : Type} : TlsCompat.Std Pend α → BioR α
  | .ok a => .ok a
  | .wouldBlock p => .wouldBlock p
  | .err => .err
  | .panic => .panic

def toStd {α : Type} : BioR α → TlsCompat.Std Pend α
  | .ok a => .ok a
  | .wouldBlock p => .wouldBlock p
  | .err => .err
  | .panic => .panic

def ofOuter {α : Type} : TlsCompat.Outer Pend α → PollR α
  | .pending p => .pending p
  | .ready a => .ready a
  | .err => .err
  | .panic => .panic

/-- the `OpensslInner` flags inside the model state -/
def flagsOf (o : Ossl) : TlsCompat.Flags := ⟨o.written, o.handshaken⟩

def setFlags (o : Ossl) (f : TlsCompat.Flags) : Ossl := { o with written := f.written, handshaken := f.handshaken }

theorem setFlags_flagsOf (o : Ossl) : setFlags o (flagsOf o) = o := by cases o; rfl

/-- `AllowStd::write` assembled from the generated pieces over the model transport -/
def genBioWrite (sc : Sched) (o : Ossl) (v : View) (cs : List Cell) : Ossl × View × BioR Nat :=
  match TlsCompat.withContext o.ctx (flagsOf o, v) (fun _ =>
      match TlsCompat.pollWrite (fun v => toPv (ioWrite sc v cs)) (flagsOf o) v with
      | (f, v, r) => ((f, v), r)) with
  | ((f, v), r) => (setFlags o f, v, ofStd r)

/-- `AllowStd::flush` assembled from the generated pieces -/
def genBioFlush (sc : Sched) (o : Ossl) (v : View) : Ossl × View × BioR Unit :=
  match TlsCompat.withContext o.ctx (flagsOf o, v) (fun _ =>
      match TlsCompat.pollFlush (fun v => toPv (ioFlush sc v)) (flagsOf o) v with
      | (f, v, r) => ((f, v), r)) with
  | ((f, v), r) => (setFlags o f, v, ofStd r)

/-- `AllowStd::read` assembled from the generated pieces; `none` = the generated `loop` ran out of fuel -/
def genBioRead (sc : Sched) (fuel : Nat) (o : Ossl) (v : View) (n : Nat) : Option (Ossl × View × BioR (List Cell)) :=
  match TlsCompat.pollRead (fun v => toPv (ioFlush sc v)) (fun v => toPv (ioRead sc v n)) fuel (flagsOf o) v with
  | (_, _, none) => none
  | (f, v', some r) =>
    match TlsCompat.withContext o.ctx (flagsOf o, v) (fun _ => ((f, v'), r)) with
    | ((f, v), r) => some (setFlags o f, v, ofStd r)

end GenTie

open GenTie Compio.Gen in
/-- **the hand model's `AllowStd::write` is the regenerated code**: context assertion first, then
`OpensslInner::poll_write` (delegate; `written := true` exactly on `Ready(Ok)`), `Pending → WouldBlock`. -/
theorem gen_bioWrite (sc : Sched) (o : Ossl) (v : View) (cs : List Cell) :
    bioWrite sc o v cs = genBioWrite sc o v cs := by
  unfold bioWrite genBioWrite TlsCompat.withContext TlsCompat.pollWrite toPv
  rcases h : ioWrite sc v cs with ⟨v', r⟩
  rcases o with ⟨me, tape, post, out, op, cl, rc, w, hs, ctx⟩
  cases ctx <;> cases r <;> simp [h, toP, TlsCompat.stdOf, ofStd, setFlags, flagsOf]

open GenTie Compio.Gen in
/-- **`AllowStd::flush` / `OpensslInner::poll_flush`**: a no-op `Ready(Ok)` while not handshaken, the inner flush
afterwards - as regenerated. -/
theorem gen_bioFlush (sc : Sched) (o : Ossl) (v : View) :
    bioFlush sc o v = genBioFlush sc o v := by
  unfold bioFlush genBioFlush TlsCompat.withContext TlsCompat.pollFlush toPv
  rcases h : ioFlush sc v with ⟨v', r⟩
  rcases o with ⟨me, tape, post, out, op, cl, rc, w, hs, ctx⟩
  cases ctx <;> cases hs <;> cases r <;> simp [h, toP, TlsCompat.stdOf, ofStd, setFlags, flagsOf]

open GenTie Compio.Gen in
/-- **`AllowStd::read` / `OpensslInner::poll_read`**: the regenerated `loop` (guard `!handshaken && written`,
flush first, `written := false` on `Ready(Ok)`, break on `Pending` / `Err`, else the inner read) needs two
iterations at most and then is the hand model's `bioRead`, for every state and every transport behaviour. -/
theorem gen_bioRead (sc : Sched) (fuel : Nat) (o : Ossl) (v : View) (n : Nat) :
    genBioRead sc (fuel + 2) o v n = some (bioRead sc o v n) := by
  unfold genBioRead bioRead TlsCompat.withContext toPv
  rcases hf : ioFlush sc v with ⟨vf, rf⟩
  rcases hr : ioRead sc v n with ⟨vr, rr⟩
  rcases hr2 : ioRead sc vf n with ⟨vr2, rr2⟩
  rcases o with ⟨me, tape, post, out, op, cl, rc, w, hs, ctx⟩
  cases ctx <;> cases hs <;> cases w <;> cases rf <;> cases rr <;> cases rr2 <;>
    simp [TlsCompat.pollRead, hf, hr, hr2, toP, TlsCompat.stdOf, ofStd, setFlags, flagsOf]

open Compio.Gen in
/-- the regenerated `poll_read` loop terminates within two iterations over **any** inner stream (whatever its
`poll_flush` / `poll_read` do): more fuel never changes the result and the result is never "out of fuel". -/
theorem gen_pollRead_two_iterations {σ ε α : Type} (flush : σ → σ × TlsCompat.P ε Unit)
    (read : σ → σ × TlsCompat.P ε α) (n : Nat) (f : TlsCompat.Flags) (s : σ) :
    TlsCompat.pollRead flush read (n + 2) f s = TlsCompat.pollRead flush read 2 f s ∧
    (TlsCompat.pollRead flush read 2 f s).2.2 ≠ none := by
  rcases f with ⟨w, h⟩
  cases w <;> cases h <;> simp [TlsCompat.pollRead] <;>
    (rcases hf : flush s with ⟨s', r⟩; cases r <;> simp)

open GenTie Compio.Gen in
/-- **`native::TlsStream::with_context`** (set the context, run the engine, the `Guard` clears the context, map the
result) is the regenerated result map `pollOf`: `Ok → Ready`, `WouldBlock → Pending`, other errors `Ready(Err)`. -/
theorem gen_withContext {α : Type} (o : Ossl) (v : View) (f : Ossl → View → Ossl × View × BioR α) :
    withContext o v f =
      (match f { o with ctx := true } v with
       | (o', v', r) => ({ o' with ctx := false }, v', ofOuter (TlsCompat.pollOf (toStd r)))) := by
  unfold withContext
  rcases h : f { o with ctx := true } v with ⟨o', v', r⟩
  cases r <;> simp [toStd, TlsCompat.pollOf, ofOuter]

open Compio.Gen in
/-- the dispatch tables of the source as the model has them: which inner poll each std call makes, which engine
call each `poll_*` of `native::TlsStream` makes (`pollRead = sslRead`, `pollWrite = sslWrite`,
`pollFlush = bioFlush`, `pollClose = sslShutdown`), the error kind standing for `Pending`, the initial flags
(`Ossl.new`), and that `connect` / `accept` are both nothing but `handshake()`. -/
theorem gen_dispatch_tables :
    TlsCompat.stdRead = .pollRead ∧ TlsCompat.stdWrite = .pollWrite ∧ TlsCompat.stdFlush = .pollFlush ∧
    TlsCompat.tlsPollRead = .read ∧ TlsCompat.tlsPollWrite = .write ∧ TlsCompat.tlsPollFlush = .flush ∧
    TlsCompat.tlsPollClose = .shutdown ∧ TlsCompat.pendingKind = "WouldBlock" ∧
    TlsCompat.pollCloseDelegates = true ∧ TlsCompat.bothRolesShareHandshake = true ∧
    (∀ (me : Side) (tape : List Side) (post : Nat), GenTie.flagsOf (Ossl.new me tape post) = TlsCompat.new) := by
  refine ⟨rfl, rfl, rfl, rfl, rfl, rfl, rfl, by decide, rfl, rfl, ?_⟩
  intro me tape post; rfl

open Compio.Gen in
/-- **`handshake()` as regenerated**: the `Done` arm returns the stream with no further step (the latent defect of
`Cex.C15.done_path_unflushed`), the `Mid` arm is `MidHandshake.await`, `finish_handshake()`, `flush().await`, in this
order, for the connector and the acceptor alike; the two poll functions have the arms the model has
(`HsFut.start`: `Ok → done`, `WouldBlock → mid`; `HsFut.mid`: `Ok → finish + flush`, `WouldBlock → Pending`). -/
theorem gen_handshake_steps :
    TlsCompat.handshakeDoneSteps = [] ∧
    TlsCompat.handshakeMidSteps = [.midHandshake, .finishHandshake, .flush] ∧
    TlsCompat.startedArms = [.okDone, .wouldBlockMid, .failure] ∧
    TlsCompat.midArms = [.okDone, .wouldBlockPending, .failure] := by decide

open GenTie Compio.Gen in
/-- the `Mid` arm on the model, with the regenerated `finish_handshake`: when the resumed engine call returns `Ok`,
the poll of `handshake()` is the poll of the flush of the stream whose flags are `finishHandshake` of the engine's. -/
theorem gen_handshake_mid_ok (sc : Sched) (o o1 : Ossl) (v v1 : View)
    (h : sslDoHandshake sc sc.fuel { o with ctx := true } v = (o1, v1, .ok ())) :
    pollHandshake sc .mid o v =
      (match pollFlush sc (setFlags { o1 with ctx := false } (TlsCompat.finishHandshake (flagsOf o1))) v1 with
       | (o, v, .ready ()) => (.done, o, v, .ready ())
       | (o, v, .pending p) => (.flush, o, v, .pending p)
       | (o, v, .err) => (.failed, o, v, .err)
       | (o, v, .panic) => (.failed, o, v, .panic)) := by
  have e : setFlags { o1 with ctx := false } (TlsCompat.finishHandshake (flagsOf o1))
      = { o1 with ctx := false, handshaken := true } := by
    cases o1; rfl
  rw [e]
  simp only [pollHandshake, h]
  try rfl

/-- non-vacuity: the regenerated read loop does flush first, clears `written`, and then reads (second iteration) -/
example :
    (Compio.Gen.TlsCompat.pollRead (σ := Nat) (ε := Unit) (α := Nat)
      (fun s => (s + 1, .ready ())) (fun s => (s, .ready s)) 2 ⟨true, false⟩ 0).1 = ⟨false, false⟩ := by decide

example : (GenTie.genBioWrite ⟨4, false, false, 0, 0, 0, 0, 10⟩
    { Ossl.new .client [] 0 with ctx := true } ⟨Tp.new, Pipe.empty, Pipe.empty, false, false⟩ [Cell.hs]).1.written = true := by
  decide


/-! ### 7. all histories of calls through the regenerated `OpensslInner`, over ANY inner stream

The mechanism "during the handshake a read first flushes what was written" as a statement about every sequence
of std-style calls (`read` / `write` / `flush` through `AllowStd`, `finish_handshake`) on the *generated*
`pollRead` / `pollWrite` / `pollFlush`, the inner stream being an adversary that answers every poll with an
arbitrary `Pending` / `Ready(Ok)` / `Err`. Ghost state: `dirty` = the inner stream accepted a write since its last
`Ready` flush; `bad` = `inner.poll_read` was called during the handshake while `dirty` (the endpoint would wait for
the peer with its own flight still unflushed: the deadlock of a buffering transport). -/

namespace GenHist
open Compio.Gen

abbrev R := TlsCompat.P Unit Unit

inductive Op where
  /-- `AllowStd::read`; `rf` / `rr` = what the inner `poll_flush` / `poll_read` answer if they are called -/
  | read (rf rr : R)
  | write (r : R)
  | flush (r : R)
  | finish

structure St where
  f : TlsCompat.Flags
  dirty : Bool
  bad : Bool

def isReady : R → Bool
  | .ready _ => true
  | _ => false

def step (s : St) : Op → St
  | .write r =>
    match TlsCompat.pollWrite (fun d : Bool => (d || isReady r, r)) s.f s.dirty with
    | (f, d, _) => { s with f := f, dirty := d }
  | .flush r =>
    match TlsCompat.pollFlush (fun d : Bool => (d && !isReady r, r)) s.f s.dirty with
    | (f, d, _) => { s with f := f, dirty := d }
  | .read rf rr =>
    match TlsCompat.pollRead (fun x : Bool × Bool => ((x.1 && !isReady rf, x.2), rf))
        (fun x : Bool × Bool => ((x.1, x.2 || (x.1 && !s.f.handshaken)), rr)) 2 s.f (s.dirty, s.bad) with
    | (f, (d, b), _) => { f := f, dirty := d, bad := b }
  | .finish => { s with f := TlsCompat.finishHandshake s.f }

def run (s : St) (l : List Op) : St := l.foldl step s

def init : St := ⟨TlsCompat.new, false, false⟩

/-- never read with unflushed handshake data so far, and while handshaking `dirty → written` -/
def Inv (s : St) : Prop := s.bad = false ∧ (s.f.handshaken = false → s.dirty = true → s.f.written = true)

theorem step_inv (s : St) (op : Op) (h : Inv s) : Inv (step s op) := by
  rcases s with ⟨⟨w, hs⟩, d, b⟩
  rcases h with ⟨hb, hd⟩
  simp only at hb hd
  subst hb
  cases op with
  | read rf rr =>
    cases rf <;> cases rr <;> cases w <;> cases hs <;> cases d <;>
      simp_all [Inv, step, TlsCompat.pollRead, isReady]
  | write r =>
    cases r <;> cases w <;> cases hs <;> cases d <;> simp_all [Inv, step, TlsCompat.pollWrite, isReady]
  | flush r =>
    cases r <;> cases w <;> cases hs <;> cases d <;> simp_all [Inv, step, TlsCompat.pollFlush, isReady]
  | finish => simp_all [Inv, step, TlsCompat.finishHandshake]

theorem run_inv (l : List Op) : ∀ s : St, Inv s → Inv (run s l) := by
  induction l with
  | nil => intro s h; exact h
  | cons op l ih => intro s h; exact ih _ (step_inv s op h)

end GenHist

/-- **all histories**: whatever sequence of reads, writes, flushes and `finish_handshake` goes through the regenerated
`OpensslInner`, and whatever the inner stream answers (any `Pending` / `Ready` / `Err` pattern), the inner
`poll_read` is never reached during the handshake with a written-but-unflushed flight. -/
theorem gen_history_read_only_after_flush (l : List GenHist.Op) : (GenHist.run GenHist.init l).bad = false :=
  (GenHist.run_inv l GenHist.init ⟨rfl, by intro _ h; cases h⟩).1

/-- … and after `finish_handshake` the flag logic is transparent for ever: a flush is always the inner flush
(`handshaken` is never reset by any call). -/
theorem gen_history_handshaken_stable (l : List GenHist.Op) (s : GenHist.St) (h : s.f.handshaken = true) :
    (GenHist.run s l).f.handshaken = true := by
  induction l generalizing s with
  | nil => exact h
  | cons op l ih =>
    apply ih
    rcases s with ⟨⟨w, hs⟩, d, b⟩
    simp only at h
    subst h
    cases op with
    | read rf rr => cases rf <;> cases rr <;> cases w <;> simp [GenHist.step, Compio.Gen.TlsCompat.pollRead]
    | write r => cases r <;> simp [GenHist.step, Compio.Gen.TlsCompat.pollWrite]
    | flush r => cases r <;> simp [GenHist.step, Compio.Gen.TlsCompat.pollFlush]
    | finish => simp [GenHist.step, Compio.Gen.TlsCompat.finishHandshake]

/-- non-vacuity: a write accepted, then a read: the flush is performed first (`dirty` cleared), the read reached -/
example : (GenHist.run GenHist.init [.write (.ready ()), .read (.ready ()) (.pending ())]).dirty = false ∧
    (GenHist.run GenHist.init [.write (.ready ()), .read (.pending ()) (.ready ())]).dirty = true := by decide


/-! ### 8. compio-ws: `poll_flush` / `poll_next` as regenerated (`Gen/WsCompat.lean`, extractor target `WsCompat`)

The statement lists of `Sink::poll_flush` and of the two branches of the `Stream::poll_next` loop are regenerated
from `compio-ws/src/lib.rs`; `GenWs.exec` gives them their meaning on the model (`ready!(..)?` = return `Pending`
at once) and the hand model's `WsShim.pollFlush` / `pollNext` - the functions of `ws_flush_*` / `ws_next_*` - are
proved to be exactly that, for every state. -/

namespace GenWs
open Compio.Gen Compio.WsShim

inductive Out where
  | pending (p : Pend)
  /-- the function returned `Ready` (`none`: `Ok(())`, `some f`: the item) -/
  | ret (item : Option Frame)
  /-- end of the loop body: the loop repeats -/
  | fall
  /-- `expect("next_item should be Some")` failed -/
  | panic

/-- meaning of a statement list; `it` = the local `item` -/
def exec (sc : WSched) : List WsCompat.Stmt → Ws → WView → Option Frame → Ws × WView × Out
  | [], w, v, _ => (w, v, .fall)
  | .protoFlush :: k, w, v, it =>
    match engFlush sc w.e v with
    | (e, v, .pending p) => ({ w with e }, v, .pending p)
    | (e, v, .ready ()) => exec sc k { w with e } v it
  | .transportFlush :: k, w, v, it =>
    match sFlush sc v with
    | (v, .pending p) => (w, v, .pending p)
    | (v, .ready ()) => exec sc k w v it
  | .readyOk :: _, w, v, _ => (w, v, .ret none)
  | .takeAndYield :: _, w, v, _ =>
    match w.nextItem with
    | some i => ({ w with nextItem := none }, v, .ret (some i))
    | none => (w, v, .panic)
  | .pollProtocol :: k, w, v, _ =>
    match engRead w.e v with
    | (e, v, .pending p) => ({ w with e }, v, .pending p)
    | (e, v, .ready i) => exec sc k { w with e } v (some i)
  | .park :: k, w, v, it => exec sc k { w with nextItem := it } v it

def flushOut : Ws × WView × Out → Option (Ws × WView × R Unit)
  | (w, v, .pending p) => some (w, v, .pending p)
  | (w, v, .ret none) => some (w, v, .ready ())
  | _ => none

def nextOut : Ws × WView × Out → Option (Ws × WView × R Frame)
  | (w, v, .pending p) => some (w, v, .pending p)
  | (w, v, .ret (some i)) => some (w, v, .ready i)
  | _ => none

/-- the `poll_next` loop: at most two iterations are ever needed (second one only after parking an item) -/
def genPollNext (sc : WSched) (w : Ws) (v : WView) : Option (Ws × WView × R Frame) :=
  if w.nextItem.isSome then nextOut (exec sc WsCompat.pollNextParked w v none)
  else
    match exec sc WsCompat.pollNextEmpty w v none with
    | (w, v, .fall) => if w.nextItem.isSome then nextOut (exec sc WsCompat.pollNextParked w v none) else none
    | r => nextOut r

end GenWs

open Compio.Gen in
/-- the regenerated statement order: protocol flush, transport flush, and only then `Ready` / `take()`-and-yield;
without a parked item: poll the protocol stream, park the item. (Seed C15-2a - `take()` before the flushes - and
the removal of the flushes change these lists.) -/
theorem gen_ws_order :
    WsCompat.pollFlush = [.protoFlush, .transportFlush, .readyOk] ∧
    WsCompat.pollNextParked = [.protoFlush, .transportFlush, .takeAndYield] ∧
    WsCompat.pollNextEmpty = [.pollProtocol, .park] ∧ WsCompat.sinkRestDelegates = true := by decide

open GenWs Compio.Gen Compio.WsShim in
/-- **`WsShim.pollFlush` is the regenerated `Sink::poll_flush`**, for every state and schedule. -/
theorem gen_ws_pollFlush (sc : WSched) (w : Ws) (v : WView) :
    flushOut (exec sc WsCompat.pollFlush w v none) = some (Compio.WsShim.pollFlush sc w v) := by
  simp only [WsCompat.pollFlush, exec, Compio.WsShim.pollFlush]
  rcases h : engFlush sc w.e v with ⟨e, v', r⟩
  cases r with
  | pending p => simp [flushOut]
  | ready a =>
    cases a
    simp only []
    rcases h2 : sFlush sc v' with ⟨v'', r2⟩
    cases r2 with
    | pending p => simp [flushOut]
    | ready a => cases a; simp [flushOut]

open GenWs Compio.Gen Compio.WsShim in
/-- **`WsShim.pollNext` is the regenerated `Stream::poll_next` loop** (parked item: flush, flush, take and yield;
otherwise poll, park, repeat), for every state and schedule; the loop never needs a third iteration and the
`expect` never fails. -/
theorem gen_ws_pollNext (sc : WSched) (w : Ws) (v : WView) :
    genPollNext sc w v = some (Compio.WsShim.pollNext sc w v) := by
  rcases w with ⟨e0, ni⟩
  cases ni with
  | some item =>
    simp only [genPollNext, WsCompat.pollNextParked, exec, Compio.WsShim.pollNext, Compio.WsShim.pollFlush, Option.isSome]
    rcases h : engFlush sc e0 v with ⟨e, v', r⟩
    cases r with
    | pending p => simp [nextOut]
    | ready a =>
      cases a
      simp only []
      rcases h2 : sFlush sc v' with ⟨v'', r2⟩
      cases r2 with
      | pending p => simp [nextOut]
      | ready a => cases a; simp [nextOut]
  | none =>
    simp only [genPollNext, WsCompat.pollNextEmpty, WsCompat.pollNextParked, exec, Compio.WsShim.pollNext, Compio.WsShim.pollFlush,
      Option.isSome]
    rcases h0 : engRead e0 v with ⟨e1, v1, r1⟩
    cases r1 with
    | pending p => simp [nextOut]
    | ready item =>
      simp only [exec, Option.isSome]
      rcases h : engFlush sc e1 v1 with ⟨e, v', r⟩
      cases r with
      | pending p => simp [nextOut, h]
      | ready a =>
        cases a
        simp only [h]
        rcases h2 : sFlush sc v' with ⟨v'', r2⟩
        cases r2 with
        | pending p => simp [nextOut, h2]
        | ready a => cases a; simp [nextOut, h2]

end Compio.Props.C15
