import Compio.Model.TlsSys
import Compio.Model.WsShim
