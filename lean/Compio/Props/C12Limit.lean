/-
C12 (session 3) — the limit report of `fill_read_buf` is genuine: for every state of the read side, the
refill is refused with OutOfMemory only when the UNREAD bytes (`Buffer::buffer()`, the slice after the
consumed prefix) have reached `max_buffer_size`; consumed-but-not-yet-compacted bytes never count.
-/
import Compio.Model.SyncStream

namespace Compio.Props.C12Limit
open Compio Compio.SyncStream

/-- `Buffer::compact_to` leaves exactly the unread bytes in the Vec. -/
theorem compactTo_length (b : Buf) (c m : Nat) :
    (b.compactTo c m).data.length = b.avail.length := by
  unfold Buf.compactTo Buf.avail
  split
  · simp
  · split
    · rename_i h; simp [List.length_drop]; omega
    · rename_i h1 h2
      have : b.pos = 0 := by omega
      simp [this]

/-- **A refill is refused only at the limit.** In every state (any buffer contents, position, capacity,
configuration), `fill_read_buf` answers `OutOfMemory` without touching the inner stream only if the unread
bytes alone have reached the limit. -/
theorem sync_limit_report_genuine (r : RSide) (h : r.fillStart.2 = some (.err .oom)) :
    r.max ≤ r.buf.avail.length := by
  unfold RSide.fillStart at h
  split at h
  · simp at h
  · split at h
    · simp at h
    · simp only at h
      split at h
      · rename_i hle
        rw [compactTo_length] at hle
        exact hle
      · simp at h

/-- and conversely: below the limit the refill goes to the inner stream (eof not latched, buffer present). -/
theorem sync_refill_below_limit (r : RSide) (he : r.eof = false) (hl : r.buf.lent = false)
    (h : r.buf.avail.length < r.max) : r.fillStart.2 = none := by
  unfold RSide.fillStart
  simp [he, hl, compactTo_length, Nat.not_le.mpr h]

/-- `WSide.wake` does not touch the inner-call log. -/
theorem wake_log (w : WSide) : w.wake.log = w.log := by
  unfold WSide.wake; split <;> rfl

/-- **A flush with nothing buffered still reaches the inner `flush()`.** For every write-side state with the
buffer present and no unsent bytes (e.g. after a flush whose inner `flush()` failed: the adapter buffer is already
drained), a new `flush_write_buf` performs exactly one inner call, and it is the inner stream's `flush()`
(`f` ok / `fP` Pending / `fE` error) — there is no path that reports success without it. -/
theorem sync_empty_flush_reaches_inner_flush (w : WSide) (snap : List Nat)
    (hl : w.buf.lent = false) (he : w.buf.avail.isEmpty = true) :
    ∃ io, (w.flushBegin snap).1.log = w.log ++ [io] ∧ (io = .f ∨ io = .fP ∨ io = .fE) ∧
      (∀ n, (w.flushBegin snap).2.2 = some (.ok n) → io = .f) := by
  unfold WSide.flushBegin
  simp only [hl, he, if_true, Bool.false_eq_true, if_false]
  unfold WSide.afterFlushTo WSide.flushTail
  split <;> simp [wake_log]

end Compio.Props.C12Limit
