/-
Model of compio-executor as seen from its home thread: `Executor::{spawn, tick, clear/drop}`,
`Task::{run, drop, cancel, schedule}` (task/mod.rs, task/local.rs), `JoinHandle::{poll, drop, detach,
cancel}` (join_handle.rs), waker clone/wake/drop (waker.rs) and the hot/cold queue (queue.rs) viewed
as two lists. Every access to the task word goes through the functions regenerated from
task/state.rs (Compio.Gen.TaskState). Ghost counters record what the property talks about
(polls, future drops, result takes/drops, deallocations, use after free).

A future is a script: what each successive poll does.

Cross-thread operations are SEQUENTIAL here: a JoinHandle or a kept waker clone is used on another thread
while the executor thread does nothing (`Remote::schedule`, `Remote::poll` of task/remote.rs run to
completion), or — `remoteWakeB` — while the executor thread answers the driver waker with one tick. The
ids pushed by `Remote::schedule` wait in `sync` (`Shared::sync`, capacity `cap`) until `drain_sync`
(`drainSync`) moves them to the hot queue at the start of a tick or of a `Local::schedule`. The true
interleavings of ONE task with a remote handle are in Compio/Model/RemoteJoin.lean.
-/
import Compio.Gen.TaskState
import Compio.Model.QueueIntrusive

namespace Compio.Executor
open Compio.TaskWord
open Compio.Gen

/-- what one poll of the spawned future does -/
inductive Outcome where
  | pending            -- returns Pending without waking anybody
  | wakeSelf           -- `cx.waker().wake_by_ref()` then Pending
  | cloneWaker         -- stores a clone of its waker somewhere, then Pending
  | remoteWake         -- hands a clone of its waker to another thread, which wakes it at once; then Pending
  | wakeReady          -- `cx.waker().wake_by_ref()` and, in the same poll, Ready(v)
  | wakePanic          -- `cx.waker().wake_by_ref()` and, in the same poll, panics
  | cloneReady         -- stores a clone of its waker somewhere and, in the same poll, Ready(v)
  | ready              -- returns Ready(v)
  | panic              -- panics (caught: the result is the panic payload)
  deriving DecidableEq, Repr

/-- the poll ends in a (caught) panic -/
def Outcome.panics : Outcome → Bool
  | .panic | .wakePanic => true
  | _ => false

inductive Storage where
  | future | resultOk | resultPanic | empty
  deriving DecidableEq, Repr

structure TaskSt where
  word : Word
  storage : Storage
  slot : Option Nat          -- `header.waker`: id of the JoinHandle waker stored there
  script : List Outcome
  shared : Bool              -- `header.shared` is non-null
  handle : Bool              -- the JoinHandle still holds its `Task` reference
  wakers : Nat               -- live `Waker` clones of this task
  -- ghost
  polls : Nat
  futDrops : Nat
  resTaken : Nat
  resDrops : Nat
  slotSets : Nat             -- join wakers written into the slot
  slotDrops : Nat            -- join wakers dropped from the slot
  deallocs : Nat
  uaf : Nat                  -- accesses after deallocation
  badPolls : Nat             -- polls of a completed or cancelled task
  deriving DecidableEq, Repr

structure Exec where
  tasks : List TaskSt        -- index = task id
  hot : List Nat
  cold : List Nat
  woken : List Nat           -- join wakers woken, in order (ghost)
  alive : Bool
  sync : List Nat            -- `Shared::sync`: ids pushed by `Remote::schedule`, oldest first
  pending : Nat              -- `Shared::pending`: reservations of `Remote::schedule` not yet drained
  cap : Nat                  -- `ExecutorConfig::sync_queue_size`
  outstanding : Nat          -- protocol budget of the harness: remote scheduling operations admitted since
                             -- the current / last tick began (an operation is admitted while this is < cap)
  inflight : Option Nat      -- id reserved by a `Remote::schedule` that found the sync queue full and waits for
                             -- the executor to drain it (only during the tick inside `remoteWakeB`)
  qlog : List QueueIntrusive.Op  -- ghost: the `TaskQueue` calls made so far that changed the queue (insert,
                             -- make_hot, make_cold, remove, clear), in order; replayed on the intrusive model
                             -- (Model/QueueIntrusive.lean) by the driver and in `queue_log_replays`
  deriving DecidableEq, Repr

/-- `Executor::with_config` with `sync_queue_size = q` (0 is taken as 1: `ArrayQueue::new(0)` panics) -/
def Exec.new (q : Nat) : Exec := ⟨[], [], [], [], true, [], 0, if q = 0 then 1 else q, 0, none, []⟩

def Exec.init : Exec := Exec.new 64

def Exec.get? (e : Exec) (id : Nat) : Option TaskSt := e.tasks[id]?

def Exec.setTask (e : Exec) (id : Nat) (t : TaskSt) : Exec := { e with tasks := e.tasks.set id t }

def inMap (e : Exec) (id : Nat) : Bool := e.hot.contains id || e.cold.contains id

/-- `impl Drop for Task`: decrement; the holder that sees count 1 frees result, waker and memory -/
def dropRef (t : TaskSt) : TaskSt :=
  let t := if t.deallocs > 0 then { t with uaf := t.uaf + 1 } else t
  let old := t.word
  let t := { t with word := TaskState.dec old }
  if TaskState.count old > 1 then t
  else
    let t := if TaskState.hasResult old then { t with resDrops := t.resDrops + 1, storage := .empty } else t
    let t := if TaskState.hasWaker old then { t with slotDrops := t.slotDrops + 1, slot := none } else t
    { t with deallocs := t.deallocs + 1 }

/-- `TaskQueue::make_hot`: only a task that is in the map and cold moves (to the hot tail) -/
def makeHot (e : Exec) (id : Nat) : Exec :=
  if e.cold.contains id then
    { e with cold := e.cold.erase id, hot := e.hot ++ [id], qlog := e.qlog ++ [.makeHot id] }
  else e

/-- `TaskQueue::make_cold` -/
def makeCold (e : Exec) (id : Nat) : Exec :=
  if e.hot.contains id then
    { e with hot := e.hot.erase id, cold := e.cold ++ [id], qlog := e.qlog ++ [.makeCold id] }
  else e

/-- `TaskQueue::remove` -/
def removeTask (e : Exec) (id : Nat) : Exec :=
  { e with cold := e.cold.erase id, hot := e.hot.erase id, qlog := e.qlog ++ [.remove id] }

/-- `Shared::drain_sync`: fast path on `pending == 0`, otherwise pop everything, `make_hot` each id,
`pending -= drained` -/
def drainSync (e : Exec) : Exec :=
  if e.pending = 0 then e
  else
    let e' := e.sync.foldl makeHot { e with sync := [] }
    if e.sync.length = 0 then e' else { e' with pending := e'.pending - e.sync.length }

/-- `Local::schedule` (home thread): null `shared` ⇒ nothing; else piggyback the pending cross-thread
wakes, then `make_hot(id)` -/
def scheduleLocal (e : Exec) (id : Nat) : Exec :=
  match e.get? id with
  | none => e
  | some t => if t.shared then makeHot (drainSync e) id else e

/-- `Remote::schedule`, first part: `start_scheduling` and the early return on
scheduled / completed / cancelled / null `shared` (then `finish_scheduling`). Second component: go on to push. -/
def remoteSchedTask (t : TaskSt) : TaskSt × Bool :=
  let old := t.word
  let t1 := { t with word := TaskState.startScheduling old }
  if TaskState.isScheduled old || TaskState.isCompleted old || TaskState.isCancelled old then
    ({ t1 with word := TaskState.finishScheduling t1.word }, false)
  else if !t.shared then ({ t1 with word := TaskState.finishScheduling t1.word }, false)
  else (t1, true)

/-- `finish_scheduling` at the end of `Remote::schedule` -/
def finishSched (e : Exec) (id : Nat) : Exec :=
  match e.get? id with
  | none => e
  | some t => e.setTask id { t with word := TaskState.finishScheduling t.word }

/-- `Remote::schedule` run to completion on another thread while the executor thread does nothing:
reserve (`pending += 1`), push the id (the protocol budget guarantees room), `finish_scheduling` -/
def remoteSchedule (e : Exec) (id : Nat) : Exec :=
  match e.get? id with
  | none => e
  | some t =>
    let r := remoteSchedTask t
    if !r.2 then e.setTask id r.1
    else
      { e.setTask id { r.1 with word := TaskState.finishScheduling r.1.word } with
          pending := e.pending + 1, sync := e.sync ++ [id] }

/-- a remote scheduling operation under the protocol budget: not admitted ⇒ nothing happens -/
def remoteScheduleGuarded (e : Exec) (id : Nat) : Exec :=
  if e.outstanding < e.cap then remoteSchedule { e with outstanding := e.outstanding + 1 } id else e

/-- `Task::drop` called by the executor: mark dropped, detach from the executor, drop the future if it
did not complete, drop the stored join waker -/
def taskDropByExecutor (t : TaskSt) : TaskSt :=
  let old := t.word
  let t := { t with word := TaskState.setDropped old, shared := false }
  let t := if !TaskState.isCompleted old then { t with futDrops := t.futDrops + 1, storage := .empty } else t
  if TaskState.hasWaker old && !TaskState.isSettingWaker old then
    { t with slotDrops := t.slotDrops + 1, slot := none }
  else t

/-- what `Task::run` did -/
inductive RunKind where
  | dropped      -- cancelled: not polled, `Task::drop`, removed
  | pending      -- polled, Pending
  | wokeSelf     -- polled, woke itself, Pending
  | remoteWoke   -- polled, had itself woken from another thread, Pending
  | finished     -- polled, Ready: result published, `Task::drop`, removed
  | finishedWoke -- the same, but the future woke its own task (`Local::schedule`) before returning Ready
  deriving DecidableEq, Repr

/-- `Task::run` on the task alone; on Ready (cancelled, or the future finished) also `Task::drop` and the
release of the executor's reference. Third component: the join waker woken on completion. -/
def runTask (t : TaskSt) : TaskSt × RunKind × Option Nat :=
  let old := t.word
  let t := { t with word := TaskState.unschedule old }
  if TaskState.isCancelled old then
    -- not polled; Ready ⇒ `task.drop()`, `queue.remove(id)`, the executor's reference goes away
    (dropRef (taskDropByExecutor t), .dropped, none)
  else
    let bad := if TaskState.isCompleted old then 1 else 0
    match t.script with
    | [] | .pending :: _ =>
      ({ t with polls := t.polls + 1, badPolls := t.badPolls + bad, script := t.script.drop 1 }, .pending, none)
    | .wakeSelf :: rest =>
      ({ t with polls := t.polls + 1, badPolls := t.badPolls + bad, script := rest }, .wokeSelf, none)
    | .cloneWaker :: rest =>
      ({ t with polls := t.polls + 1, badPolls := t.badPolls + bad, script := rest,
                word := TaskState.inc t.word, wakers := t.wakers + 1 }, .pending, none)
    | .remoteWake :: rest =>
      -- the clone handed to the other thread is consumed by `wake()` there: the count is back where it was
      ({ t with polls := t.polls + 1, badPolls := t.badPolls + bad, script := rest }, .remoteWoke, none)
    | o :: rest =>
      -- Ready (value or caught panic), possibly after waking itself or cloning its waker in this very poll:
      -- the future is dropped, the result written, then published
      let t := if o = .cloneReady then { t with word := TaskState.inc t.word, wakers := t.wakers + 1 } else t
      let st := if o.panics then Storage.resultPanic else Storage.resultOk
      let t := { t with polls := t.polls + 1, badPolls := t.badPolls + bad, script := rest,
                        futDrops := t.futDrops + 1, storage := st }
      let old2 := t.word
      let t := { t with word := TaskState.finishRunning old2 }
      let woken := if TaskState.hasWaker old2 && !TaskState.isSettingWaker old2 then t.slot else none
      (dropRef (taskDropByExecutor t), if o = .wakeReady ∨ o = .wakePanic then .finishedWoke else .finished, woken)

/-- `Task::run` + the tail of the loop body of `Executor::tick` for one task id that has just been made
cold. Returns the new executor state and whether the task was polled. -/
def runOne (e : Exec) (id : Nat) : Exec × Bool :=
  match e.get? id with
  | none => (e, false)
  | some t0 =>
    match runTask t0 with
    | (t, .dropped, _) => (removeTask (e.setTask id t) id, false)
    | (t, .pending, _) => (e.setTask id t, true)
    | (t, .wokeSelf, _) => (scheduleLocal (e.setTask id t) id, true)
    | (t, .remoteWoke, _) => (remoteScheduleGuarded (e.setTask id t) id, true)
    | (t, .finished, w) => ({ removeTask (e.setTask id t) id with woken := e.woken ++ w.toList }, true)
    | (t, .finishedWoke, w) =>
      -- the wake-up came first, while the word only had SCHEDULED cleared: `Local::schedule` moved the id
      -- (made cold by `tick`) back to the hot tail; `queue.remove(id)` must unlink it from the HOT list
      let e1 := scheduleLocal (e.setTask id { t0 with word := TaskState.unschedule t0.word }) id
      ({ removeTask (e1.setTask id t) id with woken := e.woken ++ w.toList }, true)

/-- successor of `id` in the hot list (`TaskQueue::next_hot`) -/
def nextHot : List Nat → Nat → Option Nat
  | [], _ => none
  | x :: rest, id => if x = id then rest.head? else nextHot rest id

/-- loop body of `Executor::tick`: `make_cold(id)`, `take`, `run`, `drop`+`remove` or `reset` -/
def tickStep (e : Exec) (id : Nat) : Exec × Bool := runOne (makeCold e id) id

/-- the loop of `Executor::tick`: `iter_hot().take(n)`; the iterator fetches the successor of the
current id *before* the loop body runs. Returns the ids polled, in order. -/
def tickLoop : Nat → Option Nat → Exec → List Nat → Exec × List Nat
  | 0, _, e, log => (e, log)
  | _, none, e, log => (e, log)
  | n + 1, some id, e, log =>
    let succ := nextHot e.hot id
    let r := tickStep e id
    tickLoop n succ r.1 (if r.2 then log ++ [id] else log)

/-- `Executor::tick` with `max_interval = n`: `drain_sync`, the loop, `has_hot`; returns the ids polled -/
def tickFrom (e : Exec) (n : Nat) : Exec × List Nat × Bool :=
  let r := tickLoop n (drainSync e).hot.head? (drainSync e) []
  (r.1, r.2, !r.1.hot.isEmpty)

/-- a `tick` line of a program (the protocol budget starts afresh) -/
def tick (e : Exec) (n : Nat) : Exec × List Nat × Bool := tickFrom { e with outstanding := 0 } n

/-- a waker clone woken on another thread while the executor thread answers the driver waker
(`ExecutorConfig::waker`) with ONE tick: if the sync queue is full the pusher calls the driver waker and
retries after the tick has drained the queue; otherwise it pushes and then calls the driver waker. No tick
when `Remote::schedule` returns early. -/
def remoteWakeB (e : Exec) (id n : Nat) : Exec × Option (List Nat × Bool) :=
  match e.get? id with
  | none => (e, none)
  | some t =>
    let r := remoteSchedTask t
    if !r.2 then (e.setTask id r.1, none)
    else
      let e1 : Exec := { e.setTask id r.1 with pending := e.pending + 1 }
      if e1.sync.length < e1.cap then
        let t2 := tickFrom { e1 with sync := e1.sync ++ [id], outstanding := 1 } n
        (finishSched t2.1 id, some t2.2)
      else
        let t2 := tickFrom { e1 with outstanding := 1, inflight := some id } n
        (finishSched { t2.1 with sync := t2.1.sync ++ [id], inflight := none } id, some t2.2)

/-- the join waker `JoinHandle::cancel(self).await` is polled with in the harness (a no-op waker) -/
def noopWaker : Nat := 999

inductive JoinResult where
  | pending | ok | panicked | cancelled | invalid
  deriving DecidableEq, Repr

/-- `Executor::spawn` -/
def spawn (e : Exec) (script : List Outcome) : Exec × Nat :=
  let id := e.tasks.length
  let t : TaskSt := { word := TaskState.new 2, storage := .future, slot := none, script := script,
                      shared := true, handle := true, wakers := 0, polls := 0, futDrops := 0,
                      resTaken := 0, resDrops := 0, slotSets := 0, slotDrops := 0, deallocs := 0, uaf := 0,
                      badPolls := 0 }
  ({ e with tasks := e.tasks ++ [t], hot := e.hot ++ [id], qlog := e.qlog ++ [.insert] }, id)

/-- `Remote::poll` with waker `w`, run to completion on another thread while the executor thread does
nothing (so the snapshots of `start_setting_waker` / `finish_setting_waker` show what `load` showed) -/
def remotePollTask (t : TaskSt) (w : Nat) : TaskSt × JoinResult :=
  let st := TaskState.load t.word
  if TaskState.hasResult st then
    let r := if t.storage = .resultPanic then JoinResult.panicked else JoinResult.ok
    let t := { t with word := TaskState.setHasResultFalse t.word, resTaken := t.resTaken + 1, storage := .empty }
    (dropRef { t with handle := false }, r)
  else if TaskState.isCancelled st then
    (dropRef { t with handle := false }, .cancelled)
  else if TaskState.isCompleted st then (t, .invalid)   -- would loop for ever; never happens (`remote_poll_never_stuck`)
  else
    let old := t.word
    let t := { t with word := TaskState.startSettingWaker old }
    if TaskState.hasWaker old && t.slot = some w then
      ({ t with word := TaskState.finishSettingWakerTrue t.word }, .pending)
    else
      let t := if TaskState.hasWaker old then { t with slotDrops := t.slotDrops + 1 } else t
      ({ t with slot := some w, slotSets := t.slotSets + 1, word := TaskState.finishSettingWakerTrue t.word }, .pending)

/-- `Local::poll` with waker `w` on a task whose handle is live (Ready ⇒ `self.task = None`) -/
def pollTask (t : TaskSt) (w : Nat) : TaskSt × JoinResult :=
  let st := TaskState.load t.word
  if TaskState.hasResult st then
    let r := if t.storage = .resultPanic then JoinResult.panicked else JoinResult.ok
    let t := { t with word := TaskState.setHasResultFalse t.word, resTaken := t.resTaken + 1, storage := .empty }
    (dropRef { t with handle := false }, r)
  else if TaskState.isCancelled st then
    (dropRef { t with handle := false }, .cancelled)
  else if !TaskState.isCompleted st then
    if TaskState.hasWaker st && t.slot = some w then (t, .pending)
    else
      let t := if TaskState.hasWaker st then { t with slotDrops := t.slotDrops + 1 } else t
      ({ t with slot := some w, slotSets := t.slotSets + 1, word := TaskState.setHasWakerTrue t.word }, .pending)
  else (t, .invalid)   -- `unreachable!("Task is completed but has no result")`

/-- `JoinHandle::poll` on the home thread with waker `w` -/
def handlePoll (e : Exec) (id w : Nat) : Exec × JoinResult :=
  match e.get? id with
  | none => (e, .invalid)
  | some t =>
    if !t.handle then (e, .invalid) else
    let r := pollTask t w
    (e.setTask id r.1, r.2)

/-- `Task::cancel(drop_result)` after the `schedule()` call: the accesses to the task itself -/
def cancelWord (t : TaskSt) (dropResult : Bool) : TaskSt :=
  let old := t.word
  let t := { t with word := TaskState.setCancelled old }
  if dropResult && TaskState.hasResult old then
    { t with word := TaskState.setHasResultFalse t.word, resDrops := t.resDrops + 1, storage := .empty }
  else t

/-- `Task::cancel(drop_result)` -/
def cancelTask (e : Exec) (id : Nat) (dropResult : Bool) : Exec :=
  match e.get? id with
  | none => e
  | some t => (scheduleLocal e id).setTask id (cancelWord t dropResult)

/-- `impl Drop for JoinHandle`: `task.cancel(true)`, then the handle's reference goes away -/
def handleDrop (e : Exec) (id : Nat) : Exec × Bool :=
  match e.get? id with
  | none => (e, false)
  | some t =>
    if !t.handle then (e, false) else
    ((scheduleLocal e id).setTask id (dropRef { cancelWord t true with handle := false }), true)

/-- `JoinHandle::detach` -/
def handleDetach (e : Exec) (id : Nat) : Exec × Bool :=
  match e.get? id with
  | none => (e, false)
  | some t =>
    if !t.handle then (e, false) else (e.setTask id (dropRef { t with handle := false }), true)

/-- first half of `JoinHandle::cancel`: `task.cancel(false)`; the caller then polls the handle -/
def handleCancel (e : Exec) (id : Nat) : Exec × Bool :=
  match e.get? id with
  | none => (e, false)
  | some t => if !t.handle then (e, false) else (cancelTask e id false, true)

/-- `Waker::wake_by_ref` on the home thread, through a clone the harness kept -/
def wakeLocal (e : Exec) (id : Nat) : Exec × Bool :=
  match e.get? id with
  | none => (e, false)
  | some t => if t.wakers = 0 then (e, false) else (scheduleLocal e id, true)

/-- dropping one `Waker` clone -/
def wakerDrop (e : Exec) (id : Nat) : Exec × Bool :=
  match e.get? id with
  | none => (e, false)
  | some t =>
    if t.wakers = 0 then (e, false)
    else (e.setTask id (dropRef { t with wakers := t.wakers - 1 }), true)

/-- `JoinHandle::poll` on another thread -/
def remoteHandlePoll (e : Exec) (id w : Nat) : Exec × JoinResult :=
  match e.get? id with
  | none => (e, .invalid)
  | some t =>
    if !t.handle then (e, .invalid) else
    let r := remotePollTask t w
    (e.setTask id r.1, r.2)

/-- `impl Drop for JoinHandle` on another thread: `task.cancel(true)` = `Remote::schedule`, `set_cancelled`,
drop the result if there is one; then the handle's reference goes away -/
def remoteHandleDrop (e : Exec) (id : Nat) : Exec :=
  let e1 := remoteSchedule e id
  match e1.get? id with
  | none => e1
  | some t => e1.setTask id (dropRef { cancelWord t true with handle := false })

/-- `JoinHandle::cancel(self).await` polled once on another thread: `task.cancel(false)`, then `Remote::poll` -/
def remoteHandleCancel (e : Exec) (id : Nat) : Exec × JoinResult :=
  let e1 := remoteSchedule e id
  match e1.get? id with
  | none => (e1, .invalid)
  | some t =>
    let r := remotePollTask (cancelWord t false) noopWaker
    (e1.setTask id r.1, r.2)

/-- what `Executor::clear` does to one task of the map -/
def clearTask (e : Exec) (id : Nat) : Exec :=
  match e.get? id with
  | none => e
  | some t => e.setTask id (dropRef (taskDropByExecutor t))

/-- `Executor::clear` / `Drop`: the sync queue is emptied, every task still in the map is dropped by the executor -/
def clearAll (e : Exec) : Exec :=
  { (e.hot ++ e.cold).foldl clearTask e with hot := [], cold := [], sync := [], qlog := e.qlog ++ [.clear] }

def execDrop (e : Exec) : Exec := { clearAll e with alive := false }

/-! ## Operations of a program (what the driver and the harness execute) -/

inductive Op where
  | spawn (script : List Outcome)
  | tick (n : Nat)               -- one `Executor::tick` with `max_interval = n`
  | hpoll (id w : Nat)
  | hdrop (id : Nat)
  | hdetach (id : Nat)
  | hcancel (id : Nat)           -- `JoinHandle::cancel`: `task.cancel(false)` then poll
  | wake (id : Nat)
  | wdrop (id : Nat)
  | xdrop
  -- the same objects used on ANOTHER thread (sequentially: the helper thread is joined before the next operation)
  | rhpoll (id w : Nat)
  | rhdrop (id : Nat)
  | rhcancel (id : Nat)
  | rwake (id : Nat)
  | rwakeb (id n : Nat)          -- remote wake while the executor answers the driver waker with one tick (`max_interval = n`)
  | rwdrop (id : Nat)
  deriving DecidableEq, Repr

inductive Resp where
  | invalid
  | spawned (id : Nat)
  | polled (log : List Nat) (hot : Bool)
  | join (r : JoinResult)
  | done (ok : Bool)
  | cancel (r : JoinResult)
  | full                          -- a remote scheduling operation refused by the protocol budget
  | wokeB (t : Option (List Nat × Bool))
  deriving DecidableEq, Repr

/-- the handle of task `id` is live -/
def hasHandle (e : Exec) (id : Nat) : Bool :=
  match e.get? id with
  | some t => t.handle
  | none => false

/-- a waker clone of task `id` is kept -/
def hasWakerClone (e : Exec) (id : Nat) : Bool :=
  match e.get? id with
  | some t => t.wakers != 0
  | none => false

/-- charge the protocol budget -/
def chargeBudget (e : Exec) : Exec := { e with outstanding := e.outstanding + 1 }

/-- one operation: new state and what the caller observes -/
def applyR (e : Exec) : Op → Exec × Resp
  | .spawn sc => if !e.alive then (e, .invalid) else let r := spawn e sc; (r.1, .spawned r.2)
  | .tick n => if !e.alive then (e, .invalid) else let r := tick e n; (r.1, .polled r.2.1 r.2.2)
  | .hpoll id w => let r := handlePoll e id w; (r.1, .join r.2)
  | .hdrop id => let r := handleDrop e id; (r.1, .done r.2)
  | .hdetach id => let r := handleDetach e id; (r.1, .done r.2)
  | .hcancel id =>
    let r := handleCancel e id
    if !r.2 then (e, .invalid) else
    -- `cancel().await`: the handle is polled right away
    let p := handlePoll r.1 id noopWaker
    (p.1, .cancel p.2)
  | .wake id => let r := wakeLocal e id; (r.1, .done r.2)
  | .wdrop id => let r := wakerDrop e id; (r.1, .done r.2)
  | .xdrop => if !e.alive then (e, .invalid) else (execDrop e, .done true)
  | .rhpoll id w => let r := remoteHandlePoll e id w; (r.1, .join r.2)
  | .rhdrop id =>
    if !hasHandle e id then (e, .invalid) else
    if !(e.outstanding < e.cap) then (e, .full) else
    (remoteHandleDrop (chargeBudget e) id, .done true)
  | .rhcancel id =>
    if !hasHandle e id then (e, .invalid) else
    if !(e.outstanding < e.cap) then (e, .full) else
    let r := remoteHandleCancel (chargeBudget e) id; (r.1, .cancel r.2)
  | .rwake id =>
    if !hasWakerClone e id then (e, .invalid) else
    if !(e.outstanding < e.cap) then (e, .full) else
    (remoteSchedule (chargeBudget e) id, .done true)
  | .rwakeb id n =>
    if !hasWakerClone e id then (e, .invalid) else
    let r := remoteWakeB e id n; (r.1, .wokeB r.2)
  | .rwdrop id => let r := wakerDrop e id; (r.1, .done r.2)

def apply (e : Exec) (op : Op) : Exec := (applyR e op).1

/-- the state after a whole program, from a fresh executor with `sync_queue_size = q` -/
def run (q : Nat) (ops : List Op) : Exec := ops.foldl apply (Exec.new q)

end Compio.Executor
