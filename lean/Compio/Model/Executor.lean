/-
Model of compio-executor as seen from its home thread: `Executor::{spawn, tick, clear/drop}`,
`Task::{run, drop, cancel, schedule}` (task/mod.rs, task/local.rs), `JoinHandle::{poll, drop, detach,
cancel}` (join_handle.rs), waker clone/wake/drop (waker.rs) and the hot/cold queue (queue.rs) viewed
as two lists. Every access to the task word goes through the functions regenerated from
task/state.rs (Compio.Gen.TaskState). Ghost counters record what the property talks about
(polls, future drops, result takes/drops, deallocations, use after free).

A future is a script: what each successive poll does.
-/
import Compio.Gen.TaskState

namespace Compio.Executor
open Compio.TaskWord
open Compio.Gen

/-- what one poll of the spawned future does -/
inductive Outcome where
  | pending            -- returns Pending without waking anybody
  | wakeSelf           -- `cx.waker().wake_by_ref()` then Pending
  | cloneWaker         -- stores a clone of its waker somewhere, then Pending
  | ready              -- returns Ready(v)
  | panic              -- panics (caught: the result is the panic payload)
  deriving DecidableEq, Repr

inductive Storage where
  | future | resultOk | resultPanic | empty
  deriving DecidableEq, Repr

structure TaskSt where
  word : Word
  storage : Storage
  slot : Option Nat          -- `header.waker`: id of the JoinHandle waker stored there
  script : List Outcome
  shared : Bool              -- `header.shared` is non-null
  handle : Bool              -- the JoinHandle still holds its `Task` reference
  wakers : Nat               -- live `Waker` clones of this task
  -- ghost
  polls : Nat
  futDrops : Nat
  resTaken : Nat
  resDrops : Nat
  slotDrops : Nat
  deallocs : Nat
  uaf : Nat                  -- accesses after deallocation
  badPolls : Nat             -- polls of a completed or cancelled task
  deriving DecidableEq, Repr

structure Exec where
  tasks : List TaskSt        -- index = task id
  hot : List Nat
  cold : List Nat
  woken : List Nat           -- join wakers woken, in order (ghost)
  alive : Bool
  deriving DecidableEq, Repr

def Exec.init : Exec := ⟨[], [], [], [], true⟩

def Exec.get? (e : Exec) (id : Nat) : Option TaskSt := e.tasks[id]?

def Exec.setTask (e : Exec) (id : Nat) (t : TaskSt) : Exec := { e with tasks := e.tasks.set id t }

def inMap (e : Exec) (id : Nat) : Bool := e.hot.contains id || e.cold.contains id

/-- `impl Drop for Task`: decrement; the holder that sees count 1 frees result, waker and memory -/
def dropRef (t : TaskSt) : TaskSt :=
  let t := if t.deallocs > 0 then { t with uaf := t.uaf + 1 } else t
  let old := t.word
  let t := { t with word := TaskState.dec old }
  if TaskState.count old > 1 then t
  else
    let t := if TaskState.hasResult old then { t with resDrops := t.resDrops + 1, storage := .empty } else t
    let t := if TaskState.hasWaker old then { t with slotDrops := t.slotDrops + 1, slot := none } else t
    { t with deallocs := t.deallocs + 1 }

/-- `TaskQueue::make_hot`: only a task that is in the map and cold moves (to the hot tail) -/
def makeHot (e : Exec) (id : Nat) : Exec :=
  if e.cold.contains id then { e with cold := e.cold.erase id, hot := e.hot ++ [id] } else e

/-- `Local::schedule` (home thread; no cross-thread wakes pending in this single-threaded model) -/
def scheduleLocal (e : Exec) (id : Nat) : Exec :=
  match e.get? id with
  | none => e
  | some t => if t.shared then makeHot e id else e

/-- `Task::drop` called by the executor: mark dropped, detach from the executor, drop the future if it
did not complete, drop the stored join waker -/
def taskDropByExecutor (t : TaskSt) : TaskSt :=
  let old := t.word
  let t := { t with word := TaskState.setDropped old, shared := false }
  let t := if !TaskState.isCompleted old then { t with futDrops := t.futDrops + 1, storage := .empty } else t
  if TaskState.hasWaker old && !TaskState.isSettingWaker old then
    { t with slotDrops := t.slotDrops + 1, slot := none }
  else t

/-- `Task::run` + the tail of the loop body of `Executor::tick` for one task id that has just been made
cold. Returns the new executor state and whether the task was polled. -/
def runOne (e : Exec) (id : Nat) : Exec × Bool :=
  match e.get? id with
  | none => (e, false)
  | some t =>
    let old := t.word
    let t := { t with word := TaskState.unschedule old }
    if TaskState.isCancelled old then
      -- not polled; Ready ⇒ `task.drop()`, `queue.remove(id)`, the executor's reference goes away
      let t := dropRef (taskDropByExecutor t)
      ({ (e.setTask id t) with cold := e.cold.erase id, hot := e.hot.erase id }, false)
    else
      let bad := if TaskState.isCompleted old then 1 else 0
      match t.script with
      | [] | .pending :: _ =>
        (e.setTask id { t with polls := t.polls + 1, badPolls := t.badPolls + bad, script := t.script.drop 1 }, true)
      | .wakeSelf :: rest =>
        let e := e.setTask id { t with polls := t.polls + 1, badPolls := t.badPolls + bad, script := rest }
        (scheduleLocal e id, true)
      | .cloneWaker :: rest =>
        let t := { t with polls := t.polls + 1, badPolls := t.badPolls + bad, script := rest,
                          word := TaskState.inc t.word, wakers := t.wakers + 1 }
        (e.setTask id t, true)
      | o :: rest =>
        -- Ready (value or caught panic): the future is dropped, the result written, then published
        let st := if o = .panic then Storage.resultPanic else Storage.resultOk
        let t := { t with polls := t.polls + 1, badPolls := t.badPolls + bad, script := rest,
                          futDrops := t.futDrops + 1, storage := st }
        let old2 := t.word
        let t := { t with word := TaskState.finishRunning old2 }
        let woken := if TaskState.hasWaker old2 && !TaskState.isSettingWaker old2 then
            match t.slot with
            | some w => e.woken ++ [w]
            | none => e.woken
          else e.woken
        let t := dropRef (taskDropByExecutor t)
        ({ (e.setTask id t) with cold := e.cold.erase id, hot := e.hot.erase id, woken := woken }, true)

/-- successor of `id` in the hot list (`TaskQueue::next_hot`) -/
def nextHot : List Nat → Nat → Option Nat
  | [], _ => none
  | x :: rest, id => if x = id then rest.head? else nextHot rest id

/-- the loop of `Executor::tick`: `iter_hot().take(n)`; the iterator fetches the successor of the
current id *before* the loop body runs. Returns the ids polled, in order. -/
def tickLoop : Nat → Option Nat → Exec → List Nat → Exec × List Nat
  | 0, _, e, log => (e, log)
  | _, none, e, log => (e, log)
  | n + 1, some id, e, log =>
    let succ := nextHot e.hot id
    -- `make_cold(id)`
    let e := if e.hot.contains id then { e with hot := e.hot.erase id, cold := e.cold ++ [id] } else e
    let (e, polled) := runOne e id
    tickLoop n succ e (if polled then log ++ [id] else log)

/-- `Executor::tick` with `max_interval = n`; returns the ids polled and `has_hot` -/
def tick (e : Exec) (n : Nat) : Exec × List Nat × Bool :=
  let (e, log) := tickLoop n e.hot.head? e []
  (e, log, !e.hot.isEmpty)

inductive JoinResult where
  | pending | ok | panicked | cancelled | invalid
  deriving DecidableEq, Repr

/-- `Executor::spawn` -/
def spawn (e : Exec) (script : List Outcome) : Exec × Nat :=
  let id := e.tasks.length
  let t : TaskSt := { word := TaskState.new 2, storage := .future, slot := none, script := script,
                      shared := true, handle := true, wakers := 0, polls := 0, futDrops := 0,
                      resTaken := 0, resDrops := 0, slotDrops := 0, deallocs := 0, uaf := 0, badPolls := 0 }
  ({ e with tasks := e.tasks ++ [t], hot := e.hot ++ [id] }, id)

/-- `JoinHandle::poll` on the home thread with waker `w` (`Local::poll`) -/
def handlePoll (e : Exec) (id w : Nat) : Exec × JoinResult :=
  match e.get? id with
  | none => (e, .invalid)
  | some t =>
    if !t.handle then (e, .invalid) else
    let st := TaskState.load t.word
    if TaskState.hasResult st then
      let r := if t.storage = .resultPanic then JoinResult.panicked else JoinResult.ok
      let t := { t with word := TaskState.setHasResultFalse t.word, resTaken := t.resTaken + 1, storage := .empty }
      -- Ready ⇒ `self.task = None`
      let t := dropRef { t with handle := false }
      (e.setTask id t, r)
    else if TaskState.isCancelled st then
      let t := dropRef { t with handle := false }
      (e.setTask id t, .cancelled)
    else if !TaskState.isCompleted st then
      if TaskState.hasWaker st && t.slot = some w then (e, .pending)
      else
        let t := if TaskState.hasWaker st then { t with slotDrops := t.slotDrops + 1 } else t
        let t := { t with slot := some w, word := TaskState.setHasWakerTrue t.word }
        (e.setTask id t, .pending)
    else (e, .invalid)   -- `unreachable!("Task is completed but has no result")`

/-- `Task::cancel(drop_result)` -/
def cancelTask (e : Exec) (id : Nat) (dropResult : Bool) : Exec :=
  let e := scheduleLocal e id
  match e.get? id with
  | none => e
  | some t =>
    let old := t.word
    let t := { t with word := TaskState.setCancelled old }
    let t := if dropResult && TaskState.hasResult old then
        { t with word := TaskState.setHasResultFalse t.word, resDrops := t.resDrops + 1, storage := .empty }
      else t
    e.setTask id t

/-- `impl Drop for JoinHandle` -/
def handleDrop (e : Exec) (id : Nat) : Exec × Bool :=
  match e.get? id with
  | none => (e, false)
  | some t =>
    if !t.handle then (e, false) else
    let e := cancelTask e id true
    match e.get? id with
    | none => (e, false)
    | some t => (e.setTask id (dropRef { t with handle := false }), true)

/-- `JoinHandle::detach` -/
def handleDetach (e : Exec) (id : Nat) : Exec × Bool :=
  match e.get? id with
  | none => (e, false)
  | some t =>
    if !t.handle then (e, false) else (e.setTask id (dropRef { t with handle := false }), true)

/-- first half of `JoinHandle::cancel`: `task.cancel(false)`; the caller then polls the handle -/
def handleCancel (e : Exec) (id : Nat) : Exec × Bool :=
  match e.get? id with
  | none => (e, false)
  | some t => if !t.handle then (e, false) else (cancelTask e id false, true)

/-- `Waker::wake_by_ref` on the home thread, through a clone the harness kept -/
def wakeLocal (e : Exec) (id : Nat) : Exec × Bool :=
  match e.get? id with
  | none => (e, false)
  | some t => if t.wakers = 0 then (e, false) else (scheduleLocal e id, true)

/-- dropping one `Waker` clone -/
def wakerDrop (e : Exec) (id : Nat) : Exec × Bool :=
  match e.get? id with
  | none => (e, false)
  | some t =>
    if t.wakers = 0 then (e, false)
    else (e.setTask id (dropRef { t with wakers := t.wakers - 1 }), true)

/-- `Executor::clear` / `Drop`: every task still in the map is dropped by the executor -/
def clearAll (e : Exec) : Exec :=
  let ids := e.hot ++ e.cold
  let e := ids.foldl (fun e id =>
    match e.get? id with
    | none => e
    | some t => e.setTask id (dropRef (taskDropByExecutor t))) e
  { e with hot := [], cold := [] }

def execDrop (e : Exec) : Exec := { clearAll e with alive := false }

end Compio.Executor
