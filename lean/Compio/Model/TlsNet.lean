/-
The transport of the C15 models: an in-memory duplex that plays a schedule (the same object as
`Core`/`Direct`/`AStream` in harness/apps/src/bin/c15.rs).

* cells: the abstract ciphertext alphabet. A handshake byte is `hs`, a post-handshake message byte
  (session tickets) `post`, record overhead `pad`, an application byte carries its plaintext, `alert` is
  the close_notify. (What a real engine puts on the wire is a parameter of the model; only the *kind* of
  each byte matters for what the shim layers do.)
* schedule: per-call transfer limit `lim`; `dr`/`dw`/`df` consecutive `Pending`s (each with a wake-up
  arranged by the transport itself) before a read / write / flush(+close) call is performed, the counter
  restarting when the call is performed; `dfh` is the flush delay until the endpoint's own handshake future
  has resolved; `buffering`: written cells stay in the endpoint until flush/close.
* `astream`: the endpoint is a `compio_io::compat::AsyncStream` over a non-buffering inner stream whose
  writes are delayed by `dw` (write side only: write buffer, resumable flush future; see `aFlushFut`).
Core Lean only.
-/
namespace Compio.TlsNet

/-! ### a two-list queue (amortised O(1) append at the end) -/

structure Q (α : Type) where
  front : List α
  back : List α          -- reversed
  deriving Repr

namespace Q
variable {α : Type}

def empty : Q α := ⟨[], []⟩

def toList (q : Q α) : List α := q.front ++ q.back.reverse

def length (q : Q α) : Nat := q.front.length + q.back.length

def isEmpty (q : Q α) : Bool := q.front.isEmpty && q.back.isEmpty

/-- append `xs` at the end -/
def push (q : Q α) (xs : List α) : Q α := ⟨q.front, xs.reverse ++ q.back⟩

/-- `n ≤ l.length`, in `O(n)` -/
def hasLen : List α → Nat → Bool
  | _, 0 => true
  | [], _ + 1 => false
  | _ :: l, n + 1 => hasLen l n

/-- take (at most) `n` elements from the front -/
def pop (q : Q α) (n : Nat) : List α × Q α :=
  if hasLen q.front n then (q.front.take n, ⟨q.front.drop n, q.back⟩)
  else
    let f := q.front ++ q.back.reverse
    (f.take n, ⟨f.drop n, []⟩)

end Q

/-! ### cells, schedule, pipes -/

inductive Cell where
  | hs
  | post
  | pad
  | app (b : UInt8)
  | alert
  deriving Repr, DecidableEq

structure Sched where
  lim : Nat
  buffering : Bool
  astream : Bool
  dr : Nat
  dw : Nat
  dfh : Nat
  df : Nat
  /-- budget of every loop inside one poll (the drivers pass 2^62; the theorems ask for more fuel than
  there are cells / bytes around, and show that the value is otherwise irrelevant) -/
  fuel : Nat
  deriving Repr

/-- one direction of the duplex -/
structure Pipe where
  q : Q Cell
  closed : Bool
  /-- the reader's waker is stored in the pipe (`rwaker`) -/
  rwait : Bool
  deriving Repr

def Pipe.empty : Pipe := ⟨Q.empty, false, false⟩

/-- the endpoint-local part of the transport -/
structure Tp where
  wbuf : Q Cell
  cr : Nat
  cw : Nat
  cf : Nat
  /-- the endpoint's handshake future has resolved (`dfh` → `df`) -/
  hsDone : Bool
  /-- astream: a flush future is in flight (`write_future.is_some()`) -/
  flushing : Bool
  deriving Repr

def Tp.new : Tp := ⟨Q.empty, 0, 0, 0, false, false⟩

/-- what one endpoint sees during one poll: its transport state, the pipe it writes, the pipe it reads, and
which wakers fired during this poll -/
structure View where
  tp : Tp
  tx : Pipe
  rx : Pipe
  /-- the peer's task was woken during this poll -/
  wake : Bool
  /-- the polled task's own waker was woken during this poll (`wake_by_ref` by a delayed call) -/
  own : Bool
  deriving Repr

/-- how the wake-up of a `Pending` was arranged: the transport woke the caller's waker itself (`self`),
or stored it in the pipe (`reg`) where the peer's next push wakes it -/
inductive Pend where
  | self
  | reg
  deriving Repr, DecidableEq

inductive IoR (α : Type) where
  | pending (p : Pend)
  | ready (a : α)
  | err
  deriving Repr

/-- move cells into the peer's pipe; wakes the registered reader -/
def pushTx (v : View) (cs : List Cell) : View :=
  if cs.isEmpty then v
  else { v with tx := { v.tx with q := v.tx.q.push cs, rwait := false }, wake := v.wake || v.tx.rwait }

def flushDelay (sc : Sched) (tp : Tp) : Nat := if tp.hsDone then sc.df else sc.dfh

/-! ### the plain duplex (`Core` in the harness) -/

/-- `poll_read` with room for `n` cells; `ready []` is `Ok(0)` -/
def tRead (sc : Sched) (v : View) (n : Nat) : View × IoR (List Cell) :=
  if v.tp.cr < sc.dr then ({ v with tp := { v.tp with cr := v.tp.cr + 1 }, own := true }, .pending .self)
  else
    let v := { v with tp := { v.tp with cr := 0 } }
    if v.rx.q.isEmpty then
      if v.rx.closed || n == 0 then (v, .ready [])
      else ({ v with rx := { v.rx with rwait := true } }, .pending .reg)
    else
      let (cs, q') := v.rx.q.pop (min sc.lim n)
      ({ v with rx := { v.rx with q := q' } }, .ready cs)

/-- `poll_write`: accepts at most `lim` cells -/
def tWrite (sc : Sched) (v : View) (cs : List Cell) : View × IoR Nat :=
  if v.tp.cw < sc.dw then ({ v with tp := { v.tp with cw := v.tp.cw + 1 }, own := true }, .pending .self)
  else
    let v := { v with tp := { v.tp with cw := 0 } }
    if cs.isEmpty then (v, .ready 0)
    else if v.tx.closed then (v, .err)
    else
      let now := cs.take sc.lim
      if sc.buffering then ({ v with tp := { v.tp with wbuf := v.tp.wbuf.push now } }, .ready now.length)
      else (pushTx v now, .ready now.length)

def drain (v : View) : View :=
  if v.tp.wbuf.isEmpty then v
  else pushTx { v with tp := { v.tp with wbuf := Q.empty } } v.tp.wbuf.toList

/-- `poll_flush` -/
def tFlush (sc : Sched) (v : View) : View × IoR Unit :=
  if v.tp.cf < flushDelay sc v.tp then ({ v with tp := { v.tp with cf := v.tp.cf + 1 }, own := true }, .pending .self)
  else (drain { v with tp := { v.tp with cf := 0 } }, .ready ())

/-- `poll_close`: flush, then end of stream for the peer -/
def tClose (sc : Sched) (v : View) : View × IoR Unit :=
  if v.tp.cf < flushDelay sc v.tp then ({ v with tp := { v.tp with cf := v.tp.cf + 1 }, own := true }, .pending .self)
  else
    let v := drain { v with tp := { v.tp with cf := 0 } }
    ({ v with tx := { v.tx with closed := true, rwait := false }, wake := v.wake || v.tx.rwait }, .ready ())

/-! ### `AsyncStream` over the plain duplex (write side) -/

/-- `need_flush` threshold of the 8 KiB `SyncStream` write buffer (`len > cap * 2 / 3`; the growth of the
`Vec` behind it is not modelled) -/
def aThreshold : Nat := 5461

/-- `poll_flush_impl`: poll the in-flight `flush_write_buf()` future (create it if there is none):
`flush_to` writes the buffer with inner `write`s of at most `lim` cells, each delayed by `dw`;
the inner `flush()` is immediate. -/
def aFlushFut (sc : Sched) : Nat → View → View × IoR Unit
  | 0, v => (v, .err)      -- out of fuel (needs fuel > wbuf.length)
  | fuel + 1, v =>
    let v := { v with tp := { v.tp with flushing := true } }
    if v.tp.wbuf.isEmpty then ({ v with tp := { v.tp with flushing := false } }, .ready ())
    else if v.tp.cw < sc.dw then ({ v with tp := { v.tp with cw := v.tp.cw + 1 }, own := true }, .pending .self)
    else
      let (now, rest) := v.tp.wbuf.pop sc.lim
      aFlushFut sc fuel (pushTx { v with tp := { v.tp with cw := 0, wbuf := rest } } now)

def aFlush (sc : Sched) (v : View) : View × IoR Unit := aFlushFut sc sc.fuel v

/-- `AsyncWriteStream::poll_write`: `Write::write` on the buffer is `WouldBlock` while the buffer is lent to
the flush future or above the threshold; then the flush future is polled and the write retried -/
def aWrite (sc : Sched) (v : View) (cs : List Cell) : View × IoR Nat :=
  if v.tx.closed then (v, .err)
  else if v.tp.flushing || (aThreshold < v.tp.wbuf.length) then
    match aFlush sc v with
    | (v, .ready ()) => ({ v with tp := { v.tp with wbuf := v.tp.wbuf.push cs } }, .ready cs.length)
    | (v, .pending p) => (v, .pending p)
    | (v, .err) => (v, .err)
  else ({ v with tp := { v.tp with wbuf := v.tp.wbuf.push cs } }, .ready cs.length)

/-- `AsyncWriteStream::poll_close`: finish the pending flush, then shut the inner stream down -/
def aClose (sc : Sched) (v : View) : View × IoR Unit :=
  if v.tp.flushing || !v.tp.wbuf.isEmpty then
    match aFlush sc v with
    | (v, .ready ()) =>
      ({ v with tx := { v.tx with closed := true, rwait := false }, wake := v.wake || v.tx.rwait }, .ready ())
    | r => r
  else ({ v with tx := { v.tx with closed := true, rwait := false }, wake := v.wake || v.tx.rwait }, .ready ())

/-! ### dispatch on the transport kind -/

def ioRead (sc : Sched) (v : View) (n : Nat) : View × IoR (List Cell) := tRead sc v n

def ioWrite (sc : Sched) (v : View) (cs : List Cell) : View × IoR Nat :=
  if sc.astream then aWrite sc v cs else tWrite sc v cs

def ioFlush (sc : Sched) (v : View) : View × IoR Unit :=
  if sc.astream then aFlush sc v else tFlush sc v

def ioClose (sc : Sched) (v : View) : View × IoR Unit :=
  if sc.astream then aClose sc v else tClose sc v

end Compio.TlsNet
