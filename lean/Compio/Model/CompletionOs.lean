/-
C02 — the deterministic slice of the operating system the correspondence harness drives the real drivers
against: pipes, socket pairs, regular files, gated thread-pool jobs; epoll readiness; the io_uring kernel side
(inline issue at submit, completion of armed requests when the harness changes a channel).

This file is *not* part of what is proved correct (the theorems quantify over every `Ops` / every kernel
script); it is the instantiation the line-protocol driver `c02d` runs so that its output can be compared with
the real code.  What it assumes about Linux is listed in notes/C02.md ("OS model").

Channel `c` is one kernel object pair; the compio side owns exactly one descriptor of it, and the model uses
`c` itself as that descriptor's number.
-/
import Compio.Model.Common
import Compio.Model.PollDriver

namespace Compio.Os
open Compio Compio.Completion Compio.PollDriver

inductive CKind where
  | rpipe   -- compio owns the read end of a default pipe; the harness feeds the write end
  | wpipe   -- compio owns the write end of a one-slot (4096 byte) pipe; the harness drains the read end
  | sock    -- compio owns end `a` of an AF_UNIX stream pair; the harness owns end `b`
  | file    -- regular file (epoll refuses it with EPERM)
deriving DecidableEq, Repr, Inhabited

structure Chan where
  kind : CKind := .rpipe
  /-- bytes the compio side can read (rpipe / sock b→a / file content) -/
  rbuf : Bytes := []
  /-- the peer closed its writing side -/
  eof : Bool := false
  /-- payload the compio side wrote and the harness has not drained yet -/
  wbuf : Bytes := []
  /-- wpipe: 4096 filler bytes occupy the only slot; sock: the send buffer was filled to EAGAIN -/
  filled : Bool := false
  /-- the peer closed its reading side (writes fail with EPIPE) -/
  hup : Bool := false
deriving Repr, Inhabited

inductive OpKind where
  | read (c cap : Nat)
  | write (c : Nat) (data : Bytes)
  | recv (c cap : Nat)
  | send (c : Nat) (data : Bytes)
  | ponce (c : Nat) (d : Dir)
  | job (r : Res)
  | readat (c off cap : Nat)
  | splice (cin cout len : Nat)
  | readf (c cap : Nat)
  /-- `ReadMulti` with the driver's buffer pool: multishot on io_uring, one managed read on polling -/
  | rmulti (c : Nat)
deriving Repr

structure Os where
  /-- io_uring flavour of the operations (`PollAdd` waits in the kernel; the polling flavour of `PollOnce`
      is only run after an event and always returns 0) -/
  iour : Bool := false
  /-- kernel objects, by the channel number they were created with -/
  objs : Nat → Chan := fun _ => {}
  /-- `dup`: descriptor `d` refers to the kernel object of channel `alias d` (identity unless dup'd) -/
  alias : Nat → Nat := fun c => c
  ops : Id → Option OpKind := fun _ => none
  /-- what an operation's buffer holds after completion -/
  got : Id → Bytes := fun _ => []
  /-- payloads of the multishot items posted for an operation, oldest first -/
  items : Id → List Bytes := fun _ => []

instance : Inhabited Os := ⟨{}⟩

def EPIPE : Nat := 32
def pageSize : Nat := 4096
/-- `buffer_pool_buffer_len` default -/
def poolBufLen : Nat := 8192

def Chan.used (ch : Chan) : Nat := ch.wbuf.length + (if ch.filled then pageSize else 0)

/-- level-triggered readiness of the compio-side descriptor -/
def Chan.readableNow (ch : Chan) : Bool :=
  match ch.kind with
  | .rpipe | .sock => !ch.rbuf.isEmpty || ch.eof
  | _ => false

def Chan.writableNow (ch : Chan) : Bool :=
  match ch.kind with
  | .wpipe => ch.used == 0 || ch.hup
  | .sock => !ch.filled || ch.hup
  | _ => false

/-- EPOLLHUP / EPOLLERR are reported whatever the interest and count as both readable and writable -/
def Chan.hupNow (ch : Chan) : Bool :=
  match ch.kind with
  | .rpipe => ch.eof
  | .wpipe => ch.hup
  | .sock => ch.eof && ch.hup
  | _ => false

/-- the kernel object behind descriptor / channel `c` -/
def Os.chans (os : Os) (c : Nat) : Chan := os.objs (os.alias c)

def setChan (os : Os) (c : Nat) (ch : Chan) : Os := { os with objs := upd os.objs (os.alias c) ch }

/-- read-like syscall on channel `c` into a buffer of capacity `cap` -/
def doRead (os : Os) (id : Id) (c cap : Nat) : Option Res × Os :=
  let ch := os.chans c
  if cap = 0 then (some (.ok 0), os)
  else if !ch.rbuf.isEmpty then
    let n := min cap ch.rbuf.length
    (some (.ok n), { setChan os c { ch with rbuf := ch.rbuf.drop n } with got := upd os.got id (ch.rbuf.take n) })
  else if ch.eof then (some (.ok 0), os)
  else (none, os)

/-- `write(2)` on the one-slot pipe: succeeds when the slot is free or the bytes merge into the page -/
def doPipeWrite (os : Os) (c : Nat) (data : Bytes) : Option Res × Os :=
  let ch := os.chans c
  if ch.hup then (some (.err EPIPE), os)
  else if ch.used == 0 || ch.used + data.length ≤ pageSize then
    (some (.ok data.length), setChan os c { ch with wbuf := ch.wbuf ++ data })
  else (none, os)

def doSend (os : Os) (c : Nat) (data : Bytes) : Option Res × Os :=
  let ch := os.chans c
  if ch.hup then (some (.err EPIPE), os)
  else if ch.filled then (none, os)
  else (some (.ok data.length), setChan os c { ch with wbuf := ch.wbuf ++ data })

/-- `splice(2)` pipe → pipe with SPLICE_F_NONBLOCK: moves (part of) the first pipe buffer into a free slot -/
def doSplice (os : Os) (cin cout len : Nat) : Option Res × Os :=
  let i := os.chans cin
  let o := os.chans cout
  if len = 0 then (some (.ok 0), os)
  else if i.rbuf.isEmpty then (if i.eof then (some (.ok 0), os) else (none, os))
  else if o.hup then (some (.err EPIPE), os)
  else if o.used != 0 then (none, os)
  else
    let n := min len i.rbuf.length
    let os1 := setChan os cin { i with rbuf := i.rbuf.drop n }
    (some (.ok n), setChan os1 cout { (os1.chans cout) with wbuf := i.rbuf.take n })

def doReadAt (os : Os) (id : Id) (c off cap : Nat) : Option Res × Os :=
  let data := ((os.chans c).rbuf.drop off).take cap
  (some (.ok data.length), { os with got := upd os.got id data })

/-- the non-blocking system call of operation `id` (`none` = EAGAIN) -/
def perform (os : Os) (id : Id) : Option Res × Os :=
  match os.ops id with
  | none => (some (.err 9), os)
  | some (.read c cap) => doRead os id c cap
  | some (.recv c cap) => doRead os id c cap
  | some (.readf c cap) => doReadAt os id c 0 cap
  | some (.rmulti c) => doRead os id c poolBufLen
  | some (.write c data) => doPipeWrite os c data
  | some (.send c data) => doSend os c data
  | some (.ponce c d) =>
    if !os.iour then (some (.ok 0), os)
    else
      let ch := os.chans c
      let ready := match d with
        | .read => ch.readableNow || ch.hupNow
        | .write => ch.writableNow || ch.hupNow
      if ready then (some (.ok 0), os) else (none, os)
  | some (.job r) => (some r, os)
  | some (.readat c off cap) => doReadAt os id c off cap
  | some (.splice cin cout len) => doSplice os cin cout len

/-- the polling driver's view of the operations -/
def pollOps : Ops Os where
  operate := perform
  addFails := fun _ => none

/-- `addFails` needs the channel kinds, which live in the state; the driver passes them explicitly -/
def pollOpsFor (files : List Nat) : Ops Os where
  operate := perform
  addFails := fun fd => if files.contains fd then some EPERM else none

/-- `pre_submit` of the polling flavour of each operation -/
def decide (os : Os) (id : Id) : Decision × Os :=
  match os.ops id with
  | none => (.fail 9, os)
  | some (.read c _) => (.wait [(c, .read)], os)
  | some (.readf c _) => (.wait [(c, .read)], os)
  | some (.rmulti c) => (.wait [(c, .read)], os)
  | some (.write c _) => (.wait [(c, .write)], os)
  | some (.ponce c d) => (.wait [(c, d)], os)
  | some (.recv c _) =>
    match perform os id with
    | (some (.ok n), os') => (.completed n, os')
    | (some (.err e), os') => (.fail e, os')
    | (none, os') => (.wait [(c, .read)], os')
  | some (.send c _) =>
    match perform os id with
    | (some (.ok n), os') => (.completed n, os')
    | (some (.err e), os') => (.fail e, os')
    | (none, os') => (.wait [(c, .write)], os')
  | some (.job _) => (.blocking, os)
  | some (.readat _ _ _) => (.blocking, os)
  | some (.splice cin cout _) => (.wait [(cin, .read), (cout, .write)], os)

/-- the event `epoll_wait` would report for descriptor `c` right now (armed interest ∩ readiness, HUP/ERR) -/
def firedOf (s : St Os) (c : Nat) : Option Fired :=
  match s.epoll c with
  | none => none
  | some ev =>
    let ch := s.world.chans c
    if !(ev.readable || ev.writable) then none
    else
      let r := (ev.readable && ch.readableNow) || ch.hupNow
      let w := (ev.writable && ch.writableNow) || ch.hupNow
      if r || w then some ⟨c, r, w⟩ else none

/-- what `epoll_wait` reports, scanning the given descriptors in order -/
def firedNow (s : St Os) : List Nat → List Fired
  | [] => []
  | c :: rest =>
    let tail := firedNow s rest
    match s.epoll c with
    | none => tail
    | some ev =>
      let ch := s.world.chans c
      if !(ev.readable || ev.writable) then tail
      else
        let r := (ev.readable && ch.readableNow) || ch.hupNow
        let w := (ev.writable && ch.writableNow) || ch.hupNow
        if r || w then ⟨c, r, w⟩ :: tail else tail

/-! ### io_uring kernel side -/

/-- a multishot read that is armed (or being issued): every chunk of available data is one CQE with the
    `more` flag; end of stream is the final CQE.  Returns the CQEs and whether the request stays armed. -/
def multiStep (os : Os) (id : Id) (c : Nat) : Os × List Cqe × Bool :=
  let ch := os.chans c
  if !ch.rbuf.isEmpty then
    let n := min poolBufLen ch.rbuf.length
    let os1 := { setChan os c { ch with rbuf := ch.rbuf.drop n } with
                 items := upd os.items id (os.items id ++ [ch.rbuf.take n]) }
    if ch.eof && (ch.rbuf.drop n).isEmpty then
      (os1, [⟨.key id, .ok n, true⟩, ⟨.key id, .ok 0, false⟩], false)
    else (os1, [⟨.key id, .ok n, true⟩], true)
  else if ch.eof then (os, [⟨.key id, .ok 0, false⟩], false)
  else (os, [], true)

/-- issue the staged SQEs in order: an operation that can complete posts its CQE, otherwise it stays armed;
    `AsyncCancel` of an armed operation completes it with ECANCELED -/
def issue (os : Os) (armed : List Id) : List Sqe → Os × List Id × List Cqe
  | [] => (os, armed, [])
  | .op id :: rest =>
    match os.ops id with
    | some (.rmulti c) =>
      let (os', cs0, stay) := multiStep os id c
      let (os2, a2, cs) := issue os' (if stay then armed ++ [id] else armed) rest
      (os2, a2, cs0 ++ cs)
    | _ =>
    match perform os id with
    | (some r, os') =>
      let (os2, a2, cs) := issue os' armed rest
      (os2, a2, ⟨.key id, r, false⟩ :: cs)
    | (none, os') => issue os' (armed ++ [id]) rest
  | .cancelOf id :: rest =>
    if armed.contains id then
      let (os2, a2, cs) := issue os (armed.erase id) rest
      (os2, a2, ⟨.key id, .err ECANCELED, false⟩ :: ⟨.cancel, .ok 0, false⟩ :: cs)
    else
      let (os2, a2, cs) := issue os armed rest
      (os2, a2, ⟨.cancel, .err ENOENT, false⟩ :: cs)
  | .notifier :: rest => issue os armed rest

/-- armed requests are retried when the harness changed a channel -/
def retry (os : Os) : List Id → Os × List Id × List Cqe
  | [] => (os, [], [])
  | id :: rest =>
    match os.ops id with
    | some (.rmulti c) =>
      let (os', cs0, stay) := multiStep os id c
      let (os2, a2, cs) := retry os' rest
      (os2, if stay then id :: a2 else a2, cs0 ++ cs)
    | _ =>
    match perform os id with
    | (some r, os') =>
      let (os2, a2, cs) := retry os' rest
      (os2, a2, ⟨.key id, r, false⟩ :: cs)
    | (none, os') =>
      let (os2, a2, cs) := retry os' rest
      (os2, id :: a2, cs)

end Compio.Os
