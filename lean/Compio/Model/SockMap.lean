/-
C14 (1) — how a socket receive completion is turned into the caller's value.

Sources: compio-net/src/socket/mod.rs (`recv*`), compio-driver/src/sys/op/ext.rs
(`map_advanced`, `map_vec_advanced`, `map_addr`, `ResultTakeBuffer`), compio-buf/src/io_buf.rs
(`SetLenExt::advance_to`, `advance_vec_to`, `default_set_len`, the `SetLen` impls),
compio-driver/src/buffer_pool.rs (`BufferRef::set_len`, `set_capacity`),
compio-driver/src/sys/op/socket/unix.rs (the clamps in `call`), op/managed/{fallback,poll,fusion}.rs.

A buffer is `mem` (the bytes of the allocation that were ever written, from offset 0), the recorded
length `len` and the capacity `cap`; the caller sees `mem.take len`.  The kernel writes at offset 0 of
the capacity region (`as_uninit()` / `sys_slice_mut()` start at the beginning of the allocation).

Core Lean only.
-/
import Compio.Model.Common

namespace Compio.Sock

/-- result of a modelled call: `panic` = Rust panic (`debug_assert!`), `ub` = the code would record a
length beyond the bytes that were written / beyond the capacity (`Vec::set_len` contract broken) -/
inductive Res (α : Type) where
  | ok (a : α)
  | panic
  | ub
  deriving Repr, DecidableEq

def Res.bind {α β : Type} (r : Res α) (f : α → Res β) : Res β :=
  match r with
  | .ok a => f a
  | .panic => .panic
  | .ub => .ub

/-- which `SetLen` impl the buffer has -/
inductive Kind where
  | vec    -- `Vec<u8>` / `BytesMut`: `set_len` is unconditional
  | arr    -- `[u8; N]`, `Box<[u8]>`: `set_len` only `debug_assert!(len <= N)`
  | pool   -- `BufferRef`: `len = min(len, cap)`
  deriving Repr, DecidableEq

structure Buf where
  kind : Kind
  mem : Bytes
  len : Nat
  cap : Nat
  deriving Repr, DecidableEq

/-- what the caller can read: `as_init()` -/
def Buf.vis (b : Buf) : Bytes := b.mem.take b.len

/-- well-formed: recorded length within the written extent within the capacity -/
def Buf.WF (b : Buf) : Prop := b.len ≤ b.mem.length ∧ b.mem.length ≤ b.cap

/-- `Vec::with_capacity(cap)` holding `d` -/
def Buf.vecOf (d : Bytes) (cap : Nat) : Buf := ⟨.vec, d, d.length, cap⟩
/-- `[0u8; n]`-like fixed array holding `d` -/
def Buf.arrOf (d : Bytes) : Buf := ⟨.arr, d, d.length, d.length⟩
/-- a pool buffer of capacity `cap` (fresh: nothing recorded) -/
def Buf.poolOf (cap : Nat) : Buf := ⟨.pool, [], 0, cap⟩

/-- the kernel wrote `w` at the start of the capacity region -/
def Buf.write (b : Buf) (w : Bytes) : Buf := { b with mem := w ++ b.mem.drop w.length }

/-- `SetLen::set_len` of the three buffer families -/
def Buf.setLen (b : Buf) (n : Nat) : Res Buf :=
  match b.kind with
  | .vec => if n ≤ b.mem.length then .ok { b with len := n } else .ub
  | .arr => if n ≤ b.cap then .ok b else .panic
  | .pool => if min n b.cap ≤ b.mem.length then .ok { b with len := min n b.cap } else .ub

/-- `SetLenExt::advance_to` -/
def advanceTo (b : Buf) (n : Nat) : Res Buf :=
  if n > b.len then b.setLen n else .ok b

/-- `BufferRef::set_capacity` (`with_capacity`): 0 keeps the full capacity -/
def Buf.setCapacity (b : Buf) (cap full : Nat) : Buf :=
  if cap = 0 then b else { b with cap := min cap full, len := min b.len (min cap full) }

/-! ## vectored buffers (`[T; N]`, `Vec<T>`: `default_set_len`) -/

def totalLen : List Buf → Nat
  | [] => 0
  | b :: r => b.len + totalLen r

def totalCap : List Buf → Nat
  | [] => 0
  | b :: r => b.cap + totalCap r

/-- the kernel fills the iovec built by `sys_slices_mut()` (each member's whole capacity) in order -/
def scatter : List Buf → Bytes → List Buf
  | [], _ => []
  | b :: r, w => b.write (w.take b.cap) :: scatter r (w.drop b.cap)

/-- `default_set_len`: `while len > 0 { next member; sub = min(cap, len); set_len(sub); len -= sub }` -/
def setLenVec : List Buf → Nat → Res (List Buf)
  | [], _ => .ok []
  | b :: r, n =>
    if n = 0 then .ok (b :: r)
    else
      (b.setLen (min b.cap n)).bind fun b' =>
      (setLenVec r (n - min b.cap n)).bind fun r' => .ok (b' :: r')

/-- `SetLenExt::advance_vec_to` -/
def advanceVecTo (bs : List Buf) (n : Nat) : Res (List Buf) :=
  if n > totalLen bs then setLenVec bs n else .ok bs

/-- where the caller looks for the `n` received bytes: the first `min(cap, remaining)` visible bytes of
each member in order -/
def seen : List Buf → Nat → Bytes
  | [], _ => []
  | b :: r, n => if n = 0 then [] else b.vis.take (min b.cap n) ++ seen r (n - min b.cap n)

/-- every member that received bytes shows at least those bytes (`len ≥ min(cap, remaining)`) -/
def covers : List Buf → Nat → Bool
  | [], _ => true
  | b :: r, n => if n = 0 then true else decide (min b.cap n ≤ b.len) && covers r (n - min b.cap n)

/-! ## completion → caller value, per receive flavour (compio-net `Socket::recv*`) -/

inductive Drv where
  | uring
  | poll
  deriving Repr, DecidableEq

inductive ROp where
  | recv
  | recvVectored
  | recvFrom
  | recvFromVectored
  | recvMsg
  deriving Repr, DecidableEq

/-- does `call` clamp the syscall's return value to the capacity (socket/unix.rs)?  Only the polling
`RecvVectored` and `RecvFrom` do; io_uring hands the CQE result through. -/
def clamps : ROp → Drv → Bool
  | .recvVectored, .poll => true
  | .recvFrom, .poll => true
  | _, _ => false

/-- completion result from the raw return value `ret` of the receive call -/
def compLen (op : ROp) (drv : Drv) (ret cap : Nat) : Nat :=
  if clamps op drv then min ret cap else ret

/-- what the op holds when its completion is delivered -/
structure Comp where
  n : Nat          -- completion result
  nameLen : Nat    -- `msg_namelen` / `addr_len` after the call
  name : Bytes     -- content of the address storage
  ctlLen : Nat     -- `msg_controllen` after the call
  flags : Nat      -- `msg_flags`
  deriving Repr, DecidableEq

/-- `RecvFromHeader::into_addr` / `RecvFromManaged::take_buffer`: `(addr_len > 0).then(..)` -/
def intoAddr (c : Comp) : Option Bytes :=
  if c.nameLen > 0 then some (c.name.take c.nameLen) else none

/-- `recv`: `res.map_advanced()` -/
def mapRecv (n : Nat) (b : Buf) : Res (Nat × Buf) :=
  (advanceTo b n).bind fun b' => .ok (n, b')

/-- `recv_vectored`: `res.map_vec_advanced()` -/
def mapRecvVectored (n : Nat) (bs : List Buf) : Res (Nat × List Buf) :=
  (advanceVecTo bs n).bind fun bs' => .ok (n, bs')

/-- `recv_from`: `map_addr()` then `map_advanced()` -/
def mapRecvFrom (c : Comp) (b : Buf) : Res ((Nat × Option Bytes) × Buf) :=
  (advanceTo b c.n).bind fun b' => .ok ((c.n, intoAddr c), b')

/-- `recv_from_vectored` -/
def mapRecvFromVectored (c : Comp) (bs : List Buf) : Res ((Nat × Option Bytes) × List Buf) :=
  (advanceVecTo bs c.n).bind fun bs' => .ok ((c.n, intoAddr c), bs')

/-- `recv_msg_vectored` (and `recv_msg` = the one-member case): buffer advanced by the result,
control buffer advanced by the control length, address and flags handed through -/
def mapRecvMsg (c : Comp) (bs : List Buf) (ctl : Buf) :
    Res ((Nat × Nat × Option Bytes × Nat) × (List Buf × Buf)) :=
  (advanceVecTo bs c.n).bind fun bs' =>
  (advanceTo ctl c.ctlLen).bind fun ctl' =>
  .ok ((c.n, c.ctlLen, intoAddr c, c.flags), (bs', ctl'))

/-- result of the managed flavours -/
inductive Managed (α : Type) where
  | none                -- `Ok(None)`: the kernel returned 0
  | some (a : α)
  | noBuffer            -- `Err(UnexpectedEof)`: bytes reported but no buffer selected
  | bad (r : Res Unit)  -- panic / ub inside `advance_to`
  deriving Repr

/-- `ResultTakeBuffer::take_buffer` as used by `recv_managed` -/
def takeBuffer (n : Nat) (buf : Option Buf) : Managed Buf :=
  if n = 0 then .none
  else match buf with
    | none => .noBuffer
    | some b =>
      match advanceTo b n with
      | .ok b' => .some b'
      | .panic => .bad .panic
      | .ub => .bad .ub

/-- `recv_from_managed` -/
def takeBufferFrom (c : Comp) (buf : Option Buf) : Managed (Buf × Option Bytes) :=
  match takeBuffer c.n buf with
  | .none => .none
  | .some b => .some (b, intoAddr c)
  | .noBuffer => .noBuffer
  | .bad r => .bad r

/-- `recv_msg_managed` -/
def takeBufferMsg (c : Comp) (buf : Option Buf) (ctl : Buf) :
    Managed (Buf × Buf × Option Bytes × Nat) :=
  match takeBuffer c.n buf with
  | .none => .none
  | .some b =>
    match advanceTo ctl c.ctlLen with
    | .ok ctl' => .some (b, ctl', intoAddr c, c.flags)
    | .panic => .bad .panic
    | .ub => .bad .ub
  | .noBuffer => .noBuffer
  | .bad r => .bad r

/-! ## the polling fallback of the multishot datagram ops (op/managed/fallback.rs) -/

/-- `fallback::RecvFromMulti` / `RecvMsgMulti`: the inner single-shot op's buffer and the `len` field
that `take_buffer` uses -/
structure FallbackMulti where
  buf : Buf
  len : Nat
  deriving Repr, DecidableEq

/-- `PollOpCode::set_result` of the fallback op records the result in `len` (op/managed/poll.rs).
Since /repo 9127ff7 the fused wrappers (`mop!` in op/managed/fusion.rs, `fuse_op!` in macros.rs) forward
`PollOpCode::set_result` to `self.inner.poll()`, so this runs in every build. -/
def FallbackMulti.setResult (m : FallbackMulti) (n : Nat) : FallbackMulti := { m with len := n }

/-- behaviour **before** the repair (finding F140): in the fusion build the wrapper's `PollOpCode` impl
did not forward `set_result`, the fallback op never learned the result.  Kept for the counter-example
theorem in `Cex/C14.lean`; not used by the driver. -/
def FallbackMulti.setResultUnfixed (m : FallbackMulti) (_n : Nat) : FallbackMulti := m

/-- `take_buffer`: `buffer.advance_to(self.len)`; the stream adapter's own `advance_to` is a no-op
for `RecvFromMultiResult` / `RecvMsgMultiResult` -/
def FallbackMulti.takeBuffer (m : FallbackMulti) : Res Buf := advanceTo m.buf m.len

/-- payload capacity of one multishot datagram item: io_uring puts the 16-byte header, the name area
and the control area in front of the payload in the provided buffer -/
def payloadCap (drv : Drv) (buflen clen : Nat) : Nat :=
  match drv with
  | .uring => buflen - (16 + 128 + clen)
  | .poll => buflen

/-! ## kernel contract used by the harness predictions (assumed, not compio code) -/

/-- a datagram `d` received into `cap` bytes of room: the prefix is written, the rest is discarded,
`MSG_TRUNC` is reported in `msg_flags` when it did not fit -/
def kDgram (d : Bytes) (cap : Nat) : Bytes × Bool := (d.take cap, decide (cap < d.length))

/-- a stream receive with `avail` queued bytes -/
def kStream (q : Bytes) (cap : Nat) : Bytes × Bytes := (q.take cap, q.drop cap)

end Compio.Sock
