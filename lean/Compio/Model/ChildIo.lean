/-
C20 — executable model of compio-process: a child process connected to its parent by three pipes.

What is compio's (modelled branch by branch):
* the parent's writer loop over `ChildStdin` (`loop_write_all!`, compio-io/src/write/ext.rs: offer the
  rest of the chunk, advance by the accepted count, stop on an error) followed by the drop (= close) of
  `ChildStdin`; the reader loops over `ChildStdout` / `ChildStderr` (`loop_read_to_end!` or an explicit
  `read` loop: read until `Ok(0)`); compio-process/src/unix.rs turns every call into one driver
  operation `Read` / `Write` on the shared descriptor;
* how that operation is executed: io_uring completes a write with a *short count* when the pipe has
  less room than offered and never occupies the runtime thread; the polling driver waits for
  `POLLOUT` and then calls `write(2)` on the (blocking!) pipe descriptor from the runtime thread —
  the call returns only when the whole offered chunk is in the pipe, and until then no other task of
  the parent runs (`Cfg.blocking`);
* `Child::wait`: the `Child` is moved into the wait (one-shot by type). Route A (unix.rs): a
  pool thread sits in `waitpid`. Route B (linux.rs, feature `linux_pidfd`): pidfd wrapped in a
  `SharedFd`, a clone goes into `PollOnce`, after the completion the operation (and its clone) is
  dropped, `take()` succeeds iff the count is 1, then `wait`;
* what the surrounding code keeps open: `Child::wait(self)` / `wait_with_output(self)` drop an untaken
  `stdin` field before they wait (plan `held`; before the repair of F201 only when they returned: plan
  `heldUnfixed`).

What is the OS's (assumed, explored by the harness): a pipe is a bounded FIFO of capacity `cap`;
`read` returns 1 ≤ k ≤ min(room, available) bytes or 0 at end of file (no writer left, pipe empty);
a write moves 1 ≤ k ≤ min(offered, free) bytes at a time; writing to a pipe whose reader is gone
fails with `EPIPE`; an exited process has closed all its descriptors; `waitpid` returns the status of
an exited child.

The child is a script (`CAct`): a sequential program that copies stdin to one of its outputs
(`cat`, `head -c`, `dd bs=`), emits literal bytes, sleeps, exits or kills itself.
The parent consists of four activities — W (write payload, close), Ro, Re (read until EOF), Wt (wait) —
with an order constraint `Plan.deps`. Every interleaving of atomic steps is a `List Ev`.
Core Lean only.
-/
import Compio.Model.Common

namespace Compio.ChildIo

inductive Dst where
  | out | err | null
  deriving DecidableEq, Repr

inductive Status where
  | exited (code : Nat)
  | signaled (sig : Nat)
  deriving DecidableEq, Repr

/-- one statement of the child program -/
inductive CAct where
  /-- copy stdin to `dst` in blocks of at most `blk` bytes until end of file or until `limit` bytes were copied -/
  | copy (limit : Option Nat) (blk : Nat) (dst : Dst)
  /-- write literal bytes (a blocking `write` loop) -/
  | emit (dst : Dst) (bs : Bytes)
  /-- `sleep` -/
  | nop
  | exit (code : Nat)
  /-- `kill -sig $$` -/
  | kill (sig : Nat)
  deriving DecidableEq, Repr

/-- the parent's activities -/
inductive Act where
  | W | Ro | Re | Wt
  deriving DecidableEq, Repr

/-- order constraints between the parent's activities -/
inductive Plan where
  /-- everything concurrently (four tasks / `wait_with_output` with stdin taken) -/
  | conc
  /-- stdio first (concurrently), then `wait` -/
  | drainWait
  /-- `wait` first (writer concurrently), then read what is buffered -/
  | waitDrain
  /-- write everything and close, only then start reading -/
  | seq
  /-- `Child::wait(self)` / `wait_with_output(self)` with `stdin` still inside the `Child`:
      like std, the call drops `stdin` first and only then waits (repaired code, /repo 61828f8) -/
  | held
  /-- the same call before the repair (finding F201): the partially moved `self` was dropped when the
      async fn returned, i.e. stdin was closed only after the wait had completed -/
  | heldUnfixed
  /-- `child.wait()` with `stdout` piped but left inside the `Child` (stdin and stderr taken or null): the
      untaken handle lives inside the wait future and is dropped when the wait has completed, never before.
      The drop is modelled as "the reader of that stream starts after the wait" (what it reads is discarded). -/
  | outHeld
  /-- the same with `stderr` left inside the `Child` -/
  | errHeld
  /-- `Command::status()` / `child.wait()` with nothing taken: stdin is dropped first, stdout and stderr
      live until the wait has completed -/
  | allHeld
  deriving DecidableEq, Repr

/-- `deps a b`: activity `a` starts only when `b` is done -/
def Plan.deps : Plan → Act → Act → Bool
  | .drainWait, .Wt, .W => true
  | .drainWait, .Wt, .Ro => true
  | .drainWait, .Wt, .Re => true
  | .waitDrain, .Ro, .Wt => true
  | .waitDrain, .Re, .Wt => true
  | .seq, .Ro, .W => true
  | .seq, .Re, .W => true
  | .held, .Wt, .W => true
  | .heldUnfixed, .W, .Wt => true
  | .outHeld, .Ro, .Wt => true
  | .errHeld, .Re, .Wt => true
  | .allHeld, .Wt, .W => true
  | .allHeld, .Ro, .Wt => true
  | .allHeld, .Re, .Wt => true
  | _, _, _ => false

/-- program counter of the wait -/
inductive WaitPc where
  | idle
  /-- route A: the pool thread is inside `waitpid`; route B: `PollOnce` submitted (the op holds a clone) -/
  | started
  /-- route B: the completion was popped, the operation and its clone are gone -/
  | ready
  /-- route B: `take()` returned the wrapper -/
  | taken
  | done (st : Status)
  deriving DecidableEq, Repr

structure Cfg where
  capIn : Nat
  capOut : Nat
  capErr : Nat
  /-- bytes offered per `write` operation / room offered per `read` operation -/
  wchunk : Nat
  rchunk : Nat
  /-- polling driver: `write(2)` on the blocking pipe descriptor runs on the runtime thread -/
  blocking : Bool
  /-- wait route B (pidfd) -/
  pidfd : Bool
  plan : Plan
  deriving Repr

structure St where
  /-- pipe contents, oldest byte first -/
  pin : Bytes
  pout : Bytes
  perr : Bytes
  /-- fill levels of the three pipes (kept next to the contents: the capacity tests read these) -/
  nin : Nat
  nout : Nat
  nerr : Nat
  /-- writer: payload not yet accepted by the pipe -/
  wleft : Bytes
  /-- polling driver: bytes of the current `write(2)` call still to be moved (the runtime thread is inside the call) -/
  wblock : Nat
  /-- the writer loop ended with `BrokenPipe` -/
  wepipe : Bool
  /-- `ChildStdin` dropped -/
  wclosed : Bool
  rout : Bytes
  routDone : Bool
  rerr : Bytes
  rerrDone : Bool
  wt : WaitPc
  /-- route B: strong count of the `SharedFd<PidFdWrap>` -/
  fdRefs : Nat
  /-- child: rest of the program, the blocking write in progress, exit status -/
  script : List CAct
  pend : Bytes
  pdst : Dst
  status : Option Status
  /-- ghosts: bytes accepted by the stdin pipe, bytes the child read, bytes it discarded,
      bytes it wrote to stdout / stderr -/
  wsent : Bytes
  got : Bytes
  sunk : Nat
  cout : Bytes
  cerr : Bytes
  deriving Repr

/-- `stdinNull`: the child was spawned with `Stdio::null()` for stdin (no writer, immediate EOF) -/
def init (script : List CAct) (payload : Bytes) (stdinNull : Bool) : St :=
  { pin := [], pout := [], perr := [], nin := 0, nout := 0, nerr := 0, wleft := if stdinNull then [] else payload, wblock := 0,
    wepipe := false, wclosed := stdinNull,
    rout := [], routDone := false, rerr := [], rerrDone := false, wt := .idle, fdRefs := 1,
    script, pend := [], pdst := .null, status := none,
    wsent := [], got := [], sunk := 0, cout := [], cerr := [] }

inductive Ev where
  /-- the stdin pipe accepts `k` more bytes of the current `write` -/
  | wr (k : Nat)
  /-- the `write` fails with `EPIPE` -/
  | wrEpipe
  /-- drop of `ChildStdin` -/
  | wclose
  /-- a `read` on stdout / stderr completes with `k ≥ 1` bytes -/
  | rd (d : Dst) (k : Nat)
  /-- a `read` completes with `Ok(0)` -/
  | rdEof (d : Dst)
  | wtStart
  | wtReady
  | wtTake
  | wtDone
  /-- child: `read(0, buf, blk)` returns `k ≥ 1` -/
  | cRead (k : Nat)
  /-- child: `read` returns 0 -/
  | cEof
  /-- child: the blocking write moves `k` more bytes -/
  | cWrite (k : Nat)
  /-- child: next statement -/
  | cStep
  deriving DecidableEq, Repr

/-- `k ≤ l.length`, looking at no more than `k` cells -/
def atLeast {α : Type} : List α → Nat → Bool
  | _, 0 => true
  | [], _ + 1 => false
  | _ :: r, k + 1 => atLeast r k

def WaitPc.isDone : WaitPc → Bool
  | .done _ => true
  | _ => false

def St.done (s : St) : Act → Bool
  | .W => s.wclosed
  | .Ro => s.routDone
  | .Re => s.rerrDone
  | .Wt => s.wt.isDone

/-- all activities that `a` has to wait for are done -/
def depsOk (c : Cfg) (s : St) (a : Act) : Bool :=
  (!c.plan.deps a .W || s.done .W) && (!c.plan.deps a .Ro || s.done .Ro) &&
  (!c.plan.deps a .Re || s.done .Re) && (!c.plan.deps a .Wt || s.done .Wt)

/-- size of the `write` call in progress: the rest of a blocking call, else a fresh offer -/
def offered (c : Cfg) (s : St) : Nat :=
  if s.wblock = 0 then (s.wleft.take c.wchunk).length else s.wblock

def stepWr (c : Cfg) (s : St) (k : Nat) : Option St :=
  if depsOk c s .W ∧ s.wepipe = false ∧ s.wclosed = false ∧ s.status = none ∧
     1 ≤ k ∧ k ≤ offered c s ∧ atLeast s.wleft k = true ∧ s.nin + k ≤ c.capIn then
    some { s with pin := s.pin ++ s.wleft.take k, nin := s.nin + k, wleft := s.wleft.drop k,
                  wsent := s.wsent ++ s.wleft.take k,
                  wblock := if c.blocking then offered c s - k else 0 }
  else none

def stepWrEpipe (c : Cfg) (s : St) : Option St :=
  if depsOk c s .W ∧ s.wepipe = false ∧ s.wclosed = false ∧ s.wleft ≠ [] ∧ s.status.isSome then
    some { s with wepipe := true, wblock := 0 }
  else none

def stepWclose (c : Cfg) (s : St) : Option St :=
  if depsOk c s .W ∧ s.wblock = 0 ∧ s.wclosed = false ∧ (s.wleft = [] ∨ s.wepipe = true) then
    some { s with wclosed := true }
  else none

def stepRd (c : Cfg) (s : St) (d : Dst) (k : Nat) : Option St :=
  match d with
  | .out =>
    if depsOk c s .Ro ∧ s.wblock = 0 ∧ s.routDone = false ∧ 1 ≤ k ∧ k ≤ c.rchunk ∧ atLeast s.pout k = true then
      some { s with rout := s.rout ++ s.pout.take k, pout := s.pout.drop k, nout := s.nout - k }
    else none
  | .err =>
    if depsOk c s .Re ∧ s.wblock = 0 ∧ s.rerrDone = false ∧ 1 ≤ k ∧ k ≤ c.rchunk ∧ atLeast s.perr k = true then
      some { s with rerr := s.rerr ++ s.perr.take k, perr := s.perr.drop k, nerr := s.nerr - k }
    else none
  | .null => none

def stepRdEof (c : Cfg) (s : St) (d : Dst) : Option St :=
  match d with
  | .out =>
    if depsOk c s .Ro ∧ s.wblock = 0 ∧ s.routDone = false ∧ s.pout = [] ∧ s.status.isSome then
      some { s with routDone := true }
    else none
  | .err =>
    if depsOk c s .Re ∧ s.wblock = 0 ∧ s.rerrDone = false ∧ s.perr = [] ∧ s.status.isSome then
      some { s with rerrDone := true }
    else none
  | .null => none

def stepWtStart (c : Cfg) (s : St) : Option St :=
  if depsOk c s .Wt ∧ s.wblock = 0 ∧ s.wt = .idle then
    some { s with wt := .started, fdRefs := if c.pidfd then s.fdRefs + 1 else s.fdRefs }
  else none

/-- route B: the pidfd became readable, the `PollOnce` completion is popped, the op is dropped -/
def stepWtReady (c : Cfg) (s : St) : Option St :=
  if depsOk c s .Wt ∧ s.wblock = 0 ∧ c.pidfd = true ∧ s.wt = .started ∧ s.status.isSome then
    some { s with wt := .ready, fdRefs := s.fdRefs - 1 }
  else none

/-- route B: `fd.take().await`: `try_unwrap` succeeds iff this is the only reference; otherwise the
future parks until another holder is dropped (there is none: no step) -/
def stepWtTake (c : Cfg) (s : St) : Option St :=
  if depsOk c s .Wt ∧ s.wblock = 0 ∧ c.pidfd = true ∧ s.wt = .ready ∧ s.fdRefs = 1 then
    some { s with wt := .taken, fdRefs := 0 }
  else none

/-- where the wait stands just before the final `wait` call -/
def Cfg.lastPc (c : Cfg) : WaitPc := if c.pidfd then .taken else .started

def stepWtDone (c : Cfg) (s : St) : Option St :=
  if depsOk c s .Wt ∧ s.wblock = 0 ∧ s.wt = c.lastPc then
    match s.status with
    | some st => some { s with wt := .done st }
    | none => none
  else none

def limOk : Option Nat → Nat → Bool
  | none, _ => true
  | some n, k => decide (k ≤ n)

def limSub : Option Nat → Nat → Option Nat
  | none, _ => none
  | some n, k => some (n - k)

def stepCRead (_c : Cfg) (s : St) (k : Nat) : Option St :=
  if s.status = none ∧ s.pend = [] then
    match s.script with
    | .copy lim blk dst :: r =>
      if 1 ≤ k ∧ k ≤ blk ∧ atLeast s.pin k = true ∧ limOk lim k = true then
        let s1 := { s with pin := s.pin.drop k, nin := s.nin - k, got := s.got ++ s.pin.take k,
                           script := .copy (limSub lim k) blk dst :: r }
        match dst with
        | .null => some { s1 with sunk := s.sunk + k }
        | d => some { s1 with pend := s.pin.take k, pdst := d }
      else none
    | _ => none
  else none

def stepCEof (_c : Cfg) (s : St) : Option St :=
  if s.status = none ∧ s.pend = [] ∧ s.pin = [] ∧ s.wclosed = true then
    match s.script with
    | .copy lim _ _ :: r => if lim = some 0 then none else some { s with script := r }
    | _ => none
  else none

def stepCWrite (c : Cfg) (s : St) (k : Nat) : Option St :=
  if s.status = none ∧ 1 ≤ k ∧ atLeast s.pend k = true then
    match s.pdst with
    | .out =>
      if s.nout + k ≤ c.capOut then
        some { s with pout := s.pout ++ s.pend.take k, nout := s.nout + k, cout := s.cout ++ s.pend.take k, pend := s.pend.drop k }
      else none
    | .err =>
      if s.nerr + k ≤ c.capErr then
        some { s with perr := s.perr ++ s.pend.take k, nerr := s.nerr + k, cerr := s.cerr ++ s.pend.take k, pend := s.pend.drop k }
      else none
    | .null => none
  else none

def stepCStep (_c : Cfg) (s : St) : Option St :=
  if s.status = none ∧ s.pend = [] then
    match s.script with
    | [] => some { s with status := some (.exited 0) }
    | .copy lim _ _ :: r => if lim = some 0 then some { s with script := r } else none
    | .emit .null _ :: r => some { s with script := r }
    | .emit d bs :: r => some { s with script := r, pend := bs, pdst := d }
    | .nop :: r => some { s with script := r }
    | .exit code :: _ => some { s with script := [], status := some (.exited code) }
    | .kill sig :: _ => some { s with script := [], status := some (.signaled sig) }
  else none

def step (c : Cfg) (s : St) : Ev → Option St
  | .wr k => stepWr c s k
  | .wrEpipe => stepWrEpipe c s
  | .wclose => stepWclose c s
  | .rd d k => stepRd c s d k
  | .rdEof d => stepRdEof c s d
  | .wtStart => stepWtStart c s
  | .wtReady => stepWtReady c s
  | .wtTake => stepWtTake c s
  | .wtDone => stepWtDone c s
  | .cRead k => stepCRead c s k
  | .cEof => stepCEof c s
  | .cWrite k => stepCWrite c s k
  | .cStep => stepCStep c s

def run (c : Cfg) (s : St) : List Ev → Option St
  | [] => some s
  | e :: es =>
    match step c s e with
    | some s' => run c s' es
    | none => none

/-- no step is possible -/
def Stuck (c : Cfg) (s : St) : Prop := ∀ e, step c s e = none

/-- all four activities of the parent are done -/
def St.completed (s : St) : Bool := s.wclosed && s.routDone && s.rerrDone && s.wt.isDone

/-! ## what the child computes (independent of any schedule) -/

structure Den where
  out : Bytes
  err : Bytes
  got : Bytes
  sunk : Nat
  st : Status
  deriving DecidableEq, Repr

def limTake : Option Nat → Bytes → Bytes
  | none, inp => inp
  | some n, inp => inp.take n

def limDrop : Option Nat → Bytes → Bytes
  | none, _ => []
  | some n, inp => inp.drop n

def Den.emit (d : Den) (dst : Dst) (bs : Bytes) : Den :=
  match dst with
  | .out => { d with out := bs ++ d.out }
  | .err => { d with err := bs ++ d.err }
  | .null => d

def Den.read (d : Den) (dst : Dst) (bs : Bytes) : Den :=
  match dst with
  | .null => { d with got := bs ++ d.got, sunk := bs.length + d.sunk }
  | dst => { (d.emit dst bs) with got := bs ++ d.got }

/-- the child's behaviour on the input stream `inp` followed by end of file -/
def denS : List CAct → Bytes → Den
  | [], _ => ⟨[], [], [], 0, .exited 0⟩
  | .copy lim _ dst :: r, inp => (denS r (limDrop lim inp)).read dst (limTake lim inp)
  | .emit dst bs :: r, inp => (denS r inp).emit dst bs
  | .nop :: r, inp => denS r inp
  | .exit code :: _, _ => ⟨[], [], [], 0, .exited code⟩
  | .kill sig :: _, _ => ⟨[], [], [], 0, .signaled sig⟩

def pendFor (s : St) (d : Dst) : Bytes := if s.pdst = d then s.pend else []

/-- what the run will have produced at the end, seen from state `s`
(the child's future input is what is in the pipe followed by what the writer still holds) -/
def den (s : St) : Den :=
  match s.status with
  | some st => ⟨s.cout, s.cerr, s.got, s.sunk, st⟩
  | none =>
    let d := denS s.script (s.pin ++ s.wleft)
    ⟨s.cout ++ pendFor s .out ++ d.out, s.cerr ++ pendFor s .err ++ d.err, s.got ++ d.got,
     s.sunk + d.sunk, d.st⟩

/-! ## termination measure -/

def wAct : CAct → Nat
  | .emit _ bs => 1 + 2 * bs.length
  | _ => 1

def wScript : List CAct → Nat
  | [] => 0
  | a :: r => wAct a + wScript r

def wtRank : WaitPc → Nat
  | .idle => 4
  | .started => 3
  | .ready => 2
  | .taken => 1
  | .done _ => 0

def b2n (b : Bool) : Nat := if b then 1 else 0

/-- every step decreases this number -/
def mu (s : St) : Nat :=
  (if s.wepipe then 0 else 4 * s.wleft.length) + 3 * s.pin.length + 2 * s.pend.length +
  s.pout.length + s.perr.length + wScript s.script + b2n s.status.isNone + b2n (!s.wclosed) +
  b2n (!s.routDone) + b2n (!s.rerrDone) + wtRank s.wt

/-! ## a canonical scheduler (used by the driver; any other schedule gives the same result, see Props) -/

/-- the largest transfers possible in `s`, one candidate per kind of event, child first -/
def candidates (c : Cfg) (s : St) : List Ev :=
  let blk := match s.script with | .copy _ b _ :: _ => b | _ => 0
  let lim := match s.script with | .copy (some n) _ _ :: _ => n | _ => s.nin
  let free := match s.pdst with | .out => c.capOut - s.nout | .err => c.capErr - s.nerr | .null => 0
  [ .cStep, .cWrite (s.pend.take free).length, .cRead (min (min blk lim) s.nin), .cEof,
    .rd .out (min c.rchunk s.nout), .rdEof .out, .rd .err (min c.rchunk s.nerr), .rdEof .err,
    .wr (min (offered c s) (c.capIn - s.nin)), .wrEpipe, .wclose,
    .wtStart, .wtReady, .wtTake, .wtDone ]

/-- the first candidate that can fire, fired -/
def next (c : Cfg) (s : St) : Option St := (candidates c s).findSome? (step c s)

def runCanon (c : Cfg) : Nat → St → St
  | 0, s => s
  | n + 1, s =>
    match next c s with
    | none => s
    | some s' => runCanon c n s'

/-- What `wait` hands to the caller. `waitpid` on a child that something else in the process has already
reaped fails with `ECHILD`: compio passes the error on (`none`), it never makes up a status. -/
def waitOutcome (reapedElsewhere : Bool) (st : Status) : Option Status :=
  if reapedElsewhere then none else some st

/-- well-formed child program: block sizes are positive -/
def wfScript : List CAct → Bool
  | [] => true
  | .copy _ blk _ :: r => decide (0 < blk) && wfScript r
  | _ :: r => wfScript r

end Compio.ChildIo
