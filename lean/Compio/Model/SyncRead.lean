/- Session 3 (C11): the read side of `compat::SyncStream` (compio-io/src/compat/sync_stream.rs,
`SyncReadBuf`) — the user of `Buffer::compact_to`: `fill_buf`, `consume`, `read` /
`read_buf_uninit`, `fill_read_buf` over a scripted inner stream; and op histories on a bare `Buffer`. -/
import Compio.Model.IoLoops

namespace Compio.Io

/-! ## op histories on a bare `Buffer` -/

/-- what the users of `Buffer` do to it -/
inductive BufOp where
  /-- a fill: reserve room if needed, the inner read appends `bs` after `len` -/
  | fill (bs : Bytes)
  /-- `advance(n)` -/
  | advance (n : Nat)
  /-- `compact_to(capacity, max_capacity)` -/
  | compact (c m : Nat)
  /-- `reset()` is only called by `flush_to` / `fill_buf` once everything is consumed: `prep` -/
  | prep
  deriving Repr

def Buffer.fill (b : Buffer) (bs : Bytes) : Buffer :=
  { b with data := b.data ++ bs, cap := max b.cap (b.data.length + bs.length) }

/-- run a history; `none` = a panic of `advance` -/
def Buffer.runOps (b : Buffer) : List BufOp → Option Buffer
  | [] => some b
  | .fill bs :: r => (b.fill bs).runOps r
  | .advance n :: r => match b.advance n with
    | none => none
    | some b' => b'.runOps r
  | .compact c m :: r => (b.compactTo c m).runOps r
  | .prep :: r => b.prep.runOps r

/-- the reference: a FIFO queue of unread bytes -/
def queueRun (q : Bytes) : List BufOp → Option Bytes
  | [] => some q
  | .fill bs :: r => queueRun (q ++ bs) r
  | .advance n :: r => if n ≤ q.length then queueRun (q.drop n) r else none
  | .compact _ _ :: r => queueRun q r
  | .prep :: r => queueRun q r

/-! ## `SyncReadBuf` -/

structure SyncRd where
  buf : Buffer
  eof : Bool
  base : Nat
  max : Nat
  deriving Repr

/-- `SyncReadBuf::new(base, base, max)` (`SyncStream::with_limits`) -/
def SyncRd.new (base max : Nat) : SyncRd := ⟨Buffer.withCapacity base, false, base, max⟩

/-- `fill_buf()`: `none` = `WouldBlock` -/
def SyncRd.fillBuf (s : SyncRd) : Option Bytes :=
  if s.buf.pending.isEmpty && !s.eof then none else some s.buf.pending

/-- `consume(amt)`: `advance`, then `compact_to` when all done. `none` = panic -/
def SyncRd.consume (s : SyncRd) (amt : Nat) : Option SyncRd :=
  match s.buf.advance amt with
  | none => none
  | some b => some { s with buf := if b.allDone then b.compactTo s.base s.max else b }

inductive SyncEv where
  | wouldBlock
  | got (bs : Bytes)
  | lent (avail : Bytes) (consumed : Nat)
  | filled (n : Nat)
  | fillErr (e : IoErr)
  | oom
  | panic
  deriving Repr, DecidableEq

/-- `Read::read` / `read_buf_uninit` with an `n`-byte destination -/
def SyncRd.read (s : SyncRd) (n : Nat) : SyncEv × SyncRd :=
  match s.fillBuf with
  | none => (.wouldBlock, s)
  | some av =>
    match s.consume (min av.length n) with
    | none => (.panic, s)
    | some s' => (.got (av.take (min av.length n)), s')

/-- `BufRead::fill_buf` then `consume(min n available)` -/
def SyncRd.lend (s : SyncRd) (n : Nat) : SyncEv × SyncRd :=
  match s.fillBuf with
  | none => (.wouldBlock, s)
  | some av =>
    match s.consume (min n av.length) with
    | none => (.panic, s)
    | some s' => (.lent av (min n av.length), s')

/-- `Vec::reserve_exact` as wrapped by compio-buf: nothing when the room suffices, else exactly `add` -/
def vecReserveExact (len cap add : Nat) : Nat := if cap - len ≥ add then cap else len + add

/-- `fill_read_buf(stream)` over a scripted stream -/
def SyncRd.fillReadBuf (s : SyncRd) (stream : Bytes) (sc : List Outcome) :
    SyncEv × SyncRd × Bytes × List Outcome :=
  if s.eof then (.filled 0, s, stream, sc) else
  let b := s.buf.compactTo s.base s.max
  let cur := b.data.length - b.begin
  if cur ≥ s.max then (.oom, { s with buf := b }, stream, sc) else
  let capacity := b.cap - b.begin
  let avail := capacity - cur
  let cap' := if avail < s.base then vecReserveExact b.data.length b.cap (cur + s.base - capacity) else b.cap
  let room := cap' - b.data.length
  match scriptRead stream sc room with
  | (.ok bs, st', sc') =>
    (.filled bs.length,
     { s with buf := { b with data := b.data ++ bs, cap := cap' }, eof := bs.isEmpty }, st', sc')
  | (.err e, st', sc') => (.fillErr e, { s with buf := { b with cap := cap' } }, st', sc')
  | (_, st', sc') => (.panic, { s with buf := { b with cap := cap' } }, st', sc')

inductive SyncOp where
  | fill
  | read (n : Nat)
  | lend (n : Nat)
  deriving Repr

/-- a session: the adapter, the inner stream (bytes not yet taken + script), and what was handed out -/
structure SyncSt where
  rd : SyncRd
  stream : Bytes
  sc : List Outcome
  delivered : Bytes
  deriving Repr

def SyncSt.step (st : SyncSt) : SyncOp → SyncEv × SyncSt
  | .fill =>
    match st.rd.fillReadBuf st.stream st.sc with
    | (ev, rd', stream', sc') => (ev, { st with rd := rd', stream := stream', sc := sc' })
  | .read n =>
    match st.rd.read n with
    | (.got bs, rd') => (.got bs, { st with rd := rd', delivered := st.delivered ++ bs })
    | (ev, rd') => (ev, { st with rd := rd' })
  | .lend n =>
    match st.rd.lend n with
    | (.lent av c, rd') => (.lent av c, { st with rd := rd', delivered := st.delivered ++ av.take c })
    | (ev, rd') => (ev, { st with rd := rd' })

def SyncSt.run (st : SyncSt) : List SyncOp → List SyncEv × SyncSt
  | [] => ([], st)
  | op :: r =>
    let (ev, st') := st.step op
    let (evs, st'') := st'.run r
    (ev :: evs, st'')

end Compio.Io
