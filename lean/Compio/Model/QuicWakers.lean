/-
Model of compio-quic's own logic (property C16): the waker bookkeeping of `ConnectionState`
(compio-quic/src/connection.rs), the `terminate`/`close` path, the `Connection::closed` future, and the
stream chunk loops of send_stream.rs / recv_stream.rs over an abstract in-order byte source/sink
(quinn-proto's `SendStream::write{,_chunks}` / `Chunks::next` contract is a parameter: the answer schedule).

Everything that is a *table* — which waker fields exist and their container shape, what `terminate` does,
which tables each `quinn_proto::Event` wakes, where each future stores its waker, whether it checks the stored
error first — comes from `Compio.Gen.QuicWakers`, REGENERATED from the sources by /verif/extract.

Representation: every waker field is a `List (key × waker)` in insertion order; key = 0 for the
`Option<Waker>` / `VecDeque<Waker>` fields, the `Dir` for `[VecDeque<Waker>; 2]`, the stream id for the
`HashMap<StreamId, Waker>` fields. A waker is identified by the id of the task it wakes
(`Waker::will_wake` = same id). `woken` is a ghost log of `Waker::wake` calls. A `HashMap` drain has no
specified order: no theorem depends on the order inside one drain.
-/
import Compio.Gen.QuicWakers
import Compio.Model.Common

namespace Compio.QuicWakers
open Compio.Gen.QuicWakers

/-- `ConnectionError` -/
inductive Err where
  | versionMismatch | transportError | connectionClosed | applicationClosed | reset | timedOut
  | locallyClosed | cidsExhausted
  deriving DecidableEq, Repr

def Err.name : Err → String
  | .versionMismatch => "VersionMismatch"
  | .transportError => "TransportError"
  | .connectionClosed => "ConnectionClosed"
  | .applicationClosed => "ApplicationClosed"
  | .reset => "Reset"
  | .timedOut => "TimedOut"
  | .locallyClosed => "LocallyClosed"
  | .cidsExhausted => "CidsExhausted"

abbrev Entry := Nat × Nat

/-- the waker-related part of `ConnectionState` -/
structure St where
  tabs : Tbl → List Entry
  error : Option Err
  connected : Bool
  woken : List Nat

def St.init : St := ⟨fun _ => [], none, false, []⟩

def St.setTab (s : St) (t : Tbl) (l : List Entry) : St :=
  { s with tabs := fun t' => if t' = t then l else s.tabs t' }

/-- storing `cx.waker().clone()` in a field of the given shape:
    slot: `match &slot { Some(w) if w.will_wake(cx.waker()) => {} _ => slot = Some(..) }` (the old waker is
          DROPPED, not woken);
    queue: `push_back`;  map: `HashMap::insert` (the old waker of that stream is dropped, not woken) -/
def insertEntry (k : Kind) (guard : Bool) (key w : Nat) (l : List Entry) : List Entry :=
  match k with
  | .slot => if guard && l == [(key, w)] then l else [(key, w)]
  | .queue => l ++ [(key, w)]
  | .queueArr => l ++ [(key, w)]
  | .map => l.filter (fun e => e.1 != key) ++ [(key, w)]

/-- key actually used by a registration site (`regKey`) -/
def normKey (r : Reg) (key : Nat) : Nat :=
  match regKey r with
  | .none => 0
  | .dir => key
  | .stream => key

def St.register (s : St) (r : Reg) (key w : Nat) : St :=
  s.setTab (registersIn r)
    (insertEntry (kind (registersIn r)) (regWillWakeGuard r) (normKey r key) w (s.tabs (registersIn r)))

inductive Poll where
  | pending
  | err (e : Err)
  deriving DecidableEq, Repr

/-- one poll of a future of kind `r` by task `w` in a situation where quinn-proto cannot make progress
    (`Blocked`, nothing to accept, …): the stored error is returned if the function checks it, otherwise the
    waker is registered and the poll is `Pending` -/
def St.pollBlocked (s : St) (r : Reg) (key w : Nat) : St × Poll :=
  match (if regChecksError r then s.error else none) with
  | some e => (s, .err e)
  | none => (s.register r key w, .pending)

def hit (sc : Scope) (key : Nat) (e : Entry) : Bool :=
  match sc with
  | .all => true
  | .key => e.1 == key

/-- `take().wake()` / `drain(..).for_each(Waker::wake)` / `wake_all_streams` (scope `.all`),
    `wake_stream(id, ..)` / `table[dir].drain(..)` (scope `.key`) -/
def St.wake (s : St) (t : Tbl) (sc : Scope) (key : Nat) : St :=
  { s.setTab t ((s.tabs t).filter (fun e => !hit sc key e)) with
    woken := s.woken ++ ((s.tabs t).filter (hit sc key)).map (·.2) }

def St.applyTerm (e : Err) (s : St) : TermAct → St
  | .setError => { s with error := some e }
  | .clearConnected => { s with connected := false }
  | .drain t => s.wake t .all 0

/-- `ConnectionState::terminate(reason)`: the statements of the source, in order -/
def St.terminate (s : St) (e : Err) : St := terminateBody.foldl (St.applyTerm e) s

/-- `ConnectionState::close` (`Connection::close`, and `ConnectionEvent::Close` from `Endpoint::close`):
    `conn.close(..); terminate(LocallyClosed); wake()` -/
def St.close (s : St) : St := s.terminate .locallyClosed

/-- `zr`: the condition `conn.side().is_client() && !conn.accepted_0rtt()` at a `Connected` event;
    `e`: the reason of a `ConnectionLost` event -/
def St.applyAction (key : Nat) (zr : Bool) (e : Err) (s : St) : Action → St
  | .wake t sc => s.wake t sc key
  | .wakeIfZeroRttRejected t => if zr then s.wake t .all 0 else s
  | .setConnected => { s with connected := true }
  | .terminate => s.terminate e

/-- one arm of the `match event` in `ConnectionInner::run` -/
def St.onEvent (s : St) (ev : Ev) (key : Nat) (zr : Bool) (e : Err) : St :=
  (Gen.QuicWakers.onEvent ev).foldl (St.applyAction key zr e) s

/-- `Drop for SendStream` / `Drop for RecvStream`: `state.<table>.remove(&self.stream)` (no wake) -/
def St.dropStream (s : St) (owner : String) (id : Nat) : St :=
  dropCleans.foldl
    (fun s p => if p.1 == owner then s.setTab p.2 ((s.tabs p.2).filter (fun e => e.1 != id)) else s) s

/-! ## futures as waiters; the connection worker; `Connection::closed` -/

structure Waiter where
  r : Reg
  key : Nat
  w : Nat
  deriving DecidableEq, Repr

def Waiter.tbl (x : Waiter) : Tbl := registersIn x.r
def Waiter.entry (x : Waiter) : Entry := (normKey x.r x.key, x.w)

inductive Worker where
  | running      -- `ConnectionInner::run` is alive
  | cancelled    -- its `JoinHandle` was dropped (`JoinHandle::drop` cancels the task)
  | exited       -- `conn.is_drained()`
  deriving DecidableEq, Repr

inductive Op where
  /-- a future of kind `r` (stream/dir `key`) polled by task `w` while quinn-proto is blocked -/
  | poll (r : Reg) (key w : Nat)
  /-- the future is dropped before completion -/
  | cancel (r : Reg) (key w : Nat)
  /-- the worker pops a `quinn_proto::Event` -/
  | event (ev : Ev) (key : Nat) (zr : Bool) (e : Err)
  /-- `Connection::close` (synchronous, in the caller) -/
  | close
  /-- `Endpoint::close`: `ConnectionEvent::Close` sent to the worker through its channel -/
  | endpointClose
  /-- `Drop for SendStream` (`send = true`) / `RecvStream` -/
  | dropStream (send : Bool) (id : Nat)
  /-- first poll of a `Connection::closed()` future by task `w` -/
  | closedPoll (w : Nat)
  /-- a `closed()` future of task `w` is dropped before completion -/
  | closedDrop (w : Nat)
  /-- the worker observes `is_drained()` and returns -/
  | drained
  deriving DecidableEq, Repr

inductive Res where
  | none                 -- the op has no result
  | pending
  | err (e : Err)
  | panic                -- `try_state().unwrap_err()` on an open connection
  deriving DecidableEq, Repr

structure World where
  st : St
  /-- ghost: futures that returned `Pending` and whose task has not been woken since -/
  owed : List Waiter
  worker : Worker
  /-- `state.worker` is `None` (taken by a `closed()` future) -/
  handleTaken : Bool
  /-- the task whose `closed()` future owns the worker's `JoinHandle` -/
  closedOwner : Option Nat

def World.init : World := ⟨St.init, [], .running, false, none⟩

/-- wakers woken by going from `s` to `s'` -/
def newlyWoken (s s' : St) : List Nat := s'.woken.drop s.woken.length

/-- a woken task re-polls all its pending futures: its obligations are discharged -/
def discharge (owed : List Waiter) (woken : List Nat) : List Waiter :=
  owed.filter (fun x => !woken.contains x.w)

def World.setSt (W : World) (s' : St) : World :=
  { W with st := s', owed := discharge W.owed (newlyWoken W.st s') }

def World.step (W : World) : Op → World × Res
  | .poll r key w =>
    match W.st.pollBlocked r key w with
    | (s', .pending) =>
      ({ W with st := s', owed := W.owed.filter (· != ⟨r, key, w⟩) ++ [⟨r, key, w⟩] }, .pending)
    | (s', .err e) => ({ W with st := s' }, .err e)
  | .cancel r key w => ({ W with owed := W.owed.filter (· != ⟨r, key, w⟩) }, .none)
  | .event ev key zr e =>
    if W.worker = .running then (W.setSt (W.st.onEvent ev key zr e), .none) else (W, .none)
  | .close => (W.setSt W.st.close, .none)
  | .endpointClose =>
    if W.worker = .running then (W.setSt W.st.close, .none) else (W, .none)
  | .dropStream send id =>
    ({ W with st := W.st.dropStream (if send then "SendStream" else "RecvStream") id }, .none)
  | .closedPoll w =>
    if closedTakesWorkerHandle then
      if !W.handleTaken then
        if W.worker = .exited then
          -- the handle is ready at once; `try_state().unwrap_err()`
          ({ W with handleTaken := true }, match W.st.error with | some e => .err e | none => .panic)
        else ({ W with handleTaken := true, closedOwner := some w }, .pending)
      else if W.closedOwner = some w then
        (if W.worker = .exited then
          ({ W with closedOwner := none }, match W.st.error with | some e => .err e | none => .panic)
         else (W, .pending))
      else
        -- `worker` is `None`: no wait at all
        (W, match W.st.error with | some e => .err e | none => .panic)
    else (W, .pending)
  | .closedDrop w =>
    if W.closedOwner = some w then
      ({ W with closedOwner := none,
                worker := if W.worker = .running then .cancelled else W.worker }, .none)
    else (W, .none)
  | .drained => ({ W with worker := if W.worker = .running then .exited else W.worker }, .none)

def World.run (W : World) : List Op → World
  | [] => W
  | o :: os => ((W.step o).1).run os

/-- A table holding ONE waker per key (`Option<Waker>`, `HashMap<StreamId, Waker>`) is only sound when at
    most one task at a time waits on that key. The discipline: a poll registering in such a table must not
    find an obligation of a DIFFERENT task for the same table and key. (`&mut self` on `SendStream`,
    `RecvStream`, `Connecting` enforces it; `Connection::accepted_0rtt(&self)` on a `Clone` handle does not:
    finding F160.) -/
def exclusive (t : Tbl) : Bool :=
  match kind t with
  | .slot => true
  | .map => true
  | .queue => false
  | .queueArr => false

def admissible (W : World) : Op → Bool
  | .poll r key w =>
    !exclusive (registersIn r) ||
      W.owed.all (fun x => !(x.tbl == registersIn r && x.entry.1 == normKey r key) || x.w == w)
  | .dropStream send id =>
    -- a half is dropped by the task that owns it: no future OF THAT HALF is pending (they borrow it mutably).
    -- Futures of the OTHER half of a bidirectional stream (same stream id!) may well be pending.
    W.owed.all (fun x =>
      !(Reg.owner x.r == (if send then "SendStream" else "RecvStream") && x.entry.1 == id))
  | _ => true

def allAdmissible (W : World) : List Op → Bool
  | [] => true
  | o :: os => admissible W o && allAdmissible (W.step o).1 os

/-! ## which futures an event can unblock (hand-written from quinn-proto's documentation of `Event` /
`StreamEvent`; the other side of the decision table) -/

def unblocks : Ev → Reg → Bool
  | .handshakeDataReady, .connectingHandshakeData => true
  | .connected, .connectingPoll => true
  | .connected, .connectionAccepted0rtt => true
  | .connectionLost, _ => true
  | .readable, .recvStreamExecutePollRead => true
  | .readable, .recvStreamReceivedReset => true
  | .writable, .sendStreamExecutePollWrite => true
  | .finished, .sendStreamStopped => true
  | .stopped, .sendStreamStopped => true
  | .stopped, .sendStreamExecutePollWrite => true
  | .available, .connectionPollOpenStream => true
  | .opened, .connectionPollAcceptStream => true
  | .datagramReceived, .connectionPollRecvDatagram => true
  | .datagramsUnblocked, .connectionTrySendDatagram => true
  | _, _ => false

/-- does an action wake the waiters a site `r` registers (for the event's own key)? -/
def actionWakes (r : Reg) : Action → Bool
  | .wake t sc => t == registersIn r && (sc == .all || regKey r != .none)
  | .terminate => true
  | _ => false

/-! ## send side: `SendStream::{write, write_chunks, write_all_chunks}`, `CompatSendStream::write_all`

quinn-proto's answer to one `write`/`write_chunks` call is a parameter (`WAns`): flow control decides. -/

inductive WAns where
  | blocked
  | limit (n : Nat)          -- `limit.min(budget)` > 0 bytes are accepted at most
  | stopped (code : Nat)
  | closed
  deriving DecidableEq, Repr

inductive WErr where
  | stopped (code : Nat)
  | closedStream
  | connectionLost (e : Err)
  deriving DecidableEq, Repr

/-- result of a poll of a write future -/
inductive WPoll (α : Type) where
  | ready (a : α)
  | err (e : WErr)
  | pending
  deriving Repr, DecidableEq

/-- `BytesArray::pop_chunk` loop of `Send::write` (quinn-proto, the `write_chunks` contract): whole chunks
    while they fit (empty chunks are consumed too), then a partial chunk which is advanced in place.
    Returns (accepted bytes, number of fully consumed chunks, the chunk array afterwards). -/
def popChunks : Nat → List Bytes → Bytes × Nat × List Bytes
  | _, [] => ([], 0, [])
  | limit, c :: rest =>
    if c.length ≤ limit then
      let (acc, n, rest') := popChunks (limit - c.length) rest
      (c ++ acc, n + 1, [] :: rest')
    else if limit > 0 then (c.take limit, 0, c.drop limit :: rest)
    else ([], 0, c :: rest)

/-- `SendStream::execute_poll_write` around one `stream.write(buf)`:
    returns the poll result and the bytes handed to quinn-proto (appended to the stream in order) -/
def pollWrite (error : Option Err) (buf : Bytes) : WAns → WPoll Nat × Bytes
  | ans =>
    match error with
    | some e => (.err (.connectionLost e), [])
    | none =>
      match ans with
      | .blocked => (.pending, [])
      | .limit n => (.ready (min n buf.length), buf.take n)
      | .stopped c => (.err (.stopped c), [])
      | .closed => (.err .closedStream, [])

/-- `CompatSendStream::write_all` / the `write_all` loop over `AsyncWrite::write`:
    `loop { if count == buf.len() { return Ok } n = ready!(write(&buf[count..]))?; count += n }`
    driven by the list of quinn-proto answers still to come; one list element per `write` call.
    Returns the poll result of the future after consuming the schedule, the bytes accepted, the position. -/
def writeAll (buf : Bytes) : Nat → List WAns → WPoll Unit × Bytes × Nat
  | count, sched =>
    if count ≥ buf.length then (.ready (), [], count) else
    match sched with
    | [] => (.pending, [], count)
    | a :: rest =>
      match pollWrite none (buf.drop count) a with
      | (.ready n, acc) =>
        if n = 0 then (.pending, acc, count)   -- `limit 0` is not a legal answer; treated as a stall
        else
          let (r, acc', c') := writeAll buf (count + n) rest
          (r, acc ++ acc', c')
      | (.err e, acc) => (.err e, acc, count)
      | (.pending, acc) =>
        -- `Blocked`: the waker is registered in `writable`, the task retried when woken
        let (r, acc', c') := writeAll buf count rest
        (r, acc ++ acc', c')
termination_by _ sched => sched.length

/-- `SendStream::write_all_chunks`:
    `loop { if chunks == bufs.len() { return Ok } w = ready!(write_chunks(&mut bufs[chunks..]))?; chunks += w.chunks }` -/
def writeAllChunks (bufs : List Bytes) : Nat → List WAns → WPoll Unit × Bytes × List Bytes
  | chunks, sched =>
    if chunks ≥ bufs.length then (.ready (), [], bufs) else
    match sched with
    | [] => (.pending, [], bufs)
    | .blocked :: rest => writeAllChunks bufs chunks rest
    | .stopped c :: _ => (.err (.stopped c), [], bufs)
    | .closed :: _ => (.err .closedStream, [], bufs)
    | .limit n :: rest =>
      let (acc, k, tail') := popChunks n (bufs.drop chunks)
      let bufs' := bufs.take chunks ++ tail'
      if n = 0 then (.pending, [], bufs) else
      let (r, acc', b') := writeAllChunks bufs' (chunks + k) rest
      (r, acc ++ acc', b')
termination_by _ sched => sched.length

/-! ## receive side: `RecvStream::execute_poll_read`, `poll_read_impl`, `read_chunk`, `read_chunks`,
`read_to_end`

The receive buffer of quinn-proto as compio sees it through `Chunks::next(max)`: the in-order segments
currently buffered, whether the stream is finished behind them, whether it was reset. -/

structure Src where
  segs : List Bytes
  fin : Bool
  reset : Option Nat
  deriving Repr

inductive NextRes where
  | chunk (b : Bytes)
  | finished              -- `Ok(None)`
  | blocked               -- `Err(Blocked)`
  | reset (code : Nat)    -- `Err(Reset(code))`
  deriving Repr

/-- `Chunks::next(max)` (ordered): at most `max` bytes of the first buffered segment. A reset stream has an
    empty buffer (quinn-proto discards it). -/
def Src.next (s : Src) (max : Nat) : NextRes × Src :=
  match s.reset with
  | some c => (.reset c, s)
  | none =>
    match s.segs with
    | [] => (if s.fin then .finished else .blocked, s)
    | seg :: rest =>
      if seg.length ≤ max then (.chunk seg, { s with segs := rest })
      else (.chunk (seg.take max), { s with segs := seg.drop max :: rest })

/-- the `RecvStream` fields -/
structure RS where
  allDataRead : Bool
  reset : Option Nat
  deriving Repr, DecidableEq

def RS.init : RS := ⟨false, none⟩

/-- `ReadStatus<T>` -/
inductive RStatus (α : Type) where
  | readable (a : α)
  | finished (a : Option α)
  | failedBlocked (a : Option α)
  | failedReset (a : Option α) (code : Nat)
  deriving Repr

inductive RErr where
  | reset (code : Nat)
  | connectionLost (e : Err)
  deriving DecidableEq, Repr

inductive RPoll (α : Type) where
  | ready (a : Option α)      -- `Ok(Some a)` / `Ok(None)` = end of stream
  | err (e : RErr)
  | pending
  deriving Repr, DecidableEq

/-- the closure of `poll_read_impl`: fill a buffer of `cap > 0` bytes from successive chunks.
    `fuel` bounds the number of `next` calls (each returns ≥ 1 byte, so `cap + 1` suffices). -/
def fillLoop (cap : Nat) : Nat → Bytes → Src → RStatus Bytes × Src
  | 0, acc, s => (.readable acc, s)
  | fuel + 1, acc, s =>
    if acc.length ≥ cap then (.readable acc, s) else
    match s.next (cap - acc.length) with
    | (.chunk b, s') => fillLoop cap fuel (acc ++ b) s'
    | (.finished, s') => (.finished (if acc.isEmpty then none else some acc), s')
    | (.blocked, s') => (.failedBlocked (if acc.isEmpty then none else some acc), s')
    | (.reset c, s') => (.failedReset (if acc.isEmpty then none else some acc) c, s')

/-- the closure of `read_chunk(max, ordered = true)` -/
def chunkOnce (max : Nat) (s : Src) : RStatus Bytes × Src :=
  match s.next max with
  | (.chunk b, s') => (.readable b, s')
  | (.finished, s') => (.finished none, s')
  | (.blocked, s') => (.failedBlocked none, s')
  | (.reset c, s') => (.failedReset none c, s')

/-- the closure of `read_chunks(bufs)` with `n = bufs.len() > 0`: up to `n` whole segments -/
def chunksLoop (n : Nat) : Nat → List Bytes → Src → RStatus (List Bytes) × Src
  | 0, acc, s => (.readable acc, s)
  | fuel + 1, acc, s =>
    if acc.length ≥ n then (.readable acc, s) else
    match s.segs, s.reset with
    | _, some c => (.failedReset (if acc.isEmpty then none else some acc) c, s)
    | [], none =>
      ((if s.fin then .finished (if acc.isEmpty then none else some acc)
        else .failedBlocked (if acc.isEmpty then none else some acc)), s)
    | seg :: rest, none => chunksLoop n fuel (acc ++ [seg]) { s with segs := rest }

/-- `RecvStream::execute_poll_read` after the closure produced `status` (the stored connection error is only
    consulted when nothing could be read) -/
def execRead {α : Type} (rs : RS) (error : Option Err) (status : RStatus α) : RPoll α × RS :=
  match status with
  | .readable a => (.ready (some a), rs)
  | .finished a => (.ready a, { rs with allDataRead := true })
  | .failedBlocked (some a) => (.ready (some a), rs)
  | .failedBlocked none =>
    match error with
    | some e => (.err (.connectionLost e), rs)
    | none => (.pending, rs)
  | .failedReset none c => (.err (.reset c), { allDataRead := true, reset := some c })
  | .failedReset (some a) c => (.ready (some a), { rs with reset := some c })

/-- one `read(buf)` poll with `buf.len() = cap`: the guards of `poll_read_impl` / `execute_poll_read`, then the
    closure. -/
def pollRead (cap : Nat) (rs : RS) (error : Option Err) (s : Src) : RPoll Bytes × RS × Src :=
  if cap = 0 then (.ready (some []), rs, s) else
  if rs.allDataRead then (.ready none, rs, s) else
  match rs.reset with
  | some c =>
    let (p, rs') := execRead (α := Bytes) rs error (.failedReset none c)
    (p, rs', s)
  | none =>
    let (st, s') := fillLoop cap (cap + 1) [] s
    let (p, rs') := execRead rs error st
    (p, rs', s')

/-- one `read_chunk(max, true)` poll -/
def pollReadChunk (max : Nat) (rs : RS) (error : Option Err) (s : Src) : RPoll Bytes × RS × Src :=
  if rs.allDataRead then (.ready none, rs, s) else
  match rs.reset with
  | some c =>
    let (p, rs') := execRead (α := Bytes) rs error (.failedReset none c)
    (p, rs', s)
  | none =>
    let (st, s') := chunkOnce max s
    let (p, rs') := execRead rs error st
    (p, rs', s')

/-- one `read_chunks(bufs)` poll with `bufs.len() = n` -/
def pollReadChunks (n : Nat) (rs : RS) (error : Option Err) (s : Src) : RPoll (List Bytes) × RS × Src :=
  if n = 0 then (.ready (some []), rs, s) else
  if rs.allDataRead then (.ready none, rs, s) else
  match rs.reset with
  | some c =>
    let (p, rs') := execRead (α := List Bytes) rs error (.failedReset none c)
    (p, rs', s)
  | none =>
    let (st, s') := chunksLoop n (n + 1) [] s
    let (p, rs') := execRead rs error st
    (p, rs', s')

/-- what the environment does between two polls of a reader -/
inductive RStep where
  | deliver (seg : Bytes)     -- quinn-proto buffered the next in-order segment
  | finish                    -- … and learnt that the stream ends there
  | read (cap : Nat)          -- the reader task polls `read` with a `cap`-byte buffer
  | readChunk (max : Nat)     -- … or `read_chunk(max, true)`
  | readChunks (n : Nat)      -- … or `read_chunks` with `n` buffers
  deriving Repr

structure Reader where
  rs : RS
  src : Src
  rparts : List Bytes         -- every piece returned so far, LAST FIRST
  eos : Nat                   -- how many polls returned end-of-stream
  pendings : Nat              -- how many polls returned `Pending`
  errs : Nat
  deriving Repr

/-- everything returned so far, in order -/
def Reader.got (r : Reader) : Bytes := r.rparts.reverse.flatten

def Reader.init : Reader := ⟨RS.init, ⟨[], false, none⟩, [], 0, 0, 0⟩

def Reader.apply (r : Reader) (p : RPoll Bytes × RS × Src) : Reader :=
  match p with
  | (.ready (some b), rs, s) => { r with rs := rs, src := s, rparts := b :: r.rparts }
  | (.ready none, rs, s) => { r with rs := rs, src := s, eos := r.eos + 1 }
  | (.pending, rs, s) => { r with rs := rs, src := s, pendings := r.pendings + 1 }
  | (.err _, rs, s) => { r with rs := rs, src := s, errs := r.errs + 1 }

def Reader.applyChunks (r : Reader) (p : RPoll (List Bytes) × RS × Src) : Reader :=
  match p with
  | (.ready (some bs), rs, s) => { r with rs := rs, src := s, rparts := bs.reverse ++ r.rparts }
  | (.ready none, rs, s) => { r with rs := rs, src := s, eos := r.eos + 1 }
  | (.pending, rs, s) => { r with rs := rs, src := s, pendings := r.pendings + 1 }
  | (.err _, rs, s) => { r with rs := rs, src := s, errs := r.errs + 1 }

def Reader.step (r : Reader) : RStep → Reader
  | .deliver seg =>
    if r.src.fin || seg.isEmpty then r else { r with src := { r.src with segs := r.src.segs ++ [seg] } }
  | .finish => { r with src := { r.src with fin := true } }
  | .read cap => r.apply (pollRead cap r.rs none r.src)
  | .readChunk max => r.apply (pollReadChunk max r.rs none r.src)
  | .readChunks n => r.applyChunks (pollReadChunks n r.rs none r.src)

def Reader.run (r : Reader) : List RStep → Reader
  | [] => r
  | x :: xs => (r.step x).run xs

/-- bytes handed to the stream by the environment before it learnt the end of the stream -/
def deliveredBefore : List RStep → Bytes
  | [] => []
  | .deliver seg :: xs => seg ++ deliveredBefore xs
  | .finish :: _ => []
  | _ :: xs => deliveredBefore xs

/-- `RecvStream::read_to_end`'s buffer assembly from `(offset, bytes)` chunks read UNORDERED:
    `start = min offset`, `end = max (offset + len)`, a zeroed buffer of `end - start`, each chunk copied to
    `offset - start`. -/
def placeAt (buf : Bytes) (off : Nat) (b : Bytes) : Bytes :=
  buf.take off ++ b ++ buf.drop (off + b.length)

def assemble (chunks : List (Nat × Bytes)) : Bytes :=
  let start := chunks.foldl (fun m c => min m c.1) (2 ^ 64 - 1)
  let stop := chunks.foldl (fun m c => max m (c.1 + c.2.length)) 0
  if start = 2 ^ 64 - 1 ∨ start ≥ stop then [] else
  chunks.foldl (fun buf c => placeAt buf (c.1 - start) c.2) (List.replicate (stop - start) 0)

/-- the `(offset, bytes)` pairs of consecutive chunks starting at stream offset `off` -/
def withOffsets : Nat → List Bytes → List (Nat × Bytes)
  | _, [] => []
  | off, b :: bs => (off, b) :: withOffsets (off + b.length) bs

end Compio.QuicWakers
