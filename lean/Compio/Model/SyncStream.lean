/-
Model of compio-io/src/compat/sync_stream.rs (`SyncStream`, `SyncReadBuf`, `SyncWriteBuf`) on top of
compio-io/src/buffer.rs (`Buffer<Vec<u8>>`), branch by branch, together with the scripted inner
stream the correspondence harness (harness/pure/src/bin/c12.rs) plugs in.

Conventions
* `Buf` is `Buffer(Option<Slice<Vec<u8>>>)`: `data` = the initialised bytes of the `Vec` (its `len`),
  `cap` = `Vec::capacity`, `pos` = `Slice::begin`, `lent` = the `Option` is `None` (the buffer is owned
  by an in-flight inner future, or was dropped by a cancelled future / a panic). While `lent` the
  fields keep the value the bytes had when they were taken (ghost): the code cannot observe them.
* `Vec<u8>` capacity arithmetic is the one of std: `with_capacity(n)`/`reserve_exact`/`shrink_to`
  are exact, `try_reserve` grows amortised (`max(2*cap, len+additional, 8)`).
* A Rust panic (failed `assert!`, `expect(MISSING_BUF)`, arithmetic underflow) is the explicit result
  `.panic`; `io::Error`s are `.err kind`.
* The async methods (`fill_read_buf`, `flush_write_buf`) are coroutines: `…Start`/`…Begin` run up
  to the first inner `.await`, `…Poll`/`…Resume` perform one poll. Every poll of an inner
  read / write / flush / shutdown consumes one script item.
* Fields `delivered`, `taken`, `sent`, `accepted`, `innerEof` are ghost history, `log`, `woken`,
  `event` are the observations of the current operation (printed by the driver, compared with
  the recording inner stream of the harness).
Core Lean only (no Mathlib) so that the driver links as an executable.
-/
import Compio.Model.Common

namespace Compio.SyncStream

/-- `io::ErrorKind`s that occur -/
inductive Err where
  | wb      -- WouldBlock
  | oom     -- OutOfMemory ("read buffer size limit exceeded")
  | wz      -- WriteZero
  | other   -- the scripted error of the inner stream
  deriving Repr, DecidableEq

inductive Res (α : Type) where
  | ok (a : α)
  | err (e : Err)
  | panic
  deriving Repr, DecidableEq

/-- one item of the inner reader's script -/
inductive RItem where
  | d (bs : Bytes)   -- offers these bytes (delivers as many as fit, keeps the rest)
  | p                -- `Poll::Pending`
  | e                -- `Err`
  | z                -- `Ok(0)`
  deriving Repr, DecidableEq

/-- one item of the inner writer's script (consumed by a poll of write / flush / shutdown) -/
inductive WItem where
  | w (k : Nat)      -- write: accepts at most `k` bytes; flush / shutdown: `Ok`
  | p
  | e
  deriving Repr, DecidableEq

/-- a call of the inner stream, as logged by the recording stream of the harness -/
inductive Io where
  | r (space n : Nat) | rP | rE
  | w (len n : Nat) | wP | wE
  | f | fP | fE
  | s | sP | sE
  deriving Repr, DecidableEq

/-! ### `Buffer<Vec<u8>>` -/

structure Buf where
  data : Bytes
  cap : Nat
  pos : Nat
  lent : Bool
  deriving Repr, DecidableEq

def Buf.new (cap : Nat) : Buf := ⟨[], cap, 0, false⟩

/-- `Buffer::buffer()`: the slice view `vec[begin..len]` -/
def Buf.avail (b : Buf) : Bytes := b.data.drop b.pos

/-- `Buffer::compact_to(capacity, max_capacity)` (buffer present) -/
def Buf.compactTo (b : Buf) (capacity maxCap : Nat) : Buf :=
  if 0 < b.pos ∧ b.pos < b.data.length then
    { b with data := b.data.drop b.pos, pos := 0 }
  else if b.data.length ≤ b.pos then
    { b with data := [], pos := 0, cap := if maxCap < b.cap then min b.cap capacity else b.cap }
  else
    { b with pos := 0 }

/-- `Buffer::reset()` -/
def Buf.reset (b : Buf) : Buf := { b with data := [], pos := 0 }

inductive Adv where
  | panic                          -- first `assert!` fails, buffer untouched
  | lost                           -- `slice(pos..)` asserts after `take_inner`: the buffer is dropped
  | ok (b : Buf) (allDone : Bool)
  deriving Repr, DecidableEq

/-- `Buffer::advance(amount)` (buffer present) -/
def Buf.advance (b : Buf) (amt : Nat) : Adv :=
  if b.cap < b.pos + amt then .panic
  else if b.data.length < b.pos + amt then .lost
  else .ok { b with pos := b.pos + amt } (decide (b.data.length ≤ b.pos + amt))

/-- `Vec::try_reserve(additional)`: amortised growth -/
def growAmortized (len cap add : Nat) : Nat :=
  if add ≤ cap - len then cap else max (max (2 * cap) (len + add)) 8

/-- `IoBufMutExt::extend_from_slice` on the slice view: appends to the `Vec` -/
def Buf.extend (b : Buf) (src : Bytes) : Buf :=
  { b with data := b.data ++ src, cap := growAmortized b.data.length b.cap src.length }

/-- capacity after the growth step of `fill_read_buf`:
`if cap - len < base { reserve_exact((len + base) - cap) }` where `Vec::reserve_exact(d)` ensures
`cap ≥ len + d` (so the reservation is relative to `len`, not to `cap`, as the code has it) -/
def growCap (len cap base : Nat) : Nat :=
  if cap - len < base then
    let d := len + base - cap
    if d ≤ cap - len then cap else len + d
  else cap

/-! ### read half (`SyncReadBuf` + inner reader) -/

structure RSide where
  buf : Buf
  eof : Bool
  base : Nat
  max : Nat
  /-- inner reader: remaining script, the waker set it parked with -/
  script : List RItem
  parked : Option (List Nat)
  /-- observations of the current operation -/
  log : List Io
  woken : List Nat
  event : Bool
  /-- ghost history -/
  delivered : Bytes
  taken : Bytes
  innerEof : Bool
  deriving Repr, DecidableEq

def RSide.new (base max : Nat) (script : List RItem) : RSide :=
  { buf := Buf.new base, eof := false, base, max, script, parked := none,
    log := [], woken := [], event := false, delivered := [], taken := [], innerEof := false }

def RSide.clearObs (r : RSide) : RSide := { r with log := [], woken := [], event := false }

/-- `BufRead::consume(amt)` = `SyncReadBuf::consume`; returns the bytes handed to the caller -/
def RSide.consume (r : RSide) (amt : Nat) : RSide × Res Bytes :=
  if r.buf.lent then (r, .panic)
  else
    match r.buf.advance amt with
    | .panic => (r, .panic)
    | .lost => ({ r with buf := { r.buf with lent := true } }, .panic)
    | .ok b done =>
      let got := r.buf.avail.take amt
      ({ r with buf := if done then b.compactTo r.base r.max else b, taken := r.taken ++ got }, .ok got)

/-- `BufRead::fill_buf` = `SyncReadBuf::fill_buf` -/
def RSide.fillBuf (r : RSide) : Res Bytes :=
  if r.buf.lent then .err .wb
  else if r.buf.avail.isEmpty && !r.eof then .err .wb
  else .ok r.buf.avail

/-- `Read::read(buf)` with `buf.len() = n` (also `read_buf_uninit`) -/
def RSide.read (r : RSide) (n : Nat) : RSide × Res Bytes :=
  match r.fillBuf with
  | .ok av => r.consume (min av.length n)
  | .err e => (r, .err e)
  | .panic => (r, .panic)

/-- `fill_read_buf` up to the inner `read(..).await`: `some res` = finished without inner I/O -/
def RSide.fillStart (r : RSide) : RSide × Option (Res Nat) :=
  if r.eof then (r, some (.ok 0))
  else if r.buf.lent then (r, some .panic)
  else
    let b := r.buf.compactTo r.base r.max
    if r.max ≤ b.data.length then ({ r with buf := b }, some (.err .oom))
    else ({ r with buf := { b with cap := growCap b.data.length b.cap r.base, lent := true } }, none)

/-- the inner stream completes an operation it was parked on: it wakes the waker it holds -/
def RSide.wake (r : RSide) : RSide :=
  match r.parked with
  | some s => { r with woken := r.woken ++ s, parked := none, event := true }
  | none => r

/-- one poll of the inner read future of a started `fill_read_buf` with waker set `snap` -/
def RSide.fillPoll (r : RSide) (snap : List Nat) : RSide × Option (Res Nat) :=
  match r.script with
  | .p :: rest => ({ r with script := rest, parked := some snap, log := r.log ++ [.rP] }, none)
  | .e :: rest =>
    let r := r.wake
    ({ r with script := rest, buf := { r.buf with lent := false }, log := r.log ++ [.rE] }, some (.err .other))
  | .d bs :: rest =>
    let r := r.wake
    let space := r.buf.cap - r.buf.data.length
    let n := min bs.length space
    ({ r with script := if n < bs.length then .d (bs.drop n) :: rest else rest,
              buf := { r.buf with data := r.buf.data ++ bs.take n, lent := false },
              delivered := r.delivered ++ bs.take n,
              eof := r.eof || n == 0,
              innerEof := r.innerEof || bs.isEmpty,
              log := r.log ++ [.r space n] }, some (.ok n))
  | .z :: rest =>
    let r := r.wake
    ({ r with script := rest, buf := { r.buf with lent := false }, eof := true, innerEof := true,
              log := r.log ++ [.r (r.buf.cap - r.buf.data.length) 0] }, some (.ok 0))
  | [] =>
    let r := r.wake
    ({ r with buf := { r.buf with lent := false }, eof := true, innerEof := true,
              log := r.log ++ [.r (r.buf.cap - r.buf.data.length) 0] }, some (.ok 0))

/-- the driver task of the harness (waker id of `drive`) -/
def driverTask : Nat := 9

/-- poll a started `fill_read_buf` future at most `budget` more times; `none` = dropped while pending -/
def RSide.fillDrive (r : RSide) : Nat → RSide × Option (Res Nat)
  | 0 => (r, none)
  | k + 1 =>
    match r.fillPoll [driverTask] with
    | (r', some res) => (r', some res)
    | (r', none) => RSide.fillDrive r' k

/-- `fill_read_buf()` polled at most `budget` times, then dropped -/
def RSide.fill (r : RSide) (budget : Nat) : RSide × Option (Res Nat) :=
  match budget with
  | 0 => (r, none)
  | k + 1 =>
    match r.fillStart with
    | (r', some res) => (r', some res)
    | (r', none) =>
      match r'.fillPoll [driverTask] with
      | (r'', some res) => (r'', some res)
      | (r'', none) => r''.fillDrive k

/-- `into_parts().1` -/
def RSide.intoParts (r : RSide) : Bytes := if r.buf.lent then [] else r.buf.avail

/-! ### write half (`SyncWriteBuf` + inner writer) -/

structure WSide where
  buf : Buf
  base : Nat
  max : Nat
  script : List WItem
  parked : Option (List Nat)
  log : List Io
  woken : List Nat
  event : Bool
  sent : Bytes
  accepted : Bytes
  deriving Repr, DecidableEq

def WSide.new (base max : Nat) (script : List WItem) : WSide :=
  { buf := Buf.new base, base, max, script, parked := none,
    log := [], woken := [], event := false, sent := [], accepted := [] }

def WSide.clearObs (w : WSide) : WSide := { w with log := [], woken := [], event := false }

/-- `Write::write(buf)` = `SyncWriteBuf::write` -/
def WSide.write (w : WSide) (src : Bytes) : WSide × Res Nat :=
  if w.buf.lent then (w, .err .wb)
  else if decide (w.buf.cap * 2 / 3 < w.buf.data.length) && decide (w.buf.data.length ≠ 0) then (w, .err .wb)
  else
    let slen := w.buf.data.length - w.buf.pos
    if w.max < slen + src.length then
      if w.max < slen then ({ w with buf := { w.buf with lent := true } }, .panic)
      else if w.max - slen = 0 then (w, .err .wb)
      else
        let part := src.take (w.max - slen)
        ({ w with buf := w.buf.extend part, accepted := w.accepted ++ part }, .ok (w.max - slen))
    else ({ w with buf := w.buf.extend src, accepted := w.accepted ++ src }, .ok src.length)

/-- `has_pending_write()`; `none` = panics (buffer missing) -/
def WSide.hasPending (w : WSide) : Option Bool :=
  if w.buf.lent then none else some (decide (w.buf.data.length ≠ 0))

def WSide.wake (w : WSide) : WSide :=
  match w.parked with
  | some s => { w with woken := w.woken ++ s, parked := none, event := true }
  | none => w

/-- where a `flush_write_buf` future is suspended -/
inductive WFut where
  | idle                       -- no future
  | writing (total : Nat)      -- in `writer.write(inner).await` of `flush_to` (buffer lent)
  | flushing (total : Nat)     -- in `stream.flush().await` (buffer given back, reset)
  deriving Repr, DecidableEq

/-- `stream.flush().await` of `flush_write_buf`, one poll -/
def WSide.flushTail (w : WSide) (snap : List Nat) (total : Nat) : WSide × WFut × Option (Res Nat) :=
  match w.script with
  | .p :: rest => ({ w with script := rest, parked := some snap, log := w.log ++ [.fP] }, .flushing total, none)
  | .e :: rest =>
    let w := w.wake
    ({ w with script := rest, log := w.log ++ [.fE] }, .idle, some (.err .other))
  | .w _ :: rest =>
    let w := w.wake
    ({ w with script := rest, log := w.log ++ [.f] }, .idle, some (.ok total))
  | [] =>
    let w := w.wake
    ({ w with log := w.log ++ [.f] }, .idle, some (.ok total))

/-- after `flush_to` returned `Ok(total)`: `compact_to`, then `stream.flush().await` -/
def WSide.afterFlushTo (w : WSide) (snap : List Nat) (total : Nat) : WSide × WFut × Option (Res Nat) :=
  ({ w with buf := w.buf.compactTo w.base w.max }).flushTail snap total

/-- the inner writer accepted `n` of the offered slice: rest of the loop body of `flush_to`.
`none` = the loop goes round again. -/
def WSide.accepted_n (w : WSide) (snap : List Nat) (total n : Nat) :
    Option (WSide × WFut × Option (Res Nat)) × WSide :=
  let slice := w.buf.avail
  let w := w.wake
  let w := { w with sent := w.sent ++ slice.take n, buf := { w.buf with lent := false },
                    log := w.log ++ [.w slice.length n] }
  if n = 0 then (some (w, .idle, some (.err .wz)), w)
  else
    match w.buf.advance n with
    | .panic => (some (w, .idle, some .panic), w)
    | .lost => (some ({ w with buf := { w.buf with lent := true } }, .idle, some .panic), w)
    | .ok b done =>
      if done then (some (({ w with buf := b.reset }).afterFlushTo snap (total + n)), w)
      else (none, { w with buf := b })

/-- the `loop` of `Buffer::flush_to`, one poll of the enclosing future: runs until an inner write
is Pending, fails, or everything is written; recursion over the inner writer's script -/
def WSide.writeLoop (w : WSide) (snap : List Nat) (total : Nat) : List WItem → WSide × WFut × Option (Res Nat)
  | [] =>
    -- exhausted script: the inner writer takes everything
    match ({ w with script := [] }).accepted_n snap total w.buf.avail.length with
    | (some r, _) => r
    | (none, w') => (w', .idle, some .panic)   -- unreachable: all bytes were taken
  | .p :: rest =>
    ({ w with script := rest, parked := some snap, buf := { w.buf with lent := true },
              log := w.log ++ [.wP] }, .writing total, none)
  | .e :: rest =>
    let w := w.wake
    ({ w with script := rest, buf := { w.buf with lent := false }, log := w.log ++ [.wE] }, .idle, some (.err .other))
  | .w k :: rest =>
    match ({ w with script := rest }).accepted_n snap total (min k w.buf.avail.length) with
    | (some r, _) => r
    | (none, w') => WSide.writeLoop w' snap (total + min k w.buf.avail.length) rest

/-- first poll of `flush_write_buf()` -/
def WSide.flushBegin (w : WSide) (snap : List Nat) : WSide × WFut × Option (Res Nat) :=
  if w.buf.lent then (w, .idle, some .panic)
  else if w.buf.avail.isEmpty then w.afterFlushTo snap 0
  else w.writeLoop snap 0 w.script

/-- one poll of the `flush_write_buf` future in state `fut` -/
def WSide.flushResume (w : WSide) (snap : List Nat) : WFut → WSide × WFut × Option (Res Nat)
  | .idle => w.flushBegin snap
  | .writing t => w.writeLoop snap t w.script
  | .flushing t => w.flushTail snap t

/-- `flush_write_buf()` polled at most `budget` times, then dropped -/
def WSide.flushDrive (w : WSide) (fut : WFut) : Nat → WSide × Option (Res Nat)
  | 0 => (w, none)
  | k + 1 =>
    match w.flushResume [driverTask] fut with
    | (w', _, some res) => (w', some res)
    | (w', fut', none) => WSide.flushDrive w' fut' k

def WSide.flush (w : WSide) (budget : Nat) : WSide × Option (Res Nat) := w.flushDrive .idle budget

/-- one poll of `inner.shutdown()` -/
def WSide.shutdownPoll (w : WSide) (snap : List Nat) : WSide × Option (Res Unit) :=
  match w.script with
  | .p :: rest => ({ w with script := rest, parked := some snap, log := w.log ++ [.sP] }, none)
  | .e :: rest =>
    let w := w.wake
    ({ w with script := rest, log := w.log ++ [.sE] }, some (.err .other))
  | .w _ :: rest =>
    let w := w.wake
    ({ w with script := rest, log := w.log ++ [.s] }, some (.ok ()))
  | [] =>
    let w := w.wake
    ({ w with log := w.log ++ [.s] }, some (.ok ()))

/-! ### `SyncStream`: operations of one test case -/

inductive Op where
  | read (n : Nat)
  | rbu (n : Nat)
  | fillbuf
  | consume (n : Nat)
  | write (bs : Bytes)
  | flush
  | fill (budget : Nat)
  | wflush (budget : Nat)
  | st
  | parts
  deriving Repr, DecidableEq

inductive Out where
  | bytes (b : Bytes)
  | num (n : Nat)
  | unit
  | err (e : Err)
  | panic
  | cancel
  | st (eof : Bool) (pw : Option Bool)
  | gone
  deriving Repr, DecidableEq

def Out.ofBytes : Res Bytes → Out
  | .ok b => .bytes b
  | .err e => .err e
  | .panic => .panic

def Out.ofNum : Res Nat → Out
  | .ok n => .num n
  | .err e => .err e
  | .panic => .panic

def Out.ofDrive : Option (Res Nat) → Out
  | some r => Out.ofNum r
  | none => .cancel

structure State where
  r : RSide
  w : WSide
  /-- `into_parts` consumed the stream -/
  gone : Bool
  deriving Repr, DecidableEq

def State.new (base max : Nat) (rs : List RItem) (ws : List WItem) : State :=
  ⟨RSide.new base max rs, WSide.new base max ws, false⟩

def step (s0 : State) (op : Op) : State × Out :=
  let s : State := { s0 with r := s0.r.clearObs, w := s0.w.clearObs }
  if s.gone then (s, .gone)
  else
    match op with
    | .read n | .rbu n =>
      let (r, res) := s.r.read n
      ({ s with r }, Out.ofBytes res)
    | .fillbuf => (s, Out.ofBytes s.r.fillBuf)
    | .consume n =>
      let (r, res) := s.r.consume n
      ({ s with r }, Out.ofBytes res)
    | .write bs =>
      let (w, res) := s.w.write bs
      ({ s with w }, Out.ofNum res)
    | .flush => (s, .unit)
    | .fill k =>
      let (r, res) := s.r.fill k
      ({ s with r }, Out.ofDrive res)
    | .wflush k =>
      let (w, res) := s.w.flush k
      ({ s with w }, Out.ofDrive res)
    | .st => (s, .st s.r.eof s.w.hasPending)
    | .parts => ({ s with gone := true }, .bytes s.r.intoParts)

/-- run a list of operations, collecting the outputs -/
def run (s : State) : List Op → State × List Out
  | [] => (s, [])
  | op :: ops =>
    let (s', o) := step s op
    let (s'', os) := run s' ops
    (s'', o :: os)

/-- the bytes an output hands to the caller (`read`, `rbu`, `consume`; `fill_buf` only lends) -/
def Out.taken : Op → Out → Bytes
  | .read _, .bytes b => b
  | .rbu _, .bytes b => b
  | .consume _, .bytes b => b
  | _, _ => []

/-- the bytes of a `write` the adapter accepted -/
def Out.acceptedOf : Op → Out → Bytes
  | .write bs, .num n => bs.take n
  | _, _ => []

/-- bytes the inner reader will still deliver before it reports the end of the stream -/
def content : List RItem → Bytes
  | [] => []
  | .d bs :: rest => if bs.isEmpty then [] else bs ++ content rest
  | .p :: rest => content rest
  | .e :: rest => content rest
  | .z :: _ => []

end Compio.SyncStream
