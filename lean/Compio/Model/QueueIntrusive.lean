/-
CONCRETE model of compio-executor/src/queue.rs: the slot map of `Item { prev, next, task, is_hot }` with the two
intrusive doubly linked lists `hot` / `cold` (`List { head, tail }`), operation by operation and in the
order of the assignments of the source: `link_tail::<HOT|COLD>`, `unlink::<HOT|COLD>`, `make_hot`,
`make_cold`, `insert`, `remove`, `next_hot`, `hot_head`, `iter_hot` / `Iter::next`, `clear`.
(`take` / `reset` only move the `task` field, which is not modelled.)

Modelling decisions
  * `SlotMap<TaskId, Item>` is `List (Option Item)`, index = key. Generations are abstracted as: every
    `insert` gets a FRESH key (`map.length`), `remove` (and `clear`'s `drain`) leave `none` in the slot for
    ever. A removed key therefore misses in every later `get`, exactly as a key with a stale generation does
    in the real slot map (which reuses the slot index but with a bumped version, i.e. with a different key).
  * `expect("item exists")` failing is the result `none` (panic).
  * `debug_assert!`s (`item.is_hot == HOT` in `unlink`, `item.is_hot` in `make_cold` and `next_hot`) are NOT
    evaluated by the operations (release semantics, so that calls outside the preconditions can be studied);
    they are the separate predicates `unlinkAssert`, `makeColdAssert`, `nextHotAssert`, proved to hold on
    well-formed states within the documented preconditions (Lemmas/QueueIntrusive.lean).
Core Lean only.
-/
namespace Compio.QueueIntrusive

structure Item where
  prev : Option Nat
  next : Option Nat
  isHot : Bool
  deriving DecidableEq, Repr

structure IQ where
  map : List (Option Item)
  hotHead : Option Nat
  hotTail : Option Nat
  coldHead : Option Nat
  coldTail : Option Nat
  deriving DecidableEq, Repr

/-- `Inner::new` -/
def IQ.empty : IQ := ⟨[], none, none, none, none⟩

/-- `map.get(key)` -/
def IQ.get (c : IQ) (k : Nat) : Option Item :=
  match c.map[k]? with
  | some (some it) => some it
  | _ => none

/-- write through `map.get_mut(key)` (only called with a live key) -/
def IQ.setItem (c : IQ) (k : Nat) (it : Item) : IQ := { c with map := c.map.set k (some it) }

/-- `if HOT { &mut self.hot } else { &mut self.cold }` -/
def IQ.head (c : IQ) (hot : Bool) : Option Nat := if hot then c.hotHead else c.coldHead
def IQ.tail (c : IQ) (hot : Bool) : Option Nat := if hot then c.hotTail else c.coldTail
def IQ.setHead (c : IQ) (hot : Bool) (v : Option Nat) : IQ :=
  if hot then { c with hotHead := v } else { c with coldHead := v }
def IQ.setTail (c : IQ) (hot : Bool) (v : Option Nat) : IQ :=
  if hot then { c with hotTail := v } else { c with coldTail := v }

/-- `if let Some(k) = o && let Some(item) = self.map.get_mut(k) { item.next = v }` -/
def IQ.setNextOf (c : IQ) (o : Option Nat) (v : Option Nat) : IQ :=
  match o with
  | none => c
  | some k =>
    match c.get k with
    | none => c
    | some it => c.setItem k { it with next := v }

/-- `if let Some(k) = o && let Some(item) = self.map.get_mut(k) { item.prev = v }` -/
def IQ.setPrevOf (c : IQ) (o : Option Nat) (v : Option Nat) : IQ :=
  match o with
  | none => c
  | some k =>
    match c.get k with
    | none => c
    | some it => c.setItem k { it with prev := v }

/-- `Inner::link_tail::<HOT>`; `none` = `expect("item exists")` panicked -/
def linkTail (hot : Bool) (c : IQ) (key : Nat) : Option IQ :=
  let oldTail := c.tail hot
  let c := c.setTail hot (some key)
  let c := if (c.head hot).isNone then c.setHead hot (some key) else c
  match c.get key with
  | none => none
  | some _ =>
    let c := c.setItem key { prev := oldTail, next := none, isHot := hot }
    some (c.setNextOf oldTail (some key))

/-- `debug_assert_eq!(item.is_hot, HOT)` of `unlink` -/
def unlinkAssert (hot : Bool) (c : IQ) (key : Nat) : Bool :=
  match c.get key with
  | none => true
  | some it => it.isHot == hot

/-- `Inner::unlink::<HOT>`; `none` = `expect("item exists")` panicked. The item keeps its fields. -/
def unlink (hot : Bool) (c : IQ) (key : Nat) : Option IQ :=
  match c.get key with
  | none => none
  | some it =>
    let prev := it.prev
    let next := it.next
    let c := if c.head hot = some key then c.setHead hot next else c
    let c := if c.tail hot = some key then c.setTail hot prev else c
    let c := c.setNextOf prev next
    let c := c.setPrevOf next prev
    some c

/-- `Inner::make_hot` -/
def makeHot (c : IQ) (key : Nat) : Option IQ :=
  match c.get key with
  | none => some c
  | some it =>
    if it.isHot then some c
    else (unlink false c key).bind fun c => linkTail true c key

/-- `debug_assert!(item.is_hot)` of `make_cold` -/
def makeColdAssert (c : IQ) (key : Nat) : Bool :=
  match c.get key with
  | none => true
  | some it => it.isHot

/-- `Inner::make_cold` -/
def makeCold (c : IQ) (key : Nat) : Option IQ :=
  match c.get key with
  | none => some c
  | some _ => (unlink true c key).bind fun c => linkTail false c key

/-- `TaskQueue::insert`: returns the new queue and the fresh key -/
def insert (c : IQ) : Option (IQ × Nat) :=
  let key := c.map.length
  let c := { c with map := c.map ++ [some { prev := none, next := none, isHot := true }] }
  (linkTail true c key).map fun c => (c, key)

/-- `TaskQueue::remove`: the Bool says whether an item was removed (`Some(task)`); a missing key returns
`None` without touching anything -/
def remove (c : IQ) (key : Nat) : Option (IQ × Bool) :=
  match c.get key with
  | none => some (c, false)
  | some it => (unlink it.isHot c key).map fun c => ({ c with map := c.map.set key none }, true)

/-- `debug_assert!(item.is_hot)` of `next_hot` -/
def nextHotAssert (c : IQ) (key : Nat) : Bool :=
  match c.get key with
  | none => true
  | some it => it.isHot

/-- `TaskQueue::next_hot` -/
def nextHot (c : IQ) (key : Nat) : Option Nat := (c.get key).bind (·.next)

/-- `TaskQueue::hot_head` is the field `hotHead`; `has_hot` -/
def hasHot (c : IQ) : Bool := c.hotHead.isSome

/-- `TaskQueue::clear`: nothing if no item is live; else all four ends `None` and the map drained -/
def clear (c : IQ) : IQ :=
  if c.map.all (·.isNone) then c
  else { map := c.map.map (fun _ => none), hotHead := none, hotTail := none, coldHead := none, coldTail := none }

/-- `Iter { queue, curr }` -/
structure Iter where
  curr : Option Nat
  deriving DecidableEq, Repr

/-- `TaskQueue::iter_hot` -/
def iterHot (c : IQ) : Iter := ⟨c.hotHead⟩

/-- `Iter::next`: yields `curr` and pre-fetches its successor from the queue AS IT IS at that moment -/
def Iter.next (c : IQ) (it : Iter) : Option (Nat × Iter) :=
  match it.curr with
  | none => none
  | some k => some (k, ⟨nextHot c k⟩)

/-- at most `fuel` calls of `Iter::next` on an unmodified queue -/
def iterCollect : Nat → IQ → Iter → List Nat
  | 0, _, _ => []
  | n + 1, c, it =>
    match it.next c with
    | none => []
    | some (k, it') => k :: iterCollect n c it'

/-- follow `next` from `start` -/
def walk : Nat → IQ → Option Nat → List Nat
  | 0, _, _ => []
  | _ + 1, _, none => []
  | n + 1, c, some k => k :: walk n c (nextHot c k)

/-- the abstract queue: (hot ids in order, cold ids in order) -/
def abs (c : IQ) : List Nat × List Nat :=
  (walk (c.map.length + 1) c c.hotHead, walk (c.map.length + 1) c c.coldHead)

/-- operations of the executor on its queue -/
inductive Op where
  | insert
  | makeHot (k : Nat)
  | makeCold (k : Nat)
  | remove (k : Nat)
  | clear
  deriving DecidableEq, Repr

def applyOp (c : IQ) : Op → Option IQ
  | .insert => (insert c).map (·.1)
  | .makeHot k => makeHot c k
  | .makeCold k => makeCold c k
  | .remove k => (remove c k).map (·.1)
  | .clear => some (clear c)

def runOps : IQ → List Op → Option IQ
  | c, [] => some c
  | c, op :: ops => (applyOp c op).bind fun c => runOps c ops

end Compio.QueueIntrusive
