/-
Labelled transition system for ONE task of compio-executor that is shared between the executor
thread `E` (which owns one `Task` reference through the queue) and a `JoinHandle` living on another
thread `H` (the second `Task` reference), i.e. the `Remote` view of task/remote.rs.

Sources modelled, branch by branch:
  * task/mod.rs    `Task::run`, `Task::drop`, `Task::cancel`, `impl Drop for Task`
  * task/remote.rs `Remote::poll` (as it is now: the state is re-examined after
                   `finish_setting_waker::<true>()`), `Remote::schedule` (only its accesses to the word and to `shared`)
  * join_handle.rs `JoinHandle::{poll, cancel, detach, drop}`
  * lib.rs/queue.rs `Executor::tick` (run; Ready ⇒ `task.drop()`; the queue's `Task` goes away) and
                   `Executor::clear` (`task.drop()` without running; the `Task` goes away)

Every transition is exactly ONE atomic access to the task word (through one function regenerated from
task/state.rs into Compio.Gen.TaskState), or ONE access to the waker slot / the future-or-result
storage / `shared`; local decisions are folded into the preceding access (the program counter
names the NEXT access). `eClear` and `hDetach` are the API calls `Executor::clear` / `JoinHandle::detach`
themselves (no memory access). Interleaving semantics, sequentially consistent.

`fixed = true` is the current `Remote::poll`; `fixed = false` is the code before the re-check after
`finish_setting_waker::<true>()` was added (always returns Pending there).
-/
import Compio.Gen.TaskState

namespace Compio.RemoteJoin
open Compio.TaskWord
open Compio.Gen

inductive Actor where
  | E | H
  deriving DecidableEq, Repr

inductive Storage where
  | future | result | empty
  deriving DecidableEq, Repr

/-- program counter of the executor thread: the NEXT access it performs -/
inductive EPc where
  | idle          -- the task sits in the queue: it may be run (`unschedule`) or cleared
  | poll          -- `run_future`: poll the future (storage access)
  | finishRunning -- `finish_running`
  | wake          -- read the waker slot, `wake_by_ref`
  | setDropped    -- `Task::drop`: `set_dropped`
  | clearShared   -- `header.shared.store(null)`
  | dropFuture    -- `drop_future(.., false)`
  | dropSlot      -- `drop_in_place(waker)`
  | dec           -- `impl Drop for Task`: `dec`
  | last          -- last holder: drop result / waker if flagged, deallocate
  | done
  deriving DecidableEq, Repr

/-- how the executor got to `Task::drop` -/
inductive ERoute where
  | running       -- not there yet
  | completed     -- the future returned Ready
  | sawCancelled  -- `Task::run` saw the cancelled flag and did not poll
  | cleared       -- `Executor::clear` / executor dropped
  deriving DecidableEq, Repr

/-- program counter of the handle thread: the NEXT access it performs -/
inductive HPc where
  | idle          -- the JoinHandle exists and no call is in progress
  -- Remote::poll
  | clearResult   -- `set_has_result::<false>`
  | takeResult    -- `take_result`
  | startSetting  -- `start_setting_waker`
  | finishFalse   -- `finish_setting_waker::<false>`
  | compare       -- `will_wake(slot)`
  | write         -- drop old waker if flagged, write the new one
  | finishTrue    -- `finish_setting_waker::<true>`
  | reload        -- `self.state()` after the section (fixed program only)
  -- Task::cancel (JoinHandle::cancel / JoinHandle::drop)
  | schedShared   -- `Remote::schedule`: load `shared`
  | schedFinish   -- `finish_scheduling`
  | setCancelled  -- `set_cancelled`
  | cancelClear   -- `set_has_result::<false>`
  | cancelDrop    -- `drop_future(.., true)`
  -- impl Drop for Task
  | dec
  | last
  | done
  deriving DecidableEq, Repr

structure RState where
  word : Word
  storage : Storage
  slot : Option Nat        -- `header.waker`: id of the join waker stored there (none = uninitialised)
  shared : Bool            -- `header.shared` non-null
  epc : EPc
  esnap : Word             -- the executor's last snapshot
  eroute : ERoute
  hpc : HPc
  hsnap : Word             -- the handle's last snapshot
  hw : Nat                 -- waker of the poll in progress
  hdrop : Bool             -- `drop_result` of the `Task::cancel` in progress
  -- ghost
  woken : List Nat         -- join wakers woken by the executor, in order
  parked : Option Nat      -- `some w`: the handle's last poll returned Pending with waker w
  hcancelled : Bool        -- the handle has executed `set_cancelled`
  hret : Option Bool       -- the final poll returned Ready(Some) (= some true) / Ready(None) (= some false)
  polls : Nat              -- polls of the future
  futDrops : Nat
  resTaken : Nat
  resDrops : Nat
  slotSets : Nat           -- wakers written into the slot
  slotDrops : Nat          -- wakers dropped from the slot
  deallocs : Nat
  uaf : Nat                -- accesses to word / slot / storage / shared after deallocation
  bad : Nat                -- reads/drops of an uninitialised slot, storage accessed in the wrong variant
  deriving DecidableEq, Repr

def init : RState :=
  { word := TaskState.new 2, storage := .future, slot := none, shared := true,
    epc := .idle, esnap := Word.zero, eroute := .running,
    hpc := .idle, hsnap := Word.zero, hw := 0, hdrop := false,
    woken := [], parked := none, hcancelled := false, hret := none,
    polls := 0, futDrops := 0, resTaken := 0, resDrops := 0, slotSets := 0, slotDrops := 0,
    deallocs := 0, uaf := 0, bad := 0 }

inductive Label where
  -- executor thread
  | eUnschedule      -- Task::run: `unschedule`
  | ePollPending     -- the future returns Pending
  | ePollReady       -- the future returns Ready (or panics): future dropped, result written
  | eFinishRunning
  | eWake
  | eClear           -- Executor::clear / drop of the executor: `Task::drop` without running
  | eSetDropped
  | eClearShared
  | eDropFuture
  | eDropSlot
  | eDec
  | eLast
  -- handle thread
  | hPoll (w : Nat)  -- JoinHandle::poll with waker w: the first `load`
  | hClearResult
  | hTakeResult
  | hStartSetting
  | hFinishFalse
  | hCompare
  | hWrite
  | hFinishTrue
  | hReload
  | hCancel (dropResult : Bool)  -- Task::cancel(drop_result): `schedule` → `start_scheduling`
  | hSchedShared
  | hSchedFinish
  | hSetCancelled
  | hCancelClear
  | hCancelDrop
  | hDetach
  | hDec
  | hLast
  deriving DecidableEq, Repr

def Label.actor : Label → Actor
  | .eUnschedule | .ePollPending | .ePollReady | .eFinishRunning | .eWake | .eClear
  | .eSetDropped | .eClearShared | .eDropFuture | .eDropSlot | .eDec | .eLast => .E
  | _ => .H

/-- every access to the allocation goes through here: an access after `dealloc` is counted -/
def touch (s : RState) : RState :=
  if s.deallocs > 0 then { s with uaf := s.uaf + 1 } else s

/-- drop the waker in the slot (`drop_in_place` / `assume_init_drop`) -/
def dropSlotOf (s : RState) : RState :=
  { s with slot := none, slotDrops := s.slotDrops + 1,
           bad := if s.slot.isSome then s.bad else s.bad + 1 }

/-- drop the result in the storage (`drop_future(.., true)`) -/
def dropResultOf (s : RState) : RState :=
  { s with storage := .empty, resDrops := s.resDrops + 1,
           bad := if s.storage = .result then s.bad else s.bad + 1 }

/-- `wake_by_ref` on the waker in the slot -/
def wakeSlotOf (s : RState) : RState :=
  match s.slot with
  | some w => { s with woken := s.woken ++ [w] }
  | none => { s with bad := s.bad + 1 }

/-- the part of `Task::drop` after `shared.store(null)`: which access comes next -/
def eAfterShared (snap : Word) : EPc :=
  if !TaskState.isCompleted snap then .dropFuture
  else if TaskState.hasWaker snap && !TaskState.isSettingWaker snap then .dropSlot
  else .dec

def eAfterFuture (snap : Word) : EPc :=
  if TaskState.hasWaker snap && !TaskState.isSettingWaker snap then .dropSlot else .dec

/-- head of the loop of `Remote::poll` with the snapshot `snap` -/
def hLoop (s : RState) (snap : Word) : RState :=
  if TaskState.hasResult snap then { s with hsnap := snap, hpc := .clearResult }
  else if TaskState.isCancelled snap then { s with hsnap := snap, hpc := .dec, hret := some false }
  else { s with hsnap := snap, hpc := .startSetting }

/-- after `finish_setting_waker::<true>()` returned `after` -/
def hAfterFinishTrue (fixed : Bool) (s : RState) (after : Word) : RState :=
  if fixed && (TaskState.isCompleted after || TaskState.isCancelled after) then
    { s with hsnap := after, hpc := .reload }
  else
    { s with hsnap := after, hpc := .idle, parked := some s.hw }

/-- `impl Drop for Task` after `dec` returned `snap` -/
def afterDecE (s : RState) (snap : Word) : RState :=
  { s with esnap := snap, epc := if TaskState.count snap > 1 then .done else .last }

def afterDecH (s : RState) (snap : Word) : RState :=
  { s with hsnap := snap, hpc := if TaskState.count snap > 1 then .done else .last }

/-- the last holder: drop the result and the waker if the snapshot says they are there, deallocate -/
def lastOf (s : RState) (snap : Word) : RState :=
  let s := if TaskState.hasResult snap then dropResultOf s else s
  let s := if TaskState.hasWaker snap then dropSlotOf s else s
  { s with deallocs := s.deallocs + 1 }

/-- one transition; `none` = the label is not enabled in `s` -/
def step? (fixed : Bool) (s : RState) : Label → Option RState
  ---------------------------------------------------------------- executor thread
  | .eUnschedule =>
    if s.epc = .idle then
      let s := touch s
      let old := s.word
      if TaskState.isCancelled old then
        some { s with word := TaskState.unschedule old, esnap := old, epc := .setDropped, eroute := .sawCancelled }
      else
        some { s with word := TaskState.unschedule old, esnap := old, epc := .poll }
    else none
  | .ePollPending =>
    if s.epc = .poll then
      let s := touch s
      some { s with epc := .idle, polls := s.polls + 1,
                    bad := if s.storage = .future then s.bad else s.bad + 1 }
    else none
  | .ePollReady =>
    if s.epc = .poll then
      let s := touch s
      some { s with epc := .finishRunning, polls := s.polls + 1, futDrops := s.futDrops + 1,
                    storage := .result, eroute := .completed,
                    bad := if s.storage = .future then s.bad else s.bad + 1 }
    else none
  | .eFinishRunning =>
    if s.epc = .finishRunning then
      let s := touch s
      let old := s.word
      some { s with word := TaskState.finishRunning old, esnap := old,
                    epc := if TaskState.hasWaker old && !TaskState.isSettingWaker old then .wake else .setDropped }
    else none
  | .eWake =>
    if s.epc = .wake then
      let s := wakeSlotOf (touch s)
      some { s with epc := .setDropped }
    else none
  | .eClear =>
    if s.epc = .idle then some { s with epc := .setDropped, eroute := .cleared } else none
  | .eSetDropped =>
    if s.epc = .setDropped then
      let s := touch s
      let old := s.word
      some { s with word := TaskState.setDropped old, esnap := old, epc := .clearShared }
    else none
  | .eClearShared =>
    if s.epc = .clearShared then
      let s := touch s
      some { s with shared := false, epc := eAfterShared s.esnap }
    else none
  | .eDropFuture =>
    if s.epc = .dropFuture then
      let s := touch s
      some { s with storage := .empty, futDrops := s.futDrops + 1, epc := eAfterFuture s.esnap,
                    bad := if s.storage = .future then s.bad else s.bad + 1 }
    else none
  | .eDropSlot =>
    if s.epc = .dropSlot then
      let s := dropSlotOf (touch s)
      some { s with epc := .dec }
    else none
  | .eDec =>
    if s.epc = .dec then
      let s := touch s
      let old := s.word
      some (afterDecE { s with word := TaskState.dec old } old)
    else none
  | .eLast =>
    if s.epc = .last then
      let s := lastOf (touch s) s.esnap
      some { s with epc := .done }
    else none
  ---------------------------------------------------------------- handle thread
  | .hPoll w =>
    if s.hpc = .idle then
      let s := touch s
      some (hLoop { s with hw := w, parked := none } (TaskState.load s.word))
    else none
  | .hClearResult =>
    if s.hpc = .clearResult then
      let s := touch s
      some { s with word := TaskState.setHasResultFalse s.word, hpc := .takeResult }
    else none
  | .hTakeResult =>
    if s.hpc = .takeResult then
      let s := touch s
      some { s with storage := .empty, resTaken := s.resTaken + 1, hpc := .dec, hret := some true,
                    bad := if s.storage = .result then s.bad else s.bad + 1 }
    else none
  | .hStartSetting =>
    if s.hpc = .startSetting then
      let s := touch s
      let old := s.word
      some { s with word := TaskState.startSettingWaker old, hsnap := old,
                    hpc := if TaskState.hasResult old then .finishFalse
                           else if TaskState.isCancelled old then .finishFalse
                           else if TaskState.hasWaker old then .compare
                           else .write }
    else none
  | .hFinishFalse =>
    if s.hpc = .finishFalse then
      let s := touch s
      let old := s.word
      let s' := { s with word := TaskState.finishSettingWakerFalse old }
      if TaskState.hasResult s.hsnap then
        -- `state = finish_setting_waker::<false>(); continue`
        some (hLoop s' old)
      else
        -- cancelled: the returned snapshot is ignored, `break Poll::Ready(None)`
        some { s' with hpc := .dec, hret := some false }
    else none
  | .hCompare =>
    if s.hpc = .compare then
      let s := touch s
      match s.slot with
      | some v => some { s with hpc := if v = s.hw then .finishTrue else .write }
      | none => some { s with hpc := .write, bad := s.bad + 1 }
    else none
  | .hWrite =>
    if s.hpc = .write then
      let s := touch s
      let s := if TaskState.hasWaker s.hsnap then dropSlotOf s else s
      some { s with slot := some s.hw, slotSets := s.slotSets + 1, hpc := .finishTrue }
    else none
  | .hFinishTrue =>
    if s.hpc = .finishTrue then
      let s := touch s
      let old := s.word
      some (hAfterFinishTrue fixed { s with word := TaskState.finishSettingWakerTrue old } old)
    else none
  | .hReload =>
    if s.hpc = .reload then
      let s := touch s
      some (hLoop s (TaskState.load s.word))
    else none
  | .hCancel dropResult =>
    if s.hpc = .idle then
      let s := touch s
      let old := s.word
      some { s with word := TaskState.startScheduling old, hsnap := old, hdrop := dropResult,
                    parked := if dropResult then none else s.parked,
                    hpc := if TaskState.isScheduled old || TaskState.isCompleted old || TaskState.isCancelled old
                           then .schedFinish else .schedShared }
    else none
  | .hSchedShared =>
    -- load `shared`; the push into the sync queue is outside this model
    if s.hpc = .schedShared then some { (touch s) with hpc := .schedFinish } else none
  | .hSchedFinish =>
    if s.hpc = .schedFinish then
      let s := touch s
      some { s with word := TaskState.finishScheduling s.word, hpc := .setCancelled }
    else none
  | .hSetCancelled =>
    if s.hpc = .setCancelled then
      let s := touch s
      let old := s.word
      some { s with word := TaskState.setCancelled old, hsnap := old, hcancelled := true,
                    hpc := if s.hdrop && TaskState.hasResult old then .cancelClear
                           else if s.hdrop then .dec else .idle }
    else none
  | .hCancelClear =>
    if s.hpc = .cancelClear then
      let s := touch s
      some { s with word := TaskState.setHasResultFalse s.word, hpc := .cancelDrop }
    else none
  | .hCancelDrop =>
    if s.hpc = .cancelDrop then
      let s := dropResultOf (touch s)
      some { s with hpc := .dec }
    else none
  | .hDetach =>
    if s.hpc = .idle then some { s with hpc := .dec, parked := none } else none
  | .hDec =>
    if s.hpc = .dec then
      let s := touch s
      let old := s.word
      some (afterDecH { s with word := TaskState.dec old } old)
    else none
  | .hLast =>
    if s.hpc = .last then
      let s := lastOf (touch s) s.hsnap
      some { s with hpc := .done }
    else none

def Step (fixed : Bool) (s : RState) (l : Label) (s' : RState) : Prop := step? fixed s l = some s'

instance (fixed : Bool) (s : RState) (l : Label) (s' : RState) : Decidable (Step fixed s l s') := by
  unfold Step; infer_instance

/-- event lists accepted by the LTS -/
inductive Trace (fixed : Bool) : RState → List Label → RState → Prop where
  | nil (s : RState) : Trace fixed s [] s
  | cons {s s' s'' : RState} {l : Label} {ls : List Label} :
      Step fixed s l s' → Trace fixed s' ls s'' → Trace fixed s (l :: ls) s''

/-- executable form of `Trace` -/
def run (fixed : Bool) (s : RState) : List Label → Option RState
  | [] => some s
  | l :: ls => match step? fixed s l with
    | some s' => run fixed s' ls
    | none => none

inductive Reachable (fixed : Bool) : RState → Prop where
  | init : Reachable fixed init
  | step {s s' : RState} {l : Label} : Reachable fixed s → Step fixed s l s' → Reachable fixed s'

/-- all labels, waker ids restricted to `ws` (for exploration only) -/
def labelsFor (ws : List Nat) : List Label :=
  [.eUnschedule, .ePollPending, .ePollReady, .eFinishRunning, .eWake, .eClear, .eSetDropped,
   .eClearShared, .eDropFuture, .eDropSlot, .eDec, .eLast] ++ ws.map .hPoll ++
  [.hClearResult, .hTakeResult, .hStartSetting, .hFinishFalse, .hCompare, .hWrite, .hFinishTrue,
   .hReload, .hCancel true, .hCancel false, .hSchedShared, .hSchedFinish, .hSetCancelled,
   .hCancelClear, .hCancelDrop, .hDetach, .hDec, .hLast]

def next (fixed : Bool) (ws : List Nat) (s : RState) : List (Label × RState) :=
  (labelsFor ws).filterMap fun l => (step? fixed s l).map fun s' => (l, s')

/-- the actor's NEXT transition reads, writes or drops the waker slot -/
def eAccessesSlot (s : RState) : Bool :=
  s.epc = .wake || s.epc = .dropSlot || (s.epc = .last && TaskState.hasWaker s.esnap)

def hAccessesSlot (s : RState) : Bool :=
  s.hpc = .compare || s.hpc = .write || (s.hpc = .last && TaskState.hasWaker s.hsnap)

/-- the actor's NEXT transition accesses the future-or-result storage -/
def eAccessesStorage (s : RState) : Bool :=
  s.epc = .poll || s.epc = .dropFuture || (s.epc = .last && TaskState.hasResult s.esnap)

def hAccessesStorage (s : RState) : Bool :=
  s.hpc = .takeResult || s.hpc = .cancelDrop || (s.hpc = .last && TaskState.hasResult s.hsnap)

/-- H is between `start_setting_waker` and `finish_setting_waker` -/
def hInSection (s : RState) : Bool :=
  s.hpc = .finishFalse || s.hpc = .compare || s.hpc = .write || s.hpc = .finishTrue

/-- the executor has taken `Task::run`'s wake decision on the completion path -/
def ePastWake (s : RState) : Bool :=
  s.eroute = .completed &&
    (s.epc = .setDropped || s.epc = .clearShared || s.epc = .dropFuture || s.epc = .dropSlot ||
     s.epc = .dec || s.epc = .last || s.epc = .done)

/-- the wake-delivery statement of C04 for one state: a handle whose last poll returned Pending with
waker `w` has been woken once the task has completed and the executor is past the wake decision -/
def deliveryStatement (s : RState) : Prop :=
  ∀ w : Nat, s.parked = some w → TaskState.isCompleted s.word = true → ePastWake s = true → w ∈ s.woken

end Compio.RemoteJoin
