/-
Model of the I/O discipline of the rustls back-end of compio-tls. compio-tls adds nothing here:
`TlsConnector::connect` / `TlsAcceptor::accept` / `TlsStream` dispatch straight to futures-rustls 0.26
(`common/mod.rs` `Stream::{read_io, write_io, handshake, poll_read, poll_write, poll_flush, poll_close}`,
`common/handshake.rs` `MidHandshake::poll`, `client.rs`/`server.rs` `TlsStream`), which is third-party.
It is modelled only so that the driver can predict the outcome lines of the rustls cases, and to state the
finding F151 (a `Pending` transport flush inside `Stream::handshake` is never retried).

The rustls session is the same abstract record layer as in `TlsShim` (tape of handshake cells, `post`
cells, records of at most 16384 plaintext bytes, an alert record), with a send buffer `out`
(`sendable_tls`) and a plaintext buffer `pt` (`received_plaintext`).
Core Lean only.
-/
import Compio.Model.TlsShim

namespace Compio.TlsRustls
open Compio.TlsNet Compio.TlsShim

structure Rtls where
  me : Side
  tape : List Side
  post : Nat
  out : List Cell
  pt : List UInt8
  rcvdClose : Bool
  /-- `TlsState`: write side shut down (close_notify queued) -/
  wshut : Bool
  /-- `TlsState`: read side shut down -/
  rshut : Bool
  deriving Repr

/-- the session produces its own flight as soon as it is its turn -/
def settle (r : Rtls) : Rtls :=
  let run := leadRun r.me r.tape
  let r := { r with out := r.out ++ List.replicate run Cell.hs, tape := r.tape.drop run }
  if r.tape.isEmpty && r.post != 0 then
    { r with out := r.out ++ List.replicate r.post Cell.post, post := 0 }
  else r

def Rtls.new (me : Side) (tape : List Side) (post : Nat) : Rtls :=
  settle { me, tape, post, out := [], pt := [], rcvdClose := false, wshut := false, rshut := false }

def Rtls.handshaking (r : Rtls) : Bool := !r.tape.isEmpty
def Rtls.wantsWrite (r : Rtls) : Bool := !r.out.isEmpty
def Rtls.wantsRead (r : Rtls) : Bool :=
  r.pt.isEmpty && !r.rcvdClose && (!r.handshaking || r.out.isEmpty)

/-- what a batch of cells means: handshake cells, plaintext, close_notify seen (everything after a
close_notify is ignored) -/
def digest : List Cell → Nat × List UInt8 × Bool
  | [] => (0, [], false)
  | .alert :: _ => (0, [], true)
  | .hs :: cs => let (h, p, a) := digest cs; (h + 1, p, a)
  | .app b :: cs => let (h, p, a) := digest cs; (h, b :: p, a)
  | _ :: cs => digest cs

/-- `process_new_packets` on the cells just read -/
def absorb (r : Rtls) (cs : List Cell) : Rtls :=
  if r.rcvdClose then r
  else
    let (h, p, a) := digest cs
    { r with tape := r.tape.drop h, pt := r.pt ++ p, rcvdClose := a }

def readChunk : Nat := 4096

/-- `Stream::read_io`: one `read_tls` + `process_new_packets`; `ready n` = cells read -/
def readIo (sc : Sched) (r : Rtls) (v : View) : Rtls × View × IoR Nat :=
  match ioRead sc v readChunk with
  | (v, .ready cs) => (settle (absorb r cs), v, .ready cs.length)
  | (v, .pending p) => (r, v, .pending p)
  | (v, .err) => (r, v, .err)

/-- `Stream::write_io`: one `write_tls` -/
def writeIo (sc : Sched) (r : Rtls) (v : View) : Rtls × View × IoR Nat :=
  match ioWrite sc v r.out with
  | (v, .ready n) => ({ r with out := r.out.drop n }, v, .ready n)
  | (v, .pending p) => (r, v, .pending p)
  | (v, .err) => (r, v, .err)

/-- `while self.session.wants_write() { write_io }` as used by `handshake`:
result = (bytes written, the loop stopped on `Pending`) -/
def hsWriteLoop (sc : Sched) : Nat → Rtls → View → Nat → Rtls × View × Option (Nat × Option Pend)
  | 0, r, v, _ => (r, v, none)
  | fuel + 1, r, v, acc =>
    if !r.wantsWrite then (r, v, some (acc, none))
    else
      match writeIo sc r v with
      | (r, v, .ready n) => if n = 0 then (r, v, none) else hsWriteLoop sc fuel r v (acc + n)
      | (r, v, .pending p) => (r, v, some (acc, some p))
      | (r, v, .err) => (r, v, none)

/-- `while !self.eof && self.session.wants_read() { read_io }` as used by `handshake`:
result = (bytes read, eof seen, stopped on `Pending`) -/
def hsReadLoop (sc : Sched) : Nat → Rtls → View → Nat → Rtls × View × Option (Nat × Bool × Option Pend)
  | 0, r, v, _ => (r, v, none)
  | fuel + 1, r, v, acc =>
    if !r.wantsRead then (r, v, some (acc, false, none))
    else
      match readIo sc r v with
      | (r, v, .ready n) => if n = 0 then (r, v, some (acc, true, none)) else hsReadLoop sc fuel r v (acc + n)
      | (r, v, .pending p) => (r, v, some (acc, false, some p))
      | (r, v, .err) => (r, v, none)

/-- `Stream::handshake`: `ready (rd, wr)` / `pending` / error. The `continue` of the source loop is the
recursion. -/
def handshake (sc : Sched) : Nat → Rtls → View → Rtls × View × PollR Unit
  | 0, r, v => (r, v, .err)
  | fuel + 1, r, v =>
    match hsWriteLoop sc sc.fuel r v 0 with
    | (r, v, none) => (r, v, .err)
    | (r, v, some (wr, wpend)) =>
      -- `if need_flush { poll_flush }` : a Pending flush only sets `write_would_block`
      let (v, fpend, ferr) :=
        if wr != 0 then
          match ioFlush sc v with
          | (v, .ready ()) => (v, none, false)
          | (v, .pending p) => (v, some p, false)
          | (v, .err) => (v, none, true)
        else (v, none, false)
      if ferr then (r, v, .err)
      else
        match hsReadLoop sc sc.fuel r v 0 with
        | (r, v, none) => (r, v, .err)
        | (r, v, some (rd, eof, rpend)) =>
          if eof && r.handshaking then (r, v, .err)
          else if !r.handshaking then (r, v, .ready ())
          else
            -- which Pending stands for the returned one: the last transport call that pended
            let blocked : Option Pend :=
              match rpend with
              | some p => some p
              | none => match fpend with
                | some p => some p
                | none => wpend
            match blocked with
            | some p => if rd != 0 || wr != 0 then (r, v, .ready ()) else (r, v, .pending p)
            | none => handshake sc fuel r v

/-- `while wants_write { ready!(write_io) }` of poll_flush / poll_close -/
def drainOut (sc : Sched) : Nat → Rtls → View → Rtls × View × PollR Unit
  | 0, r, v => (r, v, .err)
  | fuel + 1, r, v =>
    if !r.wantsWrite then (r, v, .ready ())
    else
      match writeIo sc r v with
      | (r, v, .ready n) => if n = 0 then (r, v, .err) else drainOut sc fuel r v
      | (r, v, .pending p) => (r, v, .pending p)
      | (r, v, .err) => (r, v, .err)

/-- `Stream::poll_flush` -/
def pollFlush (sc : Sched) (r : Rtls) (v : View) : Rtls × View × PollR Unit :=
  match drainOut sc sc.fuel r v with
  | (r, v, .ready ()) =>
    match ioFlush sc v with
    | (v, .ready ()) => (r, v, .ready ())
    | (v, .pending p) => (r, v, .pending p)
    | (v, .err) => (r, v, .err)
  | x => x

inductive HsFut where
  | handshaking
  | flushing
  | done
  | failed
  deriving Repr, DecidableEq

/-- `MidHandshake::poll` (the `while is_handshaking { try_poll!(handshake) }` loop, then the flush) -/
def pollMid (sc : Sched) : Nat → HsFut → Rtls → View → HsFut × Rtls × View × PollR Unit
  | 0, _, r, v => (.failed, r, v, .err)
  | fuel + 1, fut, r, v =>
    match fut with
    | .done => (.done, r, v, .ready ())
    | .failed => (.failed, r, v, .err)
    | .flushing =>
      match pollFlush sc r v with
      | (r, v, .ready ()) => (.done, r, v, .ready ())
      | (r, v, .pending p) => (.flushing, r, v, .pending p)
      | (r, v, _) => (.failed, r, v, .err)
    | .handshaking =>
      if r.handshaking then
        match handshake sc sc.fuel r v with
        | (r, v, .ready ()) => pollMid sc fuel .handshaking r v
        | (r, v, .pending p) => (.handshaking, r, v, .pending p)
        | (r, v, _) => (.failed, r, v, .err)
      else pollMid sc fuel .flushing r v

def pollHandshake (sc : Sched) (fut : HsFut) (r : Rtls) (v : View) : HsFut × Rtls × View × PollR Unit :=
  pollMid sc sc.fuel fut r v

/-- `TlsStream::poll_read` -/
def readLoop (sc : Sched) : Nat → Rtls → View → Rtls × View × Option (Option Pend)
  | 0, r, v => (r, v, none)
  | fuel + 1, r, v =>
    if !r.wantsRead then (r, v, some none)
    else
      match readIo sc r v with
      | (r, v, .ready n) => if n = 0 then (r, v, some none) else readLoop sc fuel r v
      | (r, v, .pending p) => (r, v, some (some p))
      | (r, v, .err) => (r, v, none)

def pollRead (sc : Sched) (r : Rtls) (v : View) (n : Nat) : Rtls × View × PollR (List UInt8) :=
  if r.rshut then (r, v, .ready [])
  else
    match readLoop sc sc.fuel r v with
    | (r, v, none) => (r, v, .err)
    | (r, v, some pend) =>
      if !r.pt.isEmpty then ({ r with pt := r.pt.drop n }, v, .ready (r.pt.take n))
      else if r.rcvdClose then ({ r with rshut := true }, v, .ready [])
      else if v.rx.closed && v.rx.q.isEmpty then (r, v, .err)        -- EOF without close_notify
      else
        match pend with
        | some p => (r, v, .pending p)
        | none => (r, { v with own := true }, .pending .self)      -- `cx.waker().wake_by_ref()`

def records : Nat → List UInt8 → List Cell
  | 0, _ => []
  | fuel + 1, buf =>
    if buf.isEmpty then [] else record (buf.take recordMax) ++ records fuel (buf.drop recordMax)

/-- `TlsStream::poll_write`: everything goes into the session's send buffer (the 64 KiB limit of the real
buffer is not modelled), then as much as the transport takes is written -/
def pollWrite (sc : Sched) (r : Rtls) (v : View) (buf : List UInt8) : Rtls × View × PollR Nat :=
  if r.wshut then (r, v, .err)
  else if buf.isEmpty then (r, v, .ready 0)
  else
    let r := { r with out := r.out ++ records sc.fuel buf }
    match drainOut sc sc.fuel r v with
    | (r, v, .err) => (r, v, .err)
    | (r, v, .panic) => (r, v, .panic)
    | (r, v, _) => (r, v, .ready buf.length)

/-- `TlsStream::poll_close`: queue close_notify once, write everything, close the transport -/
def pollClose (sc : Sched) (r : Rtls) (v : View) : Rtls × View × PollR Unit :=
  let r := if r.wshut then r else { r with out := r.out ++ alertRecord, wshut := true }
  match drainOut sc sc.fuel r v with
  | (r, v, .ready ()) =>
    match ioClose sc v with
    | (v, .ready ()) => (r, v, .ready ())
    | (v, .pending p) => (r, v, .pending p)
    | (v, .err) => (r, v, .err)
  | x => x

end Compio.TlsRustls
