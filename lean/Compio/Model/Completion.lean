/-
C02 — completion bookkeeping shared by both drivers and by the `Submit` / `SubmitMulti` futures.

Models, branch by branch:
  * compio-driver/src/key.rs        `RawOp::result : PushEntry<Option<Waker>, io::Result<usize>>`,
                                    `ErasedKey::{set_result, set_waker, has_result, take_result}`
  * compio-driver/src/lib.rs        `Entry::notify`, `Proactor::{pop, update_waker, push_with_extra (Ready arm)}`
  * compio-driver/src/sys/driver/iour/mod.rs   `push_raw` (overflow loop), `push_raw_with_key`, `poll_entries`,
                                    `poll_blocking`, `push`, `poll`, `cancel`
  * compio-runtime/src/future/{mod,future,stream}.rs   `poll_task`, `poll_multishot`, `Submit::poll`,
                                    `SubmitMulti::poll_next`

Core Lean only (linked into the driver executable `c02d`).

Ghost state (never read by the modelled code, only by the theorems): `src` (results produced *for* an
operation by the OS / a driver error path, i.e. every `Entry::new(key, res)` resp. CQE with that user_data),
`fin` (results passed to `set_result`), `dlv` (results handed to the user), `woken`, `wakeLog`, `uaf`.
-/
namespace Compio.Completion

abbrev Id := Nat
abbrev WakerId := Nat

/-- functional update -/
def upd {α : Type} (f : Nat → α) (k : Nat) (v : α) : Nat → α := fun x => if x = k then v else f x

@[simp] theorem upd_same {α : Type} (f : Nat → α) (k : Nat) (v : α) : upd f k v k = v := by simp [upd]
theorem upd_other {α : Type} (f : Nat → α) (k : Nat) (v : α) (x : Nat) (h : x ≠ k) : upd f k v x = f x := by
  simp [upd, h]

/-- `io::Result<usize>` canonicalised: byte count or raw OS error code -/
inductive Res where
  | ok (n : Nat)
  | err (code : Nat)
deriving DecidableEq, Repr, Inhabited

def ECANCELED : Nat := 125
def ETIMEDOUT : Nat := 110
def EPERM : Nat := 1
def EEXIST : Nat := 17
def ENOENT : Nat := 2
def EAGAIN : Nat := 11

/-- `RawOp::result` plus "no RawOp allocated" (before `Key::new`, after `take_result`). -/
inductive Slot where
  | free
  | pending (w : Option WakerId)
  | ready (r : Res)
deriving DecidableEq, Repr, Inhabited

def Slot.isReady : Slot → Bool
  | .ready _ => true
  | _ => false

/-- the store half of `set_result`: `mem::replace(&mut this.result, PushEntry::Ready(res))`;
    the returned waker is the one `set_result` wakes *afterwards*. -/
def Slot.store : Slot → Res → Slot × Option WakerId
  | .pending w, r => (.ready r, w)
  | .ready _, r => (.ready r, none)
  | .free, _ => (.free, none)

/-- `ErasedKey::set_waker` (the `will_wake` shortcut keeps an equal waker). -/
def Slot.setWaker : Slot → WakerId → Slot
  | .pending _, w => .pending (some w)
  | s, _ => s

structure WakeRec where
  op : Id
  waker : WakerId
  /-- was the slot already `Ready` when `wake` ran?  (`set_result` stores first, then wakes) -/
  readyAtWake : Bool
  /-- `wake` (consumes the registered waker) or `wake_by_ref` (multishot item) -/
  final : Bool
deriving DecidableEq, Repr

structure Keys where
  slot : Id → Slot := fun _ => .free
  /-- multishot items queued in the op (`push_multishot`) -/
  multi : Id → List Res := fun _ => []
  src : Id → List Res := fun _ => []
  fin : Id → List Res := fun _ => []
  dlv : Id → List Res := fun _ => []
  /-- `waker.wake()` calls made by `set_result` for this operation -/
  woken : Id → Nat := fun _ => 0
  /-- `wake_by_ref()` calls made for multishot items -/
  nudged : Id → Nat := fun _ => 0
  wakeLog : List WakeRec := []
  /-- a `set_result` reached an operation whose storage is gone -/
  uaf : Bool := false
  /-- ghost: `update_waker` was called for this operation while it was pending -/
  hadWaker : Id → Bool := fun _ => false
  /-- ghost: the waker passed to the LATEST `update_waker` made while the operation was pending -/
  lastWaker : Id → Option WakerId := fun _ => none

instance : Inhabited Keys := ⟨{}⟩

/-- `Key::new`: allocate the RawOp, `result = Pending(None)`. -/
def Keys.alloc (ks : Keys) (id : Id) : Keys := { ks with slot := upd ks.slot id (.pending none) }

/-- ghost: the OS / driver produced the final result `r` for `id` (an `Entry` or CQE now exists) -/
def Keys.produce (ks : Keys) (id : Id) (r : Res) : Keys := { ks with src := upd ks.src id (ks.src id ++ [r]) }

/-- first half of `ErasedKey::set_result`: `mem::replace(&mut this.result, Ready(res))`; returns the waker
    that was registered -/
def Keys.storeResult (ks : Keys) (id : Id) (r : Res) : Keys × Option WakerId :=
  ({ ks with slot := upd ks.slot id ((ks.slot id).store r).1,
             fin := upd ks.fin id (ks.fin id ++ [r]),
             uaf := ks.uaf || (ks.slot id == .free) },
   ((ks.slot id).store r).2)

/-- `waker.wake()` / `wake_by_ref()`; the log records whether the slot is `Ready` at this moment -/
def Keys.wake (ks : Keys) (id : Id) (w : WakerId) (final : Bool) : Keys :=
  { ks with woken := if final then upd ks.woken id (ks.woken id + 1) else ks.woken,
            nudged := if final then ks.nudged else upd ks.nudged id (ks.nudged id + 1),
            wakeLog := ks.wakeLog ++ [⟨id, w, (ks.slot id).isReady, final⟩] }

/-- `Entry::notify` = `ErasedKey::set_result`: store the result, THEN wake the registered waker. -/
def Keys.notify (ks : Keys) (id : Id) (r : Res) : Keys :=
  match ks.storeResult id r with
  | (ks1, none) => ks1
  | (ks1, some w) => ks1.wake id w true

/-- `Proactor::update_waker` -/
def Keys.setWaker (ks : Keys) (id : Id) (w : WakerId) : Keys :=
  { ks with slot := upd ks.slot id ((ks.slot id).setWaker w),
            hadWaker := match ks.slot id with
              | .pending _ => upd ks.hadWaker id true
              | _ => ks.hadWaker,
            lastWaker := match ks.slot id with
              | .pending _ => upd ks.lastWaker id (some w)
              | _ => ks.lastWaker }

/-- `Proactor::pop`: `has_result` ? `take_result` (the RawOp is consumed) : `Pending(key)`. -/
def Keys.pop (ks : Keys) (id : Id) : Keys × Option Res :=
  match ks.slot id with
  | .ready r => ({ ks with slot := upd ks.slot id .free, dlv := upd ks.dlv id (ks.dlv id ++ [r]) }, some r)
  | _ => (ks, none)

/-- the `Poll::Ready(res)` arm of `Proactor::push_with_extra`: `key.set_result(res); key.take_result()`. -/
def Keys.immediate (ks : Keys) (id : Id) (r : Res) : Keys := (((ks.produce id r).notify id r).pop id).1

/-- multishot CQE (`more` flag): `push_multishot` + `wake_by_ref` (the waker stays registered). -/
def Keys.pushMulti (ks : Keys) (id : Id) (r : Res) : Keys :=
  let ks1 : Keys := { ks with multi := upd ks.multi id (ks.multi id ++ [r]),
                               uaf := ks.uaf || (ks.slot id == .free) }
  match ks.slot id with
  | .pending (some w) => ks1.wake id w false
  | _ => ks1

/-- `Proactor::pop_multishot` on io_uring -/
def Keys.popMulti (ks : Keys) (id : Id) : Keys × Option Res :=
  match ks.multi id with
  | [] => (ks, none)
  | r :: rest => ({ ks with multi := upd ks.multi id rest }, some r)

/-! ## io_uring driver (`sys/driver/iour/mod.rs`) -/

inductive UserData where
  | key (id : Id)
  | cancel
  | notify
deriving DecidableEq, Repr

inductive Sqe where
  | op (id : Id)            -- user_data = key
  | cancelOf (id : Id)      -- AsyncCancel(key), user_data = CANCEL
  | notifier                -- multishot PollAdd on the eventfd, user_data = NOTIFY
deriving DecidableEq, Repr

structure Cqe where
  ud : UserData
  res : Res
  more : Bool
deriving DecidableEq, Repr

structure Ring where
  sq : List Sqe := []
  sqCap : Nat := 1
  /-- `in_flight`: keys leaked into user_data -/
  inflight : List Id := []
  cq : List Cqe := []
  needNotifier : Bool := true
  /-- `completed_tx/rx` -/
  chan : List (Id × Res) := []
  /-- blocking jobs dispatched to the thread pool and not finished -/
  pool : List Id := []
  keys : Keys := {}
  /-- ghost: operations the kernel owns (SQE consumed, final CQE not yet posted) -/
  kern : List Id := []
  /-- ghost: CQEs the overflow loop of `push_raw` drained, in order -/
  drained : List Cqe := []

instance : Inhabited Ring := ⟨{}⟩

/-- one CQE as handled by the loop body of `poll_entries` -/
def Ring.handleCqe (r : Ring) (c : Cqe) : Ring :=
  match c.ud with
  | .cancel => r
  | .notify => if c.more then r else { r with needNotifier := true }
  | .key id =>
    if c.more then { r with keys := r.keys.pushMulti id c.res }
    else { r with inflight := r.inflight.erase id, keys := r.keys.notify id c.res }

/-- `poll_entries`: drain the completion queue. -/
def Ring.pollEntries (r : Ring) : Ring :=
  r.cq.foldl Ring.handleCqe { r with cq := [] }

/-- `poll_blocking`: drain the `completed` channel. -/
def Ring.pollBlocking (r : Ring) : Ring × Bool :=
  (r.chan.foldl (fun (acc : Ring) (e : Id × Res) => { acc with keys := acc.keys.notify e.1 e.2 })
     { r with chan := [] }, !r.chan.isEmpty)

/-- What `io_uring_enter` does with the staged SQEs, as far as the driver can see: how many it consumes
    (`taken ≤ sq.length`) and which CQEs it has posted by the time the call returns. -/
structure Enter where
  taken : Nat
  posted : List Cqe
deriving Repr

/-- the kernel side of one `submit_auto`: consume `e.taken` SQEs (ops become kernel-owned), post `e.posted`;
    a final CQE for a key releases kernel ownership. -/
def Ring.enter (r : Ring) (e : Enter) : Ring :=
  let took := r.sq.take e.taken
  let newOps := took.filterMap fun | .op id => some id | _ => none
  let finals := e.posted.filterMap fun c => match c.ud with | .key id => if c.more then none else some id | _ => none
  { r with sq := r.sq.drop e.taken,
           cq := r.cq ++ e.posted,
           kern := (r.kern ++ newOps).filter (fun id => !finals.contains id),
           keys := e.posted.foldl (fun ks c => match c.ud with
                     | .key id => if c.more then ks else ks.produce id c.res
                     | _ => ks) r.keys }

inductive PushRaw where
  | ok
  /-- the fuel ran out: the kernel refused to take SQEs `fuel` times in a row (the Rust loop would spin) -/
  | spin
deriving DecidableEq, Repr

/-- `push_raw`: `loop { if squeue.push(entry).is_ok() { break } submit_auto(ZERO); poll_entries() }`.
    The list is what each successive `submit_auto` inside the loop does (script exhausted = the kernel
    would have to be asked again: the Rust loop keeps spinning). -/
def pushRawAux (e : Sqe) : List Enter → Ring → Ring × PushRaw
  | [], r => if r.sq.length < r.sqCap then ({ r with sq := r.sq ++ [e] }, .ok) else (r, .spin)
  | en :: rest, r =>
    if r.sq.length < r.sqCap then ({ r with sq := r.sq ++ [e] }, .ok)
    else
      let r1 := r.enter en
      pushRawAux e rest { r1.pollEntries with drained := r1.drained ++ r1.cq }

def Ring.pushRaw (r : Ring) (e : Sqe) (script : List Enter) : Ring × PushRaw := pushRawAux e script r

/-- `push` for an operation that has an SQE: `push_raw_with_key` (insert into `in_flight`, leak the key). -/
def Ring.pushOp (r : Ring) (id : Id) (script : List Enter) : Ring × PushRaw :=
  let r0 := { r with keys := r.keys.alloc id }
  match r0.pushRaw (.op id) script with
  | (r1, .ok) => ({ r1 with inflight := id :: r1.inflight }, .ok)
  | (r1, .spin) => (r1, .spin)

/-- `push` for `OpEntry::Blocking`: `push_blocking`. -/
def Ring.pushBlocking (r : Ring) (id : Id) : Ring :=
  { r with keys := r.keys.alloc id, pool := id :: r.pool }

/-- a thread-pool job finishes: `completed.send(Entry::new(key, res))` -/
def Ring.jobDone (r : Ring) (id : Id) (res : Res) : Ring :=
  { r with pool := r.pool.erase id, chan := r.chan ++ [(id, res)], keys := r.keys.produce id res }

/-- `Driver::cancel`: raw `squeue.push(AsyncCancel)`, dropped with a warning when the queue is full. -/
def Ring.cancel (r : Ring) (id : Id) : Ring :=
  if r.sq.length < r.sqCap then { r with sq := r.sq ++ [.cancelOf id] } else r

/-- `Driver::poll` (zero timeout): `poll_blocking` short-cut, notifier re-arm through `push_raw`,
    `submit_auto`, `poll_entries`.  `script` feeds the `push_raw` of the notifier, `last` is the final
    `submit_auto`. -/
def Ring.poll (r : Ring) (script : List Enter) (last : Enter) : Ring × PushRaw :=
  match r.pollBlocking with
  | (r1, true) => (r1, .ok)
  | (r1, false) =>
    let step : Ring × PushRaw := if r1.needNotifier then
        match r1.pushRaw .notifier script with
        | (r2, .ok) => ({ r2 with needNotifier := false }, PushRaw.ok)
        | (r2, .spin) => (r2, PushRaw.spin)
      else (r1, PushRaw.ok)
    match step with
    | (r2, PushRaw.spin) => (r2, PushRaw.spin)
    | (r2, PushRaw.ok) => ((r2.enter last).pollEntries, PushRaw.ok)

/-! ### the io_uring driver as a labelled transition system -/

inductive RStep where
  | pushOp (id : Id) (script : List Enter)
  | pushBlocking (id : Id)
  | jobDone (id : Id) (res : Res)
  | poll (script : List Enter) (last : Enter)
  /-- the kernel posts completions on its own (an armed request became ready) -/
  | kernel (posted : List Cqe)
  | pop (id : Id)
  | setWaker (id : Id) (w : WakerId)
  | cancel (id : Id)
deriving Repr

def Ring.step (r : Ring) : RStep → Ring
  | .pushOp id script => (r.pushOp id script).1
  | .pushBlocking id => r.pushBlocking id
  | .jobDone id res => r.jobDone id res
  | .poll script last => (r.poll script last).1
  | .kernel posted => r.enter ⟨0, posted⟩
  | .pop id => { r with keys := (r.keys.pop id).1 }
  | .setWaker id w => { r with keys := r.keys.setWaker id w }
  | .cancel id => r.cancel id

/-! ## `Submit` / `SubmitMulti` futures (compio-runtime/src/future) -/

inductive FutState where
  | idle
  | submitted
  | finished          -- `SubmitMulti` only
  | gone              -- `state = None`
deriving DecidableEq, Repr

inductive PollOut where
  | pending
  | ready (r : Res)
  | item (r : Res)    -- `Poll::Ready(Some(item))` of the stream
  | eos               -- `Poll::Ready(None)` of the stream
  | panic             -- "Cannot poll after ready"
deriving DecidableEq, Repr

/-- `poll_task`: `driver.pop(key).map_pending(|k| { driver.update_waker(&k, waker); k })` -/
def pollTask (ks : Keys) (id : Id) (w : WakerId) : Keys × Option Res :=
  match ks.pop id with
  | (ks', some r) => (ks', some r)
  | (ks', none) => (ks'.setWaker id w, none)

/-- `Submit::poll`.  `push` is the driver's `push_with_extra` for this operation: it returns the new
    driver state and `some res` for `PushEntry::Ready`.  The loop runs at most twice (Idle → Submitted). -/
def submitPoll {σ : Type} (push : σ → Id → σ × Option Res) (getK : σ → Keys) (setK : σ → Keys → σ)
    (s : σ) (st : FutState) (id : Id) (w : WakerId) : σ × FutState × PollOut :=
  match st with
  | .gone | .finished => (s, .gone, .panic)
  | .submitted =>
    match pollTask (getK s) id w with
    | (ks, some r) => (setK s ks, .gone, .ready r)
    | (ks, none) => (setK s ks, .submitted, .pending)
  | .idle =>
    match push s id with
    | (s1, some r) => (s1, .gone, .ready r)
    | (s1, none) =>
      match pollTask (getK s1) id w with
      | (ks, some r) => (setK s1 ks, .gone, .ready r)
      | (ks, none) => (setK s1 ks, .submitted, .pending)

/-- `poll_multishot`: `pop_multishot` else `update_waker` -/
def pollMultishot (ks : Keys) (id : Id) (w : WakerId) : Keys × Option Res :=
  match ks.popMulti id with
  | (ks', some r) => (ks', some r)
  | (ks', none) => (ks'.setWaker id w, none)

def multiSubmitted (ks : Keys) (id : Id) (w : WakerId) : Keys × FutState × PollOut :=
  match pollMultishot ks id w with
  | (ks1, some r) => (ks1, .submitted, .item r)
  | (ks1, none) =>
    match pollTask ks1 id w with
    | (ks2, some r) => (ks2, .finished, .item r)
    | (ks2, none) => (ks2, .submitted, .pending)

/-- `SubmitMulti::poll_next` -/
def submitMultiPoll {σ : Type} (push : σ → Id → σ × Option Res) (getK : σ → Keys) (setK : σ → Keys → σ)
    (s : σ) (st : FutState) (id : Id) (w : WakerId) : σ × FutState × PollOut :=
  match st with
  | .gone => (s, .gone, .panic)
  | .finished => (s, .finished, .eos)
  | .submitted =>
    match multiSubmitted (getK s) id w with
    | (ks, st', o) => (setK s ks, st', o)
  | .idle =>
    match push s id with
    | (s1, some r) => (s1, .finished, .item r)
    | (s1, none) =>
      match multiSubmitted (getK s1) id w with
      | (ks, st', o) => (setK s1 ks, st', o)

end Compio.Completion
