/-
Model of compio-io/src/compat/async_stream.rs (`AsyncStream` = `AsyncReadStream` + `AsyncWriteStream`
over the two halves of a `SyncStream`) and compat/waker_array.rs.

* Each half keeps at most one boxed in-flight future (`read_future`; `write_future` xor
  `shutdown_future`) and three waker slots, one per entry point
  (read half: `poll_read`, `poll_read_uninit`, `poll_fill_buf`;
   write half: `poll_write`, `poll_flush`, `poll_close`).
* The in-flight future is polled with a `WakerArrayRef` over the three slots; an inner stream
  that returns Pending clones that waker, i.e. takes a *snapshot* of the tasks in the slots
  (`WakerArrayRef::clone` → `to_owned`). Waking the snapshot — by reference or by value, through
  whichever clone of the aggregate waker and however many other clones are alive — wakes every
  task in it, in slot order (the harness' inner stream exercises the waking styles take / by-ref /
  clone-while-registered / clone-with-registration-kept).
* Tasks are natural numbers. `owed` is ghost: per entry point the task whose latest call of that
  entry point returned Pending and which has not been woken since.
Core Lean only.
-/
import Compio.Model.SyncStream

namespace Compio.PollAdapter
open Compio.SyncStream

/-- the three entry points of a half -/
inductive Entry where
  | a | b | c
  deriving Repr, DecidableEq

/-- three waker slots (`Option<Waker>` each) -/
structure Slots where
  a : Option Nat
  b : Option Nat
  c : Option Nat
  deriving Repr, DecidableEq

def Slots.empty : Slots := ⟨none, none, none⟩

def Slots.get (s : Slots) : Entry → Option Nat
  | .a => s.a
  | .b => s.b
  | .c => s.c

def Slots.set (s : Slots) (e : Entry) (v : Option Nat) : Slots :=
  match e with
  | .a => { s with a := v }
  | .b => { s with b := v }
  | .c => { s with c := v }

def optList : Option Nat → List Nat
  | some t => [t]
  | none => []

/-- `WakerArrayRef::to_owned` then `wake_by_ref`: the tasks woken, in slot order -/
def Slots.tasks (s : Slots) : List Nat := optList s.a ++ optList s.b ++ optList s.c

/-- result of a poll entry point -/
inductive Out where
  | pending
  | bytes (b : Bytes)        -- `Ready(Ok(..))` of poll_read / poll_read_uninit / poll_fill_buf, or `consume`
  | num (n : Nat)            -- `Ready(Ok(n))` of poll_write
  | unit                     -- `Ready(Ok(()))`
  | err (e : Err)
  | panic
  | hang                     -- the retry loop did not finish within the model's fuel
  deriving Repr, DecidableEq

/-! ### read half -/

structure ARead where
  r : RSide
  slots : Slots
  /-- `read_future.is_some()` (then it is suspended in the inner read and owns the buffer) -/
  fut : Bool
  owed : Slots
  deriving Repr, DecidableEq

def ARead.new (base max : Nat) (rs : List RItem) : ARead :=
  ⟨RSide.new base max rs, Slots.empty, false, Slots.empty⟩

/-- `poll_read_impl`: poll the in-flight `fill_read_buf()` future (create it if there is none) -/
def ARead.pollImpl (a : ARead) : ARead × Option (Res Nat) :=
  let snap := a.slots.tasks
  if a.fut then
    match a.r.fillPoll snap with
    | (r, none) => ({ a with r }, none)
    | (r, some res) => ({ a with r, fut := false }, some res)
  else
    match a.r.fillStart with
    | (r, some res) => ({ a with r }, some res)
    | (r, none) =>
      match r.fillPoll snap with
      | (r, none) => ({ a with r, fut := true }, none)
      | (r, some res) => ({ a with r }, some res)

/-- the `loop { poll_future_would_block!(..) }` of the three read entry points; `f` is the
synchronous call (`Read::read`, `read_buf_uninit`, `BufRead::fill_buf`) -/
def ARead.pollLoop (a : ARead) (e : Entry) (f : RSide → RSide × Res Bytes) : Nat → ARead × Out
  | 0 => (a, .hang)
  | fuel + 1 =>
    match f a.r with
    | (r, .ok b) => ({ a with r, slots := a.slots.set e none }, .bytes b)
    | (r, .err .wb) =>
      match ({ a with r }).pollImpl with
      | (a', none) => (a', .pending)
      | (a', some (.ok _)) => ARead.pollLoop a' e f fuel
      | (a', some (.err k)) => (a', .err k)
      | (a', some .panic) => (a', .panic)
    | (r, .err k) => ({ a with r, slots := a.slots.set e none }, .err k)
    | (r, .panic) => ({ a with r }, .panic)

/-- fuel of the model's retry loops beyond one round per remaining script item of the inner
stream: enough for every loop that ends at all (`Props.C12.async_read_terminates`,
`async_write_terminates`); running out of it means the real call never returns -/
def loopFuel : Nat := 4

/-- an entry point called by task `t`: `replace_waker`, then the loop -/
def ARead.poll (a : ARead) (e : Entry) (t : Nat) (f : RSide → RSide × Res Bytes) : ARead × Out :=
  ({ a with slots := a.slots.set e (some t) }).pollLoop e f (loopFuel + a.r.script.length)

/-! ### write half -/

structure AWrite where
  w : WSide
  slots : Slots
  wfut : WFut
  /-- `shutdown_future.is_some()` -/
  sfut : Bool
  closed : Bool
  owed : Slots
  deriving Repr, DecidableEq

def AWrite.new (base max : Nat) (ws : List WItem) : AWrite :=
  ⟨WSide.new base max ws, Slots.empty, .idle, false, false, Slots.empty⟩

/-- `poll_flush_impl` -/
def AWrite.pollFlushImpl (a : AWrite) : AWrite × Option (Res Nat) :=
  match a.w.flushResume a.slots.tasks a.wfut with
  | (w, fut, res) => ({ a with w, wfut := fut }, res)

/-- `poll_close_impl` -/
def AWrite.pollCloseImpl (a : AWrite) : AWrite × Option (Res Unit) :=
  if a.closed then (a, some (.ok ()))
  else
    match a.w.shutdownPoll a.slots.tasks with
    | (w, none) => ({ a with w, sfut := true }, none)
    | (w, some (.ok u)) => ({ a with w, sfut := false, closed := true }, some (.ok u))
    | (w, some r) => ({ a with w, sfut := false }, some r)

/-- the loop of `poll_write` -/
def AWrite.writeLoop (a : AWrite) (src : Bytes) : Nat → AWrite × Out
  | 0 => (a, .hang)
  | fuel + 1 =>
    match a.w.write src with
    | (w, .ok n) => ({ a with w, slots := a.slots.set .a none }, .num n)
    | (w, .err .wb) =>
      match ({ a with w }).pollFlushImpl with
      | (a', none) => (a', .pending)
      | (a', some (.ok _)) => AWrite.writeLoop a' src fuel
      | (a', some (.err k)) => (a', .err k)
      | (a', some .panic) => (a', .panic)
    | (w, .err k) => ({ a with w, slots := a.slots.set .a none }, .err k)
    | (w, .panic) => ({ a with w }, .panic)

/-- `if self.shutdown_future.is_some() { debug_assert!(write_future.is_none()); ready!(poll_close_impl())?; }`
`none` = fall through -/
def AWrite.shutdownGate (a : AWrite) : AWrite × Option Out :=
  if a.sfut then
    if a.wfut ≠ .idle then (a, some .panic)
    else
      match a.pollCloseImpl with
      | (a', none) => (a', some .pending)
      | (a', some (.ok _)) => (a', none)
      | (a', some (.err k)) => (a', some (.err k))
      | (a', some .panic) => (a', some .panic)
  else (a, none)

def AWrite.pollWrite (a : AWrite) (t : Nat) (src : Bytes) : AWrite × Out :=
  let a := { a with slots := a.slots.set .a (some t) }
  match a.shutdownGate with
  | (a', some o) => (a', o)
  | (a', none) => a'.writeLoop src (loopFuel + a'.w.script.length)

def AWrite.pollFlush (a : AWrite) (t : Nat) : AWrite × Out :=
  let a := { a with slots := a.slots.set .b (some t) }
  match a.shutdownGate with
  | (a', some o) => (a', o)
  | (a', none) =>
    match a'.pollFlushImpl with
    | (a'', none) => (a'', .pending)
    | (a'', some res) =>
      let a3 := { a'' with slots := a''.slots.set .b none }
      match res with
      | .ok _ => (a3, .unit)
      | .err k => (a3, .err k)
      | .panic => (a'', .panic)

/-- the second half of `poll_close`: `poll_close_impl`, then `close_waker.take()` -/
def AWrite.closeTail (a : AWrite) : AWrite × Out :=
  match a.pollCloseImpl with
  | (a', none) => (a', .pending)
  | (a', some res) =>
    let a3 := { a' with slots := a'.slots.set .c none }
    match res with
    | .ok _ => (a3, .unit)
    | .err k => (a3, .err k)
    | .panic => (a', .panic)

/-- `poll_close` after `replace_waker` -/
def AWrite.closeBody (a : AWrite) : AWrite × Out :=
  -- `self.write_future.is_some() || self.inner.has_pending_write()`
  let need : Option Bool := if a.wfut ≠ .idle then some true else a.w.hasPending
  match need with
  | none => (a, .panic)
  | some false => a.closeTail
  | some true =>
    if a.sfut then (a, .panic)   -- debug_assert!(self.shutdown_future.is_none())
    else
      match a.pollFlushImpl with
      | (a', none) => (a', .pending)
      | (a', some (.ok _)) => a'.closeTail
      | (a', some (.err k)) => (a', .err k)
      | (a', some .panic) => (a', .panic)

def AWrite.pollClose (a : AWrite) (t : Nat) : AWrite × Out :=
  ({ a with slots := a.slots.set .c (some t) }).closeBody

/-! ### the whole adapter, one operation per line of a test case -/

inductive Op where
  | pr (t n : Nat)       -- poll_read by task t into a buffer of n bytes
  | pru (t n : Nat)      -- poll_read_uninit
  | pfb (t : Nat)        -- poll_fill_buf
  | co (n : Nat)         -- consume
  | pw (t : Nat) (bs : Bytes)
  | pfl (t : Nat)
  | pcl (t : Nat)
  deriving Repr, DecidableEq

structure State where
  ar : ARead
  aw : AWrite
  deriving Repr, DecidableEq

def State.new (base max : Nat) (rs : List RItem) (ws : List WItem) : State :=
  ⟨ARead.new base max rs, AWrite.new base max ws⟩

/-- ghost bookkeeping of the wake obligations after a call of entry `e` by task `t` -/
def owedAfter (owed : Slots) (event : Bool) (e : Entry) (t : Nat) (o : Out) : Slots :=
  (if event then Slots.empty else owed).set e (if o = .pending then some t else none)

def ARead.call (a0 : ARead) (e : Entry) (t : Nat) (f : RSide → RSide × Res Bytes) : ARead × Out :=
  let a : ARead := { a0 with r := a0.r.clearObs }
  let (a', o) := a.poll e t f
  ({ a' with owed := owedAfter a.owed a'.r.event e t o }, o)

def AWrite.call (a0 : AWrite) (e : Entry) (t : Nat) (g : AWrite → AWrite × Out) : AWrite × Out :=
  let a : AWrite := { a0 with w := a0.w.clearObs }
  let (a', o) := g a
  ({ a' with owed := owedAfter a.owed a'.w.event e t o }, o)

def Out.ofBytes : Res Bytes → Out
  | .ok b => .bytes b
  | .err e => .err e
  | .panic => .panic

def step (s : State) (op : Op) : State × Out :=
  match op with
  | .pr t n =>
    let (ar, o) := s.ar.call .a t (fun r => r.read n)
    ({ s with ar }, o)
  | .pru t n =>
    let (ar, o) := s.ar.call .b t (fun r => r.read n)
    ({ s with ar }, o)
  | .pfb t =>
    let (ar, o) := s.ar.call .c t (fun r => (r, r.fillBuf))
    ({ s with ar }, o)
  | .co n =>
    let a : ARead := { s.ar with r := s.ar.r.clearObs }
    let (r, res) := a.r.consume n
    ({ s with ar := { a with r } }, Out.ofBytes res)
  | .pw t bs =>
    let (aw, o) := s.aw.call .a t (fun a => a.pollWrite t bs)
    ({ s with aw }, o)
  | .pfl t =>
    let (aw, o) := s.aw.call .b t (fun a => a.pollFlush t)
    ({ s with aw }, o)
  | .pcl t =>
    let (aw, o) := s.aw.call .c t (fun a => a.pollClose t)
    ({ s with aw }, o)

def run (s : State) : List Op → State × List Out
  | [] => (s, [])
  | op :: ops =>
    let (s', o) := step s op
    let (s'', os) := run s' ops
    (s'', o :: os)

/-- bytes an output hands to the caller (`poll_fill_buf` only lends) -/
def Out.taken : Op → Out → Bytes
  | .pr _ _, .bytes b => b
  | .pru _ _, .bytes b => b
  | .co _, .bytes b => b
  | _, _ => []

def Out.acceptedOf : Op → Out → Bytes
  | .pw _ bs, .num n => bs.take n
  | _, _ => []

end Compio.PollAdapter
