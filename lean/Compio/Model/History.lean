/-
C19: trace acceptors for histories recorded on the real cluster when the schedule is not controlled
(several workers, several sender threads). The harness cannot predict those runs; it emits what each
entity observed and the driver answers `accept` / `reject <why>`.

The predicates are the *observable projections* of the transition system of Model/Actor.lean:
Props/C19.lean proves that every schedule of the model satisfies the lifecycle and FIFO acceptors
(`model_life_accepted`, `model_fifo_accepted`), so a history they reject is a behaviour the model cannot
produce. The call / name / supervision acceptors restate `reply_comes_from_the_handler`,
`at_most_one_actor_per_name` / `name_free_after_drop` and the emission order of `Cluster::start` on the
observed data; for them no "model ⊆ acceptor" theorem is proved (see notes/C19.md).

Core Lean only (the driver `c19d` links this file).
-/
import Compio.Model.Actor

namespace Compio.History
open Compio.Actor

/-! ### lifecycle: the actor's own log -/

/-- what is known about the actor when the log was taken -/
inductive Fate where
  | exited        -- its `ActorHandle` resolved
  | startFailed   -- `spawn` returned `SpawnError::Start`
  | unknown       -- still running, or nobody could observe it
  deriving DecidableEq, Repr

def lifeOk (fate : Fate) (log : List Obs) : Bool :=
  match lifeRun .fresh log with
  | none => false
  | some l =>
    match fate with
    | .exited => l == .done
    | .startFailed => l == .deadStart
    | .unknown => true

/-! ### FIFO / at most once / completeness, per sender thread -/

/-- `l` is a prefix of `m` -/
def isPrefix : List Nat → List Nat → Bool
  | [], _ => true
  | _ :: _, [] => false
  | a :: l, b :: m => a == b && isPrefix l m

def nodup : List Nat → Bool
  | [] => true
  | a :: l => !l.contains a && nodup l

/-- `handled`: ids in the order the handlers ran; `senders`: per sender thread, the ids whose send was
accepted, in that thread's program order; `complete`: the actor was alive and idle when the log was taken
(a barrier call sent after all sends was answered), so nothing accepted may be missing. -/
def fifoOk (complete : Bool) (handled : List Nat) (senders : List (List Nat)) : Bool :=
  nodup handled &&
  handled.all (fun m => senders.any (·.contains m)) &&
  senders.all (fun acc =>
    let mine := handled.filter acc.contains
    isPrefix mine acc && (!complete || mine.length == acc.length))

/-! ### calls -/

inductive CallSeen where
  | reply | noReply | full | closed | pending
  /-- accepted by an actor that is alive and idle, and never answered -/
  | hang
  deriving DecidableEq, Repr

/-- one call against what the target actor handled: a reply / NoReply needs the handler to have run,
Full / Closed means it never will; a call may stay pending while the actor lives -- and (the behaviour of
the code as it is, finding F14) when its envelope was still queued at exit. -/
def callOk (exited : Bool) (handled : List Nat) (id : Nat) (r : CallSeen) : Bool :=
  match r with
  | .reply | .noReply => handled.contains id
  | .full | .closed => !handled.contains id
  | .pending => !exited || !handled.contains id
  | .hang => false

def callsOk (exited : Bool) (handled : List Nat) (cs : List (Nat × CallSeen)) : Bool :=
  cs.all fun c => callOk exited handled c.1 c.2

/-! ### names: observed lifetimes `[pre_start … post_stop]` of the actors registered under one name -/

def disjoint : List (Nat × Nat) → Bool
  | [] => true
  | (s, e) :: rest => rest.all (fun q => e < q.1 || q.2 < s) && disjoint rest

/-! ### supervision: what a supervisor that outlived the child saw of it -/

/-- `postStartOk`: the child's `post_start` succeeded; `exit`: 1 = `Stopped`, 2 = `Failed`, 0 = not exited;
`seen`: event kinds in the order handled (0 started, 1 terminated, 2 failed) -/
def supOk (postStartOk : Bool) (exit : Nat) (seen : List Nat) : Bool :=
  seen == (if postStartOk then [0] else []) ++ (if exit == 0 then [] else [exit])

/-! ### text form -/

def parseObs (t : String) : Option Obs :=
  let cs := t.toList
  match cs with
  | ['p', 's', r] => if r == '+' then some (.hook .preStart true) else if r == '-' then some (.hook .preStart false) else none
  | ['p', 'o', r] => if r == '+' then some (.hook .postStart true) else if r == '-' then some (.hook .postStart false) else none
  | ['p', 'r', r] => if r == '+' then some (.hook .preStop true) else if r == '-' then some (.hook .preStop false) else none
  | ['p', 't', r] => if r == '+' then some (.hook .postStop true) else if r == '-' then some (.hook .postStop false) else none
  | 'h' :: ds => (String.ofList ds).toNat?.map Obs.hs
  | 'e' :: ds =>
    match ds.reverse with
    | r :: sd =>
      match (String.ofList sd.reverse).toNat? with
      | some m => if r == '+' then some (.he m true) else if r == '-' then some (.he m false) else none
      | none => none
    | [] => none
  | _ => none

def allSome {α : Type} : List (Option α) → Option (List α)
  | [] => some []
  | none :: _ => none
  | some a :: r => (allSome r).map (a :: ·)

def natList (s : String) : Option (List Nat) :=
  if s = "-" then some [] else allSome ((s.splitOn ",").map (·.toNat?))

def parseSeen (s : String) : Option CallSeen :=
  match s with
  | "r" => some .reply | "n" => some .noReply | "f" => some .full | "c" => some .closed | "p" => some .pending
  | "h" => some .hang
  | _ => none

def parseCall (s : String) : Option (Nat × CallSeen) :=
  match s.splitOn ":" with
  | [i, r] => match i.toNat?, parseSeen r with
    | some i, some r => some (i, r)
    | _, _ => none
  | _ => none

def parseIv (s : String) : Option (Nat × Nat) :=
  match s.splitOn ":" with
  | [a, b] => match a.toNat?, b.toNat? with
    | some a, some b => some (a, b)
    | _, _ => none
  | _ => none

def verdict (b : Bool) (why : String) : String := if b then "accept" else "reject " ++ why

def judgeLine (ws : List String) : String :=
  match ws with
  | "life" :: fate :: toks =>
    -- `open2` / `open3`: a stop hook found its own mailbox still open (never produced by the model:
    -- `closed_during_stop_hooks`)
    if toks.any (fun t => t.startsWith "open" || t.startsWith "stopgranted") then "reject lifecycle" else
    let fate? : Option Fate := match fate with
      | "X" => some .exited | "F" => some .startFailed | "L" => some .unknown | _ => none
    match fate?, allSome (toks.map parseObs) with
    | some f, some log => verdict (lifeOk f log) "lifecycle"
    | _, _ => "bad-op"
  | ["fifo", c, handled, senders] =>
    match natList handled, allSome ((senders.splitOn ";").map natList) with
    | some h, some ss =>
      if c = "C" then verdict (fifoOk true h ss) "fifo"
      else if c = "P" then verdict (fifoOk false h ss) "fifo"
      else "bad-op"
    | _, _ => "bad-op"
  | ["once", ids] =>
    match natList ids with
    | some l => verdict (nodup l) "handled-twice"
    | none => "bad-op"
  | "calls" :: x :: handled :: cs =>
    match natList handled, allSome (cs.map parseCall) with
    | some h, some cs =>
      if x != "X" && x != "L" then "bad-op"
      else if cs.any (fun c => c.2 == CallSeen.hang) then "reject call-hangs"
      else if x = "X" then verdict (callsOk true h cs) "call"
      else if x = "L" then verdict (callsOk false h cs) "call"
      else "bad-op"
    | _, _ => "bad-op"
  | ["rejected", ids] =>
    match natList ids with
    | some l => verdict l.isEmpty "rejected-handled"
    | none => "bad-op"
  | ["reuse", n] =>
    match n.toNat? with
    | some k => verdict (k == 0) "name-not-free"
    | none => "bad-op"
  | ["sup", po, ex, seen] =>
    let po? : Option Bool := if po = "1" then some true else if po = "0" then some false else none
    let ex? : Option Nat := if ex = "S" then some 1 else if ex = "E" then some 2 else if ex = "N" then some 0 else none
    match po?, ex?, natList seen with
    | some po, some ex, some seen => verdict (supOk po ex seen) "supervision"
    | _, _, _ => "bad-op"
  | ["stuck", _] => "reject stuck"
  | ["abort"] => "reject abort"          -- the process running the scenario was aborted
  | ["hang"] => "reject hang"
  | "panic" :: _ => "reject panic"
  | ["supp", po, ex, seen] =>
    -- the supervisor stopped at some point: a prefix of what the child told it (`supervision_notifications`)
    let po? : Option Bool := if po = "1" then some true else if po = "0" then some false else none
    let ex? : Option Nat := if ex = "S" then some 1 else if ex = "E" then some 2 else if ex = "N" then some 0 else none
    match po?, ex?, natList seen with
    | some po, some ex, some seen =>
      verdict (isPrefix seen ((if po then [0] else []) ++ (if ex == 0 then [] else [ex]))) "supervision"
    | _, _, _ => "bad-op"
  | ["respawn", n, t] =>
    -- restarts under the old name issued on `terminated` / `failed` (`exit_notice_after_name_release`)
    match n.toNat?, t.toNat? with
    | some n, some t => verdict (t == 0 && t ≤ n) "respawn-name-taken"
    | _, _ => "bad-op"
  | ["gwindow", ivs, ms] =>
    -- every cast this actor handled overlaps one of its membership windows
    -- (`group_send_uses_current_membership`, `group_no_delivery_to_departed_member`)
    match (if ivs = "-" then some [] else allSome ((ivs.splitOn ",").map parseIv)), allSome ((ms.splitOn ",").map parseIv) with
    | some ivs, some ms => verdict (ms.all fun m => ivs.any fun iv => iv.1 < m.2 && m.1 < iv.2) "routed-to-non-member"
    | _, _ => "bad-op"
  | ["gsink", n, k] =>
    -- an always-available member was present: no cast handed back (`group_send_not_lost_while_available`)
    match n.toNat?, k.toNat? with
    | some n, some k => verdict (n == k) "cast-lost"
    | _, _ => "bad-op"
  | ["refail", a, b, c] =>
    -- failed start observed by the spawner while the failed actor is still being torn down / immediate respawn
    -- under the same name accepted / it ran (`name_free_when_start_failure_observed`, `name_free_after_drop`)
    if [a, b, c].all (fun f => f = "0" || f = "1") then
      verdict ([a, b, c].all (· = "1")) "name-not-released"
    else "bad-op"
  | ["overlap", a, b, c, d, e] =>
    -- second spawn under a name still being started: refused / name hidden while starting / visible once
    -- started / resolves to the first actor / free after both are gone (`at_most_one_actor_per_name`,
    -- `lookup_iff_activated`, `name_free_after_drop`)
    if [a, b, c, d, e].all (fun f => f = "0" || f = "1") then
      verdict ([a, b, c, d, e].all (· = "1")) "overlapping-spawn"
    else "bad-op"
  | "names" :: ivs =>
    match allSome (ivs.map parseIv) with
    | some l => verdict (disjoint l) "name-overlap"
    | none => "bad-op"
  | _ => "bad-op"

end Compio.History
