/-
Model of one compio-actor actor and its mailbox (C19, S1 shape): a labelled transition system whose
events are the *atomic actions* of the code, so that every interleaving of sender threads, stoppers
and the actor task is a `List Ev`.

  compio-actor/src/mailbox/mod.rs       MailboxInner::{send, stop, begin_stop, is_closed}
  compio-actor/src/mailbox/receiver.rs  Receiver::recv (select_biased: stop first, then messages), make_mailbox
  compio-actor/src/mailbox/call.rs      call_with (oneshot reply channel carried inside the envelope)
  compio-actor/src/actor/deliver.rs     run, finish
  compio-actor/src/cluster/spawn.rs     the dispatched closure of Cluster::start (pre_start, activate,
                                        started_tx.send, run | finish, drop(reg))

Assumed (flume 0.12 contract, trusted base A-E3): a bounded channel is a FIFO of at most `cap` items;
`try_send` answers Disconnected once every receiver is gone, Full when `len = cap`, and enqueues otherwise;
`recv_async` yields the head; dropping the last receiver disconnects the channel but does **not** discard
queued items (they live until the last sender is gone) -- see flume `Shared::disconnect_all`.

Non-atomic operations are split at their atomic reads/writes:
  send  = `is_closed()` check (`sendCheck`)  then `try_send` (`sendPush`)
  stop  = `stopping.swap(true)` (`stopSwap`) then `stop.try_send(())` (`stopPush`)
  recv  = poll of the stop channel (`pollStop`) then poll of the message channel (`pollMsg`)
Core Lean only (the driver `c19d` links this file).
-/
namespace Compio.Actor

inductive Hook where
  | preStart | postStart | preStop | postStop
  deriving DecidableEq, Repr

/-- what an actor's user code observes, in the order the actor task executes it -/
inductive Obs where
  | hook (h : Hook) (ok : Bool)
  | hs (m : Nat)                -- handler of message `m` entered
  | he (m : Nat) (ok : Bool)    -- handler of message `m` returned `Ok`/`Err`
  deriving DecidableEq, Repr

/-- `ActorExit`: `Stopped` / `Failed(error)`; the error is a code: 2 post_start, 3 pre_stop, 4 post_stop,
`100 + id` handler of message `id` -/
inductive Exit where
  | stopped
  | failed (code : Nat)
  deriving DecidableEq, Repr

/-- an envelope: message id, whether it is a `Call` (carries a oneshot reply sender), and an opaque
`kind` the driver uses to pick the handler's script (the transition system ignores it) -/
structure Item where
  id : Nat
  call : Bool := false
  kind : Nat := 0
  deriving DecidableEq, Repr

/-- how a call ended for the caller: `Ok(reply)`, `Err(NoReply)`, `Err(Full)`, `Err(Closed)` -/
inductive Res where
  | reply (v : Nat)
  | noReply
  | full
  | closed
  deriving DecidableEq, Repr

/-- `Result<(), DeliverError>` of `Mailbox::send` -/
inductive SendRes where
  | ok | full | closed
  deriving DecidableEq, Repr

/-- registration token (`Option<Registration>` captured by the dispatched closure) -/
inductive Tok where
  | unnamed      -- spawned without a name
  | reserved     -- `Registry::reserve` succeeded, entry is `None`
  | active       -- `Registration::activate`: entry is `Some(mailbox)`
  | dropped      -- `Drop for Registration`: entry removed
  deriving DecidableEq, Repr

def Tok.activate : Tok → Tok
  | .reserved => .active
  | t => t

def Tok.release : Tok → Tok
  | .unnamed => .unnamed
  | _ => .dropped

/-- program counter of the actor task -/
inductive Pc where
  | init                               -- dispatched; `pre_start` not yet run
  | failRelease                        -- `pre_start` returned `Err`: about to `reg.take()` (release the name)
  | failReport                         -- name released; about to `started_tx.send(Err(error))`
  | failReturn                         -- failure reported; about to `return Err(())` (drops actor, receiver)
  | startFailed                        -- closure returned `Err(())`
  | preStarted                         -- `pre_start` ok, registration activated; about to `started_tx.send(Ok(()))`
  | postStart                          -- in `run`: about to call `post_start`
  | atRecv                             -- `recv()`: about to poll the stop channel
  | polledStop                         -- stop channel was empty; about to poll the message channel
  | handling (it : Item) (replied : Bool)
  | finBegin (e : Exit)                -- `finish`: about to `begin_stop`
  | finPreStop (e : Exit)
  | finDropRx (e : Exit)
  | finPostStop (e : Exit)
  | finRelease (e : Exit)              -- about to drop the registration
  | finNotify (e : Exit)               -- `run` path only: about to tell the supervisor `terminated` / `failed`
  | exited (e : Exit)
  deriving DecidableEq, Repr

def Pc.isExited : Pc → Bool
  | .exited _ => true
  | _ => false

structure St where
  cap : Nat
  queue : List Item := []              -- message channel
  stopSlot : Bool := false             -- stop channel (capacity 1)
  stopping : Bool := false             -- `MailboxInner::stopping`
  rxAlive : Bool := true               -- the `Receiver` (both flume receivers) not yet dropped
  chanAlive : Bool := true             -- some `Mailbox`/`Broker` (flume sender) still exists
  futureAlive : Bool := true           -- the `SpawnFuture` (holder of `started_rx`) not yet dropped
  detached : Bool := false             -- `started_tx.send` failed: `finish` without `run`
  pc : Pc := .init
  tok : Tok := .unnamed
  /-- senders that passed `is_closed()` and have not executed `try_send` yet -/
  inflight : List Item := []
  /-- stoppers that won the `swap` and have not executed `stop.try_send(())` yet -/
  stopsInFlight : Nat := 0
  -- ghost history
  accepted : List Nat := []            -- ids in enqueue order
  handled : List Nat := []             -- ids in dequeue (= handler entry) order
  log : List Obs := []
  resolved : List (Nat × Res) := []    -- calls that completed, with their result
  issued : Nat := 0                    -- number of calls that entered `sendCheck`
  stopConsumed : Bool := false
  /-- supervision notifications issued so far (0 `started`, 1 `terminated`, 2 `failed`); they are sent to the
  supervisor's mailbox when the actor has one (`Supervision::{started, terminated, failed}`) -/
  notified : List Nat := []
  /-- `started_tx.send(Err(error))` happened: the spawner can observe `SpawnError::Start` -/
  startReported : Bool := false
  deriving Repr

/-- `MailboxInner::is_closed` -/
def St.isClosed (s : St) : Bool := s.stopping || !s.rxAlive

/-- flume `try_send` on the message channel -/
def St.pushRes (s : St) : SendRes :=
  if !s.rxAlive then .closed else if s.cap ≤ s.queue.length then .full else .ok

/-- flume `try_send(())` on the stop channel succeeds -/
def St.stopPushOk (s : St) : Bool := s.rxAlive && !s.stopSlot

def St.resolve (s : St) (it : Item) (r : Res) : St :=
  if it.call then { s with resolved := s.resolved ++ [(it.id, r)] } else s

def St.obs (s : St) (o : Obs) : St := { s with log := s.log ++ [o] }

/-- `finish`: a hook error replaces `Stopped` only -/
def Exit.orFail (e : Exit) (ok : Bool) (code : Nat) : Exit :=
  match e with
  | .stopped => if ok then .stopped else .failed code
  | e => e

/-- which notification an exit produces: 1 `terminated` for `Stopped`, 2 `failed` otherwise -/
def exitNote : Exit → Nat
  | .stopped => 1
  | .failed _ => 2

inductive Ev where
  -- any thread holding a `Mailbox` / `Broker`
  | sendCheck (it : Item)
  | sendPush (it : Item)
  | stopSwap
  | stopPush
  | dropFuture
  | dropSenders
  -- the actor task
  | preStart (ok : Bool)
  | releaseFailed              -- failed start: `reg.take()`
  | reportFailure              -- failed start: `started_tx.send(Err(error))`
  | returnFailed               -- failed start: `return Err(())`
  | signalStarted
  | postStart (ok : Bool)
  | pollStop
  | pollMsg
  | reply (v : Nat)
  | handlerEnd (ok : Bool)
  | beginStop
  | preStop (ok : Bool)
  | dropRx
  | postStop (ok : Bool)
  | release
  | notifyExit                 -- `supervisor.terminated(..)` / `supervisor.failed(..)` after `drop(reg)`
  deriving DecidableEq, Repr

/-- calls queued in a channel that is being destroyed: their reply senders are dropped -/
def dropCalls (q : List Item) : List (Nat × Res) :=
  (q.filter (·.call)).map fun it => (it.id, Res.noReply)

/-- one atomic action; `none` = the action is not enabled in this state -/
def step (s : St) : Ev → Option St
  | .sendCheck it =>
    if !s.chanAlive then none else
    let s := if it.call then { s with issued := s.issued + 1 } else s
    if s.isClosed then some (s.resolve it .closed)
    else some { s with inflight := s.inflight ++ [it] }
  | .sendPush it =>
    if it ∈ s.inflight then
      let s := { s with inflight := s.inflight.erase it }
      match s.pushRes with
      | .ok => some { s with queue := s.queue ++ [it], accepted := s.accepted ++ [it.id] }
      | .full => some (s.resolve it .full)
      | .closed => some (s.resolve it .closed)
    else none
  | .stopSwap =>
    if !s.chanAlive then none else
    if s.stopping then some s
    else some { s with stopping := true, stopsInFlight := s.stopsInFlight + 1 }
  | .stopPush =>
    if s.stopsInFlight = 0 then none
    else some { s with stopsInFlight := s.stopsInFlight - 1, stopSlot := s.stopSlot || s.stopPushOk }
  | .dropFuture => some { s with futureAlive := false }
  | .dropSenders =>
    match s.pc with
    | .exited _ | .startFailed =>
      if s.chanAlive && s.inflight.isEmpty && s.stopsInFlight == 0 then
        some { s with chanAlive := false, resolved := s.resolved ++ dropCalls s.queue }
      else none
    | _ => none
  | .preStart ok =>
    match s.pc with
    | .init =>
      if ok then some ({ s with pc := .preStarted, tok := s.tok.activate }.obs (.hook .preStart true))
      else some ({ s with pc := .failRelease }.obs (.hook .preStart false))
    | _ => none
  | .releaseFailed =>
    match s.pc with
    | .failRelease => some { s with pc := .failReport, tok := s.tok.release }
    | _ => none
  | .reportFailure =>
    match s.pc with
    | .failReport => some { s with pc := .failReturn, startReported := true }
    | _ => none
  | .returnFailed =>
    match s.pc with
    | .failReturn => some { s with pc := .startFailed, rxAlive := false }
    | _ => none
  | .signalStarted =>
    match s.pc with
    | .preStarted =>
      if s.futureAlive then some { s with pc := .postStart }
      else some { s with pc := .finBegin .stopped, detached := true }
    | _ => none
  | .postStart ok =>
    match s.pc with
    | .postStart =>
      -- `Ok` ⇒ `supervision.started(&myself)` before the receive loop
      some ({ s with pc := if ok then .atRecv else .finBegin (.failed 2),
                     notified := if ok then s.notified ++ [0] else s.notified }.obs (.hook .postStart ok))
    | _ => none
  | .pollStop =>
    match s.pc with
    | .atRecv =>
      if s.stopSlot then some { s with stopSlot := false, stopConsumed := true, pc := .finBegin .stopped }
      else some { s with pc := .polledStop }
    | _ => none
  | .pollMsg =>
    match s.pc with
    | .polledStop =>
      match s.queue with
      | [] => some { s with pc := .atRecv }          -- both channels pending; woken later, polls again
      | it :: q =>
        some ({ s with queue := q, handled := s.handled ++ [it.id], pc := .handling it false }.obs (.hs it.id))
    | _ => none
  | .reply v =>
    match s.pc with
    | .handling it false =>
      if it.call then some { s with pc := .handling it true, resolved := s.resolved ++ [(it.id, .reply v)] }
      else none
    | _ => none
  | .handlerEnd ok =>
    match s.pc with
    | .handling it replied =>
      -- the handler owned the `Call`; returning drops an unanswered reply sender
      let s := if replied then s else s.resolve it .noReply
      some ({ s with pc := if ok then .atRecv else .finBegin (.failed (100 + it.id)) }.obs (.he it.id ok))
    | _ => none
  | .beginStop =>
    match s.pc with
    | .finBegin e => some { s with stopping := true, pc := .finPreStop e }
    | _ => none
  | .preStop ok =>
    match s.pc with
    | .finPreStop e => some ({ s with pc := .finDropRx (e.orFail ok 3) }.obs (.hook .preStop ok))
    | _ => none
  | .dropRx =>
    match s.pc with
    | .finDropRx e => some { s with rxAlive := false, pc := .finPostStop e }
    | _ => none
  | .postStop ok =>
    match s.pc with
    | .finPostStop e => some ({ s with pc := .finRelease (e.orFail ok 4) }.obs (.hook .postStop ok))
    | _ => none
  | .release =>
    match s.pc with
    | .finRelease e =>
      -- the detached path (`finish` without `run`) returns right away: no supervisor is told
      some { s with tok := s.tok.release, pc := if s.detached then .exited e else .finNotify e }
    | _ => none
  | .notifyExit =>
    match s.pc with
    | .finNotify e => some { s with notified := s.notified ++ [exitNote e], pc := .exited e }
    | _ => none

/-- a schedule: `none` when some event was not enabled -/
def run (s : St) : List Ev → Option St
  | [] => some s
  | e :: es => match step s e with
    | some s' => run s' es
    | none => none

/-- freshly made mailbox + dispatched closure (`named` = spawned with a name that was reserved) -/
def St.init (cap : Nat) (named : Bool) : St :=
  { cap := cap, tok := if named then .reserved else .unnamed }

/-! ### the lifecycle automaton: the documented order of hooks and handlers -/

inductive Life where
  | fresh          -- nothing ran
  | deadStart      -- `pre_start` failed: nothing else runs
  | started        -- `pre_start` ok
  | running        -- `post_start` ok: handlers may run
  | inHandler (m : Nat)
  | closing        -- `post_start` or a handler failed: only the stop hooks may follow
  | stopped1       -- `pre_stop` ran
  | done           -- `post_stop` ran
  deriving DecidableEq, Repr

def lifeStep : Life → Obs → Option Life
  | .fresh, .hook .preStart true => some .started
  | .fresh, .hook .preStart false => some .deadStart
  | .started, .hook .postStart true => some .running
  | .started, .hook .postStart false => some .closing
  | .started, .hook .preStop _ => some .stopped1        -- spawn future dropped: `finish` without `run`
  | .running, .hs m => some (.inHandler m)
  | .running, .hook .preStop _ => some .stopped1
  | .inHandler m, .he m' ok => if m = m' then some (if ok then .running else .closing) else none
  | .closing, .hook .preStop _ => some .stopped1
  | .stopped1, .hook .postStop _ => some .done
  | _, _ => none

def lifeRun (l : Life) : List Obs → Option Life
  | [] => some l
  | o :: os => match lifeStep l o with
    | some l' => lifeRun l' os
    | none => none

/-! ### the actor task's own next action (used by the deterministic scheduler of the driver and by the
progress theorems): given the scripted results of hooks and of the handler in progress -/

/-- scripted user code: hook results and, per message kind, what the handler does -/
structure Script where
  preStart : Bool := true
  postStart : Bool := true
  preStop : Bool := true
  postStop : Bool := true
  /-- handler returns `Ok` for this item? -/
  handlerOk : Item → Bool := fun _ => true
  /-- handler calls `myself.stop()` before returning? -/
  stopsSelf : Item → Bool := fun _ => false
  /-- handler answers the call? -/
  replies : Item → Bool := fun it => it.call

/-- events the actor task performs next (a handler body is several atomic actions); `[]` = blocked
(idle at `recv` with nothing to take, or finished) -/
def nextEvents (sc : Script) (s : St) : List Ev :=
  match s.pc with
  | .init => [.preStart sc.preStart]
  | .failRelease => [.releaseFailed]
  | .failReport => [.reportFailure]
  | .failReturn => [.returnFailed]
  | .startFailed => []
  | .preStarted => [.signalStarted]
  | .postStart => [.postStart sc.postStart]
  | .atRecv => if s.stopSlot || !s.queue.isEmpty then [.pollStop] else []
  | .polledStop => [.pollMsg]
  | .handling it replied =>
    (if sc.stopsSelf it then (if s.stopping then [.stopSwap] else [.stopSwap, .stopPush]) else []) ++
    (if it.call && sc.replies it && !replied then [.reply s.handled.length] else []) ++
    [.handlerEnd (sc.handlerOk it)]
  | .finBegin _ => [.beginStop]
  | .finPreStop _ => [.preStop sc.preStop]
  | .finDropRx _ => [.dropRx]
  | .finPostStop _ => [.postStop sc.postStop]
  | .finRelease _ => [.release]
  | .finNotify _ => [.notifyExit]
  | .exited _ => []

/-- let the actor task run until it blocks (fuel: each round performs one `nextEvents` batch).
The batch is always enabled (`nextEvents_enabled`, Lemmas/Actor.lean); a disabled batch would leave the
state unchanged. -/
def settle (sc : Script) : Nat → St → St
  | 0, s => s
  | fuel + 1, s =>
    match nextEvents sc s with
    | [] => s
    | evs =>
      match run s evs with
      | some s' => settle sc fuel s'
      | none => s

/-- rounds `settle` needs at most: 3 per queued message + the fixed lifecycle steps -/
def settleFuel (s : St) : Nat := 3 * s.queue.length + 20

/-! ### whole operations as the harness thread performs them back to back (one legal schedule) -/

/-- `Mailbox::send` / `Broker::send` executed without interference: `(result, state')`;
`none` only when no handle exists any more -/
def sendNow (s : St) (it : Item) : Option (SendRes × St) :=
  if s.isClosed then (step s (.sendCheck it)).map fun s' => (SendRes.closed, s')
  else
    match step s (.sendCheck it) with
    | none => none
    | some s1 => (step s1 (.sendPush it)).map fun s2 => (s1.pushRes, s2)

/-- `Mailbox::stop` executed without interference: `(returned bool, state')` -/
def stopNow (s : St) : Option (Bool × St) :=
  if s.stopping then (step s .stopSwap).map fun s' => (false, s')
  else
    match step s .stopSwap with
    | none => none
    | some s1 => (step s1 .stopPush).map fun s2 => (s1.stopPushOk, s2)

/-- result of a call as its future sees it now: `some r` once resolved, `none` while pending -/
def St.callResult (s : St) (id : Nat) : Option Res :=
  (s.resolved.find? (·.1 == id)).map (·.2)

end Compio.Actor
