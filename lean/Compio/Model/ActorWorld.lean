/-
C19: the cluster as the correspondence harness drives it -- several actors (Model/Actor.lean), the name
registry (Model/Registry.lean), process groups (Model/Group.lean) and supervisors, glued the way
`Cluster::start` (cluster/spawn.rs) glues them.

The harness keeps the single worker thread *frozen* (blocked inside a handler of a helper actor) while it
performs mailbox/registry/group operations, and lets it run to quiescence on a `run` line. So a case is one
particular schedule of the transition systems: each harness operation executes its atomic steps back to
back (`sendNow`, `stopNow`), each `run` executes every actor task until it blocks (`Actor.settle`).
Everything here only *calls* the step functions the theorems are about.

Core Lean only (the driver `c19d` links this file).
-/
import Compio.Model.Actor
import Compio.Model.Registry
import Compio.Model.Group

namespace Compio.World
open Compio Compio.Actor

/-- handler scripts by `Item.kind` (same table as harness/apps/src/bin/c19.rs):
0 `n` nop, 1 `f` fail, 2 `s` stop myself, 3 `x` stop myself then fail,
4 `r` reply, 5 `i` ignore the call, 6 `q` reply then fail, 7 `d` fail without replying, 8 supervision event -/
def kindOk (k : Nat) : Bool := !(k == 1 || k == 3 || k == 6 || k == 7)
def kindStops (k : Nat) : Bool := k == 2 || k == 3
def kindReplies (k : Nat) : Bool := k == 4 || k == 6

def mkScript (h0 h1 h2 h3 : Bool) : Script :=
  { preStart := h0, postStart := h1, preStop := h2, postStop := h3,
    handlerOk := fun it => kindOk it.kind,
    stopsSelf := fun it => kindStops it.kind,
    replies := fun it => kindReplies it.kind }

/-- the harness' `SpawnFuture` -/
inductive Fut where
  | pending | resolved | dropped | absent
  deriving DecidableEq, Repr

structure ARec where
  id : Nat
  st : St
  sc : Script
  name : Option String := none
  sup : Option Nat := none
  isSup : Bool := false
  fut : Fut := .pending
  /-- the harness holds the `Mailbox` -/
  has : Bool := false
  /-- the harness holds the `ActorHandle` -/
  handle : Bool := false
  /-- length of `st.log` already printed -/
  reported : Nat := 0
  /-- number of `st.notified` entries already sent to the supervisor -/
  noted : Nat := 0
  /-- supervisors only: the handler keeps the `Mailbox` of every child it hears of in its state -/
  keeps : Bool := false

structure GRec where
  id : Nat
  isCall : Bool
  g : Group.GState := {}
  /-- member id ↦ actor id -/
  owner : List (Nat × Nat) := []

/-- where a call went: accepted by an actor, or rejected at once -/
inductive CallTarget where
  /-- accepted by actor `a`; `direct`: sent through a `Mailbox` the call future owns (not through a group) -/
  | at (a : Nat) (direct : Bool)
  | rejected (r : Res)

structure W where
  actors : List ARec := []
  reg : Registry.Map := []
  groups : List GRec := []
  /-- call id ↦ actor that accepted it, or the immediate rejection -/
  calls : List (Nat × CallTarget) := []
  panicked : Bool := false

def W.actor? (w : W) (a : Nat) : Option ARec := w.actors.find? (·.id == a)
def W.group? (w : W) (g : Nat) : Option GRec := w.groups.find? (·.id == g)

def W.setActor (w : W) (r : ARec) : W :=
  { w with actors := w.actors.map fun x => if x.id == r.id then r else x }

def W.setGroup (w : W) (r : GRec) : W :=
  { w with groups := w.groups.map fun x => if x.id == r.id then r else x }

/-- what `Broker::send` would answer now (`sendNow_status` in Lemmas/Actor.lean: this *is* `sendNow`'s result) -/
def statusOf (s : St) : Group.Status :=
  if s.isClosed then .closed else
  match s.pushRes with
  | .ok => .ok
  | .full => .full
  | .closed => .closed

def showSend : SendRes → String
  | .ok => "ok" | .full => "full" | .closed => "closed"

/-! ### harness operations while the worker is frozen -/

def W.spawn (w : W) (a : Nat) (name : Option String) (cap : Nat) (sup : Option Nat)
    (sc : Script) (isSup : Bool) (keeps : Bool := false) : String × W :=
  match w.actor? a with
  | some _ => ("dup", w)
  | none =>
    -- `with_supervisor(&mailbox)` needs the supervisor's mailbox in the harness' hands
    let sup := sup.bind fun s => (w.actor? s).bind fun r => if r.has && r.isSup then some s else none
    match name with
    | some n =>
      match Registry.reserve w.reg n with
      | none => ("nametaken", w)        -- `SpawnFuture::ready(Err(NameTaken))`: nothing was created
      | some reg =>
        ("pending", { w with reg := reg, actors := w.actors ++
          [{ id := a, st := St.init cap true, sc := sc, name := name, sup := sup, isSup := isSup, keeps := keeps }] })
    | none =>
      ("pending", { w with actors := w.actors ++
          [{ id := a, st := St.init cap false, sc := sc, sup := sup, isSup := isSup, keeps := keeps }] })

def W.await (w : W) (a : Nat) : String × W :=
  match w.actor? a with
  | none => ("nofuture", w)
  | some r =>
    if r.fut != .pending then ("nofuture", w) else
    -- `started_rx` resolves with `Err(Start)` once the failure was sent, with `Ok` once `started_tx.send(Ok)` ran
    if r.st.startReported then ("startfail", w.setActor { r with fut := .resolved }) else
    match r.st.pc with
    | .init | .failRelease | .failReport | .failReturn | .startFailed | .preStarted => ("pending", w)
    | _ => ("started", w.setActor { r with fut := .resolved, has := true, handle := true })

def W.dropFut (w : W) (a : Nat) : String × W :=
  match w.actor? a with
  | none => ("nofuture", w)
  | some r =>
    if r.fut != .pending then ("nofuture", w) else
    match step r.st .dropFuture with
    | some st => ("ok", w.setActor { r with fut := .dropped, st := st })
    | none => ("ok", w.setActor { r with fut := .dropped })

def W.send (w : W) (a : Nat) (it : Item) (direct : Bool := true) : String × W :=
  match w.actor? a with
  | none => ("nomailbox", w)
  | some r =>
    if direct && !r.has then ("nomailbox", w) else
    match sendNow r.st it with
    | none => ("nomailbox", w)
    | some (res, st) =>
      let w := w.setActor { r with st := st }
      if it.call then
        let w := { w with calls := w.calls ++ [(it.id, match res with
          | .ok => CallTarget.at a direct | .full => CallTarget.rejected Res.full | .closed => CallTarget.rejected Res.closed)] }
        ((match res with | .ok => "sent" | .full => "full" | .closed => "closed"), w)
      else (showSend res, w)

def W.poll (w : W) (c : Nat) : String :=
  match ((w.calls.find? (·.1 == c)).map (·.2) : Option CallTarget) with
  | none => "nocall"
  | some (CallTarget.rejected r) => (match r with | .full => "full" | .closed => "closed" | .noReply => "noreply" | .reply v => s!"reply {v}")
  | some (CallTarget.at a _) =>
    match w.actor? a with
    | none => "nocall"
    | some r =>
      match r.st.callResult c with
      | none => "pending"
      | some (.reply v) => s!"reply {v}"
      | some .noReply => "noreply"
      | some .full => "full"
      | some .closed => "closed"

def W.stop (w : W) (a : Nat) : String × W :=
  match w.actor? a with
  | none => ("nomailbox", w)
  | some r =>
    if !r.has then ("nomailbox", w) else
    match stopNow r.st with
    | none => ("nomailbox", w)
    | some (b, st) => (toString b, w.setActor { r with st := st })

def W.isClosed (w : W) (a : Nat) : String :=
  match w.actor? a with
  | none => "nomailbox"
  | some r => if !r.has then "nomailbox" else toString r.st.isClosed

/-- `Cluster::lookup::<TestActor, _>(name)`: the downcast fails for a supervisor's mailbox -/
def W.lookup (w : W) (n : String) : String :=
  match Registry.get w.reg n with
  | none => "none"
  | some a =>
    match w.actor? a with
    | none => "none"
    | some r => if r.isSup then "none" else s!"some cap={r.st.cap} closed={r.st.isClosed}"

def showExit : Exit → String
  | .stopped => "stopped"
  | .failed c => s!"failed {c}"

def W.exit (w : W) (a : Nat) : String :=
  match w.actor? a with
  | none => "nomailbox"
  | some r =>
    if !r.handle then "nomailbox" else
    match r.st.pc with
    | .exited e => showExit e
    | _ => "pending"

/-- the harness drops its `Mailbox` of `a` (it keeps the `ActorHandle`) -/
def W.dropMailbox (w : W) (a : Nat) : String × W :=
  match w.actor? a with
  | none => ("nomailbox", w)
  | some r => if !r.has then ("nomailbox", w) else ("ok", w.setActor { r with has := false })

/-! ### who still holds a sender of an actor's channel (once the task itself is gone) -/

/-- supervision events a supervisor handled, as `(child, kind)` -/
def supEvents (log : List Obs) : List (Nat × Nat) :=
  log.filterMap fun
    | .hs m => if m ≥ 1000000 then some ((m - 1000000) / 4, (m - 1000000) % 4) else none
    | _ => none

def W.held (w : W) (r : ARec) : Bool :=
  -- the harness' `Mailbox`, or the one inside its pending `SpawnFuture`
  r.has || r.fut == .pending ||
  -- a `Broker` inside a process group
  w.groups.any (fun g => g.owner.any fun p => p.2 == r.id && g.g.members.contains p.1) ||
  -- a direct call still waiting: its future owns a `Mailbox`
  w.calls.any (fun c => match c.2 with
    | .at a direct => direct && a == r.id && (r.st.callResult c.1).isNone
    | .rejected _ => false) ||
  -- a supervisor that keeps the mailboxes it is told about, while its task lives
  w.actors.any (fun s => s.isSup && s.keeps && !s.st.pc.isExited &&
    (supEvents s.st.log).any (·.1 == r.id))

/-- flume frees a channel when its last sender goes: queued `Call`s are dropped, their callers get `NoReply` -/
def W.reap (w : W) : W :=
  w.actors.foldl (fun w r =>
    match w.actor? r.id with
    | none => w
    | some r =>
      if r.st.chanAlive && !w.held r then
        match step r.st .dropSenders with
        | some st => w.setActor { r with st := st }
        | none => w          -- the task still runs: it holds `myself`
      else w) w

/-! ### process groups -/

def W.gnew (w : W) (g : Nat) (isCall : Bool) : String × W :=
  match w.group? g with
  | some _ => ("dup", w)
  | none => ("ok", { w with groups := w.groups ++ [{ id := g, isCall := isCall }] })

def W.gjoin (w : W) (g a : Nat) : String × W :=
  match w.group? g, w.actor? a with
  | some gr, some r =>
    if !r.has then ("nomailbox", w) else
    let (gs, mid) := gr.g.join
    (s!"m{mid}", w.setGroup { gr with g := gs, owner := gr.owner ++ [(mid, a)] })
  | _, _ => ("nomailbox", w)

def W.gleave (w : W) (g mid : Nat) : String × W :=
  match w.group? g with
  | some gr => ("ok", w.setGroup { gr with g := gr.g.leave mid })
  | none => ("nogroup", w)

def W.glen (w : W) (g : Nat) : String :=
  match w.group? g with
  | some gr => toString gr.g.len
  | none => "nogroup"

/-- status of the member `mid` of group `gr` right now -/
def W.memberStatus (w : W) (gr : GRec) (mid : Nat) : Group.Status :=
  match (gr.owner.find? (·.1 == mid)).bind fun p => w.actor? p.2 with
  | some r => statusOf r.st
  | none => .closed

def W.gsend (w : W) (g : Nat) (it : Item) : String × W :=
  match w.group? g with
  | none => ("nogroup", w)
  | some gr =>
    let (o, gs) := gr.g.send (w.memberStatus gr)
    let w := w.setGroup { gr with g := gs }
    match o with
    | .delivered mid =>
      match (gr.owner.find? (·.1 == mid)).map (·.2) with
      | none => ("panic", { w with panicked := true })
      | some a =>
        -- the accepting member's `Broker::send` is the ordinary mailbox send
        let (out, w) := w.send a it false
        (out, w)
    | .full =>
      let w := if it.call then { w with calls := w.calls ++ [(it.id, CallTarget.rejected Res.full)] } else w
      ("full", w)
    | .closed =>
      let w := if it.call then { w with calls := w.calls ++ [(it.id, CallTarget.rejected Res.closed)] } else w
      ("closed", w)
    | .panic => ("panic", { w with panicked := true })

/-! ### `run`: the worker is released until every actor task is blocked -/

def supItem (child k : Nat) : Item := { id := 1000000 + 4 * child + k, kind := 8 }

/-- `Supervision::{started, terminated, failed}`: `broker.send(event).ok()` -/
def W.notify (w : W) (sup : Option Nat) (child k : Nat) : W :=
  match sup with
  | none => w
  | some s =>
    match w.actor? s with
    | none => w
    | some sr =>
      match sendNow sr.st (supItem child k) with
      | some (_, st) => w.setActor { sr with st := st }
      | none => w

/-- registry effects of the token transitions the actor made (`activate`, `Drop for Registration`) -/
def W.syncReg (w : W) (name : Option String) (a : Nat) (before after : Tok) : W :=
  match name with
  | none => w
  | some n =>
    let w :=
      if before == .reserved && (after == .active || after == .dropped) then
        -- `pre_start` ran: ok ⇒ activate; (a failed start drops the token without activating)
        if after == .active then
          match Registry.activate w.reg n a with
          | some reg => { w with reg := reg }
          | none => { w with panicked := true }
        else w
      else w
    if after == .dropped && before != .dropped then { w with reg := Registry.release w.reg n } else w

def W.settleActor (w : W) (a : Nat) : W :=
  match w.actor? a with
  | none => w
  | some r =>
    let st := settle r.sc (settleFuel r.st) r.st
    let w := (w.setActor { r with st := st, noted := st.notified.length }).syncReg r.name a r.st.tok st.tok
    -- the supervision notifications the task issued (`St.notified`), in program order
    (st.notified.drop r.noted).foldl (fun w k => w.notify r.sup a k) w

def W.settleAll (w : W) : W := (w.actors.map (·.id)).foldl W.settleActor w

def showObs : Obs → String
  | .hook .preStart ok => "ps" ++ (if ok then "+" else "-")
  | .hook .postStart ok => "po" ++ (if ok then "+" else "-")
  | .hook .preStop ok => "pr" ++ (if ok then "+" else "-")
  | .hook .postStop ok => "pt" ++ (if ok then "+" else "-")
  | .hs m => s!"h{m}"
  | .he m ok => s!"e{m}" ++ (if ok then "+" else "-")

def insertBy (p : Nat × Nat) : List (Nat × Nat) → List (Nat × Nat)
  | [] => [p]
  | q :: r => if p.1 < q.1 then p :: q :: r else q :: insertBy p r

/-- stable sort by child -/
def sortByChild (l : List (Nat × Nat)) : List (Nat × Nat) := l.foldl (fun acc p => insertBy p acc) []

def showDelta (r : ARec) : Option String :=
  let d := r.st.log.drop r.reported
  if r.isSup then
    let evs := sortByChild (supEvents d)
    if evs.isEmpty then none
    else some (s!"a{r.id}:" ++ ",".intercalate (evs.map fun p => s!"S{p.1}.{p.2}"))
  else if d.isEmpty then none
  else some (s!"a{r.id}:" ++ ",".intercalate (d.map showObs))

def insertRec (r : ARec) : List ARec → List ARec
  | [] => [r]
  | q :: rest => if r.id < q.id then r :: q :: rest else q :: insertRec r rest

/-- actors by id (the order the harness prints them in) -/
def sortById (l : List ARec) : List ARec := l.foldl (fun acc r => insertRec r acc) []

def W.run (w : W) : String × W :=
  -- two passes: supervisors may receive events from actors settled after them
  let w := w.settleAll.settleAll
  let parts := (sortById w.actors).filterMap showDelta
  let w := { w with actors := w.actors.map fun r => { r with reported := r.st.log.length } }
  ((if parts.isEmpty then "-" else " ".intercalate parts), w)

end Compio.World
