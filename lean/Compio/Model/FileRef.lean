/-
C08 — reference model of what the OS does: a regular file is a byte list; `pread`/`pwrite`/`ftruncate`
with offsets beyond the end and zero lengths; a small flat directory (regular files shared by hard links,
empty directories, symbolic links), open handles and pipes. This is the *model side* of the C08 line
protocol: the harness runs every case on the real OS through std/libc as well, so this file is checked
against the kernel on every run (it is an oracle for nothing; the OS is the oracle).

Core Lean only.
-/
import Compio.Model.BufShape

namespace Compio.FileRef

open Compio.BufShape

def zeros (n : Nat) : Bytes := List.replicate n 0

/-- `pwrite(fd, d, pos)`: a zero-length write changes nothing; a gap is filled with zeros -/
def pwrite (f : Bytes) (pos : Nat) (d : Bytes) : Bytes :=
  if d.isEmpty then f
  else f.take pos ++ zeros (pos - f.length) ++ d ++ f.drop (pos + d.length)

/-- `ftruncate(fd, n)` -/
def ftruncate (f : Bytes) (n : Nat) : Bytes := f.take n ++ zeros (n - f.length)

/-! ## errno values (Linux) -/

def EPERM := 1
def ENOENT := 2
def EBADF := 9
def EEXIST := 17
def ENOTDIR := 20
def EISDIR := 21
def EINVAL := 22
def EPIPE := 32
def ELOOP := 40

/-! ## a flat directory -/

inductive Node where
  | file (ino : Nat)
  | dir
  | symlink (ino : Nat) (target : String)
  /-- a named pipe made by `mkfifo` -/
  | fifo (ino : Nat)
  deriving DecidableEq, Repr

structure Handle where
  /-- `none` = a directory opened read-only -/
  ino : Option Nat
  r : Bool
  w : Bool
  /-- file position (only the sequential `AsyncFd` ops look at it) -/
  pos : Nat
  deriving Repr

structure Pipe where
  buf : Bytes
  rOpen : Bool
  wOpen : Bool
  /-- a named FIFO whose two ends were opened read-write: never at end of file, never `EPIPE` -/
  fifo : Bool := false
  /-- buffer slots possibly in use (the harness stops filling a pipe at `slotLimit` of the kernel's 16) -/
  slots : Nat := 0
  /-- zero copy: a byte spliced in from a regular file is a reference to the file's page (inode, offset); it is
  read from the file's content AT THE TIME THE PIPE IS READ. `none` = an own copy (`buf`). Same length as `buf`. -/
  alias : List (Option (Nat × Nat)) := []
  deriving Repr

def slotLimit : Nat := 12
def pipeCapacity : Nat := 65536

/-- append copied bytes -/
def Pipe.push (p : Pipe) (data : Bytes) : Pipe :=
  { p with buf := p.buf ++ data, alias := p.alias ++ data.map (fun _ => none),
           slots := if data.isEmpty then p.slots else p.slots + 1 }

/-- append bytes together with where they come from -/
def Pipe.pushRefs (p : Pipe) (data : Bytes) (refs : List (Option (Nat × Nat))) : Pipe :=
  { p with buf := p.buf ++ data, alias := p.alias ++ refs,
           slots := if data.isEmpty then p.slots else p.slots + 1 }

def Pipe.pop (p : Pipe) (n : Nat) : Pipe :=
  { p with buf := p.buf.drop n, alias := p.alias.drop n,
           slots := if (p.buf.drop n).isEmpty then 0 else p.slots }

structure St where
  names : List (String × Node) := []
  inodes : List (Nat × Bytes) := []
  nextIno : Nat := 0
  handles : List (Nat × Handle) := []
  pipes : List (Nat × Pipe) := []
  deriving Repr

def lookup {α β} [DecidableEq α] (l : List (α × β)) (k : α) : Option β :=
  (l.find? fun p => p.1 = k).map (·.2)

def remove {α β} [DecidableEq α] (l : List (α × β)) (k : α) : List (α × β) :=
  l.filter fun p => p.1 ≠ k

def insert {α β} [DecidableEq α] (l : List (α × β)) (k : α) (v : β) : List (α × β) :=
  (k, v) :: remove l k

def St.content (s : St) (ino : Nat) : Bytes := (lookup s.inodes ino).getD []

def St.setContent (s : St) (ino : Nat) (c : Bytes) : St := { s with inodes := insert s.inodes ino c }

/-- what a reader of the pipe gets now: aliased bytes come from the present content of their file -/
def St.pipeBytes (s : St) (p : Pipe) : Bytes :=
  (p.buf.zip p.alias).map fun (b, r) =>
    match r with
    | some (ino, off) => ((s.content ino)[off]?).getD b
    | none => b

/-- follow symbolic links (the kernel gives up after 40; `fuel` = 41 lookups) -/
def St.resolve (s : St) : Nat → String → Except Nat (String × Option Node)
  | 0, _ => .error ELOOP
  | fuel + 1, name =>
    match lookup s.names name with
    | some (.symlink _ t) => s.resolve fuel t
    | other => .ok (name, other)

def resolveFuel : Nat := 41

inductive Out where
  | ok
  | err (e : Nat)
  deriving DecidableEq, Repr

/-! ### the flag word of `open_impl` (Linux x86-64 values) -/

open Compio.Gen.OpenFlags (OFlag Mask)

def flagBits : OFlag → Nat
  | .RDONLY => 0
  | .WRONLY => 1
  | .RDWR => 2
  | .CREATE => 0o100
  | .EXCL => 0o200
  | .TRUNC => 0o1000
  | .CLOEXEC => 0o2000000

def O_NOFOLLOW : Nat := 0o400000

/-- what `.difference(mask)` leaves of a flag word; `OFlags::ACCMODE` = `O_ACCMODE` = 3, the two low bits -/
def clearMask : Mask → Nat → Nat
  | .ACCMODE, f => f / 4 * 4

/-- the custom flags `OpenOptions::custom_flags(flags)` stores, given the masks the code removes -/
def keepCustom : List Mask → Nat → Nat
  | [], f => f
  | m :: ms, f => keepCustom ms (clearMask m f)

/-- `OFlags::CLOEXEC | access | creation | custom` -/
def flagWord (fl : List OFlag) (custom : Nat) : Nat := fl.foldl (fun a f => a ||| flagBits f) custom

def hasBit (w bit : Nat) : Bool := (w / bit) % 2 = 1

/-- `openat(AT_FDCWD, name, word)` for a flag word: access mode = the two low bits (3 = Linux's "no read, no
write" mode), `O_CREAT`, `O_EXCL`, `O_TRUNC`, `O_NOFOLLOW`. Returns the access mode of the new descriptor. -/
def St.openWord (s : St) (h : Nat) (name : String) (word : Nat) : St × Out :=
  let acc := word % 4
  let creat := hasBit word 0o100
  let excl := hasBit word 0o200
  let trunc := hasBit word 0o1000
  let nofollow := hasBit word O_NOFOLLOW
  let w := acc = 1 || acc = 2
  let r := acc = 0 || acc = 2
  -- O_CREAT|O_EXCL does not follow a symbolic link in the last component; O_NOFOLLOW refuses one
  let found : Except Nat (String × Option Node) :=
    if creat && excl then .ok (name, lookup s.names name)
    else if nofollow then
      match lookup s.names name with
      | some (.symlink _ _) => .error ELOOP
      | other => .ok (name, other)
    else s.resolve resolveFuel name
  match found with
  | .error e => (s, .err e)
  | .ok (_, some (.symlink _ _)) => (s, .err EEXIST)
  -- FIFOs are never opened through the file API by the harness (the driver answers `unsupported`)
  | .ok (_, some (.fifo _)) => (s, .err EINVAL)
  | .ok (_, some .dir) =>
    if creat && excl then (s, .err EEXIST)
    else if acc ≠ 0 || creat then (s, .err EISDIR)
    else ({ s with handles := insert s.handles h ⟨none, r, w, 0⟩ }, .ok)
  | .ok (_, some (.file ino)) =>
    if creat && excl then (s, .err EEXIST)
    else
      let s := if trunc then s.setContent ino [] else s
      ({ s with handles := insert s.handles h ⟨some ino, r, w, 0⟩ }, .ok)
  | .ok (target, none) =>
    if creat then
      let ino := s.nextIno
      let s := { s with names := insert s.names target (.file ino), nextIno := ino + 1 }
      let s := s.setContent ino []
      ({ s with handles := insert s.handles h ⟨some ino, r, w, 0⟩ }, .ok)
    else (s, .err ENOENT)

/-- `OpenOptions::open` given the open-flag list of `Gen.OpenFlags` (`none` = `EINVAL` from compio/std before
any system call) and the caller's custom flags (masked as the code masks them) -/
def St.openFileX (s : St) (h : Nat) (name : String) (flags : Option (List OFlag)) (custom : Nat) : St × Out :=
  match flags with
  | none => (s, .err EINVAL)
  | some fl => s.openWord h name (flagWord fl (keepCustom Gen.OpenFlags.customMasks custom))

def St.openFile (s : St) (h : Nat) (name : String) (flags : Option (List OFlag)) : St × Out :=
  s.openFileX h name flags 0

def St.mkdir (s : St) (name : String) : St × Out :=
  match lookup s.names name with
  | some _ => (s, .err EEXIST)
  | none => ({ s with names := insert s.names name .dir }, .ok)

def St.rmdir (s : St) (name : String) : St × Out :=
  match lookup s.names name with
  | none => (s, .err ENOENT)
  | some .dir => ({ s with names := remove s.names name }, .ok)
  | some _ => (s, .err ENOTDIR)

def St.unlink (s : St) (name : String) : St × Out :=
  match lookup s.names name with
  | none => (s, .err ENOENT)
  | some .dir => (s, .err EISDIR)
  | some _ => ({ s with names := remove s.names name }, .ok)

def St.rename (s : St) (a b : String) : St × Out :=
  match lookup s.names a with
  | none => (s, .err ENOENT)
  | some na =>
    if a = b then (s, .ok) else
    match na, lookup s.names b with
    | _, none => ({ s with names := insert (remove s.names a) b na }, .ok)
    | .dir, some .dir => ({ s with names := insert (remove s.names a) b na }, .ok)
    | .dir, some _ => (s, .err ENOTDIR)
    | _, some .dir => (s, .err EISDIR)
    | .file i, some (.file j) =>
      -- two names of the same inode: rename does nothing
      if i = j then (s, .ok) else ({ s with names := insert (remove s.names a) b na }, .ok)
    | .symlink i _, some (.symlink j _) =>
      if i = j then (s, .ok) else ({ s with names := insert (remove s.names a) b na }, .ok)
    | .fifo i, some (.fifo j) =>
      if i = j then (s, .ok) else ({ s with names := insert (remove s.names a) b na }, .ok)
    | _, some _ => ({ s with names := insert (remove s.names a) b na }, .ok)

def St.hardlink (s : St) (a b : String) : St × Out :=
  match lookup s.names a with
  | none => (s, .err ENOENT)
  | some na =>
    match lookup s.names b with
    | some _ => (s, .err EEXIST)
    | none =>
      match na with
      | .dir => (s, .err EPERM)
      | _ => ({ s with names := insert s.names b na }, .ok)

def St.symlink (s : St) (target name : String) : St × Out :=
  match lookup s.names name with
  | some _ => (s, .err EEXIST)
  | none => ({ s with names := insert s.names name (.symlink s.nextIno target), nextIno := s.nextIno + 1 }, .ok)

def St.mkfifo (s : St) (name : String) : St × Out :=
  match lookup s.names name with
  | some _ => (s, .err EEXIST)
  | none => ({ s with names := insert s.names name (.fifo s.nextIno), nextIno := s.nextIno + 1 }, .ok)

/-- does the name lead to a FIFO (following symbolic links)? -/
def St.isFifo (s : St) (name : String) : Bool :=
  match s.resolve resolveFuel name with
  | .ok (_, some (.fifo _)) => true
  | _ => false

inductive StatOut where
  | file (len : Nat)
  | dir
  | symlink
  | other
  | err (e : Nat)
  deriving DecidableEq, Repr

def St.statNode (s : St) : Option Node → StatOut
  | none => .err ENOENT
  | some .dir => .dir
  | some (.symlink _ _) => .symlink
  | some (.fifo _) => .other
  | some (.file i) => .file (s.content i).length

def St.stat (s : St) (name : String) (follow : Bool) : StatOut :=
  if follow then
    match s.resolve resolveFuel name with
    | .error e => .err e
    | .ok (_, n) => s.statNode n
  else s.statNode (lookup s.names name)

/-! ## positional access through a handle, per driver -/

open Compio.Gen.OpTable (Driver)

def two63 : Nat := 2 ^ 63
def minusOne : Nat := 2 ^ 64 - 1

/-- what a positional read of `total` offered bytes (`nIov` ranges, `vectored`) at `pos` sees:
`Except errno (file bytes, effective position, whether the handle position advances)`.
Kernel rules reproduced: `EBADF` without read access, `EISDIR` on a directory (a vectored read offering
0 bytes returns 0 instead), `EINVAL` for a negative `loff_t` or `pos + total` beyond it.
Driver differences reproduced as the code has them (findings C08b, C08c): io_uring completes a single
0-byte read on a directory with 0, and takes offset `u64::MAX` (-1) for "use and advance the file position". -/
def readView (d : Driver) (s : St) (h : Handle) (pos total : Nat) (vectored : Bool) :
    Except Nat (Bytes × Nat × Bool) :=
  if !h.r then .error EBADF else
  match h.ino with
  | none =>
    if total = 0 ∧ (vectored ∨ d = .iour) then .ok ([], 0, false) else .error EISDIR
  | some i =>
    if pos = minusOne ∧ d = .iour then .ok (s.content i, h.pos, true)
    else if pos ≥ two63 then .error EINVAL
    else if pos + total > two63 - 1 then .error EINVAL
    else .ok (s.content i, pos, false)

def advancePos (s : St) (hid : Nat) (h : Handle) (adv : Bool) (n : Nat) : St :=
  if adv then { s with handles := insert s.handles hid { h with pos := h.pos + n } } else s

/-- write positions/lengths beyond this are not executed by the harness (sparse giant files, `EFBIG`/`SIGXFSZ`) -/
def writeLimit : Nat := 2 ^ 24

/-- positional write of `data`; offset `u64::MAX` is -1: `EINVAL` from `pwrite`, "use and advance the file
position" for io_uring (finding C08c) -/
def writeAtPos (d : Driver) (s : St) (hid : Nat) (h : Handle) (ino pos : Nat) (data : Bytes) : St × String :=
  if pos = minusOne then
    match d with
    | .poll => (s, s!"err {EINVAL}")
    | .iour =>
      let s := s.setContent ino (pwrite (s.content ino) h.pos data)
      (advancePos s hid h true data.length, s!"ok {data.length}")
  else (s.setContent ino (pwrite (s.content ino) pos data), s!"ok {data.length}")

/-- sequential `Read`/`Write` through `AsyncFd` on a regular file, as the drivers have it (finding C08a):
io_uring submits the entry without an offset, i.e. offset 0, whatever the file position is; the polling
driver asks epoll to watch the descriptor, which fails with `EPERM` for a regular file -/
def seqOffset (d : Driver) (_filePos : Nat) : Except Nat Nat :=
  match d with
  | .iour => .ok 0
  | .poll => .error EPERM

/-! ## splice -/

def ESPIPE := 29

/-- how the polling driver's `Splice::pre_submit` chooses the descriptors to wait for (regenerated):
`bothEnds` registers both with epoll, which refuses regular files (`EPERM`, finding F080) -/
abbrev SpliceWait := Compio.Gen.OpTable.SpliceWait

inductive End where
  | file (h : Nat)
  | pipe (p : Nat)
  deriving DecidableEq, Repr

inductive SpliceOut where
  | ok (n : Nat)
  | err (e : Nat)
  | answer (s : String)
  deriving DecidableEq, Repr

/-- `compio_fs::pipe::splice(src, dst, len).offset_in(..).offset_out(..)`; `eperm` = the driver registers both
ends with epoll. The harness' guards come first (`nohandle`, `closed`, `wouldblock`, `full`), then the driver, then the kernel. -/
def St.spliceCore (eperm : Bool) (s : St) (src dst : End) (len : Nat) (oi oo : Option Nat) :
    St × SpliceOut :=
  -- guards on a pipe source
  let g1 : Option String :=
    match src with
    | .pipe p =>
      match lookup s.pipes p with
      | none => some "nohandle"
      | some pp =>
        if !pp.rOpen then some "closed"
        else if pp.buf.isEmpty && (pp.wOpen || pp.fifo) then some "wouldblock" else none
    | .file _ => none
  match g1 with
  | some a => (s, .answer a)
  | none =>
  let g2 : Option String :=
    match dst with
    | .pipe p =>
      match lookup s.pipes p with
      | none => some "nohandle"
      | some pp =>
        if !pp.wOpen then some "closed"
        else if pp.slots ≥ slotLimit || pp.buf.length ≥ pipeCapacity then some "full" else none
    | .file _ => none
  match g2 with
  | some a => (s, .answer a)
  | none =>
  let missing (e : End) : Bool :=
    match e with
    | .file h => (lookup s.handles h).isNone
    | .pipe _ => false
  let isFile (e : End) : Bool :=
    match e with
    | .file _ => true
    | .pipe _ => false
  if missing src || missing dst then (s, .answer "nohandle") else
  let hasFile := isFile src || isFile dst
  if eperm && hasFile then (s, .err EPERM) else
  if len = 0 then (s, .ok 0) else
  match src, dst with
  | .file _, .file _ => (s, .err EINVAL)
  | .pipe a, .pipe b =>
    if oi.isSome || oo.isSome then (s, .err ESPIPE) else
    if a = b then (s, .err EINVAL) else
    match lookup s.pipes a, lookup s.pipes b with
    | some pa, some pb =>
      if len = 0 then (s, .ok 0) else
      if !pb.rOpen && !pb.fifo then (s, .err EPIPE) else
      let n := min len (pipeCapacity - pb.buf.length)
      let data := pa.buf.take n
      let s := { s with pipes := insert s.pipes a (pa.pop data.length) }
      ({ s with pipes := insert s.pipes b (pb.pushRefs data (pa.alias.take n)) }, .ok data.length)
    | _, _ => (s, .answer "nohandle")
  | .file h, .pipe p =>
    match lookup s.handles h, lookup s.pipes p with
    | some hd, some pp =>
      if oo.isSome then (s, .err ESPIPE) else
      if !hd.r then (s, .err EBADF) else
      match hd.ino with
      | none => (s, .err EINVAL)
      | some i =>
        if len = 0 then (s, .ok 0) else
        if !pp.rOpen && !pp.fifo then (s, .err EPIPE) else
        let pos := oi.getD hd.pos
        let data := pread (s.content i) pos (min len (pipeCapacity - pp.buf.length))
        let s := if oi.isNone then { s with handles := insert s.handles h { hd with pos := hd.pos + data.length } } else s
        let refs := (List.range data.length).map fun j => some (i, pos + j)
        ({ s with pipes := insert s.pipes p (pp.pushRefs data refs) }, .ok data.length)
    | _, _ => (s, .answer "nohandle")
  | .pipe p, .file h =>
    match lookup s.pipes p, lookup s.handles h with
    | some pp, some hd =>
      if oi.isSome then (s, .err ESPIPE) else
      if !hd.w then (s, .err EBADF) else
      match hd.ino with
      | none => (s, .err EBADF)
      | some i =>
        if len = 0 then (s, .ok 0) else
        let data := (s.pipeBytes pp).take len
        let pos := oo.getD hd.pos
        let s := s.setContent i (pwrite (s.content i) pos data)
        let s := if oo.isNone then { s with handles := insert s.handles h { hd with pos := hd.pos + data.length } } else s
        ({ s with pipes := insert s.pipes p (pp.pop data.length) }, .ok data.length)
    | _, _ => (s, .answer "nohandle")

/-- on driver `d`, given how the polling driver's `Splice::pre_submit` picks the descriptors to wait for -/
def St.splice (d : Driver) (wait : SpliceWait) (s : St) (src dst : End) (len : Nat) (oi oo : Option Nat) :
    St × SpliceOut :=
  s.spliceCore (d = .poll && wait = .bothEnds) src dst len oi oo

end Compio.FileRef
