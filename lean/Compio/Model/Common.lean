/-
Common helpers for the line-protocol drivers (hex bytes, number parsing, stdin loop).
Core Lean only: everything under Compio/Model must stay Mathlib-free so the drivers link as `lean_exe`.
-/
namespace Compio

abbrev Bytes := List UInt8

def hexDigit (n : Nat) : Char :=
  if n < 10 then Char.ofNat (48 + n) else Char.ofNat (87 + n)

def hexOfByte (b : UInt8) : String :=
  String.ofList [hexDigit (b.toNat / 16), hexDigit (b.toNat % 16)]

/-- canonical text form of a byte string: lowercase hex, `-` for the empty string -/
def hexOf (bs : Bytes) : String :=
  if bs.isEmpty then "-" else String.join (bs.map hexOfByte)

def hexVal (c : Char) : Option Nat :=
  if '0' ≤ c ∧ c ≤ '9' then some (c.toNat - 48)
  else if 'a' ≤ c ∧ c ≤ 'f' then some (c.toNat - 87)
  else none

def parseHexChars : List Char → Option Bytes
  | [] => some []
  | [_] => none
  | a :: b :: rest =>
    match hexVal a, hexVal b, parseHexChars rest with
    | some x, some y, some r => some (UInt8.ofNat (x * 16 + y) :: r)
    | _, _, _ => none

def parseHex (s : String) : Option Bytes :=
  if s = "-" then some [] else parseHexChars s.toList

def words (line : String) : List String :=
  (line.trimAscii.toString.splitOn " ").filter (· ≠ "")

partial def stdinLoop {σ : Type} (step : σ → String → σ × String) (init : σ) : IO Unit := do
  let h ← IO.getStdin
  let out ← IO.getStdout
  let rec loop (s : σ) : IO Unit := do
    let line ← h.getLine
    if line.isEmpty then return ()
    let (s', o) := step s line
    out.putStrLn o
    loop s'
  loop init
  out.flush

end Compio
