/-
C05 additions to the shared script layer (`KeyLifeScript`, unchanged): the submit FLAVOURS of the runtime-level token cases
(`e`/`E` = `submit(op).with_extra()`, `m`/`M` = the multishot stream; whether the freshly pushed key is registered with the
token is read from the regenerated table `Gen.submitRegisterSites`), and the multi-descriptor world (`mfd …` cases,
`PollQueuesMulti05`). Core Lean only.
-/
import Compio.Model.KeyLifeScript
import Compio.Model.PollQueuesMulti05
import Compio.Gen.SubmitRegister

namespace Compio.KeyLife.Script05

open Compio Compio.KeyLife Compio.KeyLife.Script

/-- does the `State::Idle` arm of this submit flavour hand the fresh key to a token that has / has not fired?
(`registers`, `unconditional`) from the extracted table; a conditional registration skips a fired token -/
def flavourRegisters (sites : List (String × String × Bool × Bool)) (fl : String) (fired : Bool) : Bool :=
  match sites.find? (fun r => r.1 == fl) with
  | some r => r.2.2.1 && (r.2.2.2 || !fired)
  | none => false

/-- step letter -> (behaviour of the step as in `rtOp`, submit flavour) -/
def stepFlavour (st : String) : Option (String × String) :=
  if st = "e" then some ("r", "with_extra") else if st = "E" then some ("k", "with_extra")
  else if st = "m" then some ("r", "multi") else if st = "M" then some ("k", "multi")
  else if st = "r" ∨ st = "k" ∨ st = "d" then some (st, "plain") else none

def rtStep5 (r : RtRun) (st : String) : RtRun :=
  match stepFlavour st with
  | some (base, fl) =>
    let r' := rtOp { r with sees := r.sees && flavourRegisters Gen.submitRegisterSites fl r.tok.fired } base
    { r' with sees := r.sees }
  | none => rtStep r st

def rtCase5 (sim : Sim) (steps : List String) (neighbour : Bool) (nest : String := "c") : Sim × String :=
  let sim := if neighbour then (exec sim ["push", "rd", "0"]).1 else sim
  let r := steps.foldl rtStep5 ⟨sim, Token.new, [], 1, ExtStack.tokenVisible (ExtStack.ofNest nest)⟩
  let nres := if neighbour then
      match opOf r.sim 0 with
      | some o => if o.cancelled then "c" else "t"
      | none => "?"
    else "-"
  let sim' := if neighbour then settle (ev r.sim (.userCancel 0 [])) else r.sim
  (sim', (if sim'.dead then "reject" else ",".intercalate r.outs ++ " n:" ++ nres) ++ " | -")

structure S05 where
  sim : Sim
  multi : Option Multi05.MW := none

def S05.init : S05 := ⟨Sim.init .iour 1024, none⟩

def stepLine05 (s : S05) (ln : String) : S05 × String :=
  if ln.startsWith "#case" then (S05.init, ln.trimAscii.toString) else
  match words ln with
  | ["mfd", d, fed] => ({ s with multi := some (Multi05.start d fed) }, "ok")
  | ["tok", steps, nb] => let (sim, o) := rtCase5 s.sim (steps.splitOn ",") (nb == "1"); ({ s with sim := sim }, o)
  | ["tok", steps, nb, nest] => let (sim, o) := rtCase5 s.sim (steps.splitOn ",") (nb == "1") nest; ({ s with sim := sim }, o)
  | w =>
    match s.multi with
    | some m => let (m', o) := Multi05.line m w; ({ s with multi := some m' }, o)
    | none => let (sim, o) := stepLine s.sim ln; ({ s with sim := sim }, o)

end Compio.KeyLife.Script05
