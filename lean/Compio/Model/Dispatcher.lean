/-
Model of `compio-dispatcher/src/lib.rs` (`Dispatcher::new_impl`, `dispatch`, `dispatch_blocking`, `join`)
on top of `compio-runtime/src/lib.rs` (`block_on_at`, `Runtime::drop`) and the executor's task objects
(`compio-executor/src/task`): property C18 "the dispatcher starts every accepted task exactly once".

A labelled transition system.  One `Event` is one atomic point of one thread.

  dispatching thread `d` (any thread holding `&Dispatcher`)
    dispatch d t b        `self.sender.send(Spawning{..})`: flume accepts while a `Receiver` clone is alive
                          (`Shared::send`: `is_disconnected()` ⇒ `Err`, the closure is handed back in
                          `DispatchError`), otherwise the boxed `Concrete{callback, func}` is queued; the
                          caller keeps the `oneshot::Receiver`
    dispatchBlocking ..   `self.pool.dispatch(concrete)` (the blocking pool may refuse: `ok = false`)
    runBlocking t         a pool thread runs `Dispatchable::run`: `func()`, `callback.send(res).ok()`
    rxDrop t              the caller drops its `oneshot::Receiver` (fire and forget)

  worker thread `w < nw`: `Runtime::block_on_at(async { while let Ok(..) = receiver.recv_async().await {..} })`
    recv w t              `recv_async()` yields the queued item `t`; `f.spawn(rt, meta)` puts the future
                          `async { let res = func().await; callback.send(res).ok(); }` into w's executor;
                          concurrent: `task.detach()`, back to `recv`; sequential: `task.await.ok()`
    poll w t              the executor (`Executor::tick`) polls task `t`:
                            first poll            `func()` is called: the task *starts* (ghost counters)
                            later polls           one suspension of the body (yield / timer / I/O) is over
                            no suspension left    the body returns (`callback.send(res)`), or panics (the
                                                  panic is caught by the task, `callback` is dropped while
                                                  unwinding: the receiver sees `Canceled`); in sequential mode
                                                  the worker loop, which awaits the `JoinHandle`, goes on
    remoteWake t          any thread (a helper thread, another worker) calls `wake()` on a waker of task `t` --
                          at any time, also while `t` is being polled (between two events of `t`), any number of
                          times: the wake is remembered (`woken t`) until `t` is polled again.  The executor's
                          cross-thread wake protocol itself is property C04's subject; here a poll of a live task
                          is always enabled, so a remembered wake is never the last word
    die w p               the worker *thread* panics with payload `p` outside of any task (e.g. a waker run by
                          `TimerRuntime::wake`, `panic!("{e:?}")` in `poll_with`, runtime creation)
    reap w                `block_on_at` unwinds: the loop future (with its flume `Receiver`) is dropped, then
                          `executor.clear()` drops every task of the worker -- with its `callback`
    exitLoop w            `recv_async()` gives `Err(Disconnected)`: sender dropped and queue empty; the loop
                          future completes (its `Receiver` is dropped); `block_on` runs one more tick
    teardown w            `block_on` returns, the `Runtime` is dropped: `executor.clear()` drops the tasks that
                          are still unfinished (concurrent mode: detached tasks) -- with their `callback`

  `join(self)`
    joinStart             `drop(self.sender)`
    joinPool              `self.pool.dispatch(joiner)` accepts the closure that joins the worker threads: it runs
                          on a thread of the blocking pool
    joinFallbackThread    the pool refuses it (`Err(f)`: thread limit reached and every pool thread busy):
                          `std::thread::spawn(f.0)` -- the joiner runs on a fresh thread of its own
    joinReturn            the joiner has joined every thread (`thread.join()`) and sent the results;
                          `resume_unwind` of the first panicked worker in thread order, else `Ok(())`

Assumption A-E3 (flume): a queued item is handed to exactly one `recv_async` (the item is *moved* out of the
queue by `recv`); an item stays in the channel until it is received or the channel itself is freed, which
happens when the `Sender` and all `Receiver`s are gone (`gc`).  flume's FIFO order is not used by any C18
theorem: `recv w t` takes any queued `t` (the deterministic driver schedule takes the head).

The closure of a task is abstracted to `Body`: the number of suspensions it goes through and how it ends.
All interleavings = all `List Event` accepted by `run?`.  Core Lean only (linked into `c18d`).
-/
namespace Compio.Dispatcher

/-- how the body of a task ends: returns `v`, panics, or never ends (e.g. a sleep that outlives the test) -/
inductive Out where
  | ok (v : Nat)
  | panic
  | never
  deriving DecidableEq, Repr, Inhabited

structure Body where
  /-- suspensions (`Poll::Pending`) the body goes through before it ends -/
  steps : Nat
  out : Out
  deriving DecidableEq, Repr, Inhabited

/-- where the boxed task object (closure + `oneshot::Sender`) is -/
inductive TStat where
  | absent                       -- never accepted
  | queued                       -- in the flume queue
  | spawned (w : Nat)            -- in w's executor, not polled yet
  | running (w : Nat) (k : Nat)  -- started on w, `k` suspensions left
  | done (w : Nat)               -- body ended on w (returned or panicked)
  | dropped (on : Option Nat)    -- dropped unfinished together with its `callback`; `some w`: had started on w
  | pooled                       -- `dispatch_blocking`: in the blocking pool
  | poolDone                     -- `dispatch_blocking`: ran on a pool thread
  deriving DecidableEq, Repr, Inhabited

/-- the worker's loop future / thread -/
inductive Main where
  | idle                 -- in `receiver.recv_async().await`
  | awaiting (t : Nat)   -- sequential mode: in `task.await`
  | draining             -- loop left, `block_on`'s last tick
  | exited               -- thread finished normally
  | dying (p : Nat)      -- thread is panicking with payload `p` (unwinding has not dropped anything yet)
  | dead (p : Nat)       -- thread finished by panic
  deriving DecidableEq, Repr, Inhabited

/-- the `oneshot` channel of a task as seen from the receiver -/
inductive Chan where
  | none                -- no such channel
  | pending             -- `Sender` alive, nothing sent
  | value (v : Nat)     -- `Ok(v)`
  | cancelled           -- `Sender` dropped without sending: `Err(Canceled)`
  | closed              -- the caller dropped the `Receiver`
  deriving DecidableEq, Repr, Inhabited

inductive Event where
  | dispatch (d t : Nat) (b : Body)
  | dispatchBlocking (d t : Nat) (b : Body) (ok : Bool)
  | runBlocking (t : Nat)
  | rxDrop (t : Nat)
  | recv (w t : Nat)
  | poll (w t : Nat)
  | remoteWake (t : Nat)
  | die (w p : Nat)
  | reap (w : Nat)
  | joinStart
  | joinPool
  | joinFallbackThread
  | exitLoop (w : Nat)
  | teardown (w : Nat)
  | joinReturn
  deriving DecidableEq, Repr

/-- point update of a function -/
def upd {α : Type} (f : Nat → α) (i : Nat) (x : α) : Nat → α := fun k => if k = i then x else f k

structure St where
  /-- `nthreads` -/
  nw : Nat
  /-- `DispatcherBuilder::concurrent` -/
  conc : Bool
  /-- the `Dispatcher` (its flume `Sender`) is alive -/
  sender : Bool
  /-- flume queue of `Spawning` items -/
  queue : List Nat
  body : Nat → Body
  stat : Nat → TStat
  main : Nat → Main
  chan : Nat → Chan
  /-- where the closure that joins the worker threads runs: `none` = not handed over yet,
  `some true` = on the blocking pool, `some false` = on the fallback thread -/
  joiner : Option Bool
  /-- `join` has returned: `some none` = `Ok(())`, `some (some p)` = resumed panic `p` -/
  joined : Option (Option Nat)
  /-- ghost: tasks whose `dispatch` / `dispatch_blocking` returned `Ok`, in acceptance order -/
  accepted : List Nat
  /-- ghost: tasks handed back in `DispatchError` -/
  rejected : List Nat
  /-- ghost: how often `func()` of task `t` was called -/
  started : Nat → Nat
  /-- ghost: the workers on which `func()` of task `t` was called -/
  startedOn : Nat → List Nat
  /-- ghost: how often the body of `t` ended (returned or panicked) -/
  ended : Nat → Nat
  /-- ghost: how often a value was sent into the channel of `t` -/
  sent : Nat → Nat
  /-- a wake of task `t` is pending: it was woken (from any thread) since its last poll -/
  woken : Nat → Bool

def init (nw : Nat) (conc : Bool) : St :=
  { nw := nw, conc := conc, sender := true, queue := [], body := fun _ => default,
    stat := fun _ => .absent, main := fun _ => .idle, chan := fun _ => .none, joiner := none, joined := none,
    accepted := [], rejected := [], started := fun _ => 0, startedOn := fun _ => [],
    ended := fun _ => 0, sent := fun _ => 0, woken := fun _ => false }

/-- the loop future of the worker still owns its flume `Receiver` -/
def Main.holdsRx : Main → Bool
  | .idle | .awaiting _ | .dying _ => true
  | _ => false

/-- the worker's executor still polls tasks -/
def Main.canPoll : Main → Bool
  | .idle | .awaiting _ | .draining => true
  | _ => false

/-- the worker is inside its `while let` loop (where the driver is polled and timers fire) -/
def Main.inLoop : Main → Bool
  | .idle | .awaiting _ => true
  | _ => false

/-- the thread has finished -/
def Main.gone : Main → Bool
  | .exited | .dead _ => true
  | _ => false

def anyRx (s : St) : Bool := (List.range s.nw).any fun w => (s.main w).holdsRx

def allGone (s : St) : Bool := (List.range s.nw).all fun w => (s.main w).gone

/-- payload of the first panicked worker in thread order -/
def firstDead (s : St) : Option Nat :=
  (List.range s.nw).findSome? fun w => match s.main w with | .dead p => some p | _ => none

/-- the task object lives in w's executor and is unfinished -/
def TStat.activeOn (w : Nat) : TStat → Bool
  | .spawned w' => w' == w
  | .running w' _ => w' == w
  | _ => false

/-- what a dropped unfinished task becomes -/
def TStat.dropIt : TStat → TStat
  | .running w _ => .dropped (some w)
  | _ => .dropped none

/-- the `oneshot::Sender` is dropped without having sent -/
def Chan.cancel : Chan → Chan
  | .pending => .cancelled
  | c => c

/-- `callback.send(v).ok()` -/
def Chan.send (v : Nat) : Chan → Chan
  | .pending => .value v
  | c => c

/-- the channel is freed once the `Sender` and every `Receiver` are gone: queued items are dropped -/
def gc (s : St) : St :=
  if !s.sender && !anyRx s then
    { s with queue := [],
             stat := fun t => if t ∈ s.queue then .dropped none else s.stat t,
             chan := fun t => if t ∈ s.queue then (s.chan t).cancel else s.chan t }
  else s

/-- `executor.clear()` of worker `w` -/
def clearExec (s : St) (w : Nat) : St :=
  { s with stat := fun t => if (s.stat t).activeOn w then (s.stat t).dropIt else s.stat t,
           chan := fun t => if (s.stat t).activeOn w then (s.chan t).cancel else s.chan t }

/-- a task id that was never used -/
def fresh (s : St) (t : Nat) : Bool :=
  decide (s.stat t = .absent) && !s.rejected.contains t

def dispatch? (s : St) (t : Nat) (b : Body) : Option St :=
  if s.sender && fresh s t then
    if anyRx s then
      some { s with queue := s.queue ++ [t], body := upd s.body t b, stat := upd s.stat t .queued,
                    chan := upd s.chan t .pending, accepted := s.accepted ++ [t] }
    else some { s with rejected := s.rejected ++ [t] }
  else none

def dispatchBlocking? (s : St) (t : Nat) (b : Body) (ok : Bool) : Option St :=
  if s.sender && fresh s t then
    if ok then
      some { s with body := upd s.body t b, stat := upd s.stat t .pooled,
                    chan := upd s.chan t .pending, accepted := s.accepted ++ [t] }
    else some { s with rejected := s.rejected ++ [t] }
  else none

def runBlocking? (s : St) (t : Nat) : Option St :=
  if s.stat t = .pooled then
    match (s.body t).out with
    | .ok v => some { s with stat := upd s.stat t .poolDone, chan := upd s.chan t ((s.chan t).send v),
                             started := upd s.started t (s.started t + 1),
                             ended := upd s.ended t (s.ended t + 1), sent := upd s.sent t (s.sent t + 1) }
    | .panic => some { s with stat := upd s.stat t .poolDone, chan := upd s.chan t (s.chan t).cancel,
                              started := upd s.started t (s.started t + 1),
                              ended := upd s.ended t (s.ended t + 1) }
    | .never => none
  else none

def rxDrop? (s : St) (t : Nat) : Option St :=
  if s.chan t ≠ .none && s.chan t ≠ .closed then some { s with chan := upd s.chan t .closed } else none

def recv? (s : St) (w t : Nat) : Option St :=
  if decide (w < s.nw) && decide (s.main w = .idle) && s.queue.contains t then
    some { s with queue := s.queue.erase t, stat := upd s.stat t (.spawned w),
                  main := if s.conc then s.main else upd s.main w (.awaiting t) }
  else none

/-- the worker loop after a task has ended: `wake` = the loop was awaiting this very task
(a `Bool` argument, evaluated once: the compiled closure must not look `main w` up on every use) -/
def resume (main : Nat → Main) (w : Nat) (wake : Bool) : Nat → Main :=
  if wake then upd main w .idle else main

def poll? (s : St) (w t : Nat) : Option St :=
  if decide (w < s.nw) && (s.main w).canPoll then
    match s.stat t with
    | .spawned w' =>
      if w' = w then
        some { s with stat := upd s.stat t (.running w (s.body t).steps),
                      started := upd s.started t (s.started t + 1),
                      startedOn := upd s.startedOn t (w :: s.startedOn t), woken := upd s.woken t false }
      else none
    | .running w' (k + 1) =>
      if w' = w then some { s with stat := upd s.stat t (.running w k), woken := upd s.woken t false } else none
    | .running w' 0 =>
      if w' = w then
        match (s.body t).out with
        | .ok v => some { s with stat := upd s.stat t (.done w), chan := upd s.chan t ((s.chan t).send v),
                                 main := resume s.main w (decide (s.main w = .awaiting t)), ended := upd s.ended t (s.ended t + 1),
                                 sent := upd s.sent t (s.sent t + 1), woken := upd s.woken t false }
        | .panic => some { s with stat := upd s.stat t (.done w), chan := upd s.chan t (s.chan t).cancel,
                                  main := resume s.main w (decide (s.main w = .awaiting t)), ended := upd s.ended t (s.ended t + 1),
                                  woken := upd s.woken t false }
        | .never => none
      else none
    | _ => none
  else none

/-- a waker of an accepted task is used, from whatever thread -/
def remoteWake? (s : St) (t : Nat) : Option St :=
  if s.stat t ≠ .absent then some { s with woken := upd s.woken t true } else none

def die? (s : St) (w p : Nat) : Option St :=
  if decide (w < s.nw) && (s.main w).inLoop then
    some { s with main := upd s.main w (.dying p) }
  else none

def reap? (s : St) (w : Nat) : Option St :=
  match s.main w with
  | .dying p => if w < s.nw then some (gc (clearExec { s with main := upd s.main w (.dead p) } w)) else none
  | _ => none

def joinStart? (s : St) : Option St :=
  if s.sender then some (gc { s with sender := false }) else none

/-- the joiner closure is handed to the pool (`onPool = true`) or, refused by it, to a fresh thread -/
def joinHand? (s : St) (onPool : Bool) : Option St :=
  if !s.sender && s.joiner.isNone then some { s with joiner := some onPool } else none

def exitLoop? (s : St) (w : Nat) : Option St :=
  if decide (w < s.nw) && decide (s.main w = .idle) && !s.sender && s.queue.isEmpty then
    -- (the queue is empty: freeing the channel drops nothing)
    some { s with main := upd s.main w .draining }
  else none

def teardown? (s : St) (w : Nat) : Option St :=
  if decide (w < s.nw) && decide (s.main w = .draining) then
    some (clearExec { s with main := upd s.main w .exited } w)
  else none

def joinReturn? (s : St) : Option St :=
  if !s.sender && s.joiner.isSome && s.joined.isNone && allGone s then
    some { s with joined := some (firstDead s) }
  else none

/-- one transition; `none` = the event is not enabled in `s` -/
def step? (s : St) : Event → Option St
  | .dispatch _ t b => dispatch? s t b
  | .dispatchBlocking _ t b ok => dispatchBlocking? s t b ok
  | .runBlocking t => runBlocking? s t
  | .rxDrop t => rxDrop? s t
  | .recv w t => recv? s w t
  | .poll w t => poll? s w t
  | .remoteWake t => remoteWake? s t
  | .die w p => die? s w p
  | .reap w => reap? s w
  | .joinStart => joinStart? s
  | .joinPool => joinHand? s true
  | .joinFallbackThread => joinHand? s false
  | .exitLoop w => exitLoop? s w
  | .teardown w => teardown? s w
  | .joinReturn => joinReturn? s

/-- a schedule: every event must be enabled when it is taken -/
def run? (s : St) : List Event → Option St
  | [] => some s
  | e :: es => match step? s e with
    | some s' => run? s' es
    | none => none

/-- states reachable from a fresh dispatcher with `nw` workers -/
def Reachable (nw : Nat) (conc : Bool) (s : St) : Prop := ∃ evs, run? (init nw conc) evs = some s

end Compio.Dispatcher
