/-
C08 — directory utilities of compio-fs (`create_dir`, `create_dir_all` / `DirBuilder`, `remove_dir`,
`remove_file`, `rename`, `hard_link`, `symlink`, `metadata`, `symlink_metadata`) on a small tree.

* `FsOps`/`cda`: the DECISION logic of `DirBuilder::create_dir_all` (compio-fs/src/utils/mod.rs) over an abstract
  file system: mkdir → the arms of the first `match` (REGENERATED: `Gen.DirBuilder.firstAttempt`) → recurse
  into the parent → mkdir again → the arms of the second `match` (`Gen.DirBuilder.secondAttempt`).
* `Ns`: a concrete tree with regular files (inode identity for hard links), directories and symbolic links
  (targets are paths from the root of the tree), with the kernel's path walk; it instantiates `FsOps` and is
  what the line-protocol driver runs. The OS twin checks it on every run.

Core Lean only.
-/
import Compio.Model.FileRef

namespace Compio.DirUtil

open Compio.FileRef (ENOENT EEXIST ENOTDIR EISDIR EPERM EINVAL ELOOP lookup remove insert)
open Compio.Gen.DirBuilder (Guard Act Arm)

abbrev Path := List String

def ENOTEMPTY := 39
/-- model-only result codes (never produced by the OS): loop bound exhausted / `io::Error::other` -/
def eFuel := 9999
def eOther := 9998
def eBadArm := 9997

/-! ## `create_dir_all` over an abstract file system -/

structure FsOps (σ : Type) where
  mkdir : σ → Path → σ × Except Nat Unit
  /-- `metadata(path).map(|m| m.is_dir()).unwrap_or_default()` -/
  isDir : σ → Path → Bool

def armMatches (a : Arm) (r : Except Nat Unit) (recheck : Bool) : Bool :=
  match r with
  | .ok _ => a.onOk
  | .error e =>
    !a.onOk && (match a.guard with
      | .always => true
      | .kindEq k => e == k
      | .recheckIsDir => recheck)

/-- the first arm that matches decides; a `match` without a matching arm does not compile, `retErr` stands in -/
def evalArms : List Arm → Except Nat Unit → Bool → Act
  | [], _, _ => .retErr
  | a :: as, r, recheck => if armMatches a r recheck then a.act else evalArms as r recheck

def errOf (r : Except Nat Unit) : Except Nat Unit :=
  match r with
  | .ok _ => .error eBadArm
  | .error e => .error e

/-- `DirBuilder::create_dir_all(path)`; `fuel` bounds the recursion into the parents (`path.length + 1` suffices) -/
def cda {σ : Type} (ops : FsOps σ) (arms1 arms2 : List Arm) : Nat → σ → Path → σ × Except Nat Unit
  | 0, s, _ => (s, .error eFuel)
  | fuel + 1, s, p =>
    let m1 := ops.mkdir s p
    match evalArms arms1 m1.2 (ops.isDir m1.1 p) with
    | .retOk => (m1.1, .ok ())
    | .retErr => (m1.1, errOf m1.2)
    | .fall =>
      match p with
      | [] => (m1.1, .error eOther)
      | _ :: _ =>
        let r2 := cda ops arms1 arms2 fuel m1.1 p.dropLast
        match r2.2 with
        | .error e => (r2.1, .error e)
        | .ok _ =>
          let m3 := ops.mkdir r2.1 p
          match evalArms arms2 m3.2 (ops.isDir m3.1 p) with
          | .retOk => (m3.1, .ok ())
          | _ => (m3.1, errOf m3.2)

/-- what the proof needs from a file system -/
structure Lawful {σ : Type} (ops : FsOps σ) : Prop where
  /-- the root of the tree is a directory -/
  root : ∀ s, ops.isDir s [] = true
  /-- a successful mkdir makes the path a directory -/
  mkdir_ok : ∀ s p, (ops.mkdir s p).2 = .ok () → ops.isDir (ops.mkdir s p).1 p = true
  /-- a failed mkdir changes nothing -/
  mkdir_err : ∀ s p e, (ops.mkdir s p).2 = .error e → (ops.mkdir s p).1 = s
  /-- `ENOENT` is not the answer for something that is a directory -/
  mkdir_enoent : ∀ s p, (ops.mkdir s p).2 = .error ENOENT → ops.isDir s p = false
  /-- the parent of a directory is a directory -/
  parent : ∀ s p, ops.isDir s p = true → ops.isDir s p.dropLast = true

/-! ## a concrete tree -/

inductive Ent where
  | file (ino : Nat)
  | dir
  | link (ino : Nat) (target : Path)
  deriving DecidableEq, Repr

structure Ns where
  ents : List (Path × Ent) := []
  nextIno : Nat := 0
  deriving Repr

def Ns.get (ns : Ns) (p : Path) : Option Ent := if p = [] then some .dir else lookup ns.ents p

/-- the kernel's path walk from the root of the tree: `cur` is resolved so far, `rest` still to go.
`follow` = follow a symbolic link in the last component. Every step (component or link expansion) costs one
unit of `steps`; at most `links` links are expanded (`ELOOP`, the kernel allows 40).
Result: the canonical path of the last component and what is there (`none` = a missing last component
whose parent is a directory). -/
def Ns.walk (ns : Ns) (follow : Bool) : Nat → Nat → Path → Path → Except Nat (Path × Option Ent)
  | 0, _, _, _ => .error eFuel
  | _ + 1, _, cur, [] => .ok (cur, ns.get cur)
  | steps + 1, links, cur, c :: rest =>
    let here := cur ++ [c]
    match ns.get here with
    | none => if rest.isEmpty then .ok (here, none) else .error ENOENT
    | some (.file i) => if rest.isEmpty then .ok (here, some (.file i)) else .error ENOTDIR
    | some .dir => ns.walk follow steps links here rest
    | some (.link i t) =>
      if rest.isEmpty && !follow then .ok (here, some (.link i t))
      else if links = 0 then .error ELOOP
      else ns.walk follow steps (links - 1) [] (t ++ rest)

def walkSteps : Nat := 4000

def Ns.resolve (ns : Ns) (follow : Bool) (p : Path) : Except Nat (Path × Option Ent) :=
  ns.walk follow walkSteps 40 [] p

/-- `mkdirat` -/
def Ns.mkdir (ns : Ns) (p : Path) : Ns × Except Nat Unit :=
  if p = [] then (ns, .error EEXIST) else
  match ns.resolve false p with
  | .error e => (ns, .error e)
  | .ok (_, some _) => (ns, .error EEXIST)
  | .ok (rp, none) => ({ ns with ents := insert ns.ents rp .dir }, .ok ())

def Ns.isDir (ns : Ns) (p : Path) : Bool :=
  match ns.resolve true p with
  | .ok (_, some .dir) => true
  | _ => false

def Ns.ops : FsOps Ns := ⟨Ns.mkdir, Ns.isDir⟩

/-- `compio_fs::create_dir_all` / `DirBuilder::new().recursive(true).create` with the regenerated arms -/
def Ns.createDirAll (ns : Ns) (p : Path) : Ns × Except Nat Unit :=
  cda Ns.ops Gen.DirBuilder.firstAttempt Gen.DirBuilder.secondAttempt (p.length + 1) ns p

def isPrefix (a b : Path) : Bool := a.length ≤ b.length && b.take a.length == a

def Ns.hasChildren (ns : Ns) (p : Path) : Bool :=
  ns.ents.any fun (q, _) => q.length > p.length && isPrefix p q

/-- `unlinkat(.., AT_REMOVEDIR)` -/
def Ns.rmdir (ns : Ns) (p : Path) : Ns × Except Nat Unit :=
  if p = [] then (ns, .error EINVAL) else
  match ns.resolve false p with
  | .error e => (ns, .error e)
  | .ok (_, none) => (ns, .error ENOENT)
  | .ok (rp, some .dir) =>
    if ns.hasChildren rp then (ns, .error ENOTEMPTY) else ({ ns with ents := remove ns.ents rp }, .ok ())
  | .ok (_, some _) => (ns, .error ENOTDIR)

/-- `unlinkat(.., 0)` -/
def Ns.unlink (ns : Ns) (p : Path) : Ns × Except Nat Unit :=
  if p = [] then (ns, .error EISDIR) else
  match ns.resolve false p with
  | .error e => (ns, .error e)
  | .ok (_, none) => (ns, .error ENOENT)
  | .ok (_, some .dir) => (ns, .error EISDIR)
  | .ok (rp, some _) => ({ ns with ents := remove ns.ents rp }, .ok ())

/-- `symlinkat(target, .., p)`; the harness passes the absolute form of `target` (a path from the root) -/
def Ns.symlink (ns : Ns) (target p : Path) : Ns × Except Nat Unit :=
  if p = [] then (ns, .error EEXIST) else
  match ns.resolve false p with
  | .error e => (ns, .error e)
  | .ok (_, some _) => (ns, .error EEXIST)
  | .ok (rp, none) =>
    ({ ns with ents := insert ns.ents rp (.link ns.nextIno target), nextIno := ns.nextIno + 1 }, .ok ())

/-- a regular file appears (the harness uses `std::fs::write` for the setup) -/
def Ns.touch (ns : Ns) (p : Path) : Ns × Except Nat Unit :=
  if p = [] then (ns, .error EISDIR) else
  match ns.resolve true p with
  | .error e => (ns, .error e)
  | .ok (_, some .dir) => (ns, .error EISDIR)
  | .ok (_, some _) => (ns, .ok ())
  | .ok (rp, none) =>
    ({ ns with ents := insert ns.ents rp (.file ns.nextIno), nextIno := ns.nextIno + 1 }, .ok ())

/-- `linkat(.., a, .., b, 0)`: the last component of `a` is not followed -/
def Ns.hardlink (ns : Ns) (a b : Path) : Ns × Except Nat Unit :=
  match ns.resolve false a with
  | .error e => (ns, .error e)
  | .ok (_, none) => (ns, .error ENOENT)
  | .ok (_, some ea) =>
    if b = [] then (ns, .error EEXIST) else
    match ns.resolve false b with
    | .error e => (ns, .error e)
    | .ok (_, some _) => (ns, .error EEXIST)
    | .ok (rb, none) =>
      match ea with
      | .dir => (ns, .error EPERM)
      | e => ({ ns with ents := insert ns.ents rb e }, .ok ())

def sameInode : Ent → Ent → Bool
  | .file i, .file j => i == j
  | .link i _, .link j _ => i == j
  | _, _ => false

/-- move the subtree at `ra` to `rb` (whatever was at `rb` is dropped) -/
def Ns.moveTree (ns : Ns) (ra rb : Path) : Ns :=
  let kept := ns.ents.filter fun (q, _) => !isPrefix rb q && !isPrefix ra q
  let moved := (ns.ents.filter fun (q, _) => isPrefix ra q).map fun (q, e) => (rb ++ q.drop ra.length, e)
  { ns with ents := moved ++ kept }

/-- `renameat`: the kernel walks to the parents of both paths before it looks at the last components -/
def Ns.rename (ns : Ns) (a b : Path) : Ns × Except Nat Unit :=
  match ns.resolve false a with
  | .error e => (ns, .error e)
  | .ok (ra, oa) =>
    match ns.resolve false b with
    | .error e => (ns, .error e)
    | .ok (rb, eb) =>
      match oa with
      | none => (ns, .error ENOENT)
      | some ea =>
        if ra = [] || rb = [] then (ns, .error 16) else  -- EBUSY: the root of the tree
        if ra = rb then (ns, .ok ()) else
        -- a directory cannot be moved below itself
        if ea = .dir && isPrefix ra rb then (ns, .error EINVAL) else
        match eb with
        | none => (ns.moveTree ra rb, .ok ())
        | some eb =>
          if sameInode ea eb then (ns, .ok ()) else
          match ea, eb with
          | .dir, .dir => if ns.hasChildren rb then (ns, .error ENOTEMPTY) else (ns.moveTree ra rb, .ok ())
          | .dir, _ => (ns, .error ENOTDIR)
          | _, .dir => (ns, .error EISDIR)
          | _, _ => (ns.moveTree ra rb, .ok ())

inductive StatOut where
  | file | dir | link | err (e : Nat)
  deriving DecidableEq, Repr

def Ns.stat (ns : Ns) (follow : Bool) (p : Path) : StatOut :=
  match ns.resolve follow p with
  | .error e => .err e
  | .ok (_, none) => .err ENOENT
  | .ok (_, some (.file _)) => .file
  | .ok (_, some .dir) => .dir
  | .ok (_, some (.link _ _)) => .link

/-! ### listing -/

def pathStr (p : Path) : String := "/".intercalate p

def insertSorted (x : String) : List String → List String
  | [] => [x]
  | y :: ys => if x < y then x :: y :: ys else y :: insertSorted x ys

def sortStrings (l : List String) : List String := l.foldr insertSorted []

def Ns.listing (ns : Ns) : List String :=
  sortStrings (ns.ents.map fun (p, e) =>
    pathStr p ++ (match e with | .file _ => ":f" | .dir => ":d" | .link _ _ => ":l"))

end Compio.DirUtil
