/-
Model of compio-runtime's timers (C09), core Lean only.

  compio-runtime/src/time/runtime.rs   TimerKey, TimerRuntime (the "wheel": a BTreeMap keyed by
                                       (deadline, generation)), insert / update_waker / cancel /
                                       min_timeout / wake / is_completed / poll_timer
  compio-runtime/src/time/future.rs    TimerFuture (Drop = cancel), Sleep, Timeout, Interval::tick
  compio-runtime/src/time/mod.rs       sleep / sleep_until / timeout(_at) / interval(_at)
  compio-runtime/src/lib.rs            current_timeout = min_timeout, poll_with = driver.poll; wake

Conventions
* An `Instant` is a natural number (nanoseconds since the origin of the monotonic clock); a
  `Duration` is a natural number of nanoseconds. Every function that reads `Instant::now()` in the
  Rust code takes `now` as an explicit argument here.
* A `Waker` is identified by a natural number; `Waker::will_wake` is equality of identifiers.
* The `BTreeMap` is a list of entries kept strictly sorted by the derived `Ord` of `TimerKey`
  (lexicographic on (deadline, generation)). `split_off` / `remove` are modelled by their map
  semantics (filters by key), `first_key_value` by the head of the list; that the head is the
  minimum is the sortedness invariant proved in Lemmas/Timer.lean.
* Rust panics are explicit results (`InsertRes.panic`, `TickRes.panic`, `none` of `intervalAt`).
-/
import Compio.Gen.IntervalTick
import Compio.Gen.PollWith

namespace Compio.Timer

/-- `u64::MAX` -/
def u64Max : Nat := 2 ^ 64 - 1

/-- `TimerKey { deadline, generation }` -/
structure Key where
  deadline : Nat
  gen : Nat
deriving DecidableEq, Repr

/-- `#[derive(PartialOrd, Ord)]` on `TimerKey`: lexicographic, fields in declaration order -/
def Key.lt (a b : Key) : Prop :=
  a.deadline < b.deadline ∨ (a.deadline = b.deadline ∧ a.gen < b.gen)

instance (a b : Key) : Decidable (a.lt b) := by unfold Key.lt; exact inferInstance

/-- one slot of the map: key and `Option<Waker>` -/
abbrev Entry := Key × Option Nat

/-- `TimerRuntime { generation, wheel }` -/
structure Wheel where
  gen : Nat
  entries : List Entry
deriving DecidableEq, Repr

/-- `TimerRuntime::new` -/
def Wheel.new : Wheel := ⟨0, []⟩

def keys (es : List Entry) : List Key := es.map (·.1)

/-- `BTreeMap::insert` on the sorted list (an equal key has its value replaced) -/
def insertEntry (k : Key) (v : Option Nat) : List Entry → List Entry
  | [] => [(k, v)]
  | (k', v') :: rest =>
    if k.lt k' then (k, v) :: (k', v') :: rest
    else if k = k' then (k, v) :: rest
    else (k', v') :: insertEntry k v rest

/-- `BTreeMap::get` -/
def lookup (k : Key) : List Entry → Option (Option Nat)
  | [] => none
  | (k', v) :: rest => if k = k' then some v else lookup k rest

/-- replace the value stored under `k` (the `*w = …` through `get_mut`) -/
def setValue (k : Key) (v : Option Nat) : List Entry → List Entry
  | [] => []
  | (k', v') :: rest => if k = k' then (k', v) :: rest else (k', v') :: setValue k v rest

/-- `is_completed`: `!self.wheel.contains_key(key)` -/
def isCompleted (w : Wheel) (k : Key) : Bool := !(keys w.entries).contains k

inductive InsertRes where
  | none               -- deadline already reached: no timer registered, the future is ready at once
  | some (k : Key)
  | panic              -- "too many timers created"
deriving DecidableEq, Repr

/-- `TimerRuntime::insert`. Note the order in the code: the entry is put into the map *before* the
generation counter is incremented with `checked_add(1).expect(..)`, so the panicking call leaves the
entry (with generation `u64::MAX`) behind. -/
def insert (w : Wheel) (now d : Nat) : Wheel × InsertRes :=
  if d ≤ now then (w, .none)
  else
    let k : Key := ⟨d, w.gen⟩
    let es := insertEntry k none w.entries
    if w.gen ≥ u64Max then ({ w with entries := es }, .panic)
    else (⟨w.gen + 1, es⟩, .some k)

/-- `TimerRuntime::update_waker` -/
def updateWaker (w : Wheel) (k : Key) (wk : Nat) : Wheel :=
  match lookup k w.entries with
  | none => w                                             -- completed / cancelled: nothing to do
  | some (some old) =>
    if old = wk then w                                    -- `waker.will_wake(w)`: keep the old one
    else { w with entries := setValue k (some wk) w.entries }
  | some none => { w with entries := setValue k (some wk) w.entries }

/-- `TimerRuntime::cancel`: `self.wheel.remove(key)` -/
def cancel (w : Wheel) (k : Key) : Wheel :=
  { w with entries := w.entries.filter (fun e => e.1 ≠ k) }

/-- `TimerRuntime::min_timeout`: `first_key_value().map(|k| k.deadline.saturating_duration_since(now))` -/
def minTimeout (w : Wheel) (now : Nat) : Option Nat :=
  match w.entries with
  | [] => none
  | (k, _) :: _ => some (k.deadline - now)

/-- the split point of `wake`: `TimerKey { deadline: now, generation: u64::MAX }` -/
def splitKey (now : Nat) : Key := ⟨now, u64Max⟩

/-- `TimerRuntime::wake`: `pending = wheel.split_off(&splitKey)` keeps the keys `≥ splitKey`,
everything below is expired and its waker (if any) is woken, in key order.
Returns the new wheel and the expired entries. -/
def wake (w : Wheel) (now : Nat) : Wheel × List Entry :=
  if w.entries.isEmpty then (w, [])
  else
    let pending := w.entries.filter (fun e => ¬ e.1.lt (splitKey now))
    let expired := w.entries.filter (fun e => e.1.lt (splitKey now))
    ({ w with entries := pending }, expired)

/-- the wakers invoked by `wake`, in order -/
def woken (expired : List Entry) : List Nat := expired.filterMap (·.2)

/-- `TimerRuntime::poll_timer`: `true` = `Poll::Ready(())` -/
def pollTimer (w : Wheel) (k : Key) (wk : Nat) : Wheel × Bool :=
  if isCompleted w k then (w, true) else (updateWaker w k wk, false)

/-! ## `Runtime::poll_with` (lib.rs): the one place where the wheel is swept

`poll_with(timeout)` polls the driver and calls `TimerRuntime::wake()`. How the driver poll returned
(`Ok(())` because completions were reaped or the notifier had been woken, `TimedOut`, `Interrupted`,
another error) is a free parameter here. The statement kinds of the body, in source order, and the
error kinds it swallows are regenerated from the source by the extractor
(`Compio.Gen.PollWith.body` / `swallowedErrors`); `pollWith` interprets them. -/

inductive PollOutcome where
  | ok
  | timedOut
  | interrupted
  | otherError
deriving DecidableEq, Repr

def PollOutcome.errName : PollOutcome → Option String
  | .ok => none
  | .timedOut => some "TimedOut"
  | .interrupted => some "Interrupted"
  | .otherError => some "Other"

open Compio.Gen.PollWith in
/-- run the statements; `now` is the clock when `wake` reads it; `none` = `panic!("{e:?}")` -/
def pollWithStmts (now : Nat) (o : PollOutcome) : List Stmt → Wheel → List Entry → Option (Wheel × List Entry)
  | [], w, ex => some (w, ex)
  | .other :: rest, w, ex => pollWithStmts now o rest w ex
  | .driverPoll :: rest, w, ex =>
    match o.errName with
    | none => pollWithStmts now o rest w ex
    | some n => if swallowedErrors.contains n then pollWithStmts now o rest w ex else none
  | .wakeTimers :: rest, w, ex =>
    let (w', e) := wake w now
    pollWithStmts now o rest w' (ex ++ e)
  | .wakeTimersGuarded :: rest, w, ex =>
    -- a sweep under a condition the extractor does not interpret: it may be skipped; the model takes
    -- the reading that it runs only when the driver poll did not return `Ok(())`
    if o = .ok then pollWithStmts now o rest w ex
    else
      let (w', e) := wake w now
      pollWithStmts now o rest w' (ex ++ e)

/-- `Runtime::poll_with`: new wheel and the entries expired (their wakers are invoked) -/
def pollWith (w : Wheel) (now : Nat) (o : PollOutcome) : Option (Wheel × List Entry) :=
  pollWithStmts now o Compio.Gen.PollWith.body w []

/-! ## Worlds: an explicit clock plus the wheel, and arbitrary operation sequences -/

inductive Op where
  | insert (d : Nat)
  | updateWaker (k : Key) (wk : Nat)
  | cancel (k : Key)
  | wake
  | pollTimer (k : Key) (wk : Nat)
  | advance (dt : Nat)          -- the monotonic clock moves on (any amount, between any two calls)
deriving DecidableEq, Repr

inductive Out where
  | unit
  | ins (r : InsertRes)
  | fired (expired : List Entry)
  | polled (ready : Bool)
deriving DecidableEq, Repr

structure World where
  now : Nat
  wheel : Wheel
deriving DecidableEq, Repr

def step (s : World) : Op → World × Out
  | .insert d => let (w, r) := insert s.wheel s.now d; (⟨s.now, w⟩, .ins r)
  | .updateWaker k wk => (⟨s.now, updateWaker s.wheel k wk⟩, .unit)
  | .cancel k => (⟨s.now, cancel s.wheel k⟩, .unit)
  | .wake => let (w, ex) := wake s.wheel s.now; (⟨s.now, w⟩, .fired ex)
  | .pollTimer k wk => let (w, r) := pollTimer s.wheel k wk; (⟨s.now, w⟩, .polled r)
  | .advance dt => (⟨s.now + dt, s.wheel⟩, .unit)

def run (s : World) : List Op → World
  | [] => s
  | op :: rest => run (step s op).1 rest

/-- all outputs of a run, in order -/
def outs (s : World) : List Op → List Out
  | [] => []
  | op :: rest => (step s op).2 :: outs (step s op).1 rest

/-! ## `Sleep` (future.rs): `Sleep(Option<TimerFuture>)` -/

/-- Largest representable `Instant` in nanoseconds. On Linux an `Instant` is a
`Timespec { tv_sec: i64, tv_nsec < 10^9 }`; instants before the clock's origin (negative `tv_sec`)
are constructible with `Instant - Duration`. To keep instants natural numbers the model counts
nanoseconds from the *smallest representable* instant (`tv_sec = i64::MIN`), so the range is
`0 ..= 2^64 * 10^9 - 1` (and "now" is about `2^63 * 10^9` plus the uptime). -/
def instMax : Nat := 2 ^ 64 * 1000000000 - 1

/-- `sleep(duration)` / `timeout(duration, ..)` / `interval(period)` (mod.rs) compute their deadline
as `Instant::now() + duration`, which panics ("overflow when adding duration to instant") when the
sum is not a representable `Instant`; `none` = that panic. -/
def deadlineAfter (now dur : Nat) : Option Nat :=
  if now + dur > instMax then none else some (now + dur)

/-- `key = none`: the deadline had passed at creation, the future is ready at once -/
structure Sleep where
  key : Option Key
deriving DecidableEq, Repr

/-- `Sleep::new(instant)` = `TimerFuture::try_new`; `none` = the insert panicked -/
def Sleep.new (w : Wheel) (now d : Nat) : Wheel × Option Sleep :=
  match insert w now d with
  | (w', .none) => (w', some ⟨none⟩)
  | (w', .some k) => (w', some ⟨some k⟩)
  | (w', .panic) => (w', none)

/-- `<Sleep as Future>::poll` -/
def Sleep.poll (w : Wheel) (s : Sleep) (wk : Nat) : Wheel × Bool :=
  match s.key with
  | none => (w, true)
  | some k => pollTimer w k wk

/-- `Drop for TimerFuture` (runs whether or not the timer has completed) -/
def Sleep.drop (w : Wheel) (s : Sleep) : Wheel :=
  match s.key with
  | none => w
  | some k => cancel w k

/-! ## `Timeout<F>` -/

inductive TimeoutPoll where
  | ok          -- `Poll::Ready(Ok(out))`
  | elapsed     -- `Poll::Ready(Err(Elapsed))`
  | pending
deriving DecidableEq, Repr

/-- `<Timeout<F> as Future>::poll`: the inner future is polled first (`innerReady` is the outcome of
that poll), the sleep only if the inner future is pending. -/
def Timeout.poll (w : Wheel) (s : Sleep) (innerReady : Bool) (wk : Nat) : Wheel × TimeoutPoll :=
  if innerReady then (w, .ok)
  else
    match Sleep.poll w s wk with
    | (w', true) => (w', .elapsed)
    | (w', false) => (w', .pending)

/-- One `Timeout` polled repeatedly while arbitrary other timer activity (`ops`) goes on between
its polls; each round is (what the rest of the program did since the last poll, whether the inner
future is ready at this poll). Stops at the first non-pending poll. -/
def Timeout.drive (s : World) (slp : Sleep) (wk : Nat) : List (List Op × Bool) → World × TimeoutPoll
  | [] => (s, .pending)
  | (ops, inner) :: rest =>
    let s1 := run s ops
    match Timeout.poll s1.wheel slp inner wk with
    | (w, .pending) => Timeout.drive ⟨s1.now, w⟩ slp wk rest
    | (w, r) => (⟨s1.now, w⟩, r)

/-! ## `Interval` -/

structure Interval where
  firstTicked : Bool
  start : Nat
  period : Nat
deriving DecidableEq, Repr

/-- `interval_at`: `assert!(period > Duration::ZERO)`; `none` = panic -/
def intervalAt (start period : Nat) : Option Interval :=
  if period = 0 then none else some ⟨false, start, period⟩

inductive TickRes where
  | deadline (d : Nat)     -- the instant handed to `sleep_until`, which is also the value returned
  | panic                  -- "overflow when adding duration to instant"
deriving DecidableEq, Repr

/-- The deadline computed by `Interval::tick` when it is called at `now`.
`now - self.start` on `Instant`s saturates at zero; `% period.as_nanos()` is computed in `u128`
and then truncated by `as _` to the `u64` argument of `Duration::from_nanos`;
`now + self.period` panics when it leaves the range of `Instant`. (The subtraction of the
remainder cannot underflow: the remainder is below the period.) -/
def Interval.tickDeadline (iv : Interval) (now : Nat) : TickRes :=
  if !iv.firstTicked then .deadline iv.start
  else if iv.period = 0 then .panic        -- unreachable through `interval_at`; `% 0` panics
  else
    let rem := ((now - iv.start) % iv.period) % 2 ^ 64
    if now + iv.period > instMax then .panic
    else .deadline (now + iv.period - rem)

/-- state after the awaited sleep has completed -/
def Interval.ticked (iv : Interval) : Interval := { iv with firstTicked := true }

/-! ### `tick` as the coroutine it is

`Interval::tick` is an `async fn`; the future it returns can be dropped while it is suspended at its
single `.await` (a `timeout` around it elapses, it is the losing branch of a `select`, its task is
cancelled). What such a cancelled call leaves behind in `self` is decided by the statements that
come before the await. The statement kinds of the two branches, in source order, are regenerated
from the source by the extractor (`Compio.Gen.IntervalTick.firstBranch` / `periodicBranch`); the
functions below interpret them. -/

open Compio.Gen.IntervalTick in
/-- effect on `self` of a list of statements -/
def Interval.applyStmts (iv : Interval) : List Stmt → Interval
  | [] => iv
  | .setFirstTicked :: rest => Interval.applyStmts { iv with firstTicked := true } rest
  | _ :: rest => Interval.applyStmts iv rest

open Compio.Gen.IntervalTick in
def stmtsBeforeAwait (l : List Stmt) : List Stmt := l.takeWhile (· ≠ .await)

open Compio.Gen.IntervalTick in
def stmtsAfterAwait (l : List Stmt) : List Stmt := (l.dropWhile (· ≠ .await)).drop 1

/-- a suspended `tick()` future: which branch it is in and the instant it will return -/
inductive TickFut where
  | first                    -- returns `self.start` (read after the await)
  | periodic (next : Nat)
deriving DecidableEq, Repr

/-- `tick()` from the call up to its `.await`: the new state of the interval, the suspended future and
the instant handed to `sleep_until`. `none` = panic. Dropping the future leaves the interval in
exactly this state. -/
def Interval.tickBegin (iv : Interval) (now : Nat) : Option (Interval × TickFut × Nat) :=
  if !iv.firstTicked then
    some (iv.applyStmts (stmtsBeforeAwait Compio.Gen.IntervalTick.firstBranch), .first, iv.start)
  else
    match iv.tickDeadline now with
    | .panic => none
    | .deadline d =>
      some (iv.applyStmts (stmtsBeforeAwait Compio.Gen.IntervalTick.periodicBranch), .periodic d, d)

/-- the rest of `tick()` once the awaited sleep has completed: final state and the value returned -/
def Interval.tickEnd (iv : Interval) : TickFut → Interval × Nat
  | .first => (iv.applyStmts (stmtsAfterAwait Compio.Gen.IntervalTick.firstBranch), iv.start)
  | .periodic d => (iv.applyStmts (stmtsAfterAwait Compio.Gen.IntervalTick.periodicBranch), d)

/-- what becomes of one `tick()` call -/
inductive TickEv where
  | complete     -- awaited to completion (which happens at or after the instant slept for)
  | cancel       -- the future is dropped while suspended
deriving DecidableEq, Repr

/-- A sequence of `tick()` calls on one interval, each made at its own instant and either awaited to
completion or cancelled; returns the final state and the instants delivered, in order. A panicking
call ends the sequence. (`calls` = (instant of the call, outcome).) -/
def Interval.runTicks (iv : Interval) : List (Nat × TickEv) → Interval × List Nat
  | [] => (iv, [])
  | (now, ev) :: rest =>
    match iv.tickBegin now with
    | none => (iv, [])
    | some (iv1, fut, _) =>
      match ev with
      | .cancel => Interval.runTicks iv1 rest
      | .complete =>
        let (iv2, v) := iv1.tickEnd fut
        let (iv3, vs) := Interval.runTicks iv2 rest
        (iv3, v :: vs)

/-- The only assumption on the instants of a call sequence: the clock never goes back, and a call
awaited to completion returns no earlier than the instant it slept for (*never early*, section 2 of
Props/C09). `floor` = earliest possible instant of the next call. -/
def Interval.ValidCalls (iv : Interval) (floor : Nat) : List (Nat × TickEv) → Prop
  | [] => True
  | (now, ev) :: rest =>
    floor ≤ now ∧
      match iv.tickBegin now with
      | none => True
      | some (iv1, fut, d) =>
        match ev with
        | .cancel => Interval.ValidCalls iv1 now rest
        | .complete => Interval.ValidCalls (iv1.tickEnd fut).1 (max now d) rest

end Compio.Timer
