/-
Model of the remaining `IoBufExt` / `IoBufMutExt` methods of compio-buf/src/io_buf.rs on view stacks:
`ensure_init`, `as_mut_slice`, `copy_within`, `is_filled`, `buf_len` / `buf_capacity` / `buf_ptr` / `buf_mut_ptr`,
`reserve` / `reserve_exact` including the growing case and the error cases, and `extend_from_slice` /
`Writer::write` including growth.

A growing `reserve` of `Vec` / `SmallVec` / `BytesMut` picks its new capacity by the amortised policy of the
container and the allocator; the model is parametric in that answer (`ans : Option Nat`, the capacity the real
container reports afterwards — the harness passes it on the operation line) and only requires of it what the law
needs (`len + additional ≤ ans`, `cap ≤ ans`). After a growth everything behind the initialised prefix holds `0xCC` (the harness writes that pattern).
Core Lean only.
-/
import Compio.Model.View

namespace Compio.View

/-- `IoBufMutExt::ensure_init`: `len = buf_len(); slice = as_uninit(); slice[len..].fill(0); slice` —
returns the whole writable region; does not call `set_len` -/
def Buf.ensureInit (v : Buf) : Res (Buf × (Nat × Nat)) :=
  match v.asInit with
  | .error f => .error f
  | .ok (_, li) =>
    match v.asUninit with
    | .error f => .error f
    | .ok (o, c) =>
      if li ≤ c then .ok (v.write (o + li) (List.replicate (c - li) 0), (o, c)) else .error .panic

/-- `IoBufMutExt::as_mut_slice`: `from_raw_parts_mut(buf_mut_ptr(), buf_len())`; `.ub` if that range leaves the
root allocation (the harness does not build such a slice) -/
def Buf.asMutSlice (v : Buf) : Res (Nat × Nat) :=
  match v.asInit with
  | .error f => .error f
  | .ok (_, li) =>
    match v.asUninit with
    | .error f => .error f
    | .ok (o, _) => if o + li ≤ v.getRoot.cap then .ok (o, li) else .error .ub

/-- `IoBufMutExt::copy_within(s..e, dest)`: `self.as_uninit().copy_within(..)` — on the whole writable region;
panics like `slice::copy_within` (`s ≤ e ≤ len`, `dest ≤ len - count`) -/
def Buf.copyWithin (v : Buf) (s e dest : Nat) : Res Buf :=
  match v.asUninit with
  | .error f => .error f
  | .ok (o, c) =>
    if s ≤ e ∧ e ≤ c ∧ dest + (e - s) ≤ c then
      .ok (v.write (o + dest) ((v.getRoot.mem.drop (o + s)).take (e - s)))
    else .error .panic

/-- `IoBufMutExt::is_filled`: `as_init().len() == buf_capacity()` -/
def Buf.isFilled (v : Buf) : Res Bool :=
  match v.asInit with
  | .error f => .error f
  | .ok (_, li) =>
    match v.asUninit with
    | .error f => .error f
    | .ok (_, c) => .ok (li == c)

/-! ### reserve -/

/-- requests the real containers answer with `CapacityOverflow` (`isize::MAX < 2^63`) -/
def hugeRequest : Nat := 2 ^ 63

/-- the pattern the harness stores into freshly reserved capacity -/
def freshByte : UInt8 := 0xCC

inductive ResOut where
  | ok
  | mismatch (reserved : Nat)   -- `ReserveExactError::ExactSizeMismatch` (the buffer has grown nevertheless)
  deriving Repr, DecidableEq

inductive RootReserve where
  | done (r : Root) (out : ResOut)
  | notSupported
  | failed        -- `ReserveFailed` (capacity overflow / allocation error)
  | needCap       -- would grow, no answer supplied: not issued
  | badCap        -- the supplied answer is not a capacity a reserve may produce
  | skip          -- `BytesMut::reserve` panics / aborts on overflow: not issued
  deriving Repr

/-- `reserve` / `reserve_exact` of the root containers. `Vec`: `try_reserve` / (`cap - len ≥ n` ⇒ Ok, else
`try_reserve_exact`, then `cap - len ≠ n` ⇒ `ExactSizeMismatch`); `SmallVec` the same; `BytesMut`: `reserve` for both
(so `reserve_exact` reports a mismatch whenever the amortised growth over-allocates); every other root: the default
`len ≤ buf_capacity() - buf_len()` ⇒ Ok, else `NotSupported` (`reserve_exact` = `reserve`). -/
def Root.reserveWith (r : Root) (n : Nat) (exact : Bool) (ans : Option Nat) : RootReserve :=
  if r.kind = .vec ∨ r.kind = .smallvec ∨ r.kind = .bytesmut then
    if n ≤ r.cap - r.len then .done r .ok
    else if hugeRequest ≤ n then (if r.kind = .bytesmut then .skip else .failed)
    else
      match ans with
      | none => .needCap
      | some nc =>
        if r.len + n ≤ nc ∧ r.cap ≤ nc then
          -- only the initialised prefix survives a reallocation for certain (a spilling `SmallVec` copies `len`
          -- bytes); the harness stores the pattern behind it
          let r' : Root := { r with mem := r.mem.take r.len ++ List.replicate (nc - r.len) freshByte }
          if exact ∧ nc - r.len ≠ n then .done r' (.mismatch (nc - r.len)) else .done r' .ok
        else .badCap
  else if n ≤ r.cap - r.len then .done r .ok
  else .notSupported

/-- does `reserve` reach the root? `Slice` with an end refuses (`NotSupported`), `Uninit` forwards to the buffer
under its slice, `Box` forwards -/
def Buf.reserveReaches : Buf → Bool
  | .root _ => true
  | .slice i _ e => if e.isSome then false else i.reserveReaches
  | .uninit i _ => i.reserveReaches

inductive ReserveRes where
  | done (v : Buf) (out : ResOut)
  | notSupported
  | failed
  | needCap
  | badCap
  | skip
  deriving Repr

/-- `IoBufMut::reserve` (`exact = false`) / `reserve_exact` (`exact = true`) through a view stack -/
def Buf.reserveWith (v : Buf) (n : Nat) (exact : Bool) (ans : Option Nat) : ReserveRes :=
  if v.reserveReaches then
    match v.getRoot.reserveWith n exact ans with
    | .done r out => .done (v.setRoot r) out
    | .notSupported => .notSupported
    | .failed => .failed
    | .needCap => .needCap
    | .badCap => .badCap
    | .skip => .skip
  else .notSupported

/-- `extend_from_slice` / `Writer::write` / `WriterRef::write` including growth: `init = buf_len(); reserve(len)?;
copy to buf_mut_ptr() + init; advance_to(init + len)`. `.grow` = would grow and no answer supplied. -/
def Buf.extendWith (v : Buf) (data : Bytes) (ans : Option Nat) : ExtendRes :=
  match v.asInit with
  | .error f => .fault f
  | .ok (_, init) =>
    match v.reserveWith data.length false ans with
    | .notSupported => .notSupported
    | .failed => .notSupported
    | .needCap => .grow
    | .badCap => .fault .contract
    | .skip => .fault .contract
    | .done v1 _ =>
      match v1.asUninit with
      | .error f => .fault f
      | .ok (o, _) =>
        if data.length = 0 ∨ o + init + data.length ≤ v1.getRoot.cap then
          match (v1.write (o + init) data).advanceTo (init + data.length) with
          | .ok v' => .done v'
          | .error f => .fault f
        else .fault .ub

end Compio.View
