/-
C11 — the in-memory `AsyncRead(At)` / `AsyncWrite(At)` implementations of compio-io
(read/mod.rs, write/mod.rs): `&[u8]`, `[u8]`, `[u8; N]`, `Vec<u8>`, `&mut [u8]`, `Cursor<_>`.
Positions are `u64` (= `usize` on the 64-bit targets the harness runs on).
-/
import Compio.Model.Buffer

namespace Compio.Io

/-- `isize::MAX`: `Vec::reserve` panics ("capacity overflow") beyond it -/
def isizeMax : Nat := 2 ^ 63 - 1

/-- `usize::MAX + 1` -/
def usizeLimit : Nat := 2 ^ 64

/-! ## reads -/

/-- `[u8]::read_at` / `Vec::read_at`: `pos.min(len)`, then `slice_to_buf` -/
def readAt (src : Bytes) (pos offered : Nat) : Bytes :=
  (src.drop (min pos src.length)).take offered

/-- `[u8]::read_vectored_at` (repaired: clamps like `read_at`) -/
def readVectoredAt (src : Bytes) (pos : Nat) (vs : VS) : Res Nat × VS :=
  memReadVectored (src.drop (min pos src.length)) vs

/-! ## writes -/

/-- `Vec::reserve(add)` on a vector of length `len`: panics when the needed capacity exceeds
`isize::MAX` (the allocation itself is assumed to succeed below that) -/
def reserveOk (len add : Nat) : Bool := decide (len + add ≤ isizeMax)

/-- the copy of one slice at `pos <= len` in `Vec<u8>::write_at` / `write_vectored_at`:
`n = min(slice.len(), len - pos)`; `n < slice.len()`: overwrite `n` bytes, `extend_from_slice` the
rest; otherwise overwrite in place -/
def vecStep (v : Bytes) (pos : Nat) (s : Bytes) : Bytes :=
  if min s.length (v.length - pos) < s.length then
    (v.take pos ++ s.take (min s.length (v.length - pos)) ++ v.drop (pos + min s.length (v.length - pos))) ++
      s.drop (min s.length (v.length - pos))
  else v.take pos ++ s ++ v.drop (pos + min s.length (v.length - pos))

/-- `Vec<u8>::write_at` -/
def vecWriteAt (v : Bytes) (pos : Nat) (bs : Bytes) : Res (Nat × Bytes) :=
  if pos ≤ v.length then
    if min bs.length (v.length - pos) < bs.length then
      -- `self.reserve(slice.len() - n)`
      if !reserveOk v.length (bs.length - min bs.length (v.length - pos)) then .panic
      else .ok (bs.length, vecStep v pos bs)
    else .ok (bs.length, vecStep v pos bs)
  else
    -- `pos - len + slice.len()` in `usize`, then `reserve`, `resize(pos, 0)`, `extend_from_slice`
    if pos - v.length + bs.length ≥ usizeLimit then .panic
    else if !reserveOk v.length (pos - v.length + bs.length) then .panic
    else .ok (bs.length, v ++ List.replicate (pos - v.length) 0 ++ bs)

/-- the `for slice in buf.iter_slice()` loop of `Vec<u8>::write_vectored_at` -/
def vecWriteVectoredAtGo : Bytes → Nat → List Bytes → Bytes
  | v, _, [] => v
  | v, pos, s :: rest =>
    vecWriteVectoredAtGo (if pos ≤ v.length then vecStep v pos s else v ++ s) (pos + s.length) rest

/-- `Vec<u8>::write_vectored_at` (repaired: `saturating_sub`) -/
def vecWriteVectoredAt (v : Bytes) (pos : Nat) (bufs : List Bytes) : Res (Nat × Bytes) :=
  let len := sumNat (bufs.map List.length)
  if pos ≤ v.length then
    if !reserveOk v.length (len - (v.length - pos)) then .panic
    else .ok (len, vecWriteVectoredAtGo v pos bufs)
  else
    if pos - v.length + len ≥ usizeLimit then .panic
    else if !reserveOk v.length (pos - v.length + len) then .panic
    else .ok (len, vecWriteVectoredAtGo (v ++ List.replicate (pos - v.length) 0) pos bufs)

/-- `Vec<u8>::write`: append -/
def vecWrite (v : Bytes) (bs : Bytes) : Nat × Bytes := (bs.length, v ++ bs)

/-- `Vec<u8>::write_vectored` (repaired: `reserve(len)`), also `write_zerocopy_vectored` -/
def vecWriteVectored (v : Bytes) (bufs : List Bytes) : Res (Nat × Bytes) :=
  let len := sumNat (bufs.map List.length)
  if !reserveOk v.length len then .panic else .ok (len, bufs.foldl (· ++ ·) v)

/-- `[u8]::write_at` / `[u8; N]::write_at`: clamp the position, copy what fits -/
def sliceWriteAt (a : Bytes) (pos : Nat) (bs : Bytes) : Nat × Bytes :=
  let p := min pos a.length
  let n := min bs.length (a.length - p)
  (n, a.take p ++ bs.take n ++ a.drop (p + n))

/-- the loop of `[u8]::write_vectored_at` after `owned_iter` succeeded (`bufs` non-empty):
`write_at(member, pos + total)`, stop when the destination `is_empty()` or the members run out -/
def sliceWriteVectoredAtGo : Bytes → Nat → Nat → List Bytes → Nat × Bytes
  | a, _, total, [] => (total, a)
  | a, pos, total, s :: rest =>
    let r := sliceWriteAt a (pos + total) s
    if r.2.isEmpty then (total + r.1, r.2)
    else sliceWriteVectoredAtGo r.2 pos (total + r.1) rest

def sliceWriteVectoredAt (a : Bytes) (pos : Nat) (bufs : List Bytes) : Nat × Bytes :=
  sliceWriteVectoredAtGo a pos 0 bufs

/-- `&mut [u8]` as a writer: the part already written and the part still free
(`std::io::Write for &mut [u8]`: copy what fits, advance the slice) -/
structure SliceMut where
  done : Bytes
  rest : Bytes
  deriving Repr, DecidableEq

def SliceMut.write (s : SliceMut) (bs : Bytes) : Nat × SliceMut :=
  let n := min bs.length s.rest.length
  (n, ⟨s.done ++ bs.take n, s.rest.drop n⟩)

/-- `&mut [u8]::write_vectored` after `owned_iter` succeeded -/
def SliceMut.writeVectoredGo : SliceMut → Nat → List Bytes → Nat × SliceMut
  | s, total, [] => (total, s)
  | s, total, b :: rest =>
    let r := s.write b
    if r.2.rest.isEmpty then (total + r.1, r.2)
    else SliceMut.writeVectoredGo r.2 (total + r.1) rest

def SliceMut.writeVectored (s : SliceMut) (bufs : List Bytes) : Nat × SliceMut :=
  SliceMut.writeVectoredGo s 0 bufs

/-! ## reference functions (what a straightforward implementation would do) -/

/-- writing `bs` at `pos` into a growable, zero-extended file -/
def writeRef (v : Bytes) (pos : Nat) (bs : Bytes) : Bytes :=
  overlay (v ++ List.replicate (pos - v.length) 0) pos bs

end Compio.Io
