/-
C18: the two ways the driver `c18d` runs the transition system of Model/Dispatcher.lean.

1. `Sched`: a canonical schedule for *deterministic* programs (one dispatching thread; every queried fact
   is independent of the schedule by construction of the program): the driver turns each program line into
   events, fires them through `step?` and prints what the state says.  An event that is not enabled sets
   `bad` (printed as `model-stuck`), so a wrong schedule cannot go unnoticed.

2. `Acc`: a trace acceptor for histories recorded on the real dispatcher when the schedule is not
   controlled (several workers, several dispatching threads).  The history contains the *observable*
   events (dispatch intent / accepted / rejected, start(worker, task), body end, result received, worker
   panic, join called / returned).  The acceptor replays them on the model, inserting the hidden events
   (`recv`, later `poll`s, `reap`, `exitLoop`, `teardown`) lazily where an observation needs them.
   `accept` therefore means: the driver has constructed a concrete `List Event` accepted by `run?` whose
   observable projection is the recorded history -- every theorem of Props/C18.lean applies to that run.
   `reject <why>` means that no such run was found; the reasons name the property clause that failed.

Core Lean only (linked into `c18d`).
-/
import Compio.Model.Dispatcher

namespace Compio.Dispatcher

/-! ### firing events -/

structure Sched where
  s : St
  /-- some event of the canonical schedule was not enabled -/
  bad : Bool := false
  /-- tasks whose body arms a panicking waker (they kill their worker thread) -/
  bombs : List Nat := []
  /-- ghost of the driver: tasks in the order they were started -/
  order : List Nat := []
  /-- events fired so far (newest first) -/
  log : List Event := []
  /-- a `cfg` line was seen (driver bookkeeping only) -/
  cfgd : Bool := false
  /-- receivers the program has already consumed by `wait` / `rx` / `drop` (driver bookkeeping only) -/
  taken : List Nat := []

def Sched.fire (d : Sched) (e : Event) : Sched :=
  match step? d.s e with
  | some s' =>
    let order := match e with
      | .poll _ t => if (d.s.started t) < (s'.started t) then d.order ++ [t] else d.order
      | _ => d.order
    { d with s := s', order := order, log := e :: d.log }
  | none => { d with bad := true }

/-- the next internal event of the canonical schedule: hand the head of the queue to the first idle
worker, else poll the first runnable task in acceptance order -/
def nextPoll (s : St) : Option Event :=
  s.accepted.findSome? fun t =>
    match s.stat t with
    | .spawned w => if (s.main w).canPoll then some (.poll w t) else none
    | .running w k =>
      if (s.main w).canPoll && !(k == 0 && (s.body t).out == .never) then some (.poll w t) else none
    | .pooled => if (s.body t).out == .never then none else some (.runBlocking t)
    | _ => none

def nextInternal (s : St) : Option Event :=
  match s.queue with
  | t :: _ =>
    match (List.range s.nw).find? (fun w => s.main w == .idle) with
    | some w => some (.recv w t)
    | none => nextPoll s
  | [] => nextPoll s

def Sched.settleN : Nat → Sched → Sched
  | 0, d => d
  | n + 1, d =>
    match nextInternal d.s with
    | some e => settleN n (d.fire e)
    | none => d

/-- enough fuel for every task to be received, started, resumed and ended -/
def fuelOf (s : St) : Nat := (s.accepted.map fun t => (s.body t).steps + 4).sum + 1

def Sched.settle (d : Sched) : Sched := d.settleN (fuelOf d.s)

/-- an armed bomb goes off: the worker thread panics and unwinds -/
def Sched.explode (d : Sched) : Sched :=
  d.bombs.foldl (fun d t =>
    match d.s.stat t with
    | .running w _ => if (d.s.main w).inLoop then (d.fire (.die w t)).fire (.reap w) else d
    | _ => d) d

def Sched.settleAllN : Nat → Sched → Sched
  | 0, d => d
  | n + 1, d =>
    let d1 := d.settle.explode
    if d1.log.length == d.log.length then d1 else settleAllN n d1

def Sched.settleAll (d : Sched) : Sched := d.settleAllN (d.bombs.length + 1)

/-- `join`: `fallback` = the program has saturated the blocking pool, so the pool refuses the joiner closure -/
def Sched.joinAll (d : Sched) (fallback : Bool := false) : Sched :=
  let d := (d.fire .joinStart).fire (if fallback then .joinFallbackThread else .joinPool)
  let d := d.settleAll
  let d := (List.range d.s.nw).foldl (fun d w =>
    if d.s.main w == .idle then (d.fire (.exitLoop w)).fire (.teardown w) else d) d
  d.fire .joinReturn

def showChan : Chan → String
  | .none => "unknown"
  | .pending => "pending"
  | .value v => s!"val {v}"
  | .cancelled => "cancelled"
  | .closed => "closed"

def showJoined : Option (Option Nat) → String
  | none => "pending"
  | some none => "ok"
  | some (some p) => s!"panic {p}"

def aliveWorkers (s : St) : Nat := ((List.range s.nw).filter fun w => !(s.main w).gone).length

/-! ### trace acceptor -/

inductive Obs where
  | intent (t : Nat) (b : Body) (bomb : Bool)   -- a thread is about to call `dispatch`
  | bintent (t : Nat) (b : Body)                -- ... `dispatch_blocking`
  | acc (t : Nat)                               -- the call returned `Ok(receiver)`
  | rej (t : Nat)                               -- the call returned `Err(DispatchError)`
  | start (w t : Nat)                           -- `func()` was called on worker `w`
  | fin (t : Nat)                               -- the body is about to return / panic
  | brun (t : Nat)                              -- a blocking closure ran (pool thread)
  | got (t v : Nat)                             -- the receiver resolved to `Ok(v)`
  | canc (t : Nat)                              -- the receiver resolved to `Err(Canceled)`
  | hang (t : Nat)                              -- the receiver did not resolve (watchdog)
  | wake (t : Nat)                              -- a foreign thread called `wake()` on a waker of task `t`
  | die (w p : Nat)                             -- a waker panicked on worker `w`'s thread
  | joinCall (fallback : Bool)                  -- `join` called; `fallback`: the harness had saturated the pool
  | joinRet (r : Option Nat)
  | joinErr                                     -- `join` returned `Err(io::Error)`
  | alive (n : Nat)                             -- worker threads that still exist (after join returned)
  | problem (sig : String)                      -- a task body saw something impossible (overlap gauge, thread)
  deriving Repr

structure Acc where
  s : St
  /-- announced calls: task, body, `dispatch_blocking`? -/
  intents : List (Nat × Body × Bool) := []
  /-- look-ahead: the worker each task is (later) seen to start on -/
  dest : List (Nat × Nat) := []
  err : Option String := none
  log : List Event := []

def Acc.fail (a : Acc) (why : String) : Acc :=
  match a.err with
  | some _ => a
  | none => { a with err := some why }

/-- fire a model event; `why` is reported when it is not enabled -/
def Acc.fire (a : Acc) (e : Event) (why : String) : Acc :=
  match a.err with
  | some _ => a
  | none =>
    match step? a.s e with
    | some s' => { a with s := s', log := e :: a.log }
    | none => a.fail why

def lookup (l : List (Nat × Nat)) (t : Nat) : Option Nat := (l.find? fun p => p.1 == t).map (·.2)

def Acc.bodyOf (a : Acc) (t : Nat) : Option (Body × Bool) :=
  (a.intents.find? fun p => p.1 == t).map (·.2)

/-- unwinding of every panicking worker has finished -/
def Acc.flushDying (a : Acc) : Acc :=
  (List.range a.s.nw).foldl (fun a w =>
    match a.s.main w with
    | .dying _ => a.fire (.reap w) "reap"
    | _ => a) a

/-- the model `dispatch` of `t` happens at the latest now -/
def Acc.ensureDispatched (a : Acc) (t : Nat) : Acc :=
  if a.s.stat t != .absent || a.s.rejected.contains t then a else
  match a.bodyOf t with
  | some (b, _) => a.fire (.dispatch 0 t b) "dispatch-after-join"
  | none => a.fail s!"unknown-task {t}"

/-- hidden receptions that empty the queue: each queued task goes to the worker it is later seen to start
on, the never-started ones to `w` -/
def Acc.drainQueue (a : Acc) (w : Nat) : Acc :=
  a.s.queue.foldl (fun a u =>
    let w' := match lookup a.dest u with
      | some x => if a.s.main x == .idle then x else w
      | none => w
    a.fire (.recv w' u) s!"hidden-recv {u}") a

/-- worker `w` leaves its loop and drops its runtime (needs: sender dropped, `w` idle) -/
def Acc.retire (a : Acc) (w : Nat) : Acc :=
  match a.s.main w with
  | .idle => (((a.drainQueue w).fire (.exitLoop w) s!"exit-loop {w}")).fire (.teardown w) s!"teardown {w}"
  | .draining => a.fire (.teardown w) s!"teardown {w}"
  | _ => a

/-- the remaining polls of a started task, up to the end of its body -/
def Acc.finishN : Nat → Acc → Nat → Nat → Acc
  | 0, a, _, _ => a
  | n + 1, a, w, t =>
    match a.s.stat t with
    | .running _ _ => finishN n (a.fire (.poll w t) s!"finish-disabled {t}") w t
    | _ => a

def Acc.stepObs (a : Acc) : Obs → Acc
  | .intent t b _ => { a with intents := (t, b, false) :: a.intents }
  | .bintent t b => { a with intents := (t, b, true) :: a.intents }
  | .acc t =>
    match a.s.stat t, a.bodyOf t with
    | .absent, some (b, blocking) =>
      if a.s.rejected.contains t then a.fail s!"accepted-twice {t}" else
      let a := if blocking then a.fire (.dispatchBlocking 0 t b true) s!"accepted-after-join {t}"
        else a.fire (.dispatch 0 t b) s!"accepted-after-join {t}"
      if a.s.accepted.contains t then a else a.fail s!"accepted-without-receiver {t}"
    | .absent, none => a.fail s!"unknown-task {t}"
    | _, _ => a
  | .rej t =>
    let a := a.flushDying
    match a.s.stat t, a.bodyOf t with
    | .absent, some (b, blocking) =>
      let a := if blocking then a.fire (.dispatchBlocking 0 t b false) s!"rejected-after-join {t}"
        else a.fire (.dispatch 0 t b) s!"rejected-after-join {t}"
      if a.s.rejected.contains t then a else a.fail s!"rejected-with-live-worker {t}"
    | .absent, none => a.fail s!"unknown-task {t}"
    | _, _ => a.fail s!"rejected-but-started {t}"
  | .start w t =>
    if a.s.started t ≥ 1 then a.fail s!"started-twice {t}" else
    if !(decide (w < a.s.nw)) then a.fail s!"unknown-worker {w}" else
    let a := a.ensureDispatched t
    if a.s.rejected.contains t then a.fail s!"rejected-task-started {t}" else
    match a.s.main w with
    | .awaiting u => a.fail s!"overlap {w} {u} {t}"
    | .exited => a.fail s!"start-after-exit {w} {t}"
    | .dead _ => a.fail s!"start-after-death {w} {t}"
    | .dying _ => a.fail s!"start-after-death {w} {t}"
    | _ =>
      let a := match a.s.stat t with
        | .queued => a.fire (.recv w t) s!"recv-disabled {w} {t}"
        | _ => a
      match a.s.stat t with
      | .spawned w' =>
        if w' = w then a.fire (.poll w t) s!"start-disabled {w} {t}" else a.fail s!"received-twice {t}"
      | _ => a.fail s!"start-of-unqueued {t}"
  | .fin t =>
    match a.s.stat t with
    | .running w k => a.finishN (k + 2) w t
    | _ => a.fail s!"finish-without-start {t}"
  | .brun t =>
    match a.s.stat t with
    | .pooled => a.fire (.runBlocking t) s!"blocking-disabled {t}"
    | .absent =>
      match a.bodyOf t with
      | some (b, _) => (a.fire (.dispatchBlocking 0 t b true) s!"blocking-after-join {t}").fire
          (.runBlocking t) s!"blocking-disabled {t}"
      | none => a.fail s!"unknown-task {t}"
    | _ => a.fail s!"blocking-ran-twice {t}"
  | .got t v =>
    match a.s.chan t with
    | .value v' => if v' = v then a else a.fail s!"wrong-result {t} {v} {v'}"
    | _ => a.fail s!"value-without-completion {t}"
  | .canc t =>
    -- explain the cancellation by the hidden events that drop the task object
    let a := match a.s.stat t with
      | .spawned w | .running w _ =>
        match a.s.main w with
        | .dying _ => a.fire (.reap w) "reap"
        | _ => if a.s.conc && !a.s.sender then a.retire w else a
      | .queued =>
        let a := a.flushDying
        if a.s.stat t == TStat.queued && a.s.conc && !a.s.sender then
          match (List.range a.s.nw).find? (fun w => a.s.main w == Main.idle) with
          | some w => ((a.fire (.recv w t) "hidden-recv")).retire w
          | none => a
        else a
      | _ => a
    match a.s.chan t with
    | .cancelled => a
    | .value _ => a.fail s!"cancelled-after-completion {t}"
    | _ => a.fail s!"cancel-unexplained {t}"
  | .wake t => (a.ensureDispatched t).fire (.remoteWake t) s!"wake-of-unknown-task {t}"
  | .hang t => a.fail s!"receiver-hang {t}"
  | .alive n => if aliveWorkers a.s = n then a else a.fail s!"worker-alive-after-join {n}"
  | .problem sig => a.fail s!"problem {sig}"
  | .die w p => a.fire (.die w p) s!"panic-outside-loop {w}"
  | .joinCall fallback =>
    (a.fire .joinStart "join-twice").fire (if fallback then .joinFallbackThread else .joinPool) "join-twice"
  | .joinErr => a.fail "join-returned-error"
  | .joinRet r =>
    let a := a.flushDying
    -- no worker may still be inside a task (sequential mode) and nothing may be left in the queue
    let a := (List.range a.s.nw).foldl (fun a w =>
      match a.s.main w with
      | .awaiting u => a.fail s!"join-returned-while-running {w} {u}"
      | _ => a) a
    let a := if !a.s.conc && !a.s.queue.isEmpty && anyRx a.s then
        a.fail s!"join-returned-with-queued-task {a.s.queue.headD 0}" else a
    let a := (List.range a.s.nw).foldl (fun a w => a.retire w) a
    let a := a.fire .joinReturn "join-returned-early"
    match a.s.joined with
    | some r' => if r' = r then a else a.fail s!"join-result {showJoined (some r')}"
    | none => a

def destsOf : List Obs → List (Nat × Nat)
  | [] => []
  | .start w t :: r => (t, w) :: destsOf r
  | _ :: r => destsOf r

def judge (nw : Nat) (conc : Bool) (h : List Obs) : Acc :=
  h.foldl Acc.stepObs { s := init nw conc, dest := destsOf h }

/-- the schedule the acceptor has constructed (oldest event first) -/
def witness (nw : Nat) (conc : Bool) (h : List Obs) : List Event := (judge nw conc h).log.reverse

/-- the history is accepted: the replay found no contradiction, and the constructed schedule, run once more
from the initial state through `run?` alone, is a valid schedule (this re-check makes the soundness of
`accept` independent of the replay code: see `accepts_sound`) -/
def accepts (nw : Nat) (conc : Bool) (h : List Obs) : Bool :=
  (judge nw conc h).err.isNone && (run? (init nw conc) (witness nw conc h)).isSome

def verdict (nw : Nat) (conc : Bool) (h : List Obs) : String :=
  if accepts nw conc h then "accept" else
  match (judge nw conc h).err with
  | some why => s!"reject {why}"
  | none => "reject invalid-witness"

end Compio.Dispatcher
